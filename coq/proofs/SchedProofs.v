(* SchedProofs.v — proofs about the two-level scheduler model (SigM.Sched), recent-first. *)
From Coq Require Import List Arith NArith Lia Bool Sorting.Sorted Sorting.Permutation.
From Coq Require Import ZifyN ZifyNat ZifyBool.
From SigM Require Import Base SortCmd Sched.
From SigP Require Import BaseProofs SortCmdProofs.
Import ListNotations.
Open Scope N_scope.

Notation RF := RecentFirst.

(* ---------------- list helpers ---------------- *)
Lemma In_firstn {A} n (l : list A) x : In x (firstn n l) -> In x l.
Proof. intros H. rewrite <- (firstn_skipn n l). apply in_or_app. auto. Qed.
Lemma In_skipn {A} n (l : list A) x : In x (skipn n l) -> In x l.
Proof. intros H. rewrite <- (firstn_skipn n l). apply in_or_app. auto. Qed.

Lemma In_firstn_nth {A} (l : list A) : forall n x, In x (firstn n l) ->
  exists h, (h < n)%nat /\ nth_error l h = Some x.
Proof.
  induction l as [|y l IH]; intros n x H; destruct n; simpl in H; try contradiction.
  destruct H as [->|H].
  - exists O. split; [lia|reflexivity].
  - destruct (IH n x H) as [h [Hh Hn]]. exists (S h). split; [lia|exact Hn].
Qed.

Lemma In_skipn_nth {A} : forall n (l : list A) x, In x (skipn n l) ->
  exists h, (n <= h)%nat /\ nth_error l h = Some x.
Proof.
  induction n as [|n IH]; intros l x H.
  - apply In_nth_error in H as [h Hh]. exists h. split; [lia|exact Hh].
  - destruct l as [|y l]; simpl in H; [contradiction|].
    destruct (IH l x H) as [h [Hh Hn]]. exists (S h). split; [lia|exact Hn].
Qed.

Lemma skipn_nth_error {A} (l : list A) : forall n b r, skipn n l = b :: r -> nth_error l n = Some b.
Proof.
  induction l as [|y l IH]; intros n b r H; destruct n; simpl in *; try discriminate.
  - congruence.
  - eauto.
Qed.

Lemma ss_nth {A} (R : A -> A -> Prop) l : StronglySorted R l ->
  forall a b x y, (a < b)%nat -> nth_error l a = Some x -> nth_error l b = Some y -> R x y.
Proof.
  induction 1 as [|z l Hs IH Hall]; intros a b x y Hab Ha Hb.
  - destruct a; discriminate.
  - destruct b; [lia|]. destruct a; simpl in *.
    + injection Ha as <-. rewrite Forall_forall in Hall. apply Hall. eapply nth_error_In; eauto.
    + apply (IH a b x y); auto. lia.
Qed.

Lemma ss_skipn {A} (R : A -> A -> Prop) n : forall l, StronglySorted R l -> StronglySorted R (skipn n l).
Proof.
  induction n as [|n IH]; intros l Hs; simpl; auto.
  destruct l; [constructor|]. inversion Hs; subst. auto.
Qed.

Lemma ss_firstn {A} (R : A -> A -> Prop) n : forall l, StronglySorted R l -> StronglySorted R (firstn n l).
Proof.
  induction n as [|n IH]; intros l Hs; simpl; [constructor|].
  destruct l as [|x l]; [constructor|]. inversion Hs as [|? ? Hs' Hall]; subst.
  constructor; auto. rewrite Forall_forall in *. intros y Hy. apply Hall. eapply In_firstn; eauto.
Qed.

Lemma ss_app {A} (R : A -> A -> Prop) (a b : list A) : StronglySorted R a -> StronglySorted R b ->
  (forall x y, In x a -> In y b -> R x y) -> StronglySorted R (a ++ b).
Proof.
  induction 1 as [|x a Hs IH Hall]; intros Hb H; simpl; auto.
  constructor.
  - apply IH; auto. intros; apply H; simpl; auto.
  - apply Forall_app. split; auto. apply Forall_forall. intros y Hy. apply H; simpl; auto.
Qed.

Lemma partition_perm {A} (f : A -> bool) l : forall a b, partition f l = (a, b) -> Permutation (a ++ b) l.
Proof.
  induction l as [|x l IH]; simpl; intros a b H.
  - injection H as <- <-. constructor.
  - destruct (partition f l) as [a' b']. destruct (f x); injection H as <- <-.
    + simpl. constructor. apply IH. reflexivity.
    + rewrite <- Permutation_middle. constructor. apply IH. reflexivity.
Qed.

Lemma partition_fst {A} (f : A -> bool) l : forall a b, partition f l = (a, b) -> forall x, In x a -> f x = true /\ In x l.
Proof.
  induction l as [|x l IH]; simpl; intros a b H y Hy.
  - injection H as <- <-. destruct Hy.
  - destruct (partition f l) as [a' b']. destruct (f x) eqn:E; injection H as <- <-.
    + destruct Hy as [<-|Hy]; auto. destruct (IH _ _ eq_refl y Hy). auto.
    + destruct (IH _ _ eq_refl y Hy). auto.
Qed.

Lemma partition_snd {A} (f : A -> bool) l : forall a b, partition f l = (a, b) -> forall x, In x b -> f x = false /\ In x l.
Proof.
  induction l as [|x l IH]; simpl; intros a b H y Hy.
  - injection H as <- <-. destruct Hy.
  - destruct (partition f l) as [a' b']. destruct (f x) eqn:E; injection H as <- <-.
    + destruct (IH _ _ eq_refl y Hy). auto.
    + destruct Hy as [<-|Hy]; auto. destruct (IH _ _ eq_refl y Hy). auto.
Qed.

Lemma recs_of_app a b : recs_of (a ++ b) = recs_of a ++ recs_of b.
Proof. unfold recs_of. rewrite map_app, concat_app. reflexivity. Qed.

Lemma blocks_of_cons s q : blocks_of (s :: q) = sblocks s ++ blocks_of q.
Proof. reflexivity. Qed.

Lemma recs_of_perm a b : Permutation a b -> Permutation (recs_of a) (recs_of b).
Proof.
  induction 1; simpl; auto.
  - unfold recs_of in *. simpl. apply Permutation_app_head. assumption.
  - unfold recs_of. simpl. rewrite !app_assoc. apply Permutation_app_tail. apply Permutation_app_comm.
  - etransitivity; eauto.
Qed.

Lemma in_recs_of r bs : In r (recs_of bs) <-> exists b, In b bs /\ In r (recs b).
Proof.
  unfold recs_of. split.
  - intros H. apply in_concat in H as [l [Hl Hr]]. apply in_map_iff in Hl as [b [<- Hb]]. eauto.
  - intros [b [Hb Hr]]. apply in_concat. exists (recs b). split; auto. apply in_map. auto.
Qed.

Lemma in_blocks_of b q : In b (blocks_of q) <-> exists s, In s q /\ In b (sblocks s).
Proof.
  unfold blocks_of. split.
  - intros H. apply in_concat in H as [l [Hl Hr]]. apply in_map_iff in Hl as [s [<- Hs]]. eauto.
  - intros [s [Hs Hr]]. apply in_concat. exists (sblocks s). split; auto. apply in_map. auto.
Qed.

(* ---------------- sort.Search ---------------- *)
Lemma div2_mid i j : (i < j)%nat -> (i <= Nat.div2 (i + j) < j)%nat.
Proof.
  intros H. rewrite Nat.div2_div.
  split; [apply Nat.div_le_lower_bound|apply Nat.div_lt_upper_bound]; lia.
Qed.

Lemma bsearch_spec (f : nat -> bool) :
  (forall a b, (a <= b)%nat -> f a = true -> f b = true) ->
  forall fuel i j, (i <= j)%nat -> (j - i < fuel)%nat ->
  (forall h, (h < i)%nat -> f h = false) -> (forall h, (j <= h)%nat -> f h = true) ->
  let k := bsearch f fuel i j in
  (i <= k <= j)%nat /\ (forall h, (h < k)%nat -> f h = false) /\ (forall h, (k <= h)%nat -> f h = true).
Proof.
  intros Hmono. induction fuel as [|fuel IH]; intros i j Hij Hf Hlo Hhi; [lia|].
  simpl. destruct (Nat.ltb_spec i j) as [Hlt|Hge].
  - pose proof (div2_mid i j Hlt) as Hm. set (h := Nat.div2 (i + j)) in *.
    destruct (f h) eqn:E.
    + destruct (IH i h) as (H1 & H2 & H3); auto; try lia.
      * intros h' Hh'. eapply Hmono; eauto.
      * repeat split; auto; lia.
    + destruct (IH (S h) j) as (H1 & H2 & H3); auto; try lia.
      * intros h' Hh'. destruct (f h') eqn:E'; auto.
        assert (f h = true) by (apply (Hmono h' h); auto; lia). congruence.
      * repeat split; auto; lia.
  - assert (i = j) by lia. subst. repeat split; auto; lia.
Qed.

Definition sorted_desc (l : list rec) : Prop := StronglySorted (fun a b => rts b <= rts a) l.

Lemma num_valid_spec e l : sorted_desc l ->
  let k := num_valid RF e l in
  (k <= length l)%nat /\
  (forall h r, (h < k)%nat -> nth_error l h = Some r -> e <= rts r) /\
  (forall h r, (k <= h)%nat -> nth_error l h = Some r -> rts r < e).
Proof.
  intros Hs. unfold num_valid.
  destruct (bsearch_spec (valid_pred RF e l)) with (fuel := S (length l)) (i := O) (j := length l)
    as (H1 & H2 & H3); try lia.
  - unfold valid_pred. intros a b Hab Ha.
    destruct (nth_error l b) as [rb|] eqn:Eb; auto.
    destruct (nth_error l a) as [ra|] eqn:Ea.
    + destruct (Nat.eq_dec a b) as [->|Hne]; [congruence|].
      pose proof (ss_nth _ _ Hs a b ra rb ltac:(lia) Ea Eb) as Hle. simpl in Hle. lia.
    + apply nth_error_None in Ea. assert (nth_error l b = None) by (apply nth_error_None; lia). congruence.
  - intros h Hh. unfold valid_pred. assert (nth_error l h = None) as -> by (apply nth_error_None; lia). reflexivity.
  - split; [lia|]. split.
    + intros h r Hh Hr. specialize (H2 h Hh). unfold valid_pred in H2. rewrite Hr in H2. lia.
    + intros h r Hh Hr. specialize (H3 h Hh). unfold valid_pred in H3. rewrite Hr in H3. lia.
Qed.

(* getValidRRCs releases exactly the records with timestamp >= endTime (inclusive) *)
Lemma firstn_filter_ge e : forall (l : list rec) k,
  (forall h r, (h < k)%nat -> nth_error l h = Some r -> e <= rts r) ->
  (forall h r, (k <= h)%nat -> nth_error l h = Some r -> rts r < e) ->
  firstn k l = filter (fun r => e <=? rts r) l.
Proof.
  induction l as [|x l IH]; intros k H1 H2; [destruct k; reflexivity|].
  destruct k as [|k]; simpl.
  - assert (rts x < e) by (apply (H2 O x); [lia|reflexivity]).
    destruct (N.leb_spec e (rts x)); [lia|].
    rewrite <- (IH O); auto.
    + intros; lia.
    + intros h r _ Hr. apply (H2 (S h) r); [lia|exact Hr].
  - assert (e <= rts x) by (apply (H1 O x); [lia|reflexivity]).
    destruct (N.leb_spec e (rts x)); [|lia]. f_equal. apply IH.
    + intros h r Hh Hr. apply (H1 (S h) r); [lia|exact Hr].
    + intros h r Hh Hr. apply (H2 (S h) r); [lia|exact Hr].
Qed.

Theorem get_valid_rrcs_inclusive e l : sorted_desc l ->
  get_valid_rrcs RF e l = filter (fun r => e <=? rts r) l.
Proof.
  intros Hs. destruct (num_valid_spec e l Hs) as (_ & H1 & H2).
  unfold get_valid_rrcs. apply firstn_filter_ge; assumption.
Qed.

(* ---------------- getNextBlocks ---------------- *)
Lemma next_loop_ge mb l : forall fuel n, (n <= next_loop RF mb l fuel n)%nat.
Proof.
  induction fuel as [|fuel IH]; intros n; cbn [next_loop]; [lia|].
  set (next := match skipn n l with [] => S n | b :: _ => (n + tie_run RF (start_of RF b) (skipn n l))%nat end).
  assert (Hn : (n <= next)%nat) by (unfold next; destruct (skipn n l); lia).
  destruct (Nat.ltb mb next); [lia|]. destruct (Nat.eqb next (length l)); [lia|].
  specialize (IH next). lia.
Qed.

Lemma num_next_pos mb b l : (1 <= num_next RF mb (b :: l))%nat.
Proof.
  unfold num_next. etransitivity; [|apply next_loop_ge].
  simpl. rewrite N.eqb_refl. lia.
Qed.

Lemma get_next_blocks_spec mb l next e : get_next_blocks RF mb l = (next, e) ->
  next = firstn (length next) l /\
  (l <> [] -> (1 <= length next)%nat) /\
  (l = [] -> e = 0) /\
  (forall b r, skipn (length next) l = b :: r -> e = hi b).
Proof.
  unfold get_next_blocks. destruct l as [|b0 l0]; intros H; cbv beta iota in H.
  - injection H as <- <-. split; [reflexivity|]. split; [congruence|]. split; [auto|]. simpl; intros; discriminate.
  - pose proof (num_next_pos mb b0 l0) as Hp. remember (b0 :: l0) as l eqn:El.
    destruct (Nat.leb_spec (length l) (num_next RF mb l)) as [Hle|Hlt]; injection H as <- <-.
    + rewrite firstn_all. repeat split; auto.
      * intros _. subst l. simpl. lia.
      * intros; subst l; discriminate.
      * intros b r Hs. rewrite skipn_all in Hs. discriminate.
    + assert (Hlen : length (firstn (num_next RF mb l) l) = num_next RF mb l) by (rewrite firstn_length; lia).
      rewrite Hlen. repeat split; auto.
      * intros; subst l; discriminate.
      * intros b r Hs. rewrite (skipn_nth_error _ _ _ _ Hs). reflexivity.
Qed.

(* ---------------- well-formed inputs ---------------- *)
Definition wf_block (b : block) : Prop :=
  lo b <= hi b /\ Forall (fun r => lo b <= rts r /\ rts r <= hi b) (recs b).
Definition wf_seg (s : seg) : Prop :=
  Forall (fun b => wf_block b /\ sstart s <= lo b /\ hi b <= send s) (sblocks s).

Definition blocks_desc (l : list block) : Prop := StronglySorted (fun a b => hi b <= hi a) l.

(* ---------------- segment level: one pass over the queue ---------------- *)
Lemma walk_queue_spec c : forall q bl q', Forall wf_seg q -> walk_queue RF c q = (bl, q') ->
  Permutation (bl ++ blocks_of q') (blocks_of q) /\
  (forall b, In b bl -> c <= hi b) /\
  (forall b, In b (blocks_of q') -> hi b < c) /\
  (forall s, In s q' -> sstart s < c) /\
  Forall wf_seg q' /\
  (length q' <= length q)%nat /\
  (forall s, In s q -> c <= sstart s \/ exists s', In s' q' /\ sstart s' = sstart s).
Proof.
  induction q as [|s q IH]; intros bl q' Hwf H; cbn [walk_queue] in H.
  - injection H as <- <-. simpl. repeat split; auto; try (intros ? []); constructor.
  - inversion Hwf as [|? ? Hs Hq]; subst.
    destruct (walk_queue RF c q) as [tk q1] eqn:Ew.
    destruct (IH tk q1 Hq eq_refl) as (P1 & P2 & P3 & P4 & P5 & P6 & P7).
    destruct (if should_process_qsr RF c s then partition (should_process_block RF c) (sblocks s)
              else ([], sblocks s)) as [taken kept] eqn:Ep.
    assert (Hperm : Permutation (taken ++ kept) (sblocks s)).
    { destruct (should_process_qsr RF c s); [eapply partition_perm; eauto|].
      injection Ep as <- <-. reflexivity. }
    assert (Htaken : forall b, In b taken -> c <= hi b).
    { destruct (should_process_qsr RF c s).
      - intros b Hb. destruct (partition_fst _ _ _ _ Ep b Hb) as [Hf _]. simpl in Hf. lia.
      - injection Ep as <- <-. intros ? []. }
    assert (Hkept : forall b, In b kept -> hi b < c /\ In b (sblocks s)).
    { destruct (should_process_qsr RF c s) eqn:Es.
      - intros b Hb. destruct (partition_snd _ _ _ _ Ep b Hb) as [Hf Hi]. simpl in Hf. split; [lia|auto].
      - injection Ep as <- <-. intros b Hb. split; auto. simpl in Es.
        unfold wf_seg in Hs. rewrite Forall_forall in Hs. destruct (Hs b Hb) as (_ & _ & Hh). lia. }
    unfold wf_seg in Hs. rewrite Forall_forall in Hs.
    destruct (will_process_completely RF c s) eqn:Ec; injection H as <- <-; simpl in Ec.
    + (* the segment leaves the queue: by well-formedness nothing of it is kept *)
      assert (kept = []).
      { destruct kept as [|b k]; auto. destruct (Hkept b (or_introl eq_refl)) as [Hh Hi].
        destruct (Hs b Hi) as ((Hlh & _) & Hsl & _). lia. }
      subst kept. rewrite app_nil_r in Hperm.
      repeat split; auto.
      * rewrite blocks_of_cons, <- app_assoc, P1. apply Permutation_app_tail. assumption.
      * intros b Hb. apply in_app_or in Hb as [Hb|Hb]; auto.
      * simpl. lia.
      * intros s0 [<-|Hs0]; [left; lia|auto].
    + repeat split; auto.
      * rewrite !blocks_of_cons. simpl sblocks.
        rewrite <- app_assoc. rewrite (app_assoc tk). rewrite (Permutation_app_comm tk kept).
        rewrite <- app_assoc, P1. rewrite app_assoc. apply Permutation_app_tail. assumption.
      * intros b Hb. apply in_app_or in Hb as [Hb|Hb]; auto.
      * intros b Hb. rewrite blocks_of_cons in Hb. simpl sblocks in Hb.
        apply in_app_or in Hb as [Hb|Hb]; auto. apply Hkept. assumption.
      * intros s0 [<-|Hs0]; auto. simpl. lia.
      * constructor; auto. unfold wf_seg. simpl. rewrite Forall_forall. intros b Hb.
        apply Hs. apply Hkept. assumption.
      * simpl. lia.
      * intros s0 [<-|Hs0].
        -- right. eexists. split; [left; reflexivity|reflexivity].
        -- destruct (P7 s0 Hs0) as [|[s' [Hi He]]]; auto. right. exists s'. split; [right|]; auto.
Qed.

Lemma walk_queue_front c f q bl q' : c = sstart f -> walk_queue RF c (f :: q) = (bl, q') ->
  Forall wf_seg (f :: q) -> (length q' < length (f :: q))%nat.
Proof.
  intros -> H Hwf. simpl in H. inversion Hwf; subst.
  destruct (walk_queue RF (sstart f) q) as [tk q1] eqn:Ew.
  destruct (walk_queue_spec _ _ _ _ H3 Ew) as (_ & _ & _ & _ & _ & P6 & _).
  destruct (if (sstart f <=? send f) then _ else _) as [taken kept].
  rewrite N.leb_refl in H. injection H as <- <-. simpl. lia.
Qed.

(* ---------------- the invariant ---------------- *)
Definition pending (st : state) : list rec :=
  unsent st ++ recs_of (remaining st) ++ all_recs (queue st).

Record InvW (total : list rec) (st : state) (out : list rec) : Prop := {
  i_sorted : sorted_desc out;
  i_unsent : forall o u, In o out -> In u (unsent st) -> rts u <= rts o;
  i_rem : forall o b, In o out -> In b (remaining st) -> hi b <= rts o;
  i_cut : forall o, In o out -> cutoff st <= rts o;
  i_qhi : started st = true -> forall b, In b (blocks_of (queue st)) -> hi b < cutoff st;
  i_qstart : started st = true -> forall s, In s (queue st) -> sstart s < cutoff st;
  i_fresh : started st = false ->
            out = [] /\ unsent st = [] /\ remaining st = [] /\ gotBlocks st = false /\ gotAll st = false;
  i_wfq : Forall wf_seg (queue st);
  i_wfr : Forall wf_block (remaining st);
  i_rsorted : blocks_desc (remaining st);
  i_all : gotAll st = true -> queue st = [];
  i_low : forall u, In u (unsent st ++ recs_of (remaining st)) ->
          (exists s, In s (queue st) /\ sstart s <= rts u) \/ cutoff st <= rts u;
  i_perm : Permutation (out ++ pending st) total
}.

Definition Inv total st out : Prop :=
  InvW total st out /\ (gotBlocks st = true -> remaining st <> []).

Lemma inv_init q : Forall wf_seg q -> Inv (all_recs q) (init_state q) [].
Proof.
  intros Hwf. split; [|simpl; discriminate].
  constructor; simpl; auto; try discriminate; try (intros ? ? []; fail); try (intros ? []; fail); constructor.
Qed.

Section MACHINEP.
  Variable bsort : list block -> list block.
  Variable rsort : list rec -> list rec.
  Variable maxBlocks : nat.
  Hypothesis bsort_perm : forall l, Permutation (bsort l) l.
  Hypothesis bsort_sorted : forall l, blocks_desc (bsort l).
  Hypothesis rsort_perm : forall l, Permutation (rsort l) l.
  Hypothesis rsort_sorted : forall l, sorted_desc (rsort l).

  (* phase 1 of Fetch: getBlocks + sortBlocks when gotBlocks is false *)
  Definition phase1 (st : state) : state :=
    if gotBlocks st then st
    else
      let '(bl, q', c, ga) := get_blocks RF st in
      mkState q' (bsort (bl ++ remaining st)) (unsent st) c true ga true.

  Lemma in_bsort b l : In b (bsort l) <-> In b l.
  Proof. split; apply Permutation_in; [|symmetry]; apply bsort_perm. Qed.
  Lemma in_bsort_1 b l : In b (bsort l) -> In b l.
  Proof. apply in_bsort. Qed.
  Lemma in_rsort_1 r l : In r (rsort l) -> In r l.
  Proof. apply Permutation_in, rsort_perm. Qed.
  Lemma in_rsort r l : In r (rsort l) <-> In r l.
  Proof. split; apply Permutation_in; [|symmetry]; apply rsort_perm. Qed.

  Lemma phase1_inv total st out : InvW total st out ->
    InvW total (phase1 st) out /\ started (phase1 st) = true.
  Proof.
    intros I. unfold phase1. destruct (gotBlocks st) eqn:Eg.
    - split; auto. destruct (started st) eqn:Es; auto.
      destruct (i_fresh _ _ _ I Es) as (_ & _ & _ & H & _). congruence.
    - unfold get_blocks. destruct (queue st) as [|f q] eqn:Eq.
      + (* no segment left: gotAllSegments *)
        split; [|reflexivity]. simpl app.
        constructor; simpl; auto; try apply I; try (intros; discriminate).
        * intros o b Ho Hb. apply in_bsort_1 in Hb. apply (i_rem _ _ _ I o b Ho Hb).
        * intros _ ? [].
        * intros _ ? [].
        * eapply Permutation_Forall; [symmetry; apply bsort_perm|]. apply I.
        * intros u Hu. right.
          assert (Hu' : In u (unsent st ++ recs_of (remaining st))).
          { apply in_app_or in Hu as [Hu|Hu]; apply in_or_app; auto. right.
            eapply Permutation_in; [apply recs_of_perm, bsort_perm|]. exact Hu. }
          destruct (i_low _ _ _ I u Hu') as [[s [Hs _]]|H]; auto.
          rewrite Eq in Hs. destruct Hs.
        * rewrite <- (i_perm _ _ _ I). unfold pending. simpl. rewrite Eq.
          apply Permutation_app_head, Permutation_app_head, Permutation_app_tail.
          apply recs_of_perm, bsort_perm.
      + (* cut-off = start of the front segment *)
        destruct (walk_queue RF (sstart f) (f :: q)) as [bl q'] eqn:Ew.
        assert (Hwfq : Forall wf_seg (f :: q)) by (rewrite <- Eq; apply I).
        destruct (walk_queue_spec _ _ _ _ Hwfq Ew) as (P1 & P2 & P3 & P4 & P5 & P6 & P7).
        assert (Hbl : forall b, In b bl -> In b (blocks_of (queue st))).
        { intros b Hb. rewrite Eq. eapply Permutation_in; [exact P1|]. apply in_or_app. auto. }
        assert (Hcut : started st = true -> sstart f < cutoff st).
        { intros Hs. apply (i_qstart _ _ _ I Hs). rewrite Eq. left. reflexivity. }
        assert (Hparent : forall b r, In b bl -> In r (recs b) ->
                  exists s, In s (f :: q) /\ sstart s <= rts r).
        { intros b r Hb Hr. apply Hbl in Hb. rewrite Eq in Hb. apply in_blocks_of in Hb as [s [Hs Hbs]].
          exists s. split; auto. rewrite Forall_forall in Hwfq. specialize (Hwfq s Hs).
          unfold wf_seg in Hwfq. rewrite Forall_forall in Hwfq. destruct (Hwfq b Hbs) as ((_ & Hr') & Hsl & _).
          rewrite Forall_forall in Hr'. destruct (Hr' r Hr). lia. }
        assert (Hlow : forall u, (exists s, In s (f :: q) /\ sstart s <= rts u) ->
                  (exists s, In s q' /\ sstart s <= rts u) \/ sstart f <= rts u).
        { intros u [s [Hs Hle]]. destruct (P7 s Hs) as [H|[s' [Hs' He]]]; [right; lia|].
          left. exists s'. split; auto. lia. }
        split; [|reflexivity].
        constructor; simpl; auto; try apply I; try (intros; discriminate).
        * intros o b Ho Hb. apply in_bsort_1 in Hb. apply in_app_or in Hb as [Hb|Hb].
          -- destruct (started st) eqn:Es.
             ++ pose proof (i_qhi _ _ _ I Es b (Hbl b Hb)). pose proof (i_cut _ _ _ I o Ho). lia.
             ++ destruct (i_fresh _ _ _ I Es) as (-> & _). destruct Ho.
          -- apply (i_rem _ _ _ I o b Ho Hb).
        * intros o Ho. destruct (started st) eqn:Es.
          -- pose proof (i_cut _ _ _ I o Ho). specialize (Hcut eq_refl). lia.
          -- destruct (i_fresh _ _ _ I Es) as (-> & _). destruct Ho.
        * eapply Permutation_Forall; [symmetry; apply bsort_perm|].
          apply Forall_app. split; [|apply I].
          rewrite Forall_forall. intros b Hb. apply Hbl in Hb. rewrite Eq in Hb.
          apply in_blocks_of in Hb as [s [Hs Hbs]].
          rewrite Forall_forall in Hwfq. specialize (Hwfq s Hs).
          unfold wf_seg in Hwfq. rewrite Forall_forall in Hwfq. apply (Hwfq b Hbs).
        * intros Hga. rewrite (i_all _ _ _ I Hga) in Eq. discriminate.
        * intros u Hu. apply in_app_or in Hu as [Hu|Hu].
          -- destruct (i_low _ _ _ I u (in_or_app _ _ _ (or_introl Hu))) as [H|H].
             ++ rewrite Eq in H. apply Hlow. assumption.
             ++ destruct (started st) eqn:Es; [specialize (Hcut eq_refl); right; lia|].
                destruct (i_fresh _ _ _ I Es) as (_ & Hu0 & _). rewrite Hu0 in Hu. destruct Hu.
          -- apply in_recs_of in Hu as [b [Hb Hr]]. apply in_bsort_1 in Hb. apply in_app_or in Hb as [Hb|Hb].
             ++ apply Hlow. eapply Hparent; eauto.
             ++ assert (Hu' : In u (unsent st ++ recs_of (remaining st))).
                { apply in_or_app. right. apply in_recs_of. eauto. }
                destruct (i_low _ _ _ I u Hu') as [H|H].
                ** rewrite Eq in H. apply Hlow. assumption.
                ** destruct (started st) eqn:Es; [specialize (Hcut eq_refl); right; lia|].
                   destruct (i_fresh _ _ _ I Es) as (_ & _ & Hr0 & _). rewrite Hr0 in Hb. destruct Hb.
        * rewrite <- (i_perm _ _ _ I). unfold pending, all_recs. simpl. rewrite Eq.
          apply Permutation_app_head, Permutation_app_head.
          rewrite (recs_of_perm _ _ (bsort_perm _)), recs_of_app.
          rewrite <- (recs_of_perm _ _ P1), recs_of_app.
          rewrite <- !app_assoc. rewrite (app_assoc (recs_of (remaining st))).
          rewrite (Permutation_app_comm (recs_of (remaining st)) (recs_of bl)).
          rewrite <- app_assoc. reflexivity.
  Qed.

  (* phase 2 of Fetch: fetchRRCs *)
  Definition phase2 (st1 : state) : option (list rec) * state :=
    match remaining st1, unsent st1, gotAll st1 with
    | [], [], true => (None, st1)
    | _, _, _ =>
      let '(next, e0) := get_next_blocks RF maxBlocks (remaining st1) in
      let e := N.max e0 (cutoff st1) in
      let rest := skipn (length next) (remaining st1) in
      let gb := if (match rest with [] => true | _ => false end) || (e =? cutoff st1)
                then false else gotBlocks st1 in
      let all := rsort (concat (map recs next) ++ unsent st1) in
      let valid := get_valid_rrcs RF e all in
      (Some valid,
       mkState (queue st1) rest (skipn (length valid) all) (cutoff st1) gb (gotAll st1) true)
    end.

  Lemma fetch_phases st : fetch RF bsort rsort maxBlocks st = phase2 (phase1 st).
  Proof.
    unfold fetch, phase1, phase2. destruct (gotBlocks st); [reflexivity|].
    destruct (get_blocks RF st) as [[[bl q'] c] ga]. reflexivity.
  Qed.

  (* what the non-EOF branch computes *)
  Definition step2 (st1 : state) : list rec * state :=
    let '(next, e0) := get_next_blocks RF maxBlocks (remaining st1) in
    let e := N.max e0 (cutoff st1) in
    let rest := skipn (length next) (remaining st1) in
    let gb := if (match rest with [] => true | _ => false end) || (e =? cutoff st1)
              then false else gotBlocks st1 in
    let all := rsort (concat (map recs next) ++ unsent st1) in
    let valid := get_valid_rrcs RF e all in
    (valid, mkState (queue st1) rest (skipn (length valid) all) (cutoff st1) gb (gotAll st1) true).

  Lemma phase2_cases st1 :
    (phase2 st1 = (None, st1) /\ remaining st1 = [] /\ unsent st1 = [] /\ gotAll st1 = true) \/
    (phase2 st1 = (Some (fst (step2 st1)), snd (step2 st1)) /\
     ~ (remaining st1 = [] /\ unsent st1 = [] /\ gotAll st1 = true)).
  Proof.
    unfold phase2, step2.
    destruct (remaining st1) eqn:Er; [destruct (unsent st1) eqn:Eu; [destruct (gotAll st1) eqn:Ea|]|].
    - left. auto.
    - right. split; [|intros (_ & _ & ?); discriminate].
      destruct (get_next_blocks RF maxBlocks []) as [next e0]. reflexivity.
    - right. split; [|intros (_ & ? & _); discriminate].
      destruct (get_next_blocks RF maxBlocks []) as [next e0]. reflexivity.
    - right. split; [|intros (? & _); discriminate].
      destruct (get_next_blocks RF maxBlocks (b :: l)) as [next e0]. reflexivity.
  Qed.

  Lemma step2_inv total st1 out : InvW total st1 out -> started st1 = true ->
    Inv total (snd (step2 st1)) (out ++ fst (step2 st1)).
  Proof.
    intros I Hst. unfold step2.
    destruct (get_next_blocks RF maxBlocks (remaining st1)) as [next e0] eqn:Eg.
    destruct (get_next_blocks_spec _ _ _ _ Eg) as (Hnext & Hpos & Hnil & Hend).
    set (e := N.max e0 (cutoff st1)).
    set (rest := skipn (length next) (remaining st1)).
    set (all := rsort (concat (map recs next) ++ unsent st1)).
    pose proof (rsort_sorted (concat (map recs next) ++ unsent st1)) as Hsall. fold all in Hsall.
    destruct (num_valid_spec e all Hsall) as (Hk & Hge & Hlt).
    unfold get_valid_rrcs. set (k := num_valid RF e all) in *.
    assert (Hlen : length (firstn k all) = k) by (rewrite firstn_length; lia).
    rewrite Hlen. cbn [fst snd].
    assert (Hnext_in : forall b, In b next -> In b (remaining st1)).
    { intros b Hb. rewrite Hnext in Hb. eapply In_firstn; eauto. }
    assert (Hrest_in : forall b, In b rest -> In b (remaining st1)).
    { intros b Hb. eapply In_skipn; eauto. }
    assert (Hall_in : forall r, In r all -> In r (unsent st1) \/ exists b, In b next /\ In r (recs b)).
    { intros r Hr. apply in_rsort_1 in Hr. apply in_app_or in Hr as [Hr|Hr]; auto.
      right. apply (in_recs_of r next). exact Hr. }
    assert (Hall_le : forall o r, In o out -> In r all -> rts r <= rts o).
    { intros o r Ho Hr. destruct (Hall_in r Hr) as [Hu|[b [Hb Hrb]]].
      - apply (i_unsent _ _ _ I o r Ho Hu).
      - pose proof (i_rem _ _ _ I o b Ho (Hnext_in b Hb)) as H1.
        pose proof (i_wfr _ _ _ I) as Hw. rewrite Forall_forall in Hw.
        destruct (Hw b (Hnext_in b Hb)) as [_ Hr']. rewrite Forall_forall in Hr'.
        destruct (Hr' r Hrb). lia. }
    assert (Hvalid_ge : forall v, In v (firstn k all) -> e <= rts v).
    { intros v Hv. apply In_firstn_nth in Hv as [h [Hh Hn]]. eauto. }
    assert (Huns_lt : forall u, In u (skipn k all) -> rts u < e).
    { intros u Hu. apply In_skipn_nth in Hu as [h [Hh Hn]]. eauto. }
    assert (Hrest_hi : forall b, In b rest -> hi b <= e0).
    { intros b Hb. unfold rest in *. destruct (skipn (length next) (remaining st1)) as [|b0 r0] eqn:Es; [destruct Hb|].
      rewrite (Hend b0 r0 eq_refl).
      pose proof (ss_skipn _ (length next) _ (i_rsorted _ _ _ I)) as Hss. rewrite Es in Hss.
      destruct Hb as [<-|Hb]; [lia|]. inversion Hss as [|? ? _ Hall]; subst.
      rewrite Forall_forall in Hall. apply Hall. assumption. }
    split.
    - constructor; cbn [queue remaining unsent cutoff gotBlocks gotAll started]; try (intros; discriminate).
      + (* sorted *)
        apply ss_app; [apply I|apply ss_firstn; assumption|].
        intros x y Hx Hy. apply Hall_le; auto. eapply In_firstn; eauto.
      + intros o u Ho Hu. apply in_app_or in Ho as [Ho|Ho].
        * apply Hall_le; auto. eapply In_skipn; eauto.
        * specialize (Hvalid_ge o Ho). specialize (Huns_lt u Hu). lia.
      + intros o b Ho Hb. apply in_app_or in Ho as [Ho|Ho].
        * apply (i_rem _ _ _ I o b Ho (Hrest_in b Hb)).
        * specialize (Hvalid_ge o Ho). specialize (Hrest_hi b Hb). lia.
      + intros o Ho. apply in_app_or in Ho as [Ho|Ho].
        * apply (i_cut _ _ _ I o Ho).
        * specialize (Hvalid_ge o Ho). lia.
      + intros _. apply (i_qhi _ _ _ I Hst).
      + intros _. apply (i_qstart _ _ _ I Hst).
      + apply I.
      + pose proof (i_wfr _ _ _ I) as Hw. rewrite Forall_forall in *. intros b Hb. apply Hw, Hrest_in, Hb.
      + apply ss_skipn. apply I.
      + apply I.
      + intros u Hu. apply (i_low _ _ _ I u). apply in_app_or in Hu as [Hu|Hu].
        * apply In_skipn in Hu. destruct (Hall_in u Hu) as [H|[b [Hb Hr]]]; apply in_or_app; auto.
          right. apply in_recs_of. exists b. split; auto.
        * apply in_or_app. right. apply in_recs_of in Hu as [b [Hb Hr]]. apply in_recs_of. exists b. split; auto.
      + rewrite <- (i_perm _ _ _ I). unfold pending. cbn [queue remaining unsent].
        rewrite <- !app_assoc. apply Permutation_app_head.
        rewrite (app_assoc (firstn k all)), firstn_skipn. unfold all.
        rewrite (rsort_perm _).
        assert (Hrem : recs_of (remaining st1) = concat (map recs next) ++ recs_of rest).
        { rewrite <- (firstn_skipn (length next) (remaining st1)). rewrite recs_of_app, <- Hnext.
          reflexivity. }
        rewrite Hrem. rewrite <- !app_assoc.
        rewrite (app_assoc (concat (map recs next)) (unsent st1)).
        rewrite (app_assoc (unsent st1) (concat (map recs next))).
        apply Permutation_app_tail, Permutation_app_comm.
    - cbn [gotBlocks remaining]. intros Hgb. destruct rest; [simpl in Hgb; discriminate|discriminate].
  Qed.

  (* one Fetch preserves the invariant *)
  Lemma fetch_inv total st out v st' : Inv total st out ->
    fetch RF bsort rsort maxBlocks st = (Some v, st') -> Inv total st' (out ++ v).
  Proof.
    intros [I _] H. rewrite fetch_phases in H.
    destruct (phase1_inv total st out I) as [I1 Hs1].
    destruct (phase2_cases (phase1 st)) as [[E _]|[E _]]; rewrite E in H; [discriminate|].
    injection H as <- <-. apply step2_inv; assumption.
  Qed.

  (* at EOF everything has been released *)
  Lemma fetch_eof total st out st' : Inv total st out ->
    fetch RF bsort rsort maxBlocks st = (None, st') ->
    Permutation out total /\ sorted_desc out /\ pending st' = [].
  Proof.
    intros [I _] H. rewrite fetch_phases in H.
    destruct (phase1_inv total st out I) as [I1 Hs1].
    destruct (phase2_cases (phase1 st)) as [[E (Hr & Hu & Ha)]|[E _]]; rewrite E in H; [|discriminate].
    injection H as <-.
    assert (Hp : pending (phase1 st) = []).
    { unfold pending. rewrite Hr, Hu, (i_all _ _ _ I1 Ha). reflexivity. }
    split; [|split; [apply I1|exact Hp]].
    rewrite <- (i_perm _ _ _ I1), Hp, app_nil_r. reflexivity.
  Qed.

  (* ---------------- termination ---------------- *)
  Definition mu (st : state) : nat :=
    (2 * (length (remaining st) + length (blocks_of (queue st)) + length (queue st)
          + (if gotAll st then 0 else 1))
     + match unsent st with [] => 0 | _ => 1 end)%nat.

  Definition wt (st : state) : nat :=
    (length (remaining st) + length (blocks_of (queue st)) + length (queue st)
     + (if gotAll st then 0 else 1))%nat.

  Lemma mu_wt st : mu st = (2 * wt st + match unsent st with [] => 0 | _ => 1 end)%nat.
  Proof. reflexivity. Qed.

  Lemma length_bsort l : length (bsort l) = length l.
  Proof. apply Permutation_length, bsort_perm. Qed.

  Lemma phase1_wt total st out : InvW total st out -> (gotBlocks st = true -> remaining st <> []) ->
    unsent (phase1 st) = unsent st /\
    ((wt (phase1 st) < wt st)%nat \/
     (wt (phase1 st) = wt st /\ remaining (phase1 st) <> []) \/
     (wt (phase1 st) = wt st /\ remaining (phase1 st) = [] /\ queue (phase1 st) = [])).
  Proof.
    intros I Hgb. unfold phase1. destruct (gotBlocks st) eqn:Eg.
    - split; auto.
    - unfold get_blocks. destruct (queue st) as [|f q] eqn:Eq.
      + split; [reflexivity|]. unfold wt. simpl. rewrite length_bsort, Eq. simpl.
        destruct (gotAll st) eqn:Ea; [|left; lia].
        right. destruct (remaining st) as [|b r] eqn:Er.
        * right. split; [lia|]. split; auto.
          destruct (bsort []) eqn:Eb; auto. pose proof (length_bsort []) as Hl. rewrite Eb in Hl. discriminate.
        * left. split; [simpl; lia|]. intros Hb. pose proof (length_bsort (b :: r)) as Hl.
          rewrite Hb in Hl. discriminate.
      + destruct (walk_queue RF (sstart f) (f :: q)) as [bl q'] eqn:Ew.
        assert (Hwfq : Forall wf_seg (f :: q)) by (rewrite <- Eq; apply I).
        destruct (walk_queue_spec _ _ _ _ Hwfq Ew) as (P1 & _).
        pose proof (walk_queue_front _ _ _ _ _ eq_refl Ew Hwfq) as Hlt.
        apply Permutation_length in P1. rewrite app_length in P1.
        split; [reflexivity|]. left. unfold wt. simpl. rewrite length_bsort, app_length, Eq.
        simpl in *. lia.
  Qed.

  Lemma step2_wt total st1 out : InvW total st1 out ->
    let st2 := snd (step2 st1) in
    (wt st2 <= wt st1)%nat /\
    (remaining st1 <> [] -> (wt st2 < wt st1)%nat) /\
    (remaining st1 = [] -> queue st1 = [] -> unsent st2 = []).
  Proof.
    intros I. unfold step2.
    destruct (get_next_blocks RF maxBlocks (remaining st1)) as [next e0] eqn:Eg.
    destruct (get_next_blocks_spec _ _ _ _ Eg) as (Hnext & Hpos & Hnil & Hend).
    cbn [snd]. unfold wt. cbn [queue remaining unsent gotAll].
    assert (Hl : (length next <= length (remaining st1))%nat).
    { rewrite Hnext. rewrite firstn_length. lia. }
    rewrite skipn_length. split; [lia|]. split.
    - intros Hne. specialize (Hpos Hne). lia.
    - intros Hr Hq. specialize (Hnil Hr). subst e0. rewrite Hr in Hnext. rewrite firstn_nil in Hnext. subst next.
      simpl app. rewrite N.max_0_l.
      set (all := rsort (unsent st1)).
      pose proof (rsort_sorted (unsent st1)) as Hs. fold all in Hs.
      destruct (num_valid_spec (cutoff st1) all Hs) as (Hk & _ & Hlt).
      unfold get_valid_rrcs. set (k := num_valid RF (cutoff st1) all) in *.
      rewrite firstn_length. replace (Nat.min k (length all)) with k by lia.
      destruct (Nat.eq_dec k (length all)) as [->|Hne]; [apply skipn_all|].
      destruct (nth_error all k) as [r|] eqn:En; [|apply nth_error_None in En; lia].
      pose proof (Hlt k r (le_n _) En) as Hr1.
      assert (Hin : In r (unsent st1 ++ recs_of (remaining st1))).
      { apply in_or_app. left. apply in_rsort_1. eapply nth_error_In; eauto. }
      destruct (i_low _ _ _ I r Hin) as [[s [Hs' _]]|H]; [rewrite Hq in Hs'; destruct Hs'|lia].
  Qed.

  Lemma fetch_progress total st out v st' : Inv total st out ->
    fetch RF bsort rsort maxBlocks st = (Some v, st') -> (mu st' < mu st)%nat.
  Proof.
    intros [I Hgb] H. rewrite fetch_phases in H.
    destruct (phase1_inv total st out I) as [I1 Hs1].
    destruct (phase1_wt total st out I Hgb) as (Hu & Hw).
    destruct (phase2_cases (phase1 st)) as [[E _]|[E Hne]]; rewrite E in H; [discriminate|].
    injection H as _ <-.
    destruct (step2_wt total (phase1 st) out I1) as (W1 & W2 & W3).
    rewrite !mu_wt. rewrite <- Hu.
    destruct Hw as [Hw|[[Hw Hr]|(Hw & Hr & Hq)]].
    - destruct (unsent (snd (step2 (phase1 st)))), (unsent (phase1 st)); lia.
    - specialize (W2 Hr). destruct (unsent (snd (step2 (phase1 st)))), (unsent (phase1 st)); lia.
    - rewrite (W3 Hr Hq).
      destruct (unsent (phase1 st)) eqn:Eu; [|lia].
      exfalso. apply Hne. split; auto. split; auto.
      (* gotAll must be true here: otherwise phase 1 would have lowered the weight *)
      unfold phase1 in *. destruct (gotBlocks st) eqn:Eg.
      + exfalso. apply (Hgb eq_refl). exact Hr.
      + unfold get_blocks in *. destruct (queue st) as [|f q] eqn:Eq.
        * reflexivity.
        * exfalso. destruct (walk_queue RF (sstart f) (f :: q)) as [bl q'] eqn:Ew.
          assert (Hwfq : Forall wf_seg (f :: q)) by (rewrite <- Eq; apply I).
          destruct (walk_queue_spec _ _ _ _ Hwfq Ew) as (P1 & _).
          pose proof (walk_queue_front _ _ _ _ _ eq_refl Ew Hwfq) as Hlt.
          apply Permutation_length in P1. rewrite app_length in P1.
          unfold wt in Hw. simpl in Hw. rewrite length_bsort, app_length, Eq in Hw. simpl in *. lia.
  Qed.

  (* ---------------- iterating Fetch ---------------- *)
  Lemma run_loop_inv total : forall fuel st out, Inv total st out ->
    let '(out', eof, st') := run_loop RF bsort rsort maxBlocks fuel st out in
    sorted_desc out' /\
    Permutation (out' ++ pending st') total /\
    (forall o y, In o out' -> In y (pending st') -> rts y <= rts o) /\
    (eof = true -> pending st' = []) /\
    exists rel, out' = out ++ rel.
  Proof.
    induction fuel as [|fuel IH]; intros st out HI; cbn [run_loop].
    - destruct HI as [I _]. split; [apply I|]. split; [apply I|]. split; [|split; [discriminate|exists []; rewrite app_nil_r; reflexivity]].
      intros o y Ho Hy. unfold pending in Hy. apply in_app_or in Hy as [Hy|Hy].
      + apply (i_unsent _ _ _ I o y Ho Hy).
      + destruct (started st) eqn:Es; [|destruct (i_fresh _ _ _ I Es) as (-> & _); destruct Ho].
        pose proof (i_cut _ _ _ I o Ho) as Hc.
        apply in_app_or in Hy as [Hy|Hy]; apply in_recs_of in Hy as [b [Hb Hr]].
        * pose proof (i_rem _ _ _ I o b Ho Hb). pose proof (i_wfr _ _ _ I) as Hw.
          rewrite Forall_forall in Hw. destruct (Hw b Hb) as [_ Hr']. rewrite Forall_forall in Hr'.
          destruct (Hr' y Hr). lia.
        * pose proof (i_qhi _ _ _ I Es b Hb). apply in_blocks_of in Hb as [s [Hs Hbs]].
          pose proof (i_wfq _ _ _ I) as Hw. rewrite Forall_forall in Hw. specialize (Hw s Hs).
          unfold wf_seg in Hw. rewrite Forall_forall in Hw. destruct (Hw b Hbs) as ((_ & Hr') & _).
          rewrite Forall_forall in Hr'. destruct (Hr' y Hr). lia.
    - destruct (fetch RF bsort rsort maxBlocks st) as [[v|] st'] eqn:Ef.
      + pose proof (fetch_inv _ _ _ _ _ HI Ef) as HI'.
        specialize (IH st' (out ++ v) HI').
        destruct (run_loop RF bsort rsort maxBlocks fuel st' (out ++ v)) as [[out' eof] st''].
        destruct IH as (H1 & H2 & H3 & H4 & [rel ->]). repeat split; auto.
        exists (v ++ rel). rewrite app_assoc. reflexivity.
      + destruct (fetch_eof _ _ _ _ HI Ef) as (Hp & Hs & Hpe).
        rewrite Hpe, app_nil_r. repeat split; auto.
        * intros ? ? _ [].
        * exists []. rewrite app_nil_r. reflexivity.
  Qed.

  Lemma run_loop_eof total : forall fuel st out, Inv total st out -> (mu st < fuel)%nat ->
    snd (fst (run_loop RF bsort rsort maxBlocks fuel st out)) = true.
  Proof.
    induction fuel as [|fuel IH]; intros st out HI Hf; [lia|]. cbn [run_loop].
    destruct (fetch RF bsort rsort maxBlocks st) as [[v|] st'] eqn:Ef; [|reflexivity].
    apply IH.
    - eapply fetch_inv; eauto.
    - pose proof (fetch_progress _ _ _ _ _ HI Ef). lia.
  Qed.

  Lemma mu_init q : (mu (init_state q) < fuel_bound q)%nat.
  Proof. unfold mu, fuel_bound, init_state. simpl. lia. Qed.

  (* ---------------- main theorems (any block sort / record merge that sorts) ---------------- *)
  Section RUN.
    Variable q : list seg.
    Hypothesis Hwf : Forall wf_seg q.
    Variable fuel : nat.
    Let res := run_loop RF bsort rsort maxBlocks fuel (init_state q) [].
    Let out := fst (fst res).
    Let eof := snd (fst res).
    Let fin := snd res.

    Lemma run_facts :
      sorted_desc out /\ Permutation (out ++ pending fin) (all_recs q) /\
      (forall o y, In o out -> In y (pending fin) -> rts y <= rts o) /\
      (eof = true -> pending fin = []).
    Proof.
      pose proof (run_loop_inv (all_recs q) fuel (init_state q) [] (inv_init q Hwf)) as H.
      unfold out, eof, fin, res. destruct (run_loop RF bsort rsort maxBlocks fuel (init_state q) []) as [[o e] s].
      simpl. destruct H as (H1 & H2 & H3 & H4 & _). auto.
    Qed.

    (* records come out newest first, whatever the number of fetches made so far *)
    Theorem run_sorted_gen : sorted_desc out.
    Proof. apply run_facts. Qed.

    (* every record released so far is at least as new as every record not yet released *)
    Theorem released_before_unseen_gen :
      Permutation (out ++ pending fin) (all_recs q) /\
      forall o y, In o out -> In y (pending fin) -> rts y <= rts o.
    Proof. split; apply run_facts. Qed.

    (* the first n records released are n newest matches: everything else is not newer *)
    Theorem head_n_newest_gen n : exists rest,
      Permutation (firstn n out ++ rest) (all_recs q) /\
      forall x y, In x (firstn n out) -> In y rest -> rts y <= rts x.
    Proof.
      destruct run_facts as (Hs & Hp & Hle & _).
      exists (skipn n out ++ pending fin). split.
      - rewrite app_assoc, firstn_skipn. exact Hp.
      - intros x y Hx Hy. apply in_app_or in Hy as [Hy|Hy].
        + apply In_firstn_nth in Hx as [a [Ha Hxa]]. apply In_skipn_nth in Hy as [b [Hb Hyb]].
          apply (ss_nth _ _ Hs a b x y ltac:(lia) Hxa Hyb).
        + apply Hle; auto. eapply In_firstn; eauto.
    Qed.

    (* with enough fetches the run ends with EOF and has released every match exactly once *)
    Theorem run_complete_gen : (fuel_bound q <= fuel)%nat -> eof = true /\ Permutation out (all_recs q).
    Proof.
      intros Hf.
      assert (He : eof = true).
      { unfold eof, res. apply (run_loop_eof (all_recs q)); [apply inv_init; assumption|].
        pose proof (mu_init q). lia. }
      split; auto. destruct run_facts as (_ & Hp & _ & Hpe).
      rewrite (Hpe He), app_nil_r in Hp. exact Hp.
    Qed.
  End RUN.
End MACHINEP.

(* ---------------- the concrete instance ---------------- *)
Lemma block_less_swo : swo_on (block_less RF) (fun _ => True).
Proof.
  unfold block_less, ts_before. simpl. repeat split; intros.
  - apply N.ltb_irrefl.
  - apply N.ltb_lt in H2, H3. apply N.ltb_lt. lia.
  - apply N.ltb_lt in H2. destruct (N.ltb_spec (hi b) (hi a)); auto. right. apply N.ltb_lt. lia.
Qed.

Lemma rec_less_swo : swo_on (rec_less RF) (fun _ => True).
Proof.
  unfold rec_less, ts_before. simpl. repeat split; intros.
  - apply N.ltb_irrefl.
  - apply N.ltb_lt in H2, H3. apply N.ltb_lt. lia.
  - apply N.ltb_lt in H2. destruct (N.ltb_spec (rts b) (rts a)); auto. right. apply N.ltb_lt. lia.
Qed.

Lemma Forall_True {A} (l : list A) : Forall (fun _ => True) l.
Proof. induction l; auto. Qed.

Lemma ss_impl {A} (R S : A -> A -> Prop) l : (forall a b, R a b -> S a b) ->
  StronglySorted R l -> StronglySorted S l.
Proof.
  intros H. induction 1 as [|x l Hs IH Hall]; constructor; auto.
  eapply Forall_impl; [|exact Hall]. auto.
Qed.

Lemma sort_blocks_perm l : Permutation (sort_blocks RF l) l.
Proof. apply sort_perm. Qed.
Lemma sort_blocks_sorted l : blocks_desc (sort_blocks RF l).
Proof.
  pose proof (sort_sorted _ _ block_less_swo l (Forall_True l)) as H.
  eapply ss_impl; [|exact H]. unfold block_less, ts_before. simpl. intros a b Hab.
  apply N.ltb_ge in Hab. exact Hab.
Qed.
Lemma sort_recs_perm l : Permutation (sort_recs RF l) l.
Proof. apply sort_perm. Qed.
Lemma sort_recs_sorted l : sorted_desc (sort_recs RF l).
Proof.
  pose proof (sort_sorted _ _ rec_less_swo l (Forall_True l)) as H.
  eapply ss_impl; [|exact H]. unfold rec_less, ts_before. simpl. intros a b Hab.
  apply N.ltb_ge in Hab. exact Hab.
Qed.

(* the model's own run (insertion sort for blocks and records) *)
Theorem run_concrete_ok maxBlocks q : Forall wf_seg q ->
  let '(out, eof) := run RF maxBlocks q in
  eof = true /\ Permutation out (all_recs q) /\ sorted_desc out.
Proof.
  intros Hwf. unfold run.
  pose proof (run_complete_gen _ _ maxBlocks sort_blocks_perm sort_blocks_sorted sort_recs_perm sort_recs_sorted
                q Hwf (fuel_bound q) (le_n _)) as [H1 H2].
  pose proof (run_sorted_gen _ _ maxBlocks sort_blocks_perm sort_blocks_sorted sort_recs_perm sort_recs_sorted
                q Hwf (fuel_bound q)) as H3.
  destruct (run_loop RF (sort_blocks RF) (sort_recs RF) maxBlocks (fuel_bound q) (init_state q) []) as [[o e] s].
  simpl in *. auto.
Qed.

(* ---------------- recent-last: latent stall (mode not used by any caller) ---------------- *)
(* one segment [0,10], blocks A = [0..10] {0,5,10} and B = [1..2] {1,2}, one block per fetch:
   after both blocks are read the records 5 and 10 stay unsent and every later Fetch
   releases nothing (endTime = min(0, cutoff) = 0), EOF is never reached *)
Definition rl_example : list seg :=
  [mkSeg 0 10 [mkBlock 0 10 [(0,1); (5,2); (10,3)]; mkBlock 1 2 [(1,4); (2,5)]]].

Lemma run_loop_add m bs rs mb : forall a b st acc,
  run_loop m bs rs mb (a + b) st acc =
  let '(o, e, s) := run_loop m bs rs mb a st acc in
  if e then (o, e, s) else run_loop m bs rs mb b s o.
Proof.
  induction a as [|a IH]; intros b st acc; cbn [Nat.add run_loop]; [reflexivity|].
  destruct (fetch m bs rs mb st) as [[v|] st']; [apply IH|reflexivity].
Qed.

Theorem recent_last_stalls_refuted : exists q, Forall wf_seg q /\
  forall fuel, (3 <= fuel)%nat ->
  exists st, run_loop RecentLast (sort_blocks RecentLast) (sort_recs RecentLast) 1 fuel (init_state q) []
             = ([(0,1); (1,4); (2,5)], false, st) /\ unsent st = [(5,2); (10,3)].
Proof.
  exists rl_example. split.
  - repeat constructor; simpl; lia.
  - intros fuel Hf. replace fuel with (3 + (fuel - 3))%nat by lia. rewrite run_loop_add.
    set (st3 := {| queue := []; remaining := []; unsent := [(5, 2); (10, 3)]; cutoff := 10;
                   gotBlocks := false; gotAll := true; started := true |}).
    assert (H3 : run_loop RecentLast (sort_blocks RecentLast) (sort_recs RecentLast) 1 3 (init_state rl_example) []
                 = ([(0,1); (1,4); (2,5)], false, st3)) by (vm_compute; reflexivity).
    rewrite H3.
    assert (Hfix : fetch RecentLast (sort_blocks RecentLast) (sort_recs RecentLast) 1 st3 = (Some [], st3))
      by (vm_compute; reflexivity).
    assert (Hloop : forall n acc, run_loop RecentLast (sort_blocks RecentLast) (sort_recs RecentLast) 1 n st3 acc
                                  = (acc, false, st3)).
    { induction n as [|n IH]; intros acc; cbn [run_loop]; [reflexivity|]. rewrite Hfix, app_nil_r. apply IH. }
    rewrite Hloop. exists st3. split; reflexivity.
Qed.

(* ---------------- paging across re-computed results ---------------- *)
(* Every page request runs the query again.  Two runs return the same list when the
   timestamps of the matches are pairwise different; with ties they may differ. *)
Lemma NoDup_map_inj {A B} (f : A -> B) l : NoDup (map f l) ->
  forall x y, In x l -> In y l -> f x = f y -> x = y.
Proof.
  induction l as [|a l IH]; simpl; intros Hn x y Hx Hy Hf; [destruct Hx|].
  inversion Hn as [|? ? Hni Hn']; subst.
  destruct Hx as [<-|Hx], Hy as [<-|Hy]; auto.
  - exfalso. apply Hni. rewrite Hf. apply in_map. assumption.
  - exfalso. apply Hni. rewrite <- Hf. apply in_map. assumption.
Qed.

Lemma sorted_perm_unique : forall r1 r2, NoDup (map rts r1) -> Permutation r1 r2 ->
  sorted_desc r1 -> sorted_desc r2 -> r1 = r2.
Proof.
  induction r1 as [|x t1 IH]; intros r2 Hn Hp H1 H2.
  - apply Permutation_nil in Hp. auto.
  - destruct r2 as [|y t2]; [apply Permutation_sym, Permutation_nil in Hp; discriminate|].
    assert (x = y).
    { destruct (Permutation_in x Hp (or_introl eq_refl)) as [E|Hx]; auto.
      destruct (Permutation_in y (Permutation_sym Hp) (or_introl eq_refl)) as [E|Hy]; auto.
      inversion H1 as [|? ? _ A1]; inversion H2 as [|? ? _ A2]; subst.
      rewrite Forall_forall in A1, A2. specialize (A1 y Hy). specialize (A2 x Hx). simpl in *.
      apply (NoDup_map_inj rts (x :: t1) Hn); simpl; auto. lia. }
    subst y. f_equal. apply IH.
    + inversion Hn; assumption.
    + eapply Permutation_cons_inv; eauto.
    + inversion H1; assumption.
    + inversion H2; assumption.
Qed.

(* a valid answer to a match-all query over the records all: newest first, every match once *)
Definition valid_result (all r : list rec) : Prop := Permutation r all /\ sorted_desc r.

Theorem pages_recomputed_guarded (all : list rec) k np (rs : list (list rec)) :
  NoDup (map rts all) -> (0 < k)%nat -> (length all <= np * k)%nat -> length rs = np ->
  Forall (valid_result all) rs ->
  forall r0, valid_result all r0 ->
  concat (map (fun fr => page (fst fr) k (snd fr)) (combine (page_starts k np 0) rs)) = r0.
Proof.
  intros Hn Hk Hlen Hrs Hv r0 [Hp0 Hs0].
  assert (Hn0 : NoDup (map rts r0)).
  { eapply Permutation_NoDup; [|exact Hn]. apply Permutation_map, Permutation_sym, Hp0. }
  assert (Hall : Forall (fun r => r = r0) rs).
  { rewrite Forall_forall in *. intros r Hr. destruct (Hv r Hr) as [Hp Hs]. symmetry.
    apply sorted_perm_unique; auto. rewrite Hp0, Hp. reflexivity. }
  assert (Hl0 : (length r0 <= np * k)%nat) by (rewrite (Permutation_length Hp0); exact Hlen).
  etransitivity; [|apply (pages_concat k np r0 Hk Hl0)].
  clear Hv Hlen Hl0. revert np Hrs. generalize 0%nat as from.
  induction rs as [|r rs IH]; intros from np Hrs; destruct np; simpl in *; try discriminate; auto.
  inversion Hall as [|? ? Hr Hall']; subst. f_equal. apply IH; auto.
Qed.

(* with a timestamp tie two runs may order the tied records differently: page 0 of one
   run and page 1 of the next return the same record twice and never the other *)
Theorem pages_recomputed_refuted : exists all r1 r2,
  valid_result all r1 /\ valid_result all r2 /\
  page 0 1 r1 ++ page 1 1 r2 = [(5, 1); (5, 1)] /\ ~ In (5, 2) (page 0 1 r1 ++ page 1 1 r2).
Proof.
  exists [(5,1); (5,2)], [(5,1); (5,2)], [(5,2); (5,1)].
  repeat split; simpl; auto.
  - repeat constructor; simpl; lia.
  - apply perm_swap.
  - repeat constructor; simpl; lia.
  - intros [H|[H|[]]]; discriminate.
Qed.

(* SegmetaProtoProofs.v — the segmeta.json rewrite protocol: for ANY content of a temporary file left behind by an
   interrupted rewrite and ANY sequence of (possibly interrupted) rewrites, segmeta.json reads back as exactly the
   specified entries; the variants that reuse the temporary file are refuted. *)
From SigM Require Import Base SegmetaProto.
From SigP Require Import BaseProofs.
From Coq Require Import Lia.
Open Scope nat_scope.

Lemma lines_line l rest : ~ In 10%N l -> lines (l ++ 10%N :: rest) = l :: lines rest.
Proof.
  induction l as [|c l IH]; simpl; intros H.
  - reflexivity.
  - destruct (N.eqb_spec c 10) as [->|_].
    + exfalso. apply H. left. reflexivity.
    + rewrite IH by (intros X; apply H; right; exact X). reflexivity.
Qed.

Lemma mrun_app f a b : mrun f (a ++ b) = mrun (mrun f a) b.
Proof. unfold mrun. apply fold_left_app. Qed.

Definition tmp_only (o : mop) : bool :=
  match o with TmpOpenTrunc | TmpOpenKeep | TmpWrite _ _ _ => true | _ => false end.

Lemma main_tmp_only ops : forall f, forallb tmp_only ops = true -> mainf (mrun f ops) = mainf f.
Proof.
  induction ops as [|o ops IH]; simpl; intros f H; [reflexivity|].
  apply andb_true_iff in H. destruct H as [Ho H].
  change (mainf (mrun (mstep f o) ops) = mainf f). rewrite IH by exact H.
  destruct o; simpl in *; try discriminate; reflexivity.
Qed.

Lemma tmp_writes_only app ls : forall off, forallb tmp_only (tmp_writes app off ls) = true.
Proof. induction ls; simpl; intros; auto. Qed.

Lemma tmp_writes_length app ls : forall off, length (tmp_writes app off ls) = length ls.
Proof. induction ls; simpl; intros; auto. Qed.

Lemma forallb_firstn {A} (p : A -> bool) l : forall k, forallb p l = true -> forallb p (firstn k l) = true.
Proof.
  induction l; intros [|k] H; simpl in *; auto.
  apply andb_true_iff in H. destruct H. apply andb_true_iff. split; auto.
Qed.

Lemma write_at_end t b : write_at (length t) b t = t ++ b.
Proof.
  unfold write_at. rewrite Nat.sub_diag. simpl. rewrite app_nil_r, firstn_all.
  rewrite skipn_all2 by lia. rewrite app_nil_r. reflexivity.
Qed.

Lemma run_writes ls : forall m t,
  mrun {| mainf := m; tmpf := Some t |} (tmp_writes false (length t) ls) = {| mainf := m; tmpf := Some (t ++ concat ls) |}.
Proof.
  induction ls as [|l ls IH]; simpl; intros m t.
  - rewrite app_nil_r. reflexivity.
  - unfold mrun in *. simpl. rewrite write_at_end. rewrite <- app_length. rewrite IH. rewrite app_assoc. reflexivity.
Qed.

Section P.
  Variable E : Type.
  Variable parse : bytes -> option E.
  Variable enc : E -> bytes.
  Variable key : E -> nat.
  Variable vt : E -> nat.
  (* an encoded entry is one line, and the reader gets the entry back from it *)
  Hypothesis enc_nl : forall e, ~ In 10%N (enc e).
  Hypothesis parse_enc : forall e, parse (drop_cr (enc e)) = Some e.

  Notation read_entries := (read_entries E parse).
  Notation read_main := (read_main E parse).
  Notation file_of := (file_of E enc).
  Notation line := (line E enc).
  Notation remove_ops := (remove_ops E parse enc key vt).
  Notation act_ops := (act_ops E parse enc key vt).
  Notation run_gens := (run_gens E parse enc key vt).
  Notation abs_remove := (abs_remove E key vt).
  Notation expect_act := (expect_act E key vt).
  Notation spec_gens := (spec_gens E key vt).
  Notation WF := (WF E enc).
  Notation found := (found E key vt).
  Notation keepb := (keepb E key vt).
  Notation targeted := (targeted E key vt).

  Lemma read_file_of es : read_entries (file_of es) = es.
  Proof.
    induction es as [|e es IH]; [reflexivity|].
    unfold SegmetaProto.read_entries, SegmetaProto.file_of in *. simpl.
    unfold SegmetaProto.line at 1. rewrite <- app_assoc. simpl.
    rewrite lines_line by apply enc_nl. simpl. rewrite parse_enc. simpl. f_equal. exact IH.
  Qed.

  Lemma file_of_app a b : file_of (a ++ b) = file_of a ++ file_of b.
  Proof. unfold SegmetaProto.file_of. apply flat_map_app. Qed.

  Lemma rewrite_full (ks : list E) f :
    mrun f (TmpOpenTrunc :: tmp_writes false 0 (map line ks) ++ [Rename]) = {| mainf := Some (file_of ks); tmpf := None |}.
  Proof.
    change (TmpOpenTrunc :: tmp_writes false 0 (map line ks) ++ [Rename])
      with ([TmpOpenTrunc] ++ tmp_writes false 0 (map line ks) ++ [Rename]).
    rewrite !mrun_app. simpl.
    change 0 with (length (@nil N)). rewrite run_writes. simpl.
    unfold SegmetaProto.file_of. rewrite flat_map_concat_map. reflexivity.
  Qed.

  Lemma rewrite_cut (ks : list E) f k c : mainf f = Some c -> ks <> [] ->
    mainf (mrun f (firstn k (TmpOpenTrunc :: tmp_writes false 0 (map line ks) ++ [Rename]))) =
    if 2 + length ks <=? k then Some (file_of ks) else Some c.
  Proof.
    intros H _. remember (tmp_writes false 0 (map line ks)) as W eqn:HW.
    assert (LW : length W = length ks) by (subst W; rewrite tmp_writes_length, map_length; reflexivity).
    destruct (Nat.leb_spec (2 + length ks) k) as [Hk|Hk].
    - rewrite firstn_all2 by (simpl; rewrite app_length; simpl; lia).
      subst W. rewrite rewrite_full. reflexivity.
    - replace (firstn k (TmpOpenTrunc :: W ++ [Rename])) with (firstn k (TmpOpenTrunc :: W)).
      + rewrite main_tmp_only; [exact H|]. apply forallb_firstn. simpl. subst W. apply tmp_writes_only.
      + change (TmpOpenTrunc :: W ++ [Rename]) with ((TmpOpenTrunc :: W) ++ [Rename]).
        rewrite firstn_app. replace (k - length (TmpOpenTrunc :: W)) with 0 by (simpl; lia).
        simpl. rewrite app_nil_r. reflexivity.
  Qed.

  Lemma remove_len f m r : WF f m -> length (remove_ops (mainf f) r) = snd (abs_remove r m).
  Proof.
    unfold SegmetaProto.WF. intros H. rewrite H. destruct m as [es|]; simpl; [|reflexivity].
    unfold SegmetaProto.remove_ops, remove_ops_gen. rewrite read_file_of.
    destruct (found r es); simpl; [|reflexivity].
    destruct (filter (keepb r) es) as [|e l] eqn:F; [reflexivity|].
    simpl. rewrite app_length, tmp_writes_length. simpl. rewrite map_length. lia.
  Qed.

  (* one removal, interrupted after k calls: all or nothing, whatever the temporary file held *)
  Lemma remove_step f m r k : WF f m ->
    WF (mrun f (firstn k (remove_ops (mainf f) r))) (let '(m', n) := abs_remove r m in if n <=? k then m' else m).
  Proof.
    unfold SegmetaProto.WF. intros H. rewrite H. destruct m as [es|]; simpl.
    2:{ rewrite firstn_nil. simpl. exact H. }
    unfold SegmetaProto.remove_ops, remove_ops_gen. rewrite read_file_of.
    destruct (found r es); simpl.
    2:{ rewrite firstn_nil. simpl. exact H. }
    destruct (filter (keepb r) es) as [|e l] eqn:F.
    - destruct k as [|k]; simpl; [exact H|]. rewrite firstn_nil. reflexivity.
    - pose proof (rewrite_cut (e :: l) f k _ H ltac:(discriminate)) as Q.
      etransitivity; [exact Q|].
      change (S (S (S (length l)))) with (2 + length (e :: l)).
      destruct (2 + length (e :: l) <=? k); reflexivity.
  Qed.

  Lemma remove_full f m r : WF f m -> WF (mrun f (remove_ops (mainf f) r)) (fst (abs_remove r m)).
  Proof.
    intros H. pose proof (remove_step f m r (length (remove_ops (mainf f) r)) H) as S.
    rewrite firstn_all in S. rewrite (remove_len f m r H) in S.
    destruct (abs_remove r m) as [m' n]. simpl in *. rewrite Nat.leb_refl in S. exact S.
  Qed.

  Lemma add_step f m es k : WF f m -> WF (mrun f (firstn k (add_ops E enc es))) (expect_add E m es k).
  Proof.
    unfold SegmetaProto.WF. intros H. destruct es as [|e es]; simpl.
    - rewrite firstn_nil. exact H.
    - destruct k as [|[|k]]; simpl.
      + exact H.
      + rewrite H. destruct m; reflexivity.
      + rewrite firstn_nil. simpl. rewrite H. f_equal.
        change (SegmetaProto.line E enc e ++ SegmetaProto.file_of E enc es) with (file_of (e :: es)).
        rewrite file_of_app. destruct m; reflexivity.
  Qed.

  Lemma act_step f m a k : WF f m -> WF (mrun f (firstn k (act_ops f a))) (expect_act m a k).
  Proof.
    intros H. destruct a as [r|es|e].
    - apply remove_step. exact H.
    - apply add_step. exact H.
    - unfold SegmetaProto.act_ops, act_ops_gen, SegmetaProto.expect_act.
      change (remove_ops_gen E parse enc key vt true false) with remove_ops.
      pose proof (remove_len f m (RmKeys [key e]) H) as L.
      pose proof (remove_step f m (RmKeys [key e]) k H) as S.
      destruct (abs_remove (RmKeys [key e]) m) as [m' n] eqn:A. simpl in L.
      rewrite firstn_app, mrun_app, L.
      destruct (Nat.ltb_spec k n) as [Hk|Hk].
      + replace (k - n) with 0 by lia. simpl.
        destruct (Nat.leb_spec n k); [lia|]. exact S.
      + destruct (Nat.leb_spec n k); [|lia].
        apply add_step. exact S.
  Qed.

  (* ANY number of generations, each rewrite cut anywhere, ANY temporary file at the start *)
  Theorem gens_exact gs : forall f m, WF f m -> WF (run_gens f gs) (spec_gens m gs).
  Proof.
    induction gs as [|[a k] gs IH]; simpl; intros f m H; [exact H|].
    apply IH. apply act_step. exact H.
  Qed.

  Lemma read_WF f m : WF f m -> read_main f = dflt [] m.
  Proof.
    unfold SegmetaProto.WF, SegmetaProto.read_main. intros ->. destruct m; simpl; [apply read_file_of|reflexivity].
  Qed.

  Theorem gens_read gs f m : WF f m -> read_main (run_gens f gs) = dflt [] (spec_gens m gs).
  Proof. intros H. apply read_WF. apply gens_exact. exact H. Qed.

  (* leftovers are never reused: what a restart loads does not depend on the temporary file the first process found *)
  Theorem tmp_irrelevant gs c t1 t2 m : c = option_map file_of m ->
    read_main (run_gens {| mainf := c; tmpf := t1 |} gs) = read_main (run_gens {| mainf := c; tmpf := t2 |} gs).
  Proof. intros ->. rewrite (gens_read gs _ m), (gens_read gs _ m); reflexivity. Qed.

  (* the two-generation statement spelled out: a removal dies before its last call, the server restarts (nothing
     changed), a second removal runs to its end *)
  Theorem rewrite_after_interrupted_rewrite es t r1 k1 r2 :
    let f0 := {| mainf := Some (file_of es); tmpf := t |} in
    k1 < snd (abs_remove r1 (Some es)) ->
    let f1 := mrun f0 (firstn k1 (remove_ops (mainf f0) r1)) in
    let f2 := mrun f1 (remove_ops (mainf f1) r2) in
    read_main f1 = es /\
    read_main f2 = (if found r2 es then filter (keepb r2) es else es).
  Proof.
    intros f0 Hk f1 f2.
    assert (W0 : WF f0 (Some es)) by reflexivity.
    pose proof (remove_step f0 (Some es) r1 k1 W0) as W1. fold f1 in W1.
    destruct (abs_remove r1 (Some es)) as [m1 n1] eqn:A1. simpl in Hk.
    destruct (Nat.leb_spec n1 k1); [lia|].
    split; [apply (read_WF f1 (Some es) W1)|].
    pose proof (remove_full f1 (Some es) r2 W1) as W2. fold f2 in W2.
    rewrite (read_WF f2 _ W2). simpl.
    destruct (found r2 es); simpl; [|reflexivity].
    destruct (filter (keepb r2) es); reflexivity.
  Qed.

  (* no deleted entry comes back, no live entry disappears *)
  Theorem no_resurrected_no_lost_entry es t r1 k1 r2 :
    let f0 := {| mainf := Some (file_of es); tmpf := t |} in
    k1 < snd (abs_remove r1 (Some es)) ->
    let f1 := mrun f0 (firstn k1 (remove_ops (mainf f0) r1)) in
    let f2 := mrun f1 (remove_ops (mainf f1) r2) in
    forall e, In e (read_main f2) <-> (In e es /\ (found r2 es = true -> targeted r2 e = false)).
  Proof.
    intros f0 Hk f1 f2 e.
    destruct (rewrite_after_interrupted_rewrite es t r1 k1 r2 Hk) as [_ R]. fold f0 f1 f2 in R. rewrite R.
    destruct (found r2 es).
    - rewrite filter_In. unfold SegmetaProto.keepb. rewrite negb_true_iff. tauto.
    - split; [intros; split; [assumption|discriminate]|tauto].
  Qed.
End P.

(* ---- the variants that reuse a temporary file found on disk, on a concrete one-byte encoding "{d}" ---- *)
Theorem reuse_tmp_refuted :
  let rd := SegmetaProto.read_main nat parse_d in
  let es := [1; 2; 3; 4; 5] in
  let main := Some (file_of nat enc_d es) in
  (* (a) crash at call boundaries only: the cleaner drops segment 1 and dies after open + the first write; after the
     restart it drops 1 and 2.  O_APPEND instead of O_TRUNC: entry 2 is back *)
  rd (run_gens_gen nat parse_d enc_d id (fun _ => 0) false true {| mainf := main; tmpf := None |}
        [(Remove nat (RmKeys [1]), 2); (Remove nat (RmKeys [1; 2]), 100)]) = [2; 3; 4; 5] /\
  (* (b) a torn line in the temporary file (short write): entry 2 is back AND the live entry 3 is swallowed *)
  rd (mrun {| mainf := main; tmpf := Some (enc_d 2 ++ [10; 123; 51]%N) |}
        (remove_ops_gen nat parse_d enc_d id (fun _ => 0) false true main (RmKeys [1; 2]))) = [2; 4; 5] /\
  (* (c) no O_TRUNC and no O_APPEND: the new lines overwrite the beginning, the old tail stays *)
  rd (run_gens_gen nat parse_d enc_d id (fun _ => 0) false false {| mainf := main; tmpf := None |}
        [(Remove nat (RmKeys [1]), 5); (Remove nat (RmKeys [1; 2; 3]), 100)]) = [4; 5; 4; 5] /\
  (* the code (O_TRUNC) on the same three inputs *)
  rd (run_gens nat parse_d enc_d id (fun _ => 0) {| mainf := main; tmpf := None |}
        [(Remove nat (RmKeys [1]), 2); (Remove nat (RmKeys [1; 2]), 100)]) = [3; 4; 5] /\
  rd (mrun {| mainf := main; tmpf := Some (enc_d 2 ++ [10; 123; 51]%N) |}
        (remove_ops nat parse_d enc_d id (fun _ => 0) main (RmKeys [1; 2]))) = [3; 4; 5] /\
  rd (run_gens nat parse_d enc_d id (fun _ => 0) {| mainf := main; tmpf := None |}
        [(Remove nat (RmKeys [1]), 5); (Remove nat (RmKeys [1; 2; 3]), 100)]) = [4; 5].
Proof. vm_compute. repeat split; reflexivity. Qed.

(* the hypotheses of the section hold for this encoding (the theorems are not vacuous) *)
Lemma enc_d_nl : forall e, ~ In 10%N (enc_d e).
Proof. intros e. unfold enc_d, In. intros [X|[X|[X|[]]]]; try discriminate. lia. Qed.
Lemma parse_enc_d : forall e, parse_d (drop_cr (enc_d e)) = Some e.
Proof.
  intros e. unfold enc_d, parse_d, drop_cr.
  change (N.eqb 125 13) with false. cbv beta iota. rewrite Nat2N.id.
  change (N.eqb 123 123 && N.eqb 125 125) with true. cbv beta iota. f_equal. lia.
Qed.

(* SortCmdProofs.v — proofs about the `sort` command model (SigM.SortCmd). *)
From Coq Require Import List Arith NArith ZArith Lia Bool Sorting.Sorted Sorting.Permutation.
From Coq Require Import ZifyN ZifyNat ZifyBool.
From SigM Require Import Base SortCmd.
From SigP Require Import BaseProofs.
Import ListNotations.

(* ------------------------------------------------------------------ *)
(* generic part                                                        *)
(* ------------------------------------------------------------------ *)
Section GENP.
  Context {A : Type}.
  Variable less : A -> A -> bool.

  Lemma merge_nil_l b : merge less [] b = b.
  Proof. destruct b; reflexivity. Qed.
  Lemma merge_nil_r a : merge less a [] = a.
  Proof. destruct a; reflexivity. Qed.
  Lemma merge_cons x a y b :
    merge less (x :: a) (y :: b) =
    if less y x then y :: merge less (x :: a) b else x :: merge less a (y :: b).
  Proof. reflexivity. Qed.

  Opaque merge.

  Lemma ins_perm x l : Permutation (ins less x l) (x :: l).
  Proof.
    induction l as [|y r IH]; simpl; auto.
    destruct (less y x); auto.
    rewrite IH. apply perm_swap.
  Qed.

  Lemma sort_perm l : Permutation (sort_by less l) l.
  Proof. induction l as [|x r IH]; simpl; auto. rewrite ins_perm. auto. Qed.

  Lemma merge_perm a : forall b, Permutation (merge less a b) (a ++ b).
  Proof.
    induction a as [|x a IHa]; intros b.
    - rewrite merge_nil_l. reflexivity.
    - induction b as [|y b IHb].
      + rewrite merge_nil_r, app_nil_r. reflexivity.
      + rewrite merge_cons. destruct (less y x).
        * rewrite IHb. apply (Permutation_middle (x :: a) b y).
        * rewrite IHa. reflexivity.
  Qed.

  Lemma merge_single x b : merge less [x] b = ins less x b.
  Proof.
    induction b as [|y b IH]; [reflexivity|].
    rewrite merge_cons. simpl ins. destruct (less y x).
    - rewrite IH. reflexivity.
    - rewrite merge_nil_l. reflexivity.
  Qed.

  (* the first k elements of a merge depend only on the first k elements of each input *)
  Lemma firstn_merge_l k : forall j a b, (k <= j)%nat ->
    firstn k (merge less (firstn j a) b) = firstn k (merge less a b).
  Proof.
    induction k as [|k IH]; intros j a b Hj; [reflexivity|].
    destruct j as [|j]; [lia|].
    destruct a as [|x a]; [reflexivity|].
    simpl firstn at 2.
    induction b as [|y b IHb].
    - rewrite !merge_nil_r. simpl. f_equal.
      rewrite <- (merge_nil_r (firstn j a)), <- (merge_nil_r a) at 1.
      rewrite !merge_nil_r. rewrite firstn_firstn. f_equal. lia.
    - rewrite !merge_cons. destruct (less y x).
      + simpl. f_equal.
        change (x :: firstn j a) with (firstn (S j) (x :: a)).
        apply IH. lia.
      + simpl. f_equal. apply IH. lia.
  Qed.

  Lemma firstn_merge_r k : forall j a b, (k <= j)%nat ->
    firstn k (merge less a (firstn j b)) = firstn k (merge less a b).
  Proof.
    induction k as [|k IH]; intros j a b Hj; [reflexivity|].
    destruct j as [|j]; [lia|].
    destruct b as [|y b]; [reflexivity|].
    simpl firstn at 2.
    induction a as [|x a IHa].
    - rewrite !merge_nil_l. simpl. f_equal. rewrite firstn_firstn. f_equal. lia.
    - rewrite !merge_cons. destruct (less y x).
      + simpl. f_equal. apply IH. lia.
      + simpl. f_equal.
        change (y :: firstn j b) with (firstn (S j) (y :: b)).
        apply IH. lia.
  Qed.

  (* a strict weak order on the elements satisfying P *)
  Variable P : A -> Prop.
  Definition swo_on : Prop :=
    (forall a, P a -> less a a = false) /\
    (forall a b c, P a -> P b -> P c -> less a b = true -> less b c = true -> less a c = true) /\
    (forall a b c, P a -> P b -> P c -> less a c = true -> less a b = true \/ less b c = true).

  Definition sorted_less (l : list A) : Prop :=
    StronglySorted (fun a b => less b a = false) l.

  Lemma Forall_ins x l : P x -> Forall P l -> Forall P (ins less x l).
  Proof. intros. eapply Permutation_Forall; [symmetry; apply ins_perm|]. auto. Qed.
  Lemma Forall_sort l : Forall P l -> Forall P (sort_by less l).
  Proof. intros. eapply Permutation_Forall; [symmetry; apply sort_perm|]. auto. Qed.

  Hypothesis Hswo : swo_on.

  Lemma less_asym a b : P a -> P b -> less a b = true -> less b a = false.
  Proof.
    destruct Hswo as (Hi & Ht & _). intros Pa Pb H.
    destruct (less b a) eqn:E; auto.
    pose proof (Ht a b a Pa Pb Pa H E) as C. rewrite (Hi a Pa) in C. discriminate.
  Qed.

  Lemma ins_sorted x l : P x -> Forall P l -> sorted_less l -> sorted_less (ins less x l).
  Proof.
    destruct Hswo as (Hi & Ht & Hn).
    intros Px HP Hs. induction Hs as [|y r Hs IH Hall]; simpl.
    - constructor; constructor.
    - inversion HP as [|? ? Py HPr]; subst.
      destruct (less y x) eqn:E.
      + constructor; [apply IH; assumption|].
        eapply Permutation_Forall; [symmetry; apply ins_perm|].
        constructor; [|assumption]. apply less_asym; assumption.
      + constructor; [constructor; assumption|].
        constructor; [assumption|].
        rewrite Forall_forall in *. intros z Hz.
        destruct (less z x) eqn:Ez; auto.
        destruct (Hn z y x (HPr z Hz) Py Px Ez) as [C|C].
        * rewrite (Hall z Hz) in C. discriminate.
        * rewrite E in C. discriminate.
  Qed.

  Lemma sort_sorted l : Forall P l -> sorted_less (sort_by less l).
  Proof.
    induction 1 as [|x l Px HP IH]; simpl; [constructor|].
    apply ins_sorted; auto. apply Forall_sort. assumption.
  Qed.

  (* inserting an earlier element commutes with merging: no sortedness needed *)
  Lemma ins_merge x a : forall b, P x -> Forall P a -> Forall P b ->
    ins less x (merge less a b) = merge less (ins less x a) b.
  Proof.
    destruct Hswo as (Hi & Ht & Hn).
    induction a as [|u a IHa]; intros b Px Pa Pb.
    - rewrite merge_nil_l. simpl. symmetry. apply merge_single.
    - inversion Pa as [|? ? Pu Pa']; subst.
      induction Pb as [|v b Pv Pb IHb].
      + rewrite !merge_nil_r. reflexivity.
      + rewrite merge_cons. simpl ins at 2.
        destruct (less u x) eqn:Eux.
        * (* u < x *)
          rewrite merge_cons. destruct (less v u) eqn:Evu.
          -- simpl ins. rewrite (Ht v u x Pv Pu Px Evu Eux).
             f_equal. rewrite IHb. simpl ins. rewrite Eux. reflexivity.
          -- simpl ins. rewrite Eux. f_equal. apply IHa; auto.
        * (* x <= u *)
          rewrite merge_cons. destruct (less v u) eqn:Evu.
          -- simpl ins. destruct (less v x) eqn:Evx.
             ++ f_equal. rewrite IHb. simpl ins. rewrite Eux. reflexivity.
             ++ f_equal. rewrite merge_cons, Evu. reflexivity.
          -- simpl ins. rewrite Eux.
             assert (Evx : less v x = false).
             { destruct (less v x) eqn:E; auto.
               destruct (Hn v u x Pv Pu Px E) as [C|C]; congruence. }
             rewrite Evx. f_equal. rewrite merge_cons, Evu. reflexivity.
  Qed.

  (* merging two sorted batches = sorting their concatenation *)
  Lemma merge_sort a b : Forall P a -> Forall P b ->
    merge less (sort_by less a) (sort_by less b) = sort_by less (a ++ b).
  Proof.
    intros Pa Pb. induction Pa as [|x a Px Pa IH]; simpl.
    - apply merge_nil_l.
    - rewrite <- IH. symmetry. apply ins_merge; auto; apply Forall_sort; auto.
  Qed.

  Lemma firstn_sort_batch limit b :
    firstn limit (sort_batch less limit b) = firstn limit (sort_by less b).
  Proof.
    unfold sort_batch. destruct (Nat.leb limit topn_threshold); auto.
    rewrite firstn_firstn. f_equal. lia.
  Qed.

  Lemma fold_sort_step limit : forall batches done,
    Forall (Forall P) batches -> Forall P done ->
    fold_left (sort_step less limit) batches (Some (firstn limit (sort_by less done))) =
    Some (firstn limit (sort_by less (done ++ concat batches))).
  Proof.
    induction batches as [|b bs IH]; intros done HB HD; simpl.
    - rewrite app_nil_r. reflexivity.
    - inversion HB as [|? ? Hb HBs]; subst.
      unfold discard_after.
      rewrite <- (firstn_merge_r limit limit) by lia.
      rewrite firstn_sort_batch.
      rewrite (firstn_merge_r limit limit) by lia.
      rewrite (firstn_merge_l limit limit) by lia.
      rewrite merge_sort by assumption.
      rewrite IH; auto.
      + rewrite <- app_assoc. reflexivity.
      + apply Forall_app. split; assumption.
  Qed.

  (* sortProcessor over any batching = the first `limit` of the sorted whole *)
  Theorem sort_topk_streaming limit batches :
    Forall (Forall P) batches ->
    process less limit batches = firstn limit (sort_by less (concat batches)).
  Proof.
    intros HB. unfold process. destruct batches as [|b bs]; simpl.
    - destruct limit; reflexivity.
    - inversion HB as [|? ? Hb HBs]; subst.
      unfold discard_after. rewrite firstn_sort_batch.
      rewrite fold_sort_step; auto.
  Qed.

  Lemma sorted_firstn k l : sorted_less l -> sorted_less (firstn k l).
  Proof.
    revert l; induction k as [|k IH]; intros l Hs; simpl; [constructor|].
    destruct l as [|x l]; [constructor|].
    inversion Hs as [|? ? Hs' Hall]; subst.
    constructor; [apply IH; assumption|].
    rewrite Forall_forall in *. intros y Hy. apply Hall.
    rewrite <- (firstn_skipn k l). apply in_or_app. auto.
  Qed.

  (* adjacent results never out of order, and nothing outside the limit is better *)
  Corollary process_sorted limit batches :
    Forall (Forall P) batches -> sorted_less (process less limit batches).
  Proof.
    intros HB. rewrite sort_topk_streaming by assumption.
    apply sorted_firstn, sort_sorted.
    clear -HB. induction HB; simpl; auto. apply Forall_app. split; auto.
  Qed.
End GENP.

(* ------------------------------------------------------------------ *)
(* head, scroll, paging                                                *)
(* ------------------------------------------------------------------ *)
Section HEADP.
  Context {A : Type}.

  Lemma head_process_spec limit : forall (batches : list (list A)) sent, (sent <= limit)%nat ->
    head_process limit sent batches = firstn (limit - sent) (concat batches).
  Proof.
    induction batches as [|b r IH]; intros sent Hs; simpl.
    - rewrite firstn_nil. reflexivity.
    - rewrite firstn_app.
      destruct (Nat.leb_spec limit (sent + length (firstn (limit - sent) b))) as [H|H].
      + rewrite firstn_length in H.
        assert (limit - sent - length b = 0)%nat as -> by lia.
        rewrite firstn_O, app_nil_r. reflexivity.
      + rewrite firstn_length in *. f_equal.
        rewrite IH by lia. f_equal. lia.
  Qed.

  (* `head n` yields exactly the first n records of its input stream, for any batching *)
  Theorem head_prefix n (batches : list (list A)) :
    head_process n 0 batches = firstn n (concat batches).
  Proof. rewrite head_process_spec by lia. f_equal. lia. Qed.

  Lemma scroll_zero (batches : list (list A)) : scroll_process 0 batches = concat batches.
  Proof. induction batches as [|b r IH]; simpl; auto. rewrite IH. reflexivity. Qed.

  Theorem scroll_spec : forall (batches : list (list A)) from,
    scroll_process from batches = skipn from (concat batches).
  Proof.
    induction batches as [|b r IH]; intros from; simpl.
    - rewrite skipn_nil. reflexivity.
    - destruct (Nat.eqb_spec from 0) as [->|Hne].
      + rewrite scroll_zero. reflexivity.
      + rewrite skipn_app. destruct (Nat.ltb_spec from (length b)) as [H|H].
        * rewrite scroll_zero. assert (from - length b = 0)%nat as -> by lia. reflexivity.
        * rewrite IH. rewrite (skipn_all2 b) by lia. reflexivity.
  Qed.

  Lemma page_spec from size (l : list A) : page from size l = firstn size (skipn from l).
  Proof.
    unfold page. revert l. induction from as [|f IH]; intros l; simpl; auto.
    destruct l; simpl; auto. rewrite firstn_nil. reflexivity.
  Qed.

  Lemma skipn_skipn' a : forall b (l : list A), skipn a (skipn b l) = skipn (b + a) l.
  Proof.
    induction b as [|b IH]; intros l; simpl; auto.
    destruct l; simpl; auto. apply skipn_nil.
  Qed.

  Lemma pages_concat_from k : (0 < k)%nat -> forall np from (l : list A),
    (length l <= from + np * k)%nat ->
    concat (map (fun f => page f k l) (page_starts k np from)) = skipn from l.
  Proof.
    intros Hk. induction np as [|np IH]; intros from l Hl; simpl.
    - rewrite skipn_all2 by lia. reflexivity.
    - rewrite IH by lia. rewrite page_spec.
      etransitivity; [|apply (firstn_skipn k (skipn from l))].
      f_equal. rewrite skipn_skipn'. reflexivity.
  Qed.

  (* paging through a static result with from = 0, k, 2k, … returns every record exactly once, in order *)
  Theorem pages_concat k np (l : list A) : (0 < k)%nat -> (length l <= np * k)%nat ->
    concat (map (fun f => page f k l) (page_starts k np 0)) = l.
  Proof. intros Hk Hl. rewrite pages_concat_from; auto. Qed.

  (* and pages past the end are empty *)
  Lemma page_past_end from size (l : list A) : (length l <= from)%nat -> page from size l = [].
  Proof. intros. rewrite page_spec, skipn_all2 by lia. apply firstn_nil. Qed.
End HEADP.

(* tail n: the last n records of the stream, reversed *)
Section TAILP.
  Context {A : Type}.
  Definition last_n (n : nat) (l : list A) : list A := skipn (length l - n) l.

  Lemma tail_step_spec n (done b : list A) :
    tail_step n (Some (last_n n done)) b = Some (last_n n (done ++ b)).
  Proof.
    unfold tail_step, last_n. rewrite app_length.
    destruct (Nat.leb_spec n (length b)) as [H|H]; f_equal.
    - rewrite skipn_app. rewrite (skipn_all2 done) by lia. simpl. f_equal. lia.
    - rewrite skipn_app. replace (length done + length b - n - length done)%nat with 0%nat by lia.
      simpl. f_equal. rewrite skipn_length. rewrite skipn_skipn'. f_equal. lia.
  Qed.

  Theorem tail_spec n (batches : list (list A)) :
    tail_process n batches = rev (last_n n (concat batches)).
  Proof.
    unfold tail_process. destruct batches as [|b bs]; [reflexivity|]. simpl.
    assert (H : forall bs done, fold_left (tail_step n) bs (Some (last_n n done)) = Some (last_n n (done ++ concat bs))).
    { induction bs0 as [|c cs IH]; intros done; cbn [fold_left concat]; [rewrite app_nil_r; reflexivity|].
      rewrite tail_step_spec, IH, <- app_assoc. reflexivity. }
    change (Some (skipn (length b - n) b)) with (Some (last_n n b)).
    rewrite H. reflexivity.
  Qed.
End TAILP.

(* ------------------------------------------------------------------ *)
(* the comparator of `sort`                                            *)
(* ------------------------------------------------------------------ *)
Definition opp (c : cmp) : cmp := match c with LESS => GREATER | GREATER => LESS | EQUAL => EQUAL end.

(* a three-way comparison that is a total preorder *)
Record ord3 {A} (c : A -> A -> cmp) : Prop := {
  o_refl : forall a, c a a = EQUAL;
  o_anti : forall a b, c b a = opp (c a b);
  o_trans : forall a b d, c a b = LESS -> c b d = LESS -> c a d = LESS;
  o_neg : forall a b d, c a d = LESS -> c a b = LESS \/ c b d = LESS
}.

Lemma ord3_flip {A} (c : A -> A -> cmp) asc : ord3 c -> ord3 (fun a b => flip asc (c a b)).
Proof.
  intros [R An T Ng]. destruct asc; simpl; [constructor; auto|].
  constructor.
  - intros a. rewrite R. reflexivity.
  - intros a b. rewrite (An a b). destruct (c a b); reflexivity.
  - intros a b d H1 H2.
    assert (c b a = LESS) by (rewrite An; destruct (c a b); simpl in *; congruence).
    assert (c d b = LESS) by (rewrite An; destruct (c b d); simpl in *; congruence).
    pose proof (T d b a H0 H) as H3. rewrite (An d a), H3. reflexivity.
  - intros a b d H1.
    assert (c d a = LESS) by (rewrite An; destruct (c a d); simpl in *; congruence).
    destruct (Ng d b a H) as [H2|H2].
    + right. rewrite (An d b), H2. reflexivity.
    + left. rewrite (An b a), H2. reflexivity.
Qed.

Lemma ord3_float : ord3 (compare_float 0).
Proof.
  constructor; unfold compare_float; intros.
  - rewrite Z.eqb_refl, orb_true_r. reflexivity.
  - destruct (Z.ltb_spec (Z.abs (a - b)) 0), (Z.eqb_spec a b), (Z.ltb_spec a b),
      (Z.ltb_spec (Z.abs (b - a)) 0), (Z.eqb_spec b a), (Z.ltb_spec b a); simpl; try reflexivity; lia.
  - destruct (Z.ltb_spec (Z.abs (a - b)) 0), (Z.eqb_spec a b), (Z.ltb_spec a b),
      (Z.ltb_spec (Z.abs (b - d)) 0), (Z.eqb_spec b d), (Z.ltb_spec b d); simpl in *; try discriminate; try lia;
    destruct (Z.ltb_spec (Z.abs (a - d)) 0), (Z.eqb_spec a d), (Z.ltb_spec a d); simpl; try reflexivity; lia.
  - destruct (Z.ltb_spec (Z.abs (a - d)) 0), (Z.eqb_spec a d), (Z.ltb_spec a d); simpl in *; try discriminate; try lia;
    destruct (Z.ltb_spec (Z.abs (a - b)) 0), (Z.eqb_spec a b), (Z.ltb_spec a b); simpl; auto; try lia;
    destruct (Z.ltb_spec (Z.abs (b - d)) 0), (Z.eqb_spec b d), (Z.ltb_spec b d); simpl; auto; lia.
Qed.

Lemma list_eqb_N a : forall b, list_eqb N.eqb a b = true <-> a = b.
Proof.
  induction a as [|x a IH]; destruct b as [|y b]; simpl; split; intros H; try congruence; try discriminate.
  - apply andb_true_iff in H as [H1 H2]. apply N.eqb_eq in H1. apply IH in H2. congruence.
  - injection H as -> ->. rewrite N.eqb_refl. simpl. apply IH. reflexivity.
Qed.

Lemma lex_cmp_eq a : forall b, lex_cmp a b = EQUAL <-> a = b.
Proof.
  induction a as [|x a IH]; destruct b as [|y b]; simpl; split; intros H; try congruence; try discriminate.
  - destruct (N.ltb_spec x y); [discriminate|]. destruct (N.ltb_spec y x); [discriminate|].
    apply IH in H. f_equal; [lia|assumption].
  - injection H as -> ->. rewrite N.ltb_irrefl. apply IH. reflexivity.
Qed.

Lemma compare_string_lex a : forall b, compare_string a b = lex_cmp a b.
Proof.
  unfold compare_string. induction a as [|x a IH]; destruct b as [|y b]; simpl; try reflexivity.
  specialize (IH b).
  destruct (N.eqb_spec x y) as [->|Hne]; simpl.
  - rewrite N.ltb_irrefl. destruct (list_eqb N.eqb a b); assumption.
  - destruct (N.ltb_spec x y); [reflexivity|]. destruct (N.ltb_spec y x); [reflexivity|]. lia.
Qed.

Lemma ord3_lex : ord3 lex_cmp.
Proof.
  constructor.
  - intros a. apply lex_cmp_eq. reflexivity.
  - induction a as [|x a IH]; destruct b as [|y b]; simpl; try reflexivity.
    destruct (N.ltb_spec x y), (N.ltb_spec y x); simpl; try reflexivity; try lia. apply IH.
  - induction a as [|x a IH]; destruct b as [|y b]; destruct d as [|z d]; simpl; try discriminate; auto.
    destruct (N.ltb_spec x y), (N.ltb_spec y x), (N.ltb_spec y z), (N.ltb_spec z y),
      (N.ltb_spec x z), (N.ltb_spec z x); simpl; try discriminate; auto; try lia; try apply IH.
  - induction a as [|x a IH]; destruct b as [|y b]; destruct d as [|z d]; simpl; try discriminate; auto.
    destruct (N.ltb_spec x y), (N.ltb_spec y x), (N.ltb_spec y z), (N.ltb_spec z y),
      (N.ltb_spec x z), (N.ltb_spec z x); simpl; try discriminate; auto; try lia; try apply IH.
Qed.

Lemma ord3_string : ord3 compare_string.
Proof.
  destruct ord3_lex as [R An T Ng].
  constructor; intros; rewrite ?compare_string_lex in *; eauto.
Qed.

(* The comparator WITHOUT the integer fast path: every pair of numeric rank goes through
   GetFloatValueIfPossible / compareFloat.  compare_values differs from it only when both
   values are integer-typed (bridging lemmas below); the order-theoretic facts are proved
   for this float path first. *)
Definition compare_values_f (tol : Z) (a b : value) (asc : bool) (op : sop) : cmp :=
  let ra := get_rank a op in
  let rb := get_rank b op in
  match ra, rb with
  | ROther, ROther => EQUAL
  | ROther, _ => GREATER
  | _, ROther => LESS
  | _, _ =>
    if Nat.ltb (rank_n ra) (rank_n rb) then flip asc LESS
    else if Nat.ltb (rank_n rb) (rank_n ra) then flip asc GREATER
    else match ra with
         | RNumeric =>
           match num_of a, num_of b with
           | None, _ => GREATER
           | _, None => LESS
           | Some x, Some y => flip asc (compare_float tol x y)
           end
         | RString =>
           match str_of a, str_of b with
           | None, _ => GREATER
           | _, None => LESS
           | Some x, Some y => flip asc (compare_string x y)
           end
         | ROther => flip asc LESS
         end
  end.

Fixpoint less_keys_f (tol : Z) (eles : list sort_ele) (a b : list value) : bool :=
  match eles, a, b with
  | (asc, op) :: er, va :: ar, vb :: br =>
    match compare_values_f tol va vb asc op with
    | EQUAL => less_keys_f tol er ar br
    | LESS => true
    | GREATER => false
    end
  | _, _, _ => false
  end.
Definition less_f_real := less_keys_f tolerance.
Definition less_f_exact := less_keys_f 0%Z.

(* position class of a value under (asc, op): values of a lower class come first *)
Definition vclass (asc : bool) (op : sop) (v : value) : nat :=
  match get_rank v op with
  | ROther => 2
  | RNumeric => if asc then 0 else 1
  | RString => if asc then 1 else 0
  end.

Definition inner (asc : bool) (op : sop) (a b : value) : cmp :=
  match get_rank a op with
  | ROther => EQUAL
  | RNumeric => match num_of a, num_of b with
                | Some x, Some y => flip asc (compare_float 0 x y)
                | _, _ => EQUAL
                end
  | RString => match str_of a, str_of b with
               | Some x, Some y => flip asc (compare_string x y)
               | _, _ => EQUAL
               end
  end.

Lemma compare_values_f_class asc op a b :
  compare_values_f 0 a b asc op =
  if Nat.ltb (vclass asc op a) (vclass asc op b) then LESS
  else if Nat.ltb (vclass asc op b) (vclass asc op a) then GREATER
  else inner asc op a b.
Proof.
  destruct a as [x rx|ua ba rx|[x|] sx|], b as [y ry|ub bb ry|[y|] sy|], op, asc; reflexivity.
Qed.

Lemma rank_num_of a op : get_rank a op = RNumeric -> exists x, num_of a = Some x.
Proof. destruct a as [x rx|ua ba rx|[x|] sx|], op; simpl; intros; try discriminate; eauto. Qed.
Lemma rank_str_of a op : get_rank a op = RString -> exists x, str_of a = Some x.
Proof. destruct a as [x rx|ua ba rx|[x|] sx|], op; simpl; intros; try discriminate; eauto. Qed.

Lemma vclass_rank asc op a b : vclass asc op a = vclass asc op b -> get_rank a op = get_rank b op.
Proof. unfold vclass. destruct (get_rank a op), (get_rank b op), asc; simpl; congruence. Qed.

Lemma ord3_values asc op : ord3 (fun a b => compare_values_f 0 a b asc op).
Proof.
  pose proof (ord3_flip _ asc ord3_float) as [Rf Af Tf Nf].
  pose proof (ord3_flip _ asc ord3_string) as [Rs As Ts Ns].
  assert (Hin : forall a b, vclass asc op a = vclass asc op b ->
            inner asc op a b = match get_rank a op with
                               | ROther => EQUAL
                               | RNumeric => match num_of a, num_of b with Some x, Some y => flip asc (compare_float 0 x y) | _, _ => EQUAL end
                               | RString => match str_of a, str_of b with Some x, Some y => flip asc (compare_string x y) | _, _ => EQUAL end
                               end) by reflexivity.
  constructor.
  - intros a. rewrite compare_values_f_class. rewrite Nat.ltb_irrefl. unfold inner.
    destruct (get_rank a op) eqn:E; auto.
    + destruct (rank_num_of _ _ E) as [x ->]. apply Rf.
    + destruct (rank_str_of _ _ E) as [x ->]. apply Rs.
  - intros a b. rewrite !compare_values_f_class.
    destruct (Nat.ltb_spec (vclass asc op a) (vclass asc op b)), (Nat.ltb_spec (vclass asc op b) (vclass asc op a));
      simpl; try reflexivity; try lia.
    assert (Hc : vclass asc op a = vclass asc op b) by lia.
    pose proof (vclass_rank _ _ _ _ Hc) as Hr. unfold inner. rewrite <- Hr.
    destruct (get_rank a op) eqn:E; auto.
    + symmetry in Hr. destruct (rank_num_of a op E) as [x ->]. destruct (rank_num_of b op Hr) as [y ->]. apply Af.
    + symmetry in Hr. destruct (rank_str_of a op E) as [x ->]. destruct (rank_str_of b op Hr) as [y ->]. apply As.
  - intros a b d. rewrite !compare_values_f_class.
    destruct (Nat.ltb_spec (vclass asc op a) (vclass asc op b)), (Nat.ltb_spec (vclass asc op b) (vclass asc op a)),
      (Nat.ltb_spec (vclass asc op b) (vclass asc op d)), (Nat.ltb_spec (vclass asc op d) (vclass asc op b)),
      (Nat.ltb_spec (vclass asc op a) (vclass asc op d)), (Nat.ltb_spec (vclass asc op d) (vclass asc op a));
      simpl; try discriminate; auto; try lia.
    assert (Hab : vclass asc op a = vclass asc op b) by lia.
    assert (Hbd : vclass asc op b = vclass asc op d) by lia.
    pose proof (vclass_rank _ _ _ _ Hab) as Hr1. pose proof (vclass_rank _ _ _ _ Hbd) as Hr2.
    unfold inner. rewrite <- Hr1.
    destruct (get_rank a op) eqn:E; try discriminate.
    + symmetry in Hr1. rewrite Hr1 in Hr2. symmetry in Hr2.
      destruct (rank_num_of a op E) as [x ->]. destruct (rank_num_of b op Hr1) as [y ->].
      destruct (rank_num_of d op Hr2) as [z ->]. apply Tf.
    + symmetry in Hr1. rewrite Hr1 in Hr2. symmetry in Hr2.
      destruct (rank_str_of a op E) as [x ->]. destruct (rank_str_of b op Hr1) as [y ->].
      destruct (rank_str_of d op Hr2) as [z ->]. apply Ts.
  - intros a b d. rewrite !compare_values_f_class.
    destruct (Nat.ltb_spec (vclass asc op a) (vclass asc op b)), (Nat.ltb_spec (vclass asc op b) (vclass asc op a)),
      (Nat.ltb_spec (vclass asc op b) (vclass asc op d)), (Nat.ltb_spec (vclass asc op d) (vclass asc op b)),
      (Nat.ltb_spec (vclass asc op a) (vclass asc op d)), (Nat.ltb_spec (vclass asc op d) (vclass asc op a));
      simpl; try discriminate; auto; try lia.
    assert (Hab : vclass asc op a = vclass asc op b) by lia.
    assert (Hbd : vclass asc op b = vclass asc op d) by lia.
    pose proof (vclass_rank _ _ _ _ Hab) as Hr1. pose proof (vclass_rank _ _ _ _ Hbd) as Hr2.
    unfold inner. rewrite <- Hr1.
    destruct (get_rank a op) eqn:E; try discriminate.
    + symmetry in Hr1. rewrite Hr1 in Hr2. symmetry in Hr2.
      destruct (rank_num_of a op E) as [x ->]. destruct (rank_num_of b op Hr1) as [y ->].
      destruct (rank_num_of d op Hr2) as [z ->]. apply Nf.
    + symmetry in Hr1. rewrite Hr1 in Hr2. symmetry in Hr2.
      destruct (rank_str_of a op E) as [x ->]. destruct (rank_str_of b op Hr1) as [y ->].
      destruct (rank_str_of d op Hr2) as [z ->]. apply Ns.
Qed.

(* consequences of ord3 used by the lexicographic proof *)
Section ORD3.
  Context {A : Type} (c : A -> A -> cmp) (Hc : ord3 c).
  Lemma o_eq_sym a b : c a b = EQUAL -> c b a = EQUAL.
  Proof. intros H. rewrite (o_anti c Hc a b), H. reflexivity. Qed.
  Lemma o_gt_lt a b : c a b = GREATER -> c b a = LESS.
  Proof. intros H. rewrite (o_anti c Hc a b), H. reflexivity. Qed.
  Lemma o_lt_eq a b d : c a b = LESS -> c b d = EQUAL -> c a d = LESS.
  Proof.
    intros H1 H2. destruct (o_neg c Hc a d b H1) as [H|H]; auto.
    apply o_eq_sym in H2. congruence.
  Qed.
  Lemma o_eq_lt a b d : c a b = EQUAL -> c b d = LESS -> c a d = LESS.
  Proof.
    intros H1 H2. destruct (o_neg c Hc b a d H2) as [H|H]; auto.
    apply o_eq_sym in H1. congruence.
  Qed.
  Lemma o_eq_eq a b d : c a b = EQUAL -> c b d = EQUAL -> c a d = EQUAL.
  Proof.
    intros H1 H2. destruct (c a d) eqn:E; auto.
    - destruct (o_neg c Hc a b d E); congruence.
    - apply o_gt_lt in E. apply o_eq_sym in H1. apply o_eq_sym in H2.
      destruct (o_neg c Hc d b a E); congruence.
  Qed.
End ORD3.

(* multi-key comparison with exact numeric equality is a strict weak order on
   records that carry one value per sort element *)
Theorem less_f_exact_swo eles :
  swo_on (less_f_exact eles) (fun r => length r = length eles).
Proof.
  unfold less_f_exact. repeat split.
  - induction eles as [|[asc op] er IH]; intros a Ha; destruct a as [|va ar]; simpl in *; try discriminate; auto.
    rewrite (o_refl _ (ord3_values asc op)). apply IH. lia.
  - induction eles as [|[asc op] er IH]; intros a b d Ha Hb Hd; destruct a as [|va ar], b as [|vb br], d as [|vd dr];
      simpl in *; try discriminate; auto.
    pose proof (ord3_values asc op) as O.
    intros H1 H2.
    destruct (compare_values_f 0 va vb asc op) eqn:E1; try discriminate;
    destruct (compare_values_f 0 vb vd asc op) eqn:E2; try discriminate.
    + rewrite (o_eq_eq _ O _ _ _ E1 E2). apply (IH ar br dr); auto; lia.
    + rewrite (o_eq_lt _ O _ _ _ E1 E2). reflexivity.
    + rewrite (o_lt_eq _ O _ _ _ E1 E2). reflexivity.
    + rewrite (o_trans _ O _ _ _ E1 E2). reflexivity.
  - induction eles as [|[asc op] er IH]; intros a b d Ha Hb Hd; destruct a as [|va ar], b as [|vb br], d as [|vd dr];
      simpl in *; try discriminate; auto.
    pose proof (ord3_values asc op) as O.
    intros H. destruct (compare_values_f 0 va vd asc op) eqn:E; try discriminate.
    + destruct (compare_values_f 0 va vb asc op) eqn:E1; auto.
      * assert (E2 : compare_values_f 0 vb vd asc op = EQUAL).
        { eapply (o_eq_eq _ O); [apply (o_eq_sym _ O); exact E1|exact E]. }
        rewrite E2. apply (IH ar br dr); auto; lia.
      * apply (o_gt_lt _ O) in E1. rewrite (o_lt_eq _ O _ _ _ E1 E). auto.
    + destruct (o_neg _ O va vb vd E) as [H1|H1]; rewrite H1; auto.
Qed.

(* with well separated numeric keys the real comparator (1e-4 tolerance) is the exact one *)
Lemma compare_float_sep x y : ((x =? y)%Z || (100 <=? Z.abs (x - y))%Z) = true ->
  compare_float 100 x y = compare_float 0 x y.
Proof.
  unfold compare_float. intros H.
  destruct (Z.eqb_spec x y); simpl in *; [rewrite !orb_true_r; reflexivity|].
  destruct (Z.ltb_spec (Z.abs (x - y)) 100), (Z.ltb_spec (Z.abs (x - y)) 0); simpl; try reflexivity; lia.
Qed.

Lemma compare_values_f_sep a b asc op : sep2 a b = true ->
  compare_values_f tolerance a b asc op = compare_values_f 0 a b asc op.
Proof.
  unfold sep2, tolerance.
  destruct a as [x rx|ua ba rx|[x|] sx|], b as [y ry|ub bb ry|[y|] sy|], op, asc; try reflexivity;
    cbv [num_of]; intros H; cbv [compare_values_f get_rank rank_n num_of str_of Nat.ltb Nat.leb flip];
    rewrite (compare_float_sep _ _ H); reflexivity.
Qed.

Lemma less_f_real_exact eles : forall a b, sep_keys a b = true ->
  less_f_real eles a b = less_f_exact eles a b.
Proof.
  unfold less_f_real, less_f_exact.
  induction eles as [|[asc op] er IH]; intros a b H; destruct a as [|va ar], b as [|vb br]; simpl in *; auto.
  apply andb_true_iff in H as [H1 H2]. rewrite (compare_values_f_sep _ _ _ _ H1).
  destruct (compare_values_f 0 va vb asc op); auto.
Qed.

Lemma separated_pair U a b : separated U = true -> In a U -> In b U -> sep_keys a b = true.
Proof.
  unfold separated. intros H Ha Hb. rewrite forallb_forall in H.
  specialize (H a Ha). rewrite forallb_forall in H. auto.
Qed.

(* the real comparator is a strict weak order on any set of records whose numeric
   sort keys are pairwise equal or at least 1e-4 apart *)
Theorem less_f_swo_guarded eles U : separated U = true ->
  swo_on (less_f_real eles) (fun r => In r U /\ length r = length eles).
Proof.
  intros HU. destruct (less_f_exact_swo eles) as (Hi & Ht & Hn).
  repeat split.
  - intros a [Ia La]. rewrite less_f_real_exact by (eapply separated_pair; eauto). auto.
  - intros a b d [Ia La] [Ib Lb] [Id Ld].
    rewrite !less_f_real_exact by (eapply separated_pair; eauto). eauto.
  - intros a b d [Ia La] [Ib Lb] [Id Ld].
    rewrite !less_f_real_exact by (eapply separated_pair; eauto). eauto.
Qed.

(* streaming top-k of the real sort, under the separation guard *)
Theorem sort_topk_streaming_f_guarded eles limit batches :
  separated (concat batches) = true ->
  Forall (Forall (fun r => length r = length eles)) batches ->
  process (less_f_real eles) limit batches =
  firstn limit (sort_by (less_f_real eles) (concat batches)).
Proof.
  intros HU HL.
  apply (sort_topk_streaming (less_f_real eles) (fun r => In r (concat batches) /\ length r = length eles)).
  - apply less_f_swo_guarded. assumption.
  - clear HU. rewrite Forall_forall in *. intros b Hb. rewrite Forall_forall. intros r Hr. split.
    + apply in_concat. eauto.
    + specialize (HL b Hb). rewrite Forall_forall in HL. auto.
Qed.

(* --- refutations: the tolerance breaks the strict weak order --- *)
Definition num1 (q : Z) : list value := [VNum q []].
Definition asc_num : list sort_ele := [(true, OpNum)].

(* 0 ~ 0.00006, 0.00006 ~ 0.00012 but 0 < 0.00012: "equal" is not transitive *)
Theorem less_not_transitive_refuted : exists a b c,
  less_real asc_num a b = false /\ less_real asc_num b a = false /\
  less_real asc_num b c = false /\ less_real asc_num c b = false /\
  less_real asc_num a c = true.
Proof. exists (num1 0), (num1 60), (num1 120). vm_compute. repeat split. Qed.

(* consequence: the sort of 1.00005, 1, 1.00012, 0.99996 is not in numeric order *)
Theorem sort_tolerance_unordered_refuted : exists l,
  num_sorted_asc (sort_by (less_real asc_num) l) = false /\
  num_sorted_asc (sort_by (less_exact asc_num) l) = true.
Proof.
  exists [num1 1000050; num1 1000000; num1 1000120; num1 999960]. vm_compute. split; reflexivity.
Qed.

(* non-vacuity of the guard *)
Example separated_example :
  separated [num1 1000000; num1 1001000; num1 1001000; num1 999000] = true.
Proof. reflexivity. Qed.

(* ------------------------------------------------------------------ *)
(* 64-bit integer sort keys: SS_DT_SIGNED_NUM / SS_DT_UNSIGNED_NUM over the whole      *)
(* int64 / uint64 range, compared through float64 (GetFloatValueIfPossible)            *)
(* ------------------------------------------------------------------ *)
Section INTKEYS.
Local Open Scope Z_scope.

Lemma rne_cases n sh : 0 <= sh -> 0 <= n ->
  let p := 2 ^ sh in
  0 < p /\ n = (n / p) * p + n mod p /\ 0 <= n mod p < p /\
  (rne n sh = (n / p) * p \/ (rne n sh = (n / p + 1) * p /\ 0 < n mod p)).
Proof.
  intros Hs Hn p. assert (Hp : 0 < p) by (apply Z.pow_pos_nonneg; lia).
  pose proof (Z.div_mod n p ltac:(lia)) as E. pose proof (Z.mod_pos_bound n p Hp) as B.
  repeat split; try lia.
  unfold rne. fold p.
  destruct (2 * (n mod p) <? p) eqn:E1; [left; reflexivity|].
  apply Z.ltb_ge in E1.
  destruct (p <? 2 * (n mod p)) eqn:E2; [right; split; [reflexivity|lia]|].
  destruct (Z.even (n / p)); [left; reflexivity|right; split; [reflexivity|lia]].
Qed.

Lemma rne_le_mult n sh k : 0 <= sh -> 0 <= n -> n <= k * 2 ^ sh -> rne n sh <= k * 2 ^ sh.
Proof.
  intros Hs Hn H. destruct (rne_cases n sh Hs Hn) as (Hp & E & B & [R|[R Hr]]); rewrite R.
  - nia.
  - assert (n / 2 ^ sh < k) by nia. nia.
Qed.

Lemma rne_ge_mult n sh k : 0 <= sh -> 0 <= n -> k * 2 ^ sh <= n -> k * 2 ^ sh <= rne n sh.
Proof.
  intros Hs Hn H. destruct (rne_cases n sh Hs Hn) as (Hp & E & B & [R|[R Hr]]); rewrite R.
  - assert (k <= n / 2 ^ sh) by nia. nia.
  - assert (k <= n / 2 ^ sh) by nia. nia.
Qed.

Lemma rne_nonneg n sh : 0 <= sh -> 0 <= n -> 0 <= rne n sh.
Proof. intros Hs Hn. apply (rne_ge_mult n sh 0 Hs Hn). lia. Qed.

Lemma rne_mono_same a b sh : 0 <= sh -> 0 <= a <= b -> rne a sh <= rne b sh.
Proof.
  intros Hs [Ha Hab].
  assert (Hb : 0 <= b) by lia.
  set (p := 2 ^ sh). assert (Hp : 0 < p) by (apply Z.pow_pos_nonneg; lia).
  assert (Hq : a / p <= b / p) by (apply Z.div_le_mono; lia).
  destruct (Z.eq_dec (a / p) (b / p)) as [Eq|Ne].
  - pose proof (Z.div_mod a p ltac:(lia)) as Ea. pose proof (Z.div_mod b p ltac:(lia)) as Eb.
    assert (Hr : a mod p <= b mod p) by nia.
    pose proof (Z.mod_pos_bound a p Hp). pose proof (Z.mod_pos_bound b p Hp).
    unfold rne. fold p. rewrite <- Eq.
    destruct (2 * (a mod p) <? p) eqn:A1, (2 * (b mod p) <? p) eqn:B1; try lia;
    destruct (p <? 2 * (a mod p)) eqn:A2, (p <? 2 * (b mod p)) eqn:B2; try lia;
    destruct (Z.even (a / p)); lia.
  - destruct (rne_cases a sh Hs Ha) as (_ & Ea & Ba & _).
    fold p in Ea, Ba.
    transitivity ((a / p + 1) * p).
    + apply rne_le_mult; try assumption. fold p. nia.
    + transitivity ((b / p) * p); [nia|].
      apply rne_ge_mult; try assumption. fold p.
      pose proof (Z.div_mod b p ltac:(lia)). pose proof (Z.mod_pos_bound b p Hp). nia.
Qed.

Lemma ulp_shift_nonneg n : 0 <= ulp_shift n.
Proof. unfold ulp_shift. lia. Qed.

Lemma f64_nonneg_mono a b : 0 <= a <= b -> rne a (ulp_shift a) <= rne b (ulp_shift b).
Proof.
  intros [Ha Hab].
  destruct (Z.eq_dec a 0) as [->|Na].
  { change (rne 0 (ulp_shift 0)) with 0. apply rne_nonneg; [apply ulp_shift_nonneg|lia]. }
  assert (Hl : Z.log2 a <= Z.log2 b) by (apply Z.log2_le_mono; lia).
  destruct (Z.eq_dec (ulp_shift a) (ulp_shift b)) as [Es|Ns].
  - rewrite Es. apply rne_mono_same; [apply ulp_shift_nonneg|lia].
  - assert (Hs : ulp_shift a < ulp_shift b) by (unfold ulp_shift in *; lia).
    assert (Hsb : ulp_shift b = Z.log2 b - 52) by (unfold ulp_shift in *; lia).
    assert (Hll : Z.log2 a < Z.log2 b) by (unfold ulp_shift in *; lia).
    pose proof (ulp_shift_nonneg a) as Hsa.
    destruct (Z.log2_spec a ltac:(lia)) as [_ A2]. destruct (Z.log2_spec b ltac:(lia)) as [B1 _].
    assert (Hpow : 2 ^ Z.succ (Z.log2 a) <= 2 ^ Z.log2 b) by (apply Z.pow_le_mono_r; lia).
    transitivity (2 ^ Z.log2 b).
    + replace (2 ^ Z.log2 b) with (2 ^ (Z.log2 b - ulp_shift a) * 2 ^ ulp_shift a)
        by (rewrite <- Z.pow_add_r by lia; f_equal; lia).
      apply rne_le_mult; try lia.
      rewrite <- Z.pow_add_r by lia. replace (Z.log2 b - ulp_shift a + ulp_shift a) with (Z.log2 b) by lia. lia.
    + replace (2 ^ Z.log2 b) with (2 ^ 52 * 2 ^ ulp_shift b)
        by (rewrite <- Z.pow_add_r by lia; f_equal; lia).
      apply rne_ge_mult; try lia.
      rewrite <- Z.pow_add_r by lia. replace (52 + ulp_shift b) with (Z.log2 b) by lia. lia.
Qed.

(* float64(int64) / float64(uint64) is monotone *)
Theorem f64_of_int_mono a b : a <= b -> f64_of_int a <= f64_of_int b.
Proof.
  intros H. unfold f64_of_int.
  destruct (Z.ltb_spec a 0), (Z.ltb_spec b 0); try lia.
  - pose proof (f64_nonneg_mono (- b) (- a) ltac:(lia)). lia.
  - pose proof (rne_nonneg (- a) (ulp_shift (- a)) (ulp_shift_nonneg _) ltac:(lia)).
    pose proof (rne_nonneg b (ulp_shift b) (ulp_shift_nonneg _) ltac:(lia)). lia.
  - apply f64_nonneg_mono. lia.
Qed.

Lemma f64_nonneg_exact n : 0 <= n <= 2 ^ 53 -> rne n (ulp_shift n) = n.
Proof.
  intros [H0 H1]. destruct (Z.eq_dec n (2 ^ 53)) as [->|Ne]; [reflexivity|].
  assert (Hs : ulp_shift n = 0).
  { unfold ulp_shift. destruct (Z.eq_dec n 0) as [->|N0]; [reflexivity|].
    assert (Z.log2 n < 53) by (apply Z.log2_lt_pow2; lia). lia. }
  rewrite Hs. unfold rne. change (2 ^ 0) with 1. rewrite Z.mod_1_r, Z.div_1_r. simpl. lia.
Qed.

(* … and exact up to 2^53 in absolute value *)
Theorem f64_of_int_exact n : Z.abs n <= 2 ^ 53 -> f64_of_int n = n.
Proof.
  intros H. unfold f64_of_int. destruct (Z.ltb_spec n 0).
  - rewrite f64_nonneg_exact by lia. lia.
  - apply f64_nonneg_exact. lia.
Qed.

End INTKEYS.

(* ------------------------------------------------------------------ *)
(* compareValues with the exact integer path (compareInts) and how it relates to the   *)
(* float path                                                                          *)
(* ------------------------------------------------------------------ *)
Section INTCMP.
Local Open Scope Z_scope.

Lemma f64_exact_below_2p53 n : Z.abs n <= 2 ^ 53 -> f64_exact n = true.
Proof. intros H. unfold f64_exact. rewrite f64_of_int_exact by assumption. apply Z.eqb_refl. Qed.

(* three-way comparison of two integers *)
Definition cmp3 (x y : Z) : cmp := if x <? y then LESS else if y <? x then GREATER else EQUAL.

Lemma int_of_bits_range b : (b < 2 ^ 64)%N ->
  0 <= int_of_bits true b < 2 ^ 64 /\ - 2 ^ 63 <= int_of_bits false b < 2 ^ 63 /\
  (int_of_bits true b - int_of_bits false b = 0 \/ int_of_bits true b - int_of_bits false b = 2 ^ 64).
Proof.
  intros H. unfold int_of_bits.
  destruct (N.ltb_spec b 9223372036854775808); lia.
Qed.

(* compareInts = the exact order of the integers, for every dtype mix and all 64-bit patterns *)
Lemma compare_ints_exact ua a ub b : (a < 2 ^ 64)%N -> (b < 2 ^ 64)%N ->
  compare_ints ua a ub b = cmp3 (int_of_bits ua a) (int_of_bits ub b).
Proof.
  intros Ha Hb. unfold compare_ints, int_negative, cmp3, int_of_bits.
  destruct ua, ub; simpl;
    repeat match goal with
    | |- context [N.leb ?x ?y] => destruct (N.leb_spec x y); simpl
    | |- context [N.ltb ?x ?y] => destruct (N.ltb_spec x y); simpl
    | |- context [Z.ltb ?x ?y] => destruct (Z.ltb_spec x y); simpl
    end; try reflexivity; lia.
Qed.

(* compareValues on two integer-typed values, op num / auto / "": the exact integer order in the
   requested direction — no tolerance, no float64 *)
Theorem int_keys_exact ua a ra ub b rb asc op tol : op <> OpStr -> (a < 2 ^ 64)%N -> (b < 2 ^ 64)%N ->
  compare_values tol (VInt ua a ra) (VInt ub b rb) asc op
  = flip asc (cmp3 (int_of_bits ua a) (int_of_bits ub b)).
Proof.
  intros Hop Ha Hb. rewrite <- compare_ints_exact by assumption.
  destruct op; try congruence; reflexivity.
Qed.

(* every other pair takes the float path *)
Lemma compare_values_f_eq tol a b asc op :
  (forall ua ba ra ub bb rb, a = VInt ua ba ra -> b = VInt ub bb rb -> op = OpStr) ->
  compare_values tol a b asc op = compare_values_f tol a b asc op.
Proof.
  intros H.
  destruct a as [x rx|ua ba rx|[x|] sx|], b as [y ry|ub bb ry|[y|] sy|]; try reflexivity.
  rewrite (H _ _ _ _ _ _ eq_refl eq_refl). reflexivity.
Qed.

Lemma cmp3_float tol x y : 0 <= tol <= 1000000 -> compare_float tol (x * 1000000) (y * 1000000) = cmp3 x y.
Proof.
  intros Ht. unfold compare_float, cmp3.
  destruct (Z.ltb_spec (Z.abs (x * 1000000 - y * 1000000)) tol), (Z.eqb_spec (x * 1000000) (y * 1000000)),
    (Z.ltb_spec x y), (Z.ltb_spec y x), (Z.ltb_spec (x * 1000000) (y * 1000000)); simpl; try reflexivity; lia.
Qed.

(* a value whose integer (if it is one) is a 64-bit pattern that float64 represents exactly *)
Definition vexact (v : value) : Prop :=
  match v with VInt u b _ => (b < 2 ^ 64)%N /\ f64_exact (int_of_bits u b) = true | _ => True end.

Lemma compare_values_exact_f tol a b asc op : 0 <= tol <= 1000000 -> vexact a -> vexact b ->
  compare_values tol a b asc op = compare_values_f tol a b asc op.
Proof.
  intros Ht Ha Hb.
  destruct a as [x rx|ua ba rx|[x|] sx|], b as [y ry|ub bb ry|[y|] sy|]; try reflexivity.
  destruct Ha as [Ha Ea], Hb as [Hb Eb]. unfold f64_exact in *. apply Z.eqb_eq in Ea, Eb.
  destruct op; try reflexivity.
  - rewrite int_keys_exact by (assumption || discriminate).
    cbv [compare_values_f get_rank rank_n Nat.ltb Nat.leb num_of]. rewrite Ea, Eb, cmp3_float by assumption. reflexivity.
  - rewrite int_keys_exact by (assumption || discriminate).
    cbv [compare_values_f get_rank rank_n Nat.ltb Nat.leb num_of]. rewrite Ea, Eb, cmp3_float by assumption. reflexivity.
Qed.

Lemma less_keys_exact_f tol eles : 0 <= tol <= 1000000 -> forall a b, Forall vexact a -> Forall vexact b ->
  less_keys tol eles a b = less_keys_f tol eles a b.
Proof.
  intros Ht. induction eles as [|[asc op] er IH]; intros a b Ha Hb; destruct a as [|va ar], b as [|vb br]; simpl; auto.
  inversion Ha; inversion Hb; subst. rewrite compare_values_exact_f by assumption.
  destruct (compare_values_f tol va vb asc op); auto.
Qed.

(* a strict weak order pulls back along any map that preserves the comparison *)
Lemma swo_pullback {A B} (less : A -> A -> bool) (less' : B -> B -> bool) (g : A -> B) (P : A -> Prop) (P' : B -> Prop) :
  swo_on less' P' -> (forall a, P a -> P' (g a)) ->
  (forall a b, P a -> P b -> less a b = less' (g a) (g b)) -> swo_on less P.
Proof.
  intros (Hi & Ht & Hn) HP E. repeat split.
  - intros a Pa. rewrite E by assumption. auto.
  - intros a b c Pa Pb Pc. rewrite !E by assumption. eauto.
  - intros a b c Pa Pb Pc. rewrite !E by assumption. eauto.
Qed.

(* multi-key comparison with exact numeric equality is a strict weak order on records whose
   integers are float64-exact … *)
Theorem less_exact_swo eles :
  swo_on (less_exact eles) (fun r => length r = length eles /\ Forall vexact r).
Proof.
  apply (swo_pullback _ (less_f_exact eles) (fun r => r) _ (fun r => length r = length eles)).
  - apply less_f_exact_swo.
  - intros a [H _]. exact H.
  - intros a b [_ Ha] [_ Hb]. apply less_keys_exact_f; [lia|assumption|assumption].
Qed.

(* … and the real comparator on such records whose numeric keys are pairwise equal or >= 1e-4 apart *)
Theorem less_swo_guarded eles U : separated U = true -> Forall (Forall vexact) U ->
  swo_on (less_real eles) (fun r => In r U /\ length r = length eles).
Proof.
  intros HS HE.
  apply (swo_pullback _ (less_f_real eles) (fun r => r) _ (fun r => In r U /\ length r = length eles)).
  - apply less_f_swo_guarded. assumption.
  - auto.
  - rewrite Forall_forall in HE. intros a b [Ia _] [Ib _]. apply less_keys_exact_f; [unfold tolerance; lia|auto|auto].
Qed.

Theorem sort_topk_streaming_real_guarded eles limit batches :
  separated (concat batches) = true -> Forall (Forall (Forall vexact)) batches ->
  Forall (Forall (fun r => length r = length eles)) batches ->
  process (less_real eles) limit batches =
  firstn limit (sort_by (less_real eles) (concat batches)).
Proof.
  intros HU HE HL.
  apply (sort_topk_streaming (less_real eles) (fun r => In r (concat batches) /\ length r = length eles)).
  - apply less_swo_guarded; [assumption|]. apply Forall_concat. assumption.
  - clear HU HE. rewrite Forall_forall in *. intros b Hb. rewrite Forall_forall. intros r Hr. split.
    + apply in_concat. eauto.
    + specialize (HL b Hb). rewrite Forall_forall in HL. auto.
Qed.

(* ---- records whose numeric sort keys are all integer-typed (any 64-bit patterns, mixed dtypes,
   next to strings and missing values): no guard on the values ---- *)
Definition int_or_nonnum (v : value) : Prop :=
  match v with VInt _ b _ => (b < 2 ^ 64)%N | VNum _ _ => False | VStr (Some _) _ => False | _ => True end.

(* the exact value of an integer as a float-path number *)
Definition flat (v : value) : value :=
  match v with VInt u b r => VNum (int_of_bits u b * 1000000) r | _ => v end.

Lemma compare_values_flat tol a b asc op : 0 <= tol <= 1000000 -> int_or_nonnum a -> int_or_nonnum b ->
  compare_values tol a b asc op = compare_values_f 0 (flat a) (flat b) asc op.
Proof.
  intros Ht Ha Hb.
  destruct a as [x rx|ua ba rx|[x|] sx|], b as [y ry|ub bb ry|[y|] sy|]; simpl in Ha, Hb; try contradiction;
    try (destruct op, asc; reflexivity).
  destruct op; try reflexivity.
  - rewrite int_keys_exact by (assumption || discriminate).
    cbv [flat compare_values_f get_rank rank_n Nat.ltb Nat.leb num_of]. rewrite cmp3_float by lia. reflexivity.
  - rewrite int_keys_exact by (assumption || discriminate).
    cbv [flat compare_values_f get_rank rank_n Nat.ltb Nat.leb num_of]. rewrite cmp3_float by lia. reflexivity.
Qed.

Lemma less_keys_flat tol eles : 0 <= tol <= 1000000 -> forall a b, Forall int_or_nonnum a -> Forall int_or_nonnum b ->
  less_keys tol eles a b = less_f_exact eles (map flat a) (map flat b).
Proof.
  intros Ht. unfold less_f_exact.
  induction eles as [|[asc op] er IH]; intros a b Ha Hb; destruct a as [|va ar], b as [|vb br]; simpl; auto.
  inversion Ha; inversion Hb; subst. rewrite (compare_values_flat tol) by assumption.
  destruct (compare_values_f 0 (flat va) (flat vb) asc op); auto.
Qed.

(* the real comparator is a strict weak order on such records, whatever the integers are *)
Theorem less_swo_int_keys eles :
  swo_on (less_real eles) (fun r => length r = length eles /\ Forall int_or_nonnum r).
Proof.
  apply (swo_pullback _ (less_f_exact eles) (map flat) _ (fun r => length r = length eles)).
  - apply less_f_exact_swo.
  - intros a [H _]. rewrite map_length. exact H.
  - intros a b [_ Ha] [_ Hb]. apply less_keys_flat; [unfold tolerance; lia|assumption|assumption].
Qed.

Theorem sort_topk_streaming_int_keys eles limit batches :
  Forall (Forall (Forall int_or_nonnum)) batches ->
  Forall (Forall (fun r => length r = length eles)) batches ->
  process (less_real eles) limit batches =
  firstn limit (sort_by (less_real eles) (concat batches)).
Proof.
  intros HI HL.
  apply (sort_topk_streaming (less_real eles) (fun r => length r = length eles /\ Forall int_or_nonnum r)).
  - apply less_swo_int_keys.
  - rewrite Forall_forall in *. intros b Hb. specialize (HI b Hb). specialize (HL b Hb).
    rewrite Forall_forall in *. intros r Hr. split; auto.
Qed.

(* ---- one integer key ---- *)
(* a record with ONE integer-typed sort key: (dtype, 64 bits of CVal, string form) *)
Definition ikey := (bool * N * list N)%type.
Definition irec (k : ikey) : list value := [VInt (fst (fst k)) (snd (fst k)) (snd k)].
Definition ival (k : ikey) : Z := int_of_bits (fst (fst k)) (snd (fst k)).
Definition ibits64 (k : ikey) : Prop := (snd (fst k) < 2 ^ 64)%N.
Definition int_less (asc : bool) (op : sop) (a b : ikey) : bool := less_real [(asc, op)] (irec a) (irec b).
Definition int_ordered (asc : bool) (a b : ikey) : Prop := if asc then ival a <= ival b else ival b <= ival a.

Lemma int_less_swo asc op : swo_on (int_less asc op) ibits64.
Proof.
  apply (swo_pullback _ (less_real [(asc, op)]) irec _ (fun r => length r = 1%nat /\ Forall int_or_nonnum r)).
  - apply (less_swo_int_keys [(asc, op)]).
  - intros [[u b] r] H. split; [reflexivity|]. repeat constructor. exact H.
  - reflexivity.
Qed.

Lemma int_less_false_ordered asc op a b : op <> OpStr -> ibits64 a -> ibits64 b ->
  int_less asc op b a = false -> int_ordered asc a b.
Proof.
  intros Hop Ha Hb H. destruct b as [[ub bb] rb], a as [[ua ba] ra].
  unfold int_less, less_real, irec, ibits64, int_ordered, ival in *. simpl in *.
  rewrite int_keys_exact in H by assumption. unfold cmp3 in H.
  destruct (Z.ltb_spec (int_of_bits ub bb) (int_of_bits ua ba)), (Z.ltb_spec (int_of_bits ua ba) (int_of_bits ub bb)),
    asc; simpl in H; try discriminate; lia.
Qed.

Lemma Forall_firstn' {A} (P : A -> Prop) k : forall l, Forall P l -> Forall P (firstn k l).
Proof.
  induction k as [|k IH]; intros [|x l] H; simpl; auto. inversion H; subst. constructor; auto.
Qed.

Lemma StronglySorted_weaken {A} (R R' : A -> A -> Prop) (P : A -> Prop) l :
  (forall a b, P a -> P b -> R a b -> R' a b) -> Forall P l -> StronglySorted R l -> StronglySorted R' l.
Proof.
  intros W HP HS. induction HS as [|x l HS IH Hx]; [constructor|].
  inversion HP; subst. constructor; [auto|].
  rewrite Forall_forall in *. intros y Hy. auto.
Qed.

(* `sort [limit] [+|-] num(n)/auto(n)/n` over an integer column — both dtypes, ALL 64-bit patterns:
   for any batching the result is the first `limit` of the sorted whole and no pair of result rows
   is out of exact integer order *)
Theorem sort_int_key_exact asc op limit (batches : list (list ikey)) : op <> OpStr ->
  Forall (Forall ibits64) batches ->
  process (int_less asc op) limit batches = firstn limit (sort_by (int_less asc op) (concat batches)) /\
  StronglySorted (int_ordered asc) (process (int_less asc op) limit batches).
Proof.
  intros Hop HB.
  pose proof (sort_topk_streaming (int_less asc op) ibits64 (int_less_swo asc op) limit batches HB) as ES.
  split; [exact ES|].
  apply (StronglySorted_weaken (fun a b => int_less asc op b a = false) _ ibits64).
  - intros a b Pa Pb H. eapply int_less_false_ordered; eauto.
  - rewrite ES. apply Forall_firstn'. apply (Forall_sort (int_less asc op) ibits64).
    apply Forall_concat. assumption.
  - apply (process_sorted (int_less asc op) ibits64 (int_less_swo asc op)). assumption.
Qed.

(* ---- what remains of the float64 collapse: an integer against a float / numeric string ---- *)
(* FULL STATEMENT (fails): less_real is a strict weak order on all records with separated keys.
   An integer above 2^53 still goes through float64 when the other value is not integer-typed:
   int 2^53+1 ~ float 2^53 ~ int 2^53, but int 2^53 < int 2^53+1 *)
Theorem int_float_mix_not_transitive_refuted : exists a f b,
  separated [a; f; b] = true /\
  less_real asc_num a f = false /\ less_real asc_num f a = false /\
  less_real asc_num f b = false /\ less_real asc_num b f = false /\
  less_real asc_num b a = true.
Proof.
  exists [VInt false 9007199254740993 []], [VNum 9007199254740992000000 []], [VInt false 9007199254740992 []].
  vm_compute. repeat split.
Qed.

Example vexact_example :
  Forall vexact [VInt false 5 []; VInt true 7 []; VInt false 18446744073709551613 []; VInt true 9007199254740992 [];
     VInt false 9223372036854774784 []; VInt true 9223372036854775808 []; VInt true 18446744073709549568 [];
     VInt false 9223372036854775808 []; VNum 1500000 []; VStr None []; VNull].
Proof. repeat constructor; vm_compute; reflexivity. Qed.
End INTCMP.

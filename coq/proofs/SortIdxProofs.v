(* SortIdxProofs.v — proofs about the sort-index reader model (SortIdx.v). *)
From Coq Require Import List Arith Bool NArith Lia.
From SigM Require Import Base SortIdx.
Import ListNotations.
Open Scope nat_scope.

(* ---------- 7: the block-end variant loses records ---------- *)
Theorem blockend_loses_records_refuted :
  exists file qs, wf_file file = true /\ Forall (fun q => 0 < q) qs /\
    length (all_recs false file) <= length qs /\
    let '(calls, c') := drain read_blocks_blockend false true file qs (start_ckpt false file) in
    snd c' = true /\ flat_map recs_of_lines calls <> all_recs false file.
Proof.
  exists [[(0%N,[0%N;1%N]); (1%N,[0%N])]; [(0%N,[2%N])]], [1;1;1;1].
  split; [reflexivity|].
  split; [repeat constructor|].
  split; [vm_compute; lia|].
  vm_compute. split; [reflexivity|discriminate].
Qed.

(* ---------- list helpers ---------- *)
Lemma skipn_nil' : forall {A} n, skipn n (@nil A) = [].
Proof. intros A n; destruct n; reflexivity. Qed.

Lemma skipn_firstn_split : forall {A} (l : list A) a b,
  a <= b -> b <= length l -> skipn a (firstn b l) ++ skipn b l = skipn a l.
Proof.
  intros A l a b Hab Hb.
  rewrite <- (firstn_skipn b l) at 3.
  rewrite skipn_app. rewrite firstn_length.
  replace (a - Nat.min b (length l)) with 0 by lia. reflexivity.
Qed.

Lemma skipn_firstn_len : forall {A} (l : list A) a b,
  length (skipn a (firstn b l)) = Nat.min b (length l) - a.
Proof. intros. rewrite skipn_length, firstn_length. reflexivity. Qed.

(* ---------- take_recs ---------- *)
Lemma take_recs_spec : forall full max k recs pos read d n rd,
  take_recs full max k pos read recs = (d, n, rd) ->
  n <= length recs /\ rd = read + length d /\
  d = skipn (k - pos) (firstn n recs) /\
  (n < length recs -> full = false /\ max <= rd) /\
  (full = false -> read <= max -> rd <= max).
Proof.
  intros full max k recs. induction recs as [|r rest IH]; intros pos read d n rd H; simpl in H.
  - inversion H; subst. simpl. rewrite skipn_nil'. repeat split; try lia.
  - destruct (full || (read <? max)) eqn:C.
    + destruct (k <=? pos) eqn:K.
      * destruct (take_recs full max k (S pos) (S read) rest) as [[d' n'] rd'] eqn:E.
        inversion H; subst. apply IH in E. destruct E as (E1 & E2 & E3 & E4 & E5).
        apply Nat.leb_le in K.
        repeat split; simpl; try lia.
        -- replace (k - pos) with 0 by lia. simpl. f_equal.
           rewrite E3 at 1. replace (k - S pos) with 0 by lia. reflexivity.
        -- apply E4; simpl in *; lia.
        -- apply E4; simpl in *; lia.
        -- intros F L. apply E5; auto. rewrite F in C. simpl in C. apply Nat.ltb_lt in C. lia.
      * destruct (take_recs full max k (S pos) read rest) as [[d' n'] rd'] eqn:E.
        inversion H; subst. apply IH in E. destruct E as (E1 & E2 & E3 & E4 & E5).
        apply Nat.leb_gt in K.
        repeat split; simpl; try lia.
        -- replace (k - pos) with (S (k - S pos)) by lia. simpl. exact E3.
        -- apply E4; simpl in *; lia.
        -- apply E4; simpl in *; lia.
        -- intros F L. apply E5; auto.
    + inversion H; subst. apply orb_false_elim in C. destruct C as [C1 C2].
      apply Nat.ltb_ge in C2. simpl. rewrite skipn_nil'. repeat split; try lia; auto.
Qed.

(* ---------- read_blocks ---------- *)
Definition wfb (bs : list sblock) : bool := forallb (fun b => negb (is_nil (snd b))) bs.

Lemma rob_cons : forall ln bn recs rest,
  recs_of_blocks ln ((bn, recs) :: rest) = map (fun r => (ln, bn, r)) recs ++ recs_of_blocks ln rest.
Proof. reflexivity. Qed.

Lemma rob_app : forall ln a b, recs_of_blocks ln (a ++ b) = recs_of_blocks ln a ++ recs_of_blocks ln b.
Proof. intros. unfold recs_of_blocks. apply flat_map_app. Qed.

Lemma wfb_pos : forall ln bs, wfb bs = true -> is_nil bs = false -> 0 < length (recs_of_blocks ln bs).
Proof.
  intros ln [|[bn recs] rest] W N; simpl in *; [discriminate|].
  rewrite app_length, map_length. destruct recs; simpl in *; [discriminate|lia].
Qed.

Definition rb_post (ln : nat) (full : bool) (max k : nat) (bs : list sblock) (pos read : nat)
  (out : list sblock) (eol : bool) (p rd : nat) : Prop :=
  pos <= p /\ p <= pos + length (recs_of_blocks ln bs) /\
  recs_of_blocks ln out = skipn (k - pos) (firstn (p - pos) (recs_of_blocks ln bs)) /\
  rd = read + length (recs_of_blocks ln out) /\
  (eol = true -> p = pos + length (recs_of_blocks ln bs)) /\
  (eol = false -> full = false /\ max <= rd /\ (wfb bs = true -> p < pos + length (recs_of_blocks ln bs))) /\
  (full = false -> read <= max -> rd <= max) /\
  (full = true -> eol = true).

Lemma read_blocks_spec : forall ln full max k bs pos read out eol p rd,
  read_blocks full max k pos read bs = (out, eol, p, rd) ->
  rb_post ln full max k bs pos read out eol p rd.
Proof.
  intros ln full max k bs. induction bs as [|[bn recs] rest IH]; intros pos read out eol p rd H; simpl in H.
  - inversion H; subst. unfold rb_post. simpl. rewrite firstn_nil, skipn_nil'. simpl.
    repeat split; try lia; intros; try discriminate; auto.
  - destruct (take_recs full max k pos read recs) as [[d n] rd0] eqn:T.
    apply take_recs_spec in T. destruct T as (T1 & T2 & T3 & T4 & T5).
    set (f := fun r : N => (ln, bn, r)).
    set (outb := if k <? pos + n then @cons sblock (bn, d) (@nil sblock) else @nil sblock).
    assert (OB : recs_of_blocks ln outb = map f d).
    { unfold outb. destruct (k <? pos + n) eqn:Q.
      - simpl. rewrite app_nil_r. reflexivity.
      - apply Nat.ltb_ge in Q. assert (L : length d = 0) by (rewrite T3, skipn_firstn_len; lia).
        destruct d; [reflexivity|discriminate]. }
    assert (LR : length (recs_of_blocks ln ((bn, recs) :: rest)) = length recs + length (recs_of_blocks ln rest)).
    { rewrite rob_cons, app_length, map_length. reflexivity. }
    assert (REC : forall o e p' r2, n = length recs ->
              read_blocks full max k (pos + n) rd0 rest = (o, e, p', r2) ->
              rb_post ln full max k ((bn, recs) :: rest) pos read
                (outb ++ o) e p' r2).
    { intros o e p' r2 Hn E. apply IH in E. destruct E as (I1 & I2 & I3 & I4 & I5 & I6 & I7 & I8).
      unfold rb_post. rewrite LR. rewrite rob_app, OB, app_length, map_length.
      split; [lia|]. split; [lia|]. split.
      { rewrite I3. rewrite rob_cons. fold f.
        rewrite firstn_app, map_length.
        rewrite (firstn_all2 (map f recs)) by (rewrite map_length; lia).
        rewrite skipn_app, map_length.
        replace (p' - pos - length recs) with (p' - (pos + n)) by lia.
        replace (k - pos - length recs) with (k - (pos + n)) by lia.
        f_equal. rewrite T3. subst n. rewrite firstn_all. symmetry. apply skipn_map. }
      split; [lia|]. split; [intros Q; apply I5 in Q; lia|]. split.
      { intros Q. apply I6 in Q. destruct Q as (Q1 & Q2 & Q3). split; auto. split; auto.
        intros W. simpl in W. apply andb_true_iff in W. destruct W as [_ W].
        apply Q3 in W. lia. }
      split; [intros F L; apply I7; auto|]. exact I8. }
    destruct (max <=? rd0) eqn:M.
    + destruct ((is_nil rest && (n =? length recs)) || negb full) eqn:S.
      * injection H as H1 H2 H3 H4; subst out eol p rd. clear REC.
        change (rb_post ln full max k ((bn, recs) :: rest) pos read outb
                  (is_nil rest && (n =? length recs)) (pos + n) rd0).
        unfold rb_post. rewrite LR, OB, map_length.
        split; [lia|]. split; [lia|]. split.
        { rewrite rob_cons. fold f. replace (pos + n - pos) with n by lia.
          rewrite firstn_app, map_length. replace (n - length recs) with 0 by lia.
          simpl. rewrite app_nil_r. rewrite firstn_map, skipn_map. f_equal. exact T3. }
        split; [lia|]. split.
        { intros Q. apply andb_true_iff in Q. destruct Q as [Q1 Q2].
          apply Nat.eqb_eq in Q2. destruct rest; [|discriminate]. simpl. lia. }
        split.
        { intros Q. rewrite Q in S. simpl in S. apply negb_true_iff in S.
          split; auto. split; [apply Nat.leb_le in M; lia|].
          intros W. simpl in W. apply andb_true_iff in W. destruct W as [_ W].
          apply andb_false_iff in Q. destruct Q as [Q|Q].
          - pose proof (wfb_pos ln rest W Q). lia.
          - apply Nat.eqb_neq in Q. lia. }
        split; [exact T5|].
        intros F. rewrite F in S. simpl in S. rewrite orb_false_r in S. exact S.
      * destruct (read_blocks full max k (pos + n) rd0 rest) as [[[o e] p'] r2] eqn:E.
        injection H as H1 H2 H3 H4; subst out eol p rd. apply REC; auto.
        apply orb_false_elim in S. destruct S as [_ S]. apply negb_false_iff in S.
        destruct (Nat.lt_ge_cases n (length recs)) as [Q|Q]; [|lia].
        apply T4 in Q. destruct Q as [Q _]. congruence.
    + destruct (read_blocks full max k (pos + n) rd0 rest) as [[[o e] p'] r2] eqn:E.
      injection H as H1 H2 H3 H4; subst out eol p rd. apply REC; auto.
      apply Nat.leb_gt in M.
      destruct (Nat.lt_ge_cases n (length recs)) as [Q|Q]; [|lia].
      apply T4 in Q. lia.
Qed.

(* ---------- lines ---------- *)
Lemma wf_file_line : forall file ln, wf_file file = true -> ln < length file ->
  is_nil (nth ln file []) = false /\ wfb (nth ln file []) = true.
Proof.
  intros file ln W L. unfold wf_file in W. rewrite forallb_forall in W.
  specialize (W (nth ln file []) (nth_In _ _ L)). apply andb_true_iff in W.
  destruct W as [W1 W2]. apply negb_true_iff in W1. split; auto.
Qed.

Lemma wf_line_pos : forall file ln, wf_file file = true -> ln < length file ->
  0 < length (recs_of_blocks ln (nth ln file [])).
Proof. intros file ln W L. destruct (wf_file_line file ln W L). apply wfb_pos; auto. Qed.

Lemma next_line_spec : forall rev file ln ln' eof, ln < length file ->
  next_line rev (length file) ln = (ln', eof) ->
  lines_from rev file ln = (ln, nth ln file []) :: (if eof then [] else lines_from rev file ln') /\
  (eof = false -> ln' < length file).
Proof.
  intros rev file ln ln' eof L H. unfold next_line in H. unfold lines_from. destruct rev.
  - destruct ln as [|p]; inversion H; subst ln' eof.
    + split; [reflexivity|discriminate].
    + split; [|intros; lia]. rewrite (seq_S (S p) 0), rev_app_distr. reflexivity.
  - inversion H; subst. split.
    + replace (length file - ln) with (S (length file - S ln)) by lia. simpl seq. simpl map.
      f_equal. destruct (length file <=? S ln) eqn:Q; [|reflexivity].
      apply Nat.leb_le in Q. replace (length file - S ln) with 0 by lia. reflexivity.
    + intros Q. apply Nat.leb_gt in Q. exact Q.
Qed.

Lemma rol_cons : forall ln out ls,
  recs_of_lines ((ln, out) :: ls) = recs_of_blocks ln out ++ recs_of_lines ls.
Proof. reflexivity. Qed.

Lemma remaining_live : forall rev file ln k,
  remaining rev file (ln, k, false) = skipn k (recs_of_lines (lines_from rev file ln)).
Proof. reflexivity. Qed.

Lemma wf_ckpt_live : forall file ln k, ln < length file ->
  k < length (recs_of_blocks ln (nth ln file [])) -> wf_ckpt file (ln, k, false) = true.
Proof.
  intros. unfold wf_ckpt. simpl.
  apply andb_true_iff. split; apply Nat.ltb_lt; auto.
Qed.

Lemma read_lines_spec : forall rev full file, wf_file file = true ->
  forall fuel max ln k ls c', ln < length file ->
  k < length (recs_of_blocks ln (nth ln file [])) -> 0 < max ->
  read_lines read_blocks fuel rev full file max ln k = (ls, c') ->
  recs_of_lines ls ++ remaining rev file c' = skipn k (recs_of_lines (lines_from rev file ln)) /\
  wf_ckpt file c' = true.
Proof.
  intros rev full file W. induction fuel as [|fuel IH]; intros max ln k ls c' L K M H; simpl in H.
  - inversion H; subst. rewrite remaining_live. split; [reflexivity|]. apply wf_ckpt_live; auto.
  - destruct (read_blocks full max k 0 0 (nth ln file [])) as [[[out eol] p] rd] eqn:E.
    apply (read_blocks_spec ln) in E. destruct E as (I1 & I2 & I3 & I4 & I5 & I6 & I7 & I8).
    rewrite !Nat.sub_0_r in I3. simpl in I2, I4, I5, I6.
    destruct (next_line rev (length file) ln) as [ln' eof] eqn:NL.
    destruct (next_line_spec rev file ln ln' eof L NL) as [LF NW].
    set (R := recs_of_blocks ln (nth ln file [])) in *.
    assert (SK : forall j, j <= length R -> skipn j (recs_of_lines (lines_from rev file ln)) =
              skipn j R ++ recs_of_lines (if eof then [] else lines_from rev file ln')).
    { intros j J. rewrite LF, rol_cons. fold R. rewrite skipn_app.
      replace (j - length R) with 0 by lia. reflexivity. }
    destruct eol.
    + specialize (I5 eq_refl). subst p.
      rewrite firstn_all in I3.
      destruct (eof || (max <=? rd)) eqn:Q.
      * inversion H; subst ls c'. rewrite SK by lia. rewrite rol_cons, I3. simpl recs_of_lines.
        rewrite app_nil_r. destruct eof.
        -- split; reflexivity.
        -- rewrite remaining_live. split; [reflexivity|].
           apply wf_ckpt_live; [auto|apply wf_line_pos; auto].
      * destruct (read_lines read_blocks fuel rev full file (max - rd) ln' 0) as [ls1 c1] eqn:RL.
        inversion H; subst ls c'. apply orb_false_elim in Q. destruct Q as [Q1 Q2]. subst eof.
        apply Nat.leb_gt in Q2.
        apply IH in RL; [|auto|apply wf_line_pos; auto|lia].
        destruct RL as [A B]. split; auto.
        rewrite SK by lia. rewrite rol_cons, <- app_assoc, A, I3. reflexivity.
    + destruct (I6 eq_refl) as (F & M2 & PW). destruct (wf_file_line file ln W L) as [_ WB].
      specialize (PW WB).
      assert (KP : k < p).
      { assert (0 < length (recs_of_blocks ln out)) by lia.
        rewrite I3, skipn_firstn_len in H0. lia. }
      inversion H; subst ls c'. rewrite remaining_live. rewrite !SK by lia.
      rewrite rol_cons, I3. simpl recs_of_lines. rewrite app_nil_r, app_assoc.
      rewrite skipn_firstn_split by lia. split; [reflexivity|]. apply wf_ckpt_live; auto.
Qed.

Lemma wf_ckpt_inv : forall file ln k, wf_ckpt file (ln, k, false) = true ->
  ln < length file /\ k < length (recs_of_blocks ln (nth ln file [])).
Proof.
  intros file ln k H. unfold wf_ckpt in H. simpl in H. apply andb_true_iff in H.
  destruct H as [A B]. apply Nat.ltb_lt in A. apply Nat.ltb_lt in B. auto.
Qed.

Theorem read_index_exact : forall rev full file q c,
  wf_file file = true -> wf_ckpt file c = true -> 0 < q ->
  let '(ls, c') := read_index read_blocks rev full file q c in
  recs_of_lines ls ++ remaining rev file c' = remaining rev file c /\ wf_ckpt file c' = true.
Proof.
  intros rev full file q [[ln k] eof] W C Q. unfold read_index. destruct eof.
  - split; [reflexivity|exact C].
  - destruct (wf_ckpt_inv _ _ _ C) as [L K].
    destruct (read_lines read_blocks (S (length file)) rev full file q ln k) as [ls c'] eqn:E.
    rewrite remaining_live. eapply read_lines_spec; eauto.
Qed.

(* ---------- drain ---------- *)
Lemma drain_exact_wf : forall rev full file qs c,
  wf_file file = true -> wf_ckpt file c = true -> Forall (fun q => 0 < q) qs ->
  let '(calls, c') := drain read_blocks rev full file qs c in
  flat_map recs_of_lines calls ++ remaining rev file c' = remaining rev file c /\
  wf_ckpt file c' = true.
Proof.
  intros rev full file qs. induction qs as [|q r IH]; intros c W C F; simpl.
  - split; auto.
  - inversion F as [|? ? Q F']; subst.
    pose proof (read_index_exact rev full file q c W C Q) as RI.
    destruct (read_index read_blocks rev full file q c) as [ls c1].
    destruct RI as [A B]. specialize (IH c1 W B F').
    destruct (drain read_blocks rev full file r c1) as [rest c2].
    destruct IH as [A2 B2]. split; auto.
    simpl. rewrite <- app_assoc, A2, A. reflexivity.
Qed.

Theorem drain_exact : forall rev full file qs c,
  wf_file file = true -> wf_ckpt file c = true -> Forall (fun q => 0 < q) qs ->
  let '(calls, c') := drain read_blocks rev full file qs c in
  flat_map recs_of_lines calls ++ remaining rev file c' = remaining rev file c.
Proof.
  intros rev full file qs c W C F.
  pose proof (drain_exact_wf rev full file qs c W C F) as H.
  destruct (drain read_blocks rev full file qs c) as [calls c']. apply H.
Qed.

(* ---------- 5: readFullLine ends on a line boundary ---------- *)
Lemma read_lines_full : forall rev file fuel max ln ls c',
  read_lines read_blocks fuel rev true file max ln 0 = (ls, c') -> snd (fst c') = 0.
Proof.
  intros rev file. induction fuel as [|fuel IH]; intros max ln ls c' H; simpl in H.
  - inversion H; reflexivity.
  - destruct (read_blocks true max 0 0 0 (nth ln file [])) as [[[out eol] p] rd] eqn:E.
    apply (read_blocks_spec ln) in E. destruct E as (_ & _ & _ & _ & _ & _ & _ & I8).
    rewrite (I8 eq_refl) in H.
    destruct (next_line rev (length file) ln) as [ln' eof].
    destruct (eof || (max <=? rd)).
    + inversion H; reflexivity.
    + destruct (read_lines read_blocks fuel rev true file (max - rd) ln' 0) as [ls1 c1] eqn:RL.
      inversion H; subst. eapply IH; eauto.
Qed.

Theorem full_line_boundary : forall rev file q c,
  wf_file file = true -> wf_ckpt file c = true -> 0 < q -> snd (fst c) = 0 ->
  let '(ls, c') := read_index read_blocks rev true file q c in snd (fst c') = 0.
Proof.
  intros rev file q [[ln k] eof] W C Q K. simpl in K. subst k. unfold read_index.
  destruct eof; [reflexivity|].
  destruct (read_lines read_blocks (S (length file)) rev true file q ln 0) as [ls c'] eqn:E.
  eapply read_lines_full; eauto.
Qed.

(* ---------- 3: progress ---------- *)
Lemma read_lines_progress : forall rev full file fuel max ln k ls c',
  wf_file file = true -> ln < length file ->
  k < length (recs_of_blocks ln (nth ln file [])) -> 0 < max ->
  read_lines read_blocks (S fuel) rev full file max ln k = (ls, c') ->
  0 < length (recs_of_lines ls).
Proof.
  intros rev full file fuel max ln k ls c' W L K M H. simpl in H.
  destruct (read_blocks full max k 0 0 (nth ln file [])) as [[[out eol] p] rd] eqn:E.
  apply (read_blocks_spec ln) in E. destruct E as (I1 & I2 & I3 & I4 & I5 & I6 & I7 & I8).
  rewrite !Nat.sub_0_r in I3. simpl in I2, I4, I5, I6.
  assert (P : 0 < length (recs_of_blocks ln out)).
  { destruct eol.
    - rewrite (I5 eq_refl), firstn_all in I3. rewrite I3, skipn_length. lia.
    - destruct (I6 eq_refl) as (_ & M2 & _). lia. }
  destruct eol;
    [destruct (next_line rev (length file) ln) as [ln' eof];
     destruct (eof || (max <=? rd));
     [|destruct (read_lines read_blocks fuel rev full file (max - rd) ln' 0) as [ls1 c1]]|];
    inversion H; subst; rewrite rol_cons, app_length; lia.
Qed.

Theorem read_index_progress : forall rev full file q c,
  wf_file file = true -> wf_ckpt file c = true -> 0 < q -> snd c = false ->
  let '(ls, c') := read_index read_blocks rev full file q c in
  0 < length (recs_of_lines ls).
Proof.
  intros rev full file q [[ln k] eof] W C Q E. simpl in E. subst eof. unfold read_index.
  destruct (wf_ckpt_inv _ _ _ C) as [L K].
  destruct (read_lines read_blocks (S (length file)) rev full file q ln k) as [ls c'] eqn:RL.
  eapply read_lines_progress; eauto.
Qed.

(* ---------- 6: quota ---------- *)
Lemma read_lines_quota : forall rev file fuel max ln k ls c',
  read_lines read_blocks fuel rev false file max ln k = (ls, c') ->
  length (recs_of_lines ls) <= max.
Proof.
  intros rev file. induction fuel as [|fuel IH]; intros max ln k ls c' H; simpl in H.
  - inversion H; subst. simpl. lia.
  - destruct (read_blocks false max k 0 0 (nth ln file [])) as [[[out eol] p] rd] eqn:E.
    apply (read_blocks_spec ln) in E. destruct E as (_ & _ & _ & I4 & _ & _ & I7 & _).
    simpl in I4. specialize (I7 eq_refl (Nat.le_0_l _)).
    destruct eol.
    + destruct (next_line rev (length file) ln) as [ln' eof].
      destruct (eof || (max <=? rd)).
      * inversion H; subst ls c'. rewrite rol_cons, app_length. simpl. lia.
      * destruct (read_lines read_blocks fuel rev false file (max - rd) ln' 0) as [ls1 c1] eqn:RL.
        inversion H; subst ls c'. apply IH in RL. rewrite rol_cons, app_length. lia.
    + inversion H; subst ls c'. rewrite rol_cons, app_length. simpl. lia.
Qed.

Theorem quota_respected : forall rev file q c,
  wf_file file = true -> wf_ckpt file c = true -> 0 < q ->
  let '(ls, c') := read_index read_blocks rev false file q c in
  length (recs_of_lines ls) <= q.
Proof.
  intros rev file q [[ln k] eof] W C Q. unfold read_index. destruct eof.
  - simpl. lia.
  - destruct (read_lines read_blocks (S (length file)) rev false file q ln k) as [ls c'] eqn:RL.
    eapply read_lines_quota; eauto.
Qed.

(* ---------- 4: completeness ---------- *)
Lemma wf_start : forall rev file, wf_file file = true -> wf_ckpt file (start_ckpt rev file) = true.
Proof.
  intros rev file W. unfold start_ckpt. destruct file as [|l file'] eqn:EF.
  - reflexivity.
  - rewrite <- EF in *. replace (is_nil file) with false by (subst; reflexivity).
    assert (L : (if rev then pred (length file) else 0) < length file)
      by (subst; destruct rev; simpl; lia).
    apply wf_ckpt_live; auto. apply wf_line_pos; auto.
Qed.

Lemma drain_eof : forall rev full file qs c, snd c = true ->
  snd (snd (drain read_blocks rev full file qs c)) = true.
Proof.
  intros rev full file qs. induction qs as [|q r IH]; intros [[ln k] eof] E; simpl in E; subst eof.
  - reflexivity.
  - simpl. specialize (IH (ln, k, true) eq_refl).
    destruct (drain read_blocks rev full file r (ln, k, true)) as [rest c2]. exact IH.
Qed.

Lemma wf_live_remaining : forall rev file c, wf_ckpt file c = true -> snd c = false ->
  0 < length (remaining rev file c).
Proof.
  intros rev file [[ln k] eof] C E. simpl in E. subst eof.
  destruct (wf_ckpt_inv _ _ _ C) as [L K]. rewrite remaining_live.
  destruct (next_line rev (length file) ln) as [ln' eof] eqn:NL.
  destruct (next_line_spec rev file ln ln' eof L NL) as [LF _].
  rewrite LF, rol_cons, skipn_length, app_length. lia.
Qed.

Lemma drain_progress : forall rev full file qs c,
  wf_file file = true -> wf_ckpt file c = true -> Forall (fun q => 0 < q) qs ->
  let '(calls, c') := drain read_blocks rev full file qs c in
  snd c' = true \/ length qs <= length (flat_map recs_of_lines calls).
Proof.
  intros rev full file qs. induction qs as [|q r IH]; intros c W C F; simpl.
  - right. lia.
  - inversion F as [|? ? Q F']; subst.
    destruct (snd c) eqn:SC.
    + pose proof (drain_eof rev full file (q :: r) c SC) as D. simpl in D.
      destruct (read_index read_blocks rev full file q c) as [ls c1].
      destruct (drain read_blocks rev full file r c1) as [rest c2]. left. exact D.
    + pose proof (read_index_exact rev full file q c W C Q) as RI.
      pose proof (read_index_progress rev full file q c W C Q SC) as RP.
      destruct (read_index read_blocks rev full file q c) as [ls c1].
      destruct RI as [_ B]. specialize (IH c1 W B F').
      destruct (drain read_blocks rev full file r c1) as [rest c2].
      destruct IH as [IH|IH]; [left; auto|right].
      simpl. rewrite app_length. lia.
Qed.

Theorem drain_complete : forall rev full file qs,
  wf_file file = true -> Forall (fun q => 0 < q) qs ->
  length (all_recs rev file) <= length qs ->
  let '(calls, c') := drain read_blocks rev full file qs (start_ckpt rev file) in
  flat_map recs_of_lines calls = all_recs rev file /\ snd c' = true.
Proof.
  intros rev full file qs W F Len. unfold all_recs in *.
  pose proof (wf_start rev file W) as C.
  pose proof (drain_exact_wf rev full file qs _ W C F) as DE.
  pose proof (drain_progress rev full file qs _ W C F) as DP.
  destruct (drain read_blocks rev full file qs (start_ckpt rev file)) as [calls c'].
  destruct DE as [A B].
  assert (E : snd c' = true).
  { destruct DP as [DP|DP]; auto. destruct (snd c') eqn:SC; auto.
    pose proof (wf_live_remaining rev file c' B SC) as R.
    rewrite <- A, app_length in Len. lia. }
  split; auto. destruct c' as [[ln k] eof]. simpl in E. subst eof.
  simpl in A. rewrite app_nil_r in A. exact A.
Qed.

Print Assumptions read_index_exact.
Print Assumptions drain_exact.
Print Assumptions read_index_progress.
Print Assumptions drain_complete.
Print Assumptions full_line_boundary.
Print Assumptions quota_respected.
Print Assumptions blockend_loses_records_refuted.

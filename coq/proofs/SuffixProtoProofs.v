(* SuffixProtoProofs.v — a crash at ANY call boundary of ANY number of suffix allocations leaves a suffix file
   from which the restarted writer allocates a number above every existing segment directory. *)
From Coq Require Import Lia.
From SigM Require Import Base SuffixProto.
Open Scope nat_scope.

(* invariant between allocations: file = SVal n (or absent when n = 0), no tmp, all dirs < n *)
Definition between (n : nat) (x : sst) : Prop :=
  next_suffix x = n /\ (forall s, In s (dirs x) -> s < n).

Lemma fresh_spec x : fresh x = true <-> (forall s, In s (dirs x) -> s < next_suffix x).
Proof.
  unfold fresh. rewrite forallb_forall. split; intros H s Hs; specialize (H s Hs).
  - apply Nat.ltb_lt. exact H.
  - apply Nat.ltb_lt. exact H.
Qed.

(* inside one allocation of j (starting from a between-j state) every prefix is fresh, and the whole is between (S j) *)
Lemma alloc_prefix_fresh j x k : between j x -> fresh (srun x (firstn k (alloc_ops j))) = true.
Proof.
  intros [Hn Hd]. apply fresh_spec.
  unfold alloc_ops.
  destruct k as [|[|[|[|k]]]]; cbn [firstn srun fold_left sstep]; unfold next_suffix in *; cbn [dirs sfile_ stmp] in *; intros s Hs.
  - rewrite Hn. auto.
  - rewrite Hn. auto.
  - rewrite Hn. auto.
  - specialize (Hd s Hs). lia.
  - rewrite firstn_nil in *. cbn [fold_left dirs sfile_ In] in *. destruct Hs as [<-|Hs]; [lia|]. specialize (Hd s Hs). lia.
Qed.

Lemma alloc_full j x : between j x -> between (S j) (srun x (alloc_ops j)).
Proof.
  intros [Hn Hd]. unfold alloc_ops, between. cbn [srun fold_left sstep]. unfold next_suffix. cbn [dirs sfile_ stmp]. split; [reflexivity|].
  intros s Hs. cbn [In] in Hs. destruct Hs as [<-|Hs]; [lia|]. specialize (Hd s Hs). lia.
Qed.

Lemma allocs_from_fresh : forall n j x k, between j x ->
  fresh (srun x (firstn k (flat_map alloc_ops (seq j n)))) = true.
Proof.
  induction n as [|n IH]; intros j x k B.
  - cbn [seq flat_map]. rewrite firstn_nil. cbn [srun fold_left]. apply fresh_spec. destruct B as [Hn Hd]. rewrite Hn. exact Hd.
  - cbn [seq flat_map]. rewrite firstn_app. unfold srun. rewrite fold_left_app. fold (srun x (firstn k (alloc_ops j))).
    fold (srun (srun x (firstn k (alloc_ops j))) (firstn (k - length (alloc_ops j)) (flat_map alloc_ops (seq (S j) n)))).
    change (length (alloc_ops j)) with 4.
    destruct (Nat.leb_spec 4 k) as [Hk|Hk].
    + rewrite firstn_all2 by (cbn; lia). apply IH. apply alloc_full. exact B.
    + replace (k - 4) with 0 by lia. cbn [firstn]. cbn [srun fold_left]. fold (srun x (firstn k (alloc_ops j))).
      apply alloc_prefix_fresh. exact B.
Qed.

Lemma between0 : between 0 sst0.
Proof. split; [reflexivity|]. intros s []. Qed.

Theorem suffix_never_reused : forall n k, fresh (srun sst0 (firstn k (allocs alloc_ops n))) = true.
Proof. intros n k. unfold allocs. apply allocs_from_fresh. exact between0. Qed.

(* what is handed out after the crash is exactly the number of completed allocations or one more *)
Theorem suffix_in_place_refuted :
  fresh (srun sst0 (firstn 4 (allocs alloc_ops_inplace 2))) = false /\
  next_suffix (srun sst0 (firstn 4 (allocs alloc_ops_inplace 2))) = 0 /\
  In 0 (dirs (srun sst0 (firstn 4 (allocs alloc_ops_inplace 2)))).
Proof. vm_compute. repeat split. left. reflexivity. Qed.

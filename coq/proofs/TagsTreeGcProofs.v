(* TagsTreeGcProofs.v — the tags-tree directories deleted with a set of metrics segments: a function of the SET of
   listed entries (directories of removed entries minus directories of preserved entries), hence independent of the
   listing order; no listed segment ever loses its tags tree, over any sequence of retention passes. *)
From Coq Require Import List Lia NArith Bool Permutation.
From SigM Require Import Base TagsTreeGc.
From SigP Require Import BaseProofs.
Import ListNotations.
Open Scope N_scope.

Lemma gc_mem_In : forall x l, gc_mem x l = true <-> In x l.
Proof.
  unfold gc_mem; intros; rewrite existsb_exists; split.
  - intros [y [H1 H2]]. apply N.eqb_eq in H2; subst; auto.
  - intros; exists x; split; auto; apply N.eqb_refl.
Qed.

Lemma gc_mem_false : forall x l, gc_mem x l = false <-> ~ In x l.
Proof. intros. rewrite <- gc_mem_In. destruct (gc_mem x l); intuition congruence. Qed.

Lemma In_gc_add : forall x d l, In x (gc_add d l) <-> x = d \/ In x l.
Proof.
  unfold gc_add; intros. destruct (gc_mem d l) eqn:E.
  - apply gc_mem_In in E. split; [auto|]. intros [->|]; auto.
  - rewrite in_app_iff; simpl. intuition.
Qed.

Lemma In_gc_del : forall x d l, In x (gc_del d l) <-> In x l /\ x <> d.
Proof. unfold gc_del; intros. rewrite filter_In, negb_true_iff, N.eqb_neq. tauto. Qed.

Definition gc_keep (rm : list N) (e : gc_entry) : bool := negb (gc_mem (fst e) rm).

Lemma gc_scan_step_eq : forall rm p d e,
  gc_scan_step rm (p, d) e = if gc_mem (fst e) rm then (p, gc_add (snd e) d) else (p ++ [e], d).
Proof. reflexivity. Qed.

Lemma gc_scan_gen : forall rm es p d,
  fst (fold_left (gc_scan_step rm) es (p, d)) = p ++ filter (gc_keep rm) es /\
  forall x, In x (snd (fold_left (gc_scan_step rm) es (p, d))) <->
            In x d \/ exists e, In e es /\ gc_mem (fst e) rm = true /\ snd e = x.
Proof.
  induction es as [|e es IH]; intros p d.
  - cbn [fold_left filter fst snd]. rewrite app_nil_r. split; auto.
    intros x; split; auto. intros [H|[e [[] _]]]; auto.
  - cbn [fold_left filter]. rewrite gc_scan_step_eq. unfold gc_keep at 1.
    destruct (gc_mem (fst e) rm) eqn:E; cbn [negb].
    + destruct (IH p (gc_add (snd e) d)) as [H1 H2]. split; auto.
      intros x; rewrite H2, In_gc_add. split.
      * intros [[->|H]|[e' [Hi [Hm Hs]]]]; auto.
        -- right; exists e; simpl; auto.
        -- right; exists e'; simpl; auto.
      * intros [H|[e' [[<-|Hi] [Hm Hs]]]]; auto.
        right; exists e'; auto.
    + destruct (IH (p ++ [e]) d) as [H1 H2]. split.
      * rewrite H1, <- app_assoc; auto.
      * intros x; rewrite H2. split.
        -- intros [H|[e' [Hi [Hm Hs]]]]; auto. right; exists e'; simpl; auto.
        -- intros [H|[e' [[<-|Hi] [Hm Hs]]]]; auto; [congruence|]. right; exists e'; auto.
Qed.

Lemma In_gc_drop_preserved : forall pres del x,
  In x (gc_drop_preserved pres del) <-> In x del /\ forall e, In e pres -> snd e <> x.
Proof.
  unfold gc_drop_preserved. induction pres as [|e pres IH]; intros del x; cbn [fold_left].
  - split; [intros H; split; auto; intros e []|tauto].
  - rewrite IH, In_gc_del. split.
    + intros [[H1 H2] H3]. split; auto. intros e' [<-|Hi]; auto.
    + intros [H1 H2]. split; [split; auto|].
      * intro Hx. apply (H2 e); simpl; auto.
      * intros e' Hi. apply H2; simpl; auto.
Qed.

(* the entries written back: the preserved ones, in file order *)
Theorem gc_code_preserved : forall rm es, fst (gc_code rm es) = filter (gc_keep rm) es.
Proof.
  intros. unfold gc_code, gc_scan. destruct (gc_scan_gen rm es [] []) as [H1 _].
  destruct (fold_left (gc_scan_step rm) es ([], [])) as [p d]. simpl in *. auto.
Qed.

(* the delete set: directories of removed entries minus directories of preserved entries *)
Theorem gc_code_delete_set : forall rm es x,
  In x (snd (gc_code rm es)) <->
  (exists e, In e es /\ gc_mem (fst e) rm = true /\ snd e = x) /\
  (forall e, In e es -> gc_mem (fst e) rm = false -> snd e <> x).
Proof.
  intros. unfold gc_code, gc_scan. destruct (gc_scan_gen rm es [] []) as [H1 H2].
  destruct (fold_left (gc_scan_step rm) es ([], [])) as [p d]. cbn [fst snd] in *.
  rewrite In_gc_drop_preserved, H2, H1. cbn [app]. split.
  - intros [[[]|H] H3]. split; auto. intros e Hi Hm. apply H3. apply filter_In. split; auto.
    unfold gc_keep; rewrite Hm; auto.
  - intros [H H3]. split; auto. intros e Hi. apply filter_In in Hi. destruct Hi as [Hi Hk].
    apply H3; auto. unfold gc_keep in Hk. apply negb_true_iff in Hk; auto.
Qed.

(* ... hence the same for every listing order of the same entries *)
Theorem gc_code_order_independent : forall rm es es' x,
  Permutation es es' -> (In x (snd (gc_code rm es)) <-> In x (snd (gc_code rm es'))).
Proof.
  intros rm es es' x HP. rewrite !gc_code_delete_set.
  assert (HI : forall e, In e es <-> In e es').
  { intros; split; apply Permutation_in; auto using Permutation_sym. }
  split; intros [[e [Hi Hr]] H2]; (split; [exists e; split; auto; apply HI; auto|intros e' Hi'; apply H2; apply HI; auto]).
Qed.

(* store invariant: the tags-tree directory of every listed segment exists *)
Definition gc_inv (s : gc_store) : Prop := forall e, In e (fst s) -> In (snd e) (snd s).

Lemma gc_retain_fst : forall s rm, fst (gc_retain s rm) = filter (gc_keep rm) (fst s).
Proof.
  intros [es dirs] rm. unfold gc_retain, gc_retain_with. cbn [fst].
  rewrite <- gc_code_preserved. destruct (gc_code rm es); reflexivity.
Qed.

Lemma gc_retain_inv : forall s rm, gc_inv s -> gc_inv (gc_retain s rm).
Proof.
  intros [es dirs] rm HI e He. pose proof (gc_retain_fst (es, dirs) rm) as HF.
  rewrite HF in He. cbn [fst] in He. apply filter_In in He. destruct He as [He Hk].
  unfold gc_retain, gc_retain_with. pose proof (gc_code_delete_set rm es (snd e)) as HD.
  destruct (gc_code rm es) as [pres del]. cbn [fst snd] in *.
  apply filter_In. split; [apply (HI e); auto|].
  apply negb_true_iff, gc_mem_false. intro Hin. apply HD in Hin. destruct Hin as [_ H2].
  apply (H2 e); auto. unfold gc_keep in Hk. apply negb_true_iff in Hk; auto.
Qed.

Lemma gc_retain_seq_inv : forall rms s, gc_inv s -> gc_inv (fold_left gc_retain rms s).
Proof. induction rms; simpl; intros; auto. apply IHrms, gc_retain_inv; auto. Qed.

Lemma gc_retain_seq_listed : forall rms s e,
  In e (fst s) -> (forall rm, In rm rms -> gc_mem (fst e) rm = false) -> In e (fst (fold_left gc_retain rms s)).
Proof.
  induction rms as [|rm rms IH]; simpl; intros s e He Hrm; auto.
  apply IH; auto. rewrite gc_retain_fst. apply filter_In. split; auto.
  unfold gc_keep. rewrite Hrm; auto.
Qed.

(* any number of retention passes with any removal sets, any listing order: a segment that no pass removes stays listed
   AND keeps its tags tree (a selector query after a restart can read it) *)
Theorem gc_survivor_searchable : forall rms s e,
  gc_inv s -> In e (fst s) -> (forall rm, In rm rms -> gc_mem (fst e) rm = false) ->
  gc_searchable (fold_left gc_retain rms s) e.
Proof.
  intros rms s e HI He Hrm. split.
  - apply gc_retain_seq_listed; auto.
  - apply (gc_retain_seq_inv rms s HI). apply gc_retain_seq_listed; auto.
Qed.

(* nothing else is lost either: a directory disappears only if a removed segment used it *)
Theorem gc_dir_removed_only_with_a_segment : forall s rm d,
  In d (snd s) -> ~ In d (snd (gc_retain s rm)) ->
  exists e, In e (fst s) /\ gc_mem (fst e) rm = true /\ snd e = d.
Proof.
  intros [es dirs] rm d Hd Hn. unfold gc_retain, gc_retain_with in Hn.
  pose proof (gc_code_delete_set rm es d) as HD.
  destruct (gc_code rm es) as [pres del]. cbn [fst snd] in *.
  destruct (gc_mem d del) eqn:E.
  - apply gc_mem_In in E. apply HD in E. tauto.
  - exfalso. apply Hn. apply filter_In. split; auto. rewrite E; auto.
Qed.

(* the single-pass variant: a preserved entry listed BEFORE a removed entry of the same directory loses its tags tree *)
Theorem gc_single_pass_refuted : exists (s : gc_store) (rm : list N) (e : gc_entry),
  gc_inv s /\ In e (fst s) /\ gc_mem (fst e) rm = false /\
  gc_searchable (gc_retain s rm) e /\ ~ gc_searchable (gc_retain_with gc_single s rm) e.
Proof.
  exists ([(0, 0); (1, 0)], [0]), [1], (0, 0). split; [|split; [|split; [|split]]].
  - intros e [<-|[<-|[]]]; simpl; auto.
  - simpl; auto.
  - reflexivity.
  - vm_compute. split; auto.
  - vm_compute. intros [_ []].
Qed.

(* ... while the ordinary order (removed entry first) does not show it *)
Example gc_single_pass_removed_first_agrees :
  gc_single [1] [(1, 0); (0, 0)] = gc_code [1] [(1, 0); (0, 0)].
Proof. reflexivity. Qed.

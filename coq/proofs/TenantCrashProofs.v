(* TenantCrashProofs.v — tenant ownership across an unclean death + start-up recovery (model: SigM.TenantCrash). *)
From Coq Require Import List NArith Bool Lia.
From SigM Require Import Base Tenant TenantCrash.
From SigP Require Import BaseProofs TenantProofs.
Import ListNotations.
Open Scope N_scope.

(* ---------- the history ---------- *)
Definition cingested (ops : list cop) (X : N) (i : N) : Prop :=
  exists n ids, In (CIngest X n ids) ops /\ In i ids.

Lemma ingested_snoc ops o X i : cingested ops X i -> cingested (ops ++ [o]) X i.
Proof. intros (n & ids & H & K). exists n, ids. split; auto. apply in_or_app. auto. Qed.

Lemma crun_with_snoc wr ops o : crun_with wr (ops ++ [o]) = fst (cstep_with wr (crun_with wr ops) o).
Proof. unfold crun_with. rewrite fold_left_app. reflexivity. Qed.

(* ---------- provenance invariant over memory AND disk ---------- *)
(* every searchable event and every event of an on-disk record was cingested by the org it is attributed to,
   and every record stores the org (and table) of the directory it lies in *)
Definition rec_ok (ops : list cop) (r : srec) : Prop :=
  r_org r = r_dorg r /\ r_tab r = r_dtab r /\ forall i, In i (r_ids r) -> cingested ops (r_dorg r) i.

Definition PInv (ops : list cop) (c : cstate) : Prop :=
  (forall e, In e (evs (fst c)) -> cingested ops (e_org e) (e_id e)) /\
  (forall r, In r (snd c) -> rec_ok ops r) /\
  ghost (fst c) = [].

Lemma PInv_mono ops o c : PInv ops c -> PInv (ops ++ [o]) c.
Proof.
  intros (A & B & C). split; [|split]; auto.
  - intros e He. apply ingested_snoc. auto.
  - intros r Hr. destruct (B r Hr) as (P & Q & R). split; [|split]; auto.
    intros i Hi. apply ingested_snoc. auto.
Qed.

Lemma add_tab_ghost s X t : ghost (add_tab s X t) = ghost s.
Proof. unfold add_tab. destruct (has_tab (mtabs s) X t); reflexivity. Qed.

Lemma rec_is_true X t g r : rec_is X t g r = true -> r_dorg r = X /\ r_dtab r = t /\ r_seg r = g.
Proof.
  unfold rec_is. intros H. apply andb_true_iff in H. destruct H as [H G]. apply andb_true_iff in H.
  destruct H as [H K]. apply N.eqb_eq in H, G. apply name_eqb_eq in K. auto.
Qed.

(* the three state-changing steps, for any history *)
Lemma PInv_rotate ops s d : PInv ops (s, d) -> PInv ops (rotate_state s, map rotate_rec d).
Proof.
  intros (A & B & C). split; [|split].
  - cbn. intros e He. apply in_map_iff in He. destruct He as (e0 & <- & H0). cbn. apply (A e0 H0).
  - cbn. intros r Hr. apply in_map_iff in Hr. destruct Hr as (r0 & <- & H0).
    destruct (B r0 H0) as (P & Q & R). unfold rotate_rec. destruct (r_listed r0).
    + split; [|split]; auto.
    + split; [|split]; cbn; auto.
  - cbn in *. exact C.
Qed.

Lemma recover_in my s d e :
  In e (recover my s d) -> exists r, In r d /\ e_org e = r_org r /\ e_tab e = r_tab r /\ In (e_id e) (r_ids r).
Proof.
  unfold recover. intros H. apply in_flat_map in H. destruct H as (r & Hr & He).
  apply filter_In in Hr. destruct Hr as [Hr _]. unfold rec_events in He. apply in_map_iff in He.
  destruct He as (i & <- & Hi). exists r. cbn. auto.
Qed.

Lemma PInv_crash ops my s d : PInv ops (s, d) -> PInv ops (crash_state my s d, map (adopt my s) d).
Proof.
  intros (A & B & C). split; [|split].
  - cbn. intros e He. apply recover_in in He. destruct He as (r & Hr & Eo & _ & Hi).
    destruct (B r Hr) as (P & _ & R). rewrite Eo, P. apply R. exact Hi.
  - cbn. intros r Hr. apply in_map_iff in Hr. destruct Hr as (r0 & <- & H0).
    destruct (B r0 H0) as (P & Q & R). unfold adopt. destruct (visible my s r0); split; cbn; auto.
  - reflexivity.
Qed.

Lemma write_sfm_in wr d X t g ids r :
  In r (write_sfm wr d X t g ids) ->
  (exists r0, In r0 d /\ rec_is X t g r0 = false /\ r = r0) \/
  (exists r0, In r0 d /\ rec_is X t g r0 = true /\
              r = mkRec (r_dorg r0) (r_dtab r0) (r_seg r0) (wr X) t (r_ids r0 ++ ids) (r_listed r0)) \/
  r = mkRec X t g (wr X) t ids false.
Proof.
  unfold write_sfm. intros H. apply in_app_or in H. destruct H as [H|H].
  - apply in_map_iff in H. destruct H as (r0 & E & H0). destruct (rec_is X t g r0) eqn:K.
    + right. left. exists r0. auto.
    + left. exists r0. auto.
  - destruct (existsb (rec_is X t g) d); [destruct H|]. destruct H as [H|[]]. right. right. auto.
Qed.

Lemma PInv_ingest ops s d X n ids :
  ids <> [] -> PInv ops (s, d) ->
  PInv (ops ++ [CIngest X n ids])
       (fst (step s (Ingest X n ids)), write_sfm wr_code d X (resolve s X n) (segno s) ids).
Proof.
  intros NE I. pose proof (PInv_mono ops (CIngest X n ids) _ I) as (A & B & C). clear I.
  assert (NEW : forall i, In i ids -> cingested (ops ++ [CIngest X n ids]) X i).
  { intros i Hi. exists n, ids. split; auto. apply in_or_app. right. left. reflexivity. }
  destruct ids as [|i0 ids0]; [congruence|]. remember (i0 :: ids0) as ids.
  split; [|split].
  - cbn [fst step]. rewrite Heqids. rewrite <- Heqids. cbn [evs fst]. intros e He.
    rewrite add_tab_evs in He. apply in_app_or in He. destruct He as [He|He].
    + apply A. exact He.
    + apply in_map_iff in He. destruct He as (i & <- & Hi). cbn. apply NEW. exact Hi.
  - cbn [snd]. intros r Hr. apply write_sfm_in in Hr. destruct Hr as [(r0 & H0 & _ & ->)|[(r0 & H0 & K & ->)| -> ]].
    + apply B. exact H0.
    + destruct (B r0 H0) as (P & Q & R). apply rec_is_true in K. destruct K as (K1 & K2 & _).
      split; [|split]; cbn.
      * unfold wr_code. auto.
      * auto.
      * intros i Hi. apply in_app_or in Hi. destruct Hi as [Hi|Hi]; [apply R; exact Hi|].
        rewrite K1. apply NEW. exact Hi.
    + split; [|split]; cbn; auto.
  - cbn [fst step]. rewrite Heqids. rewrite <- Heqids. cbn [ghost fst]. rewrite add_tab_ghost. exact C.
Qed.

Lemma PInv_step ops c o : PInv ops c -> PInv (ops ++ [o]) (fst (cstep_with wr_code c o)).
Proof.
  intros I. destruct c as [s d]. destruct o as [X n|X n ids|  |my|my|X e|X e|X]; cbn [cstep_with fst].
  - apply PInv_mono. destruct I as (A & B & C). split; [|split]; cbn [fst snd step]; auto.
    + rewrite add_tab_evs. exact A.
    + rewrite add_tab_ghost. exact C.
  - destruct ids as [|i0 ids0].
    + apply PInv_mono. exact I.
    + apply PInv_ingest; [discriminate|exact I].
  - apply PInv_mono. apply PInv_rotate. exact I.
  - apply PInv_mono. apply PInv_crash. exact I.
  - apply PInv_mono. apply PInv_crash. apply PInv_rotate. exact I.
  - apply PInv_mono. exact I.
  - apply PInv_mono. exact I.
  - apply PInv_mono. exact I.
Qed.

Lemma PInv_init : PInv [] cinit.
Proof. split; [|split]; cbn; auto; intros ? []. Qed.

Lemma PInv_crun ops : PInv ops (crun ops).
Proof.
  induction ops as [|o ops IH] using rev_ind.
  - exact PInv_init.
  - unfold crun. rewrite crun_with_snoc. apply PInv_step. exact IH.
Qed.

(* ---------- main theorem: recovery preserves provenance when the stored record carries the org ---------- *)
(* for ALL histories with any number of unclean and graceful restarts (any id lists): every id a search of
   org X over expr returns after them was cingested by X, and its event lies in an index of the expansion *)
Theorem crash_query_isolation : forall ops X expr i,
  In i (csearch (crun ops) X expr) ->
  cingested ops X i /\
  exists e, In e (evs (fst (crun ops))) /\ e_id e = i /\ e_org e = X /\
            mem (e_tab e) (expand (fst (crun ops)) X false expr) = true.
Proof.
  intros ops X expr i H. unfold csearch, q_events in H. apply in_map_iff in H.
  destruct H as (e & <- & He). apply filter_In in He. destruct He as [He S].
  unfold sel_tab in S. apply andb_true_iff in S. destruct S as [S1 S2]. apply N.eqb_eq in S1.
  destruct (PInv_crun ops) as (A & _ & _). split.
  - rewrite <- S1. apply A. exact He.
  - exists e. auto.
Qed.

(* the column listing after any such history lists only (X, index) pairs of stored events of X in the expansion *)
Theorem crash_columns_isolation : forall ops X expr p,
  In p (q_pairs (fst (crun ops)) X expr) ->
  fst p = X /\ mem (snd p) (expand (fst (crun ops)) X false expr) = true /\
  exists e, In e (evs (fst (crun ops))) /\ e_org e = X /\ e_tab e = snd p /\ cingested ops X (e_id e).
Proof.
  intros ops X expr p H. destruct (PInv_crun ops) as (A & _ & C). unfold q_pairs in H. rewrite C in H.
  cbn [filter] in H. rewrite app_nil_r in H. apply in_map_iff in H. destruct H as (e & <- & He).
  apply filter_In in He. destruct He as [He S]. unfold sel_tab in S. apply andb_true_iff in S.
  destruct S as [S1 S2]. apply N.eqb_eq in S1. cbn. split; [|split]; auto.
  exists e. split; [|split; [|split]]; auto. rewrite <- S1. apply A. exact He.
Qed.

(* every on-disk record from which start-up rebuilds state carries the owning org, after any history *)
Theorem crash_records_carry_org : forall ops r,
  In r (snd (crun ops)) -> r_org r = r_dorg r /\ r_tab r = r_dtab r /\
  forall i, In i (r_ids r) -> cingested ops (r_dorg r) i.
Proof. intros ops r H. destruct (PInv_crun ops) as (_ & B & _). exact (B r H). Qed.

(* ---------- refutation: a running .sfm without the org field ---------- *)
Definition n_a : name := [97].
Definition orgless_ops : list cop := [CIngest 7 n_a [1]; CCrash [0; 7]].

(* org 7 flushes event 1 into its open segment of index a; unclean death; restart: org 0, which never cingested
   anything, gets event 1 for the expression a, and org 7 no longer finds it (it did before the death) *)
Theorem orgless_record_refuted :
  In 1 (csearch (crun_with wr_orgless orgless_ops) 0 n_a) /\ ~ cingested orgless_ops 0 1 /\
  In 1 (csearch (crun_with wr_orgless [CIngest 7 n_a [1]]) 7 n_a) /\
  ~ In 1 (csearch (crun_with wr_orgless orgless_ops) 7 n_a).
Proof.
  split; [|split; [|split]].
  - vm_compute. auto.
  - intros (n & ids & H & _). cbn in H. destruct H as [H|[H|[]]]; discriminate.
  - vm_compute. auto.
  - vm_compute. intros [].
Qed.

(* the same history under the code's writer: org 0 gets nothing, org 7 keeps its event *)
Example orgless_ops_under_code :
  csearch (crun orgless_ops) 0 n_a = [] /\ csearch (crun orgless_ops) 7 n_a = [1].
Proof. vm_compute. auto. Qed.

(* ====================================================================== *)
(* Every tenant sees after an unclean restart exactly what it saw before.  *)
(* ====================================================================== *)
(* the id list of the (re)started node covers every org that ingests in the history *)
Definition covered (ops : list cop) (my : list N) : Prop :=
  forall X n ids, In (CIngest X n ids) ops -> In X my.
(* ... and so did the id list of every earlier unclean restart of the history (a segment that an earlier restart
   could not adopt — its org was not served by the node — would re-appear now) *)
Definition crashes_cover (ops : list cop) : Prop := forall my, In (CCrash my) ops -> covered ops my.

Lemma covered_app ops o my : covered (ops ++ [o]) my -> covered ops my.
Proof. intros H X n ids K. apply (H X n ids). apply in_or_app. auto. Qed.
Lemma crashes_cover_app ops o : crashes_cover (ops ++ [o]) -> crashes_cover ops.
Proof. intros H my K. apply (covered_app ops o). apply H. apply in_or_app. auto. Qed.

(* memory and disk mirror each other (alias-free histories) *)
Definition MInv (ops : list cop) (c : cstate) : Prop :=
  listed_inv (fst c) /\
  (amem (fst c) = [] /\ akeys (fst c) = [] /\ afile (fst c) = []) /\
  (forall e, In e (evs (fst c)) ->
     exists r, In r (snd c) /\ r_dorg r = e_org e /\ r_dtab r = e_tab e /\ In (e_id e) (r_ids r)) /\
  (forall r, In r (snd c) ->
     has_tab (ftabs (fst c)) (r_dorg r) (r_dtab r) = true /\ exists n ids, In (CIngest (r_dorg r) n ids) ops) /\
  (forall r i, In r (snd c) -> In i (r_ids r) ->
     exists e, In e (evs (fst c)) /\ e_org e = r_dorg r /\ e_tab e = r_dtab r /\ e_id e = i).

Lemma add_tab_alias s X t :
  amem (add_tab s X t) = amem s /\ akeys (add_tab s X t) = akeys s /\ afile (add_tab s X t) = afile s.
Proof. unfold add_tab. destruct (has_tab (mtabs s) X t); auto. Qed.

Lemma resolve_no_alias s X n : amem s = [] -> resolve s X n = n.
Proof. intros H. unfold resolve, alias_targets. rewrite H. reflexivity. Qed.

Lemma filter_all {A} (f : A -> bool) l : (forall x, In x l -> f x = true) -> filter f l = l.
Proof.
  induction l as [|x l IH]; intros H; cbn; auto. rewrite (H x (or_introl eq_refl)). f_equal.
  apply IH. intros y Hy. apply H. right. exact Hy.
Qed.

Lemma has_tab_filter P l X t : has_tab (filter P l) X t = true -> has_tab l X t = true.
Proof.
  unfold has_tab. intros H. apply existsb_exists in H. destruct H as (p & Hp & K).
  apply filter_In in Hp. apply existsb_exists. exists p. split; tauto.
Qed.

Lemma write_sfm_keeps wr d X t g ids r0 :
  In r0 d -> exists r, In r (write_sfm wr d X t g ids) /\ r_dorg r = r_dorg r0 /\ r_dtab r = r_dtab r0 /\
                       incl (r_ids r0) (r_ids r).
Proof.
  intros H. unfold write_sfm.
  exists (if rec_is X t g r0
          then mkRec (r_dorg r0) (r_dtab r0) (r_seg r0) (wr X) t (r_ids r0 ++ ids) (r_listed r0) else r0).
  split.
  - apply in_or_app. left. apply in_map_iff. exists r0. auto.
  - destruct (rec_is X t g r0); cbn; repeat split; auto using incl_refl. apply incl_appl, incl_refl.
Qed.

Lemma write_sfm_has wr d X t g ids :
  exists r, In r (write_sfm wr d X t g ids) /\ r_dorg r = X /\ r_dtab r = t /\ incl ids (r_ids r).
Proof.
  unfold write_sfm. destruct (existsb (rec_is X t g) d) eqn:E.
  - apply existsb_exists in E. destruct E as (r0 & H0 & K).
    exists (mkRec (r_dorg r0) (r_dtab r0) (r_seg r0) (wr X) t (r_ids r0 ++ ids) (r_listed r0)). split.
    + apply in_or_app. left. apply in_map_iff. exists r0. rewrite K. auto.
    + apply rec_is_true in K. destruct K as (K1 & K2 & _). cbn. repeat split; auto. apply incl_appr, incl_refl.
  - exists (mkRec X t g (wr X) t ids false). split.
    + apply in_or_app. right. left. reflexivity.
    + cbn. repeat split; auto using incl_refl.
Qed.

Lemma MInv_mono ops o c : MInv ops c -> MInv (ops ++ [o]) c.
Proof.
  intros (L & A & M2 & M3 & M4). split; [|split; [|split; [|split]]]; auto.
  intros r Hr. destruct (M3 r Hr) as (T & n & ids & K). split; auto. exists n, ids. apply in_or_app. auto.
Qed.

Lemma MInv_rotate ops s d : MInv ops (s, d) -> MInv ops (rotate_state s, map rotate_rec d).
Proof.
  intros (L & A & M2 & M3 & M4). cbn [fst snd] in *.
  assert (RD : forall r, r_dorg (rotate_rec r) = r_dorg r /\ r_dtab (rotate_rec r) = r_dtab r /\
                         r_ids (rotate_rec r) = r_ids r).
  { intros r. unfold rotate_rec. destruct (r_listed r); auto. }
  split; [|split; [|split; [|split]]]; cbn [fst snd].
  - apply (listed_step s Rotate). exact L.
  - exact A.
  - cbn. intros e He. apply in_map_iff in He. destruct He as (e0 & <- & H0).
    destruct (M2 e0 H0) as (r & Hr & P & Q & R). exists (rotate_rec r). destruct (RD r) as (E1 & E2 & E3).
    split; [apply in_map; exact Hr|]. cbn. rewrite E1, E2, E3. auto.
  - intros r Hr. apply in_map_iff in Hr. destruct Hr as (r0 & <- & H0). destruct (RD r0) as (E1 & E2 & E3).
    rewrite E1, E2. cbn. apply M3. exact H0.
  - intros r i Hr Hi. apply in_map_iff in Hr. destruct Hr as (r0 & <- & H0). destruct (RD r0) as (E1 & E2 & E3).
    rewrite E3 in Hi. destruct (M4 r0 i H0 Hi) as (e & He & P & Q & R). exists (set_rot e). split.
    + cbn. apply in_map. exact He.
    + rewrite E1, E2. cbn. auto.
Qed.

Lemma MInv_crash ops my s d :
  (forall r, In r d -> r_org r = r_dorg r /\ r_tab r = r_dtab r) ->
  (forall r, In r d -> visible my s r = true) ->
  MInv ops (s, d) -> MInv ops (crash_state my s d, map (adopt my s) d).
Proof.
  intros OK V (L & A & M2 & M3 & M4). cbn [fst snd] in *. destruct A as (A1 & A2 & A3). destruct L as [L1 L2].
  assert (RD : forall r, r_dorg (adopt my s r) = r_dorg r /\ r_dtab (adopt my s r) = r_dtab r /\
                         r_ids (adopt my s r) = r_ids r).
  { intros r. unfold adopt. destruct (visible my s r); auto. }
  assert (RC : recover my s d = flat_map rec_events d).
  { unfold recover. rewrite (filter_all _ _ V). reflexivity. }
  split; [|split; [|split; [|split]]]; cbn [fst snd crash_state ftabs mtabs evs amem akeys afile].
  - split.
    + intros X t H. apply has_tab_filter in H. exact H.
    + intros e He. apply recover_in in He. destruct He as (r & Hr & Eo & Et & _).
      destruct (OK r Hr) as [P Q]. rewrite Eo, Et, P, Q. apply M3. exact Hr.
  - rewrite A3. cbn. auto.
  - intros e He. apply recover_in in He. destruct He as (r & Hr & Eo & Et & Hi). destruct (OK r Hr) as [P Q].
    exists (adopt my s r). destruct (RD r) as (E1 & E2 & E3). split; [apply in_map; exact Hr|].
    rewrite E1, E2, E3, Eo, Et. auto.
  - intros r Hr. apply in_map_iff in Hr. destruct Hr as (r0 & <- & H0). destruct (RD r0) as (E1 & E2 & _).
    rewrite E1, E2. apply M3. exact H0.
  - intros r i Hr Hi. apply in_map_iff in Hr. destruct Hr as (r0 & <- & H0). destruct (RD r0) as (E1 & E2 & E3).
    rewrite E3 in Hi. destruct (OK r0 H0) as [P Q].
    exists (mkEv (r_org r0) (r_tab r0) true i (r_seg r0)). split.
    + rewrite RC. apply in_flat_map. exists r0. split; auto. unfold rec_events. apply in_map_iff. exists i. auto.
    + rewrite E1, E2. cbn. auto.
Qed.

Lemma MInv_ingest ops s d X n ids :
  ids <> [] -> MInv ops (s, d) ->
  MInv (ops ++ [CIngest X n ids])
       (fst (step s (Ingest X n ids)), write_sfm wr_code d X (resolve s X n) (segno s) ids).
Proof.
  intros NE I. pose proof (MInv_mono ops (CIngest X n ids) _ I) as (L & A & M2 & M3 & M4). clear I.
  cbn [fst snd] in *. destruct A as (A1 & A2 & A3). rewrite (resolve_no_alias s X n A1).
  pose proof (listed_step s (Ingest X n ids) L) as L'.
  destruct ids as [|i0 ids0]; [congruence|]. remember (i0 :: ids0) as ids.
  assert (ST : fst (step s (Ingest X n ids)) =
               let s1 := add_tab s X n in
               mkSt (ftabs s1) (mtabs s1) (adirs s1) (afile s1) (amem s1) (akeys s1)
                    (evs s1 ++ map (fun i => mkEv X n false i (segno s1)) ids) (ghost s1) (segno s1)).
  { rewrite Heqids. cbn [step fst]. rewrite (resolve_no_alias s X n A1). reflexivity. }
  rewrite ST in *. cbv zeta in *. clear ST.
  destruct (add_tab_alias s X n) as (B1 & B2 & B3).
  assert (SG : segno (add_tab s X n) = segno s). { unfold add_tab. destruct (has_tab (mtabs s) X n); reflexivity. }
  split; [|split; [|split; [|split]]]; cbn [fst snd ftabs mtabs evs amem akeys afile].
  - exact L'.
  - rewrite B1, B2, B3. auto.
  - intros e He. rewrite add_tab_evs in He. apply in_app_or in He. destruct He as [He|He].
    + destruct (M2 e He) as (r0 & H0 & P & Q & R).
      destruct (write_sfm_keeps wr_code d X n (segno s) ids r0 H0) as (r & Hr & E1 & E2 & IN).
      exists r. rewrite E1, E2. auto.
    + apply in_map_iff in He. destruct He as (i & <- & Hi).
      destruct (write_sfm_has wr_code d X n (segno s) ids) as (r & Hr & E1 & E2 & IN). exists r. cbn. auto.
  - assert (NEWOP : exists n0 ids1, In (CIngest X n0 ids1) (ops ++ [CIngest X n ids])).
    { exists n, ids. apply in_or_app. right. left. reflexivity. }
    intros r Hr. apply write_sfm_in in Hr. destruct Hr as [(r0 & H0 & _ & ->)|[(r0 & H0 & K & ->)| -> ]].
    + destruct (M3 r0 H0) as [T O]. split; auto. apply add_tab_ftabs_mono. exact T.
    + destruct (M3 r0 H0) as [T O]. cbn. split; auto. apply add_tab_ftabs_mono. exact T.
    + cbn. split; auto. apply (add_tab_listed s X n L).
  - intros r i Hr Hi. rewrite add_tab_evs. apply write_sfm_in in Hr.
    assert (NEWEV : In i ids -> exists e, In e (evs s ++ map (fun i => mkEv X n false i (segno (add_tab s X n))) ids) /\
                                          e_org e = X /\ e_tab e = n /\ e_id e = i).
    { intros K. exists (mkEv X n false i (segno (add_tab s X n))). split; [|cbn; auto].
      apply in_or_app. right. apply in_map_iff. exists i. auto. }
    destruct Hr as [(r0 & H0 & _ & ->)|[(r0 & H0 & K & ->)| -> ]].
    + destruct (M4 r0 i H0 Hi) as (e & He & P). exists e. split; auto. apply in_or_app. auto.
    + cbn in Hi. apply in_app_or in Hi. destruct Hi as [Hi|Hi].
      * destruct (M4 r0 i H0 Hi) as (e & He & P). exists e. split; auto. apply in_or_app. auto.
      * apply rec_is_true in K. destruct K as (K1 & K2 & _). cbn. rewrite K1, K2. apply NEWEV. exact Hi.
    + cbn in Hi. cbn. apply NEWEV. exact Hi.
Qed.

Lemma MInv_crun ops : crashes_cover ops -> MInv ops (crun ops).
Proof.
  induction ops as [|o ops IH] using rev_ind; intros CC.
  - split; [|split; [|split; [|split]]]; cbn.
    + split; [intros X t H; cbn in H; discriminate | intros e []].
    + auto.
    + intros e [].
    + intros r [].
    + intros r i [].
  - specialize (IH (crashes_cover_app ops o CC)). pose proof (PInv_crun ops) as (_ & PR & _).
    unfold crun in *. rewrite crun_with_snoc. destruct (crun_with wr_code ops) as [s d] eqn:E. cbn [snd] in PR.
    assert (OK : forall r, In r d -> r_org r = r_dorg r /\ r_tab r = r_dtab r).
    { intros r Hr. destruct (PR r Hr) as (P & Q & _). auto. }
    destruct o as [X n|X n ids|  |my|my|X e|X e|X]; cbn [cstep_with fst].
    + apply MInv_mono. destruct IH as (L & A & M2 & M3 & M4). cbn [fst snd] in *.
      destruct (add_tab_alias s X n) as (B1 & B2 & B3).
      split; [|split; [|split; [|split]]]; cbn [fst snd step].
      * apply (add_tab_listed s X n L).
      * rewrite B1, B2, B3. exact A.
      * rewrite add_tab_evs. exact M2.
      * intros r Hr. destruct (M3 r Hr) as [T O]. split; auto. apply add_tab_ftabs_mono. exact T.
      * rewrite add_tab_evs. exact M4.
    + destruct ids as [|i0 ids0].
      * apply MInv_mono. exact IH.
      * apply MInv_ingest; [discriminate|exact IH].
    + apply MInv_mono. apply MInv_rotate. exact IH.
    + apply MInv_mono. apply MInv_crash; auto.
      intros r Hr. destruct IH as (_ & _ & _ & M3 & _). destruct (M3 r Hr) as (T & n & ids & K).
      unfold visible, adoptable. cbn [fst] in T. rewrite T, andb_true_r.
      assert (C : covered ops my). { apply (covered_app ops (CCrash my)). apply CC. apply in_or_app. right. left. reflexivity. }
      specialize (C _ _ _ K). apply orb_true_iff. right. apply existsb_exists. exists (r_dorg r). split; auto. apply N.eqb_refl.
    + apply MInv_mono. apply MInv_crash.
      * intros r Hr. apply in_map_iff in Hr. destruct Hr as (r0 & <- & H0). destruct (OK r0 H0) as [P Q].
        unfold rotate_rec. destruct (r_listed r0); cbn; auto.
      * intros r Hr. apply in_map_iff in Hr. destruct Hr as (r0 & <- & H0).
        unfold visible, rotate_rec. destruct (r_listed r0) eqn:LS; cbn; [rewrite LS|]; reflexivity.
      * apply MInv_rotate. exact IH.
    + apply MInv_mono. exact IH.
    + apply MInv_mono. exact IH.
    + apply MInv_mono. exact IH.
Qed.

Lemma expand_term_eq m s1 s2 X t :
  ftabs s1 = ftabs s2 -> amem s1 = amem s2 -> akeys s1 = akeys s2 -> expand_term m s1 X t = expand_term m s2 X t.
Proof. intros F A K. unfold expand_term, alias_present, alias_targets, aliases_of, tabs_of. rewrite F, A, K. reflexivity. Qed.

Lemma expand_eq m s1 s2 X es e :
  ftabs s1 = ftabs s2 -> amem s1 = amem s2 -> akeys s1 = akeys s2 -> expand_with m s1 X es e = expand_with m s2 X es e.
Proof.
  intros F A K. unfold expand_with.
  assert (E : forall terms, expand_terms m s1 X terms = expand_terms m s2 X terms).
  { induction terms as [|t r IH]; cbn; auto. rewrite (expand_term_eq m s1 s2 X t F A K), IH. reflexivity. }
  rewrite E. unfold tabs_of. rewrite F. reflexivity.
Qed.

(* for ALL alias-free histories whose unclean restarts ran with an id list covering the ingesting orgs: one more
   unclean death + restart (id list covering them) changes no search answer of any org over any expression *)
Theorem crash_preserves_every_view : forall ops my X expr i,
  crashes_cover ops -> covered ops my ->
  (In i (csearch (fst (cstep (crun ops) (CCrash my))) X expr) <-> In i (csearch (crun ops) X expr)).
Proof.
  intros ops my X expr i CC CV. pose proof (MInv_crun ops CC) as (L & A & M2 & M3 & M4).
  pose proof (PInv_crun ops) as (_ & PR & _). unfold cstep. destruct (crun ops) as [s d] eqn:E.
  cbn [fst snd cstep_with] in *. destruct A as (A1 & A2 & A3).
  assert (V : forall r, In r d -> visible my s r = true).
  { intros r Hr. destruct (M3 r Hr) as (T & n & ids & K). unfold visible, adoptable. rewrite T, andb_true_r.
    apply orb_true_iff. right. apply existsb_exists. exists (r_dorg r). split; [apply (CV _ _ _ K)|apply N.eqb_refl]. }
  assert (RC : recover my s d = flat_map rec_events d).
  { unfold recover. rewrite (filter_all _ _ V). reflexivity. }
  unfold csearch, q_events. cbn [fst].
  assert (EX : expand (crash_state my s d) X false expr = expand s X false expr).
  { apply expand_eq; cbn; auto. - rewrite A3. cbn. auto. - rewrite A3. cbn. auto. }
  rewrite EX. cbn [crash_state evs]. rewrite RC. split; intros H.
  - apply in_map_iff in H. destruct H as (e' & <- & He). apply filter_In in He. destruct He as [He S].
    apply in_flat_map in He. destruct He as (r & Hr & Hi). unfold rec_events in Hi. apply in_map_iff in Hi.
    destruct Hi as (j & <- & Hj). cbn. destruct (PR r Hr) as (P & Q & _).
    destruct (M4 r j Hr Hj) as (e & He & Eo & Et & Ei). apply in_map_iff. exists e. split; auto.
    apply filter_In. split; auto. unfold sel_tab in *. cbn in S. rewrite Eo, Et, <- P, <- Q. exact S.
  - apply in_map_iff in H. destruct H as (e & <- & He). apply filter_In in He. destruct He as [He S].
    destruct (M2 e He) as (r & Hr & Eo & Et & Hi). destruct (PR r Hr) as (P & Q & _).
    apply in_map_iff. exists (mkEv (r_org r) (r_tab r) true (e_id e) (r_seg r)). split; auto.
    apply filter_In. split.
    + apply in_flat_map. exists r. split; auto. unfold rec_events. apply in_map_iff. exists (e_id e). auto.
    + unfold sel_tab in *. cbn. rewrite P, Q, Eo, Et. exact S.
Qed.

(* the guards are satisfiable on a history with data of a non-zero org and an unclean restart *)
Example cover_nonvacuous : crashes_cover orgless_ops /\ covered orgless_ops [0; 7] /\
                           csearch (crun orgless_ops) 7 n_a = [1].
Proof.
  assert (C : covered orgless_ops [0; 7]).
  { intros X n ids H. cbn in H. destruct H as [H|[H|[]]]; inversion H. cbn. auto. }
  split; [|split]; auto.
  intros my H. cbn in H. destruct H as [H|[H|[]]]; inversion H. exact C.
Qed.

(* without the guard the statement is false by design of the recovery scan (it goes by GetMyIds): a node that
   restarts serving org 0 only does not adopt the open segment of org 7 *)
Theorem crash_uncovered_refuted :
  exists ops my X expr i, In i (csearch (crun ops) X expr) /\
                          ~ In i (csearch (fst (cstep (crun ops) (CCrash my))) X expr).
Proof. exists [CIngest 7 n_a [1]], [0], 7, n_a, 1. split; vm_compute; [auto|intros []]. Qed.

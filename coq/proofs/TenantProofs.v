(* TenantProofs.v — proofs about the tenant / index isolation model (C13). *)
From Coq Require Import Lia.
From SigM Require Import Base Tenant.
From SigP Require Import BaseProofs.
Open Scope N_scope.

(* ---------- names ---------- *)
Lemma name_eqb_eq a : forall b, name_eqb a b = true <-> a = b.
Proof.
  unfold name_eqb. induction a as [|x a IH]; intros [|y b]; cbn; split; intros H; try discriminate; auto.
  - apply andb_true_iff in H. destruct H as [H1 H2]. apply N.eqb_eq in H1. apply IH in H2. congruence.
  - inversion H; subst. apply andb_true_iff. split; [apply N.eqb_refl | apply IH; reflexivity].
Qed.

Lemma name_eqb_refl a : name_eqb a a = true.
Proof. apply name_eqb_eq. reflexivity. Qed.

Lemma name_eqb_neq a b : name_eqb a b = false <-> a <> b.
Proof.
  split; intros H.
  - intros E. apply name_eqb_eq in E. congruence.
  - destruct (name_eqb a b) eqn:E; auto. apply name_eqb_eq in E. contradiction.
Qed.

Lemma name_eqb_sym a b : name_eqb a b = name_eqb b a.
Proof.
  destruct (name_eqb a b) eqn:E.
  - apply name_eqb_eq in E. subst. symmetry. apply name_eqb_refl.
  - symmetry. apply name_eqb_neq. apply name_eqb_neq in E. congruence.
Qed.

Lemma mem_In x l : mem x l = true <-> In x l.
Proof.
  unfold mem. rewrite existsb_exists. split.
  - intros (y & Hy & E). apply name_eqb_eq in E. subst. exact Hy.
  - intros H. exists x. split; auto. apply name_eqb_refl.
Qed.

Lemma mem_cons x y l : mem x (y :: l) = name_eqb x y || mem x l.
Proof. reflexivity. Qed.

Lemma mem_dedup x l : mem x (dedup l) = mem x l.
Proof.
  induction l as [|y l IH]; auto.
  rewrite mem_cons. cbn [dedup]. destruct (mem y l) eqn:M.
  - rewrite IH. destruct (name_eqb x y) eqn:E; auto.
    apply name_eqb_eq in E. subst. cbn. exact M.
  - rewrite mem_cons, IH. reflexivity.
Qed.

Lemma filter_filter {A} (P Q : A -> bool) l :
  filter Q (filter P l) = filter (fun x => P x && Q x) l.
Proof.
  induction l as [|x l IH]; cbn; auto.
  destruct (P x); cbn; [destruct (Q x); cbn; rewrite IH; reflexivity | exact IH].
Qed.

(* ---------- run ---------- *)
Lemma run_snoc ops o : run (ops ++ [o]) = fst (step (run ops) o).
Proof. unfold run, run_from. rewrite fold_left_app. reflexivity. Qed.

(* ---------- which components an op touches ---------- *)
Lemma add_tab_evs s X t : evs (add_tab s X t) = evs s.
Proof. unfold add_tab. destruct (has_tab (mtabs s) X t); reflexivity. Qed.

Lemma add_alias_evs s X i a : evs (add_alias s X i a) = evs s.
Proof.
  unfold add_alias. destruct (is_empty i); auto. destruct (negb (dir_ok s X)); auto.
  destruct (fold_left _ _ _). reflexivity.
Qed.

Lemma rem_alias_evs s X i a : evs (rem_alias s X i a) = evs s.
Proof. unfold rem_alias. destruct (is_empty i); reflexivity. Qed.

Lemma rem_alias_ftabs s X i a : ftabs (rem_alias s X i a) = ftabs s.
Proof. unfold rem_alias. destruct (is_empty i); reflexivity. Qed.

Lemma rem_fold_evs X n l : forall s, evs (fold_left (fun st a => rem_alias st X n a) l s) = evs s.
Proof. induction l as [|a l IH]; intros s; cbn; auto. rewrite IH. apply rem_alias_evs. Qed.

Lemma rem_fold_ftabs X n l : forall s, ftabs (fold_left (fun st a => rem_alias st X n a) l s) = ftabs s.
Proof. induction l as [|a l IH]; intros s; cbn; auto. rewrite IH. apply rem_alias_ftabs. Qed.

(* the state in which del_one removes the table: aliases of the name (if the name is itself an alias) are dropped first *)
Definition pre_del (s : state) (X : N) (n : name) : state :=
  match alias_targets s X n with
  | [] => s
  | _ :: _ => fold_left (fun st a => rem_alias st X n a) (file_keys s X n) s
  end.

Lemma pre_del_evs s X n : evs (pre_del s X n) = evs s.
Proof. unfold pre_del. destruct (alias_targets s X n); auto. apply rem_fold_evs. Qed.

Lemma pre_del_ftabs s X n : ftabs (pre_del s X n) = ftabs s.
Proof. unfold pre_del. destruct (alias_targets s X n); auto. apply rem_fold_ftabs. Qed.

(* ---------- the segment list of an index under delete-index ---------- *)
(* deleting the collected keys one after the other removes EVERY rotated segment of (X, n), for any
   number of segments: an event that survives the fold is not in a segment whose key was in the list *)
Lemma del_seg_fold_spec X n ks : forall l e,
  In e (fold_left (del_seg X n) ks l) <->
  In e l /\ (in_seg_tab X n e = true -> ~ In (e_seg e) ks).
Proof.
  induction ks as [|k ks IH]; intros l e; cbn [fold_left].
  - split; [intros H; split; auto | tauto].
  - rewrite IH. unfold del_seg at 1. rewrite filter_In. split.
    + intros [[Hl Hk] Hr]. split; auto. intros Hs [E|Hin]; [|apply Hr; auto].
      subst k. rewrite Hs, N.eqb_refl in Hk. discriminate.
    + intros [Hl Hr]. split; [split; auto|].
      * destruct (in_seg_tab X n e) eqn:Hs; auto. cbn [andb].
        destruct (e_seg e =? k) eqn:E; auto. apply N.eqb_eq in E. exfalso. apply (Hr eq_refl). left. auto.
      * intros Hs Hin. apply (Hr Hs). right. exact Hin.
Qed.

Theorem delete_removes_every_segment : forall X n l e,
  In e (fold_left (del_seg X n) (seg_keys X n l) l) -> in_seg_tab X n e = false.
Proof.
  intros X n l e H. apply del_seg_fold_spec in H. destruct H as [Hl Hr].
  destruct (in_seg_tab X n e) eqn:Hs; auto. exfalso. apply (Hr eq_refl).
  unfold seg_keys. apply in_map. apply filter_In. auto.
Qed.

(* ... and removes nothing else *)
Theorem delete_segments_keeps_rest : forall X n l e,
  In e l -> in_seg_tab X n e = false -> In e (fold_left (del_seg X n) (seg_keys X n l) l).
Proof. intros X n l e Hl Hs. apply del_seg_fold_spec. split; auto. rewrite Hs. discriminate. Qed.

(* documentation (seeded/C13b): ranging over the slice that is shifted by the deletions skips every
   second segment as soon as there are three *)
Lemma shifting_iteration_refuted :
  exists keys, NoDup keys /\ shifting_survivors keys <> [].
Proof.
  exists [0; 1; 2]. split; [|vm_compute; discriminate].
  repeat constructor; cbn; intuition discriminate.
Qed.
Example shifting_survivors_3_4_7 :
  shifting_survivors [0;1;2] = [1] /\ shifting_survivors [0;1;2;3] = [1] /\
  shifting_survivors [0;1;2;3;4;5;6] = [1;3;5] /\ shifting_survivors [0;1] = [].
Proof. vm_compute. auto. Qed.

Lemma drop_after_seg_fold X n ks : forall l,
  filter (fun e => negb (e_rot e && name_eqb (e_tab e) n)) (fold_left (del_seg X n) ks l) =
  filter (fun e => negb (e_rot e && name_eqb (e_tab e) n)) l.
Proof.
  induction ks as [|k ks IH]; intros l; cbn [fold_left]; auto.
  rewrite IH. unfold del_seg. rewrite filter_filter. apply filter_ext. intros e.
  unfold in_seg_tab.
  destruct (e_rot e), (e_org e =? X), (name_eqb (e_tab e) n), (e_seg e =? k); reflexivity.
Qed.

(* the whole delete step on the stored events: every event of a table of that name goes (of every org) *)
Lemma del_evs_eq X n l : del_evs X n l = filter (fun e => negb (name_eqb (e_tab e) n)) l.
Proof.
  unfold del_evs, meta_delete_table. rewrite drop_after_seg_fold, filter_filter.
  apply filter_ext. intros e. destruct (e_rot e); cbn; auto. rewrite andb_true_r. reflexivity.
Qed.

Lemma del_one_evs X s nf n :
  evs (fst (del_one X (s, nf) n)) =
  if has_tab (ftabs s) X n then filter (fun e => negb (name_eqb (e_tab e) n)) (evs s) else evs s.
Proof.
  unfold del_one. destruct (has_tab (ftabs s) X n); cbn [fst evs]; auto.
  fold (pre_del s X n). rewrite del_evs_eq, pre_del_evs. reflexivity.
Qed.

Lemma del_one_ftabs X s nf n :
  ftabs (fst (del_one X (s, nf) n)) =
  if has_tab (ftabs s) X n then filter (fun p => negb (pair_is X n p)) (ftabs s) else ftabs s.
Proof.
  unfold del_one. destruct (has_tab (ftabs s) X n); cbn [fst ftabs]; auto.
  fold (pre_del s X n). rewrite pre_del_ftabs. reflexivity.
Qed.

Lemma has_tab_remove l X n m :
  has_tab (filter (fun p => negb (pair_is X n p)) l) X m = has_tab l X m && negb (name_eqb m n).
Proof.
  unfold has_tab. induction l as [|p l IH]; cbn; auto.
  destruct (pair_is X n p) eqn:Pn; cbn.
  - rewrite IH. destruct (pair_is X m p) eqn:Pm; cbn; auto.
    unfold pair_is in *. apply andb_true_iff in Pn, Pm. destruct Pn as [_ Pn], Pm as [_ Pm].
    apply name_eqb_eq in Pn, Pm. subst. rewrite name_eqb_refl. cbn.
    destruct (existsb _ l); reflexivity.
  - rewrite IH. destruct (pair_is X m p) eqn:Pm; cbn; auto.
    destruct (name_eqb m n) eqn:E; cbn.
    + apply name_eqb_eq in E. subst. congruence.
    + reflexivity.
Qed.

Lemma mem_filter_other t n (P : name -> bool) r :
  name_eqb t n = false ->
  mem t (filter (fun m => P m && negb (name_eqb m n)) r) = mem t (filter P r).
Proof.
  intros Htn. induction r as [|m r IH]; auto.
  cbn [filter]. destruct (P m); cbn [andb]; auto.
  destruct (name_eqb m n) eqn:E; cbn [negb].
  - apply name_eqb_eq in E. subst. rewrite mem_cons, Htn. exact IH.
  - rewrite !mem_cons, IH. reflexivity.
Qed.

(* the loop of deleteIndex removes exactly the events whose table is one of the
   expanded names present in the org's table list — of EVERY org *)
Lemma del_fold_evs X names : forall s nf,
  evs (fst (fold_left (del_one X) names (s, nf))) =
  filter (fun e => negb (mem (e_tab e) (filter (has_tab (ftabs s) X) names))) (evs s).
Proof.
  induction names as [|n r IH]; intros s nf.
  - cbn. induction (evs s) as [|e l IHl]; cbn; congruence.
  - cbn [fold_left].
    destruct (del_one X (s, nf) n) as [s1 nf1] eqn:D.
    rewrite IH.
    pose proof (del_one_evs X s nf n) as He. pose proof (del_one_ftabs X s nf n) as Hf.
    rewrite D in He, Hf. cbn [fst] in He, Hf. rewrite He, Hf.
    cbn [filter]. destruct (has_tab (ftabs s) X n) eqn:Hn.
    + rewrite filter_filter. apply filter_ext. intros e.
      rewrite (filter_ext _ (fun m => has_tab (ftabs s) X m && negb (name_eqb m n))) by (intros m; apply has_tab_remove).
      cbn [mem existsb]. fold (mem (e_tab e) (filter (has_tab (ftabs s) X) r)).
      destruct (name_eqb (e_tab e) n) eqn:E; cbn; auto.
      f_equal. apply mem_filter_other. exact E.
    + reflexivity.
Qed.

Definition del_names (s : state) (X : N) (expr : name) : list name :=
  filter (has_tab (ftabs s) X) (expand s X true expr).

Lemma do_delete_evs s X expr : name_eqb expr n_traces = false ->
  evs (fst (do_delete s X expr)) =
  filter (fun e => negb (mem (e_tab e) (del_names s X expr))) (evs s).
Proof.
  intros Ht. unfold do_delete. rewrite Ht.
  destruct (fold_left (del_one X) (expand s X true expr) (s, O)) as [s' nf] eqn:F.
  cbn [fst]. pose proof (del_fold_evs X (expand s X true expr) s O) as H. rewrite F in H. exact H.
Qed.

(* ---------- provenance invariant and query isolation ---------- *)
Definition ingested (ops : list op) (X : N) (i : N) : Prop :=
  exists n ids, In (Ingest X n ids) ops /\ In i ids.

Lemma del_fold_sub X names : forall acc e,
  In e (evs (fst (fold_left (del_one X) names acc))) -> In e (evs (fst acc)).
Proof.
  induction names as [|n r IH]; intros [s nf] e H; cbn [fold_left] in H; auto.
  apply IH in H. rewrite del_one_evs in H. cbn [fst].
  destruct (has_tab (ftabs s) X n); auto. apply filter_In in H. tauto.
Qed.

Lemma evs_step s o e : In e (evs (fst (step s o))) ->
  (exists e0, In e0 (evs s) /\ e_org e0 = e_org e /\ e_id e0 = e_id e /\ e_tab e0 = e_tab e) \/
  (exists n ids, o = Ingest (e_org e) n ids /\ In (e_id e) ids).
Proof.
  intros H. destruct o; cbn in H.
  - rewrite add_tab_evs in H. left. exists e. auto.
  - destruct ids as [|i0 ids0].
    + left. exists e. auto.
    + cbn [fst evs] in H. rewrite add_tab_evs in H. apply in_app_or in H. destruct H as [H|H].
      * left. exists e. auto.
      * right. apply in_map_iff in H. destruct H as (i & E & Hi). subst e. cbn. eauto.
  - apply in_map_iff in H. destruct H as (e0 & E & H0). subst e. left. exists e0. cbn. auto.
  - left. exists e. auto.
  - rewrite add_alias_evs in H. left. exists e. auto.
  - rewrite rem_alias_evs in H. left. exists e. auto.
  - left. exists e. split; auto.
    unfold do_delete in H. destruct (name_eqb expr n_traces); cbn in H; auto.
    destruct (fold_left (del_one org) (expand s org true expr) (s, O)) as [s' nf] eqn:F.
    cbn in H. pose proof (del_fold_sub org (expand s org true expr) (s, O) e) as S.
    rewrite F in S. apply S. exact H.
  - apply in_map_iff in H. destruct H as (e0 & E & H0). subst e. left. exists e0. cbn. auto.
  - left. exists e. auto.
  - left. exists e. auto.
  - left. exists e. auto.
Qed.

Definition Inv (ops : list op) (s : state) : Prop :=
  forall e, In e (evs s) -> ingested ops (e_org e) (e_id e).

Lemma ingested_mono ops o X i : ingested ops X i -> ingested (ops ++ [o]) X i.
Proof. intros (n & ids & H1 & H2). exists n, ids. split; auto. apply in_or_app. auto. Qed.

Lemma inv_run ops : Inv ops (run ops).
Proof.
  induction ops as [|o ops IH] using rev_ind.
  - intros e H. cbn in H. contradiction.
  - intros e H. rewrite run_snoc in H. apply evs_step in H. destruct H as [(e0 & H0 & Eo & Ei & _) | (n & ids & Eo & Hi)].
    + rewrite <- Eo, <- Ei. apply ingested_mono. apply IH. exact H0.
    + exists n, ids. split; auto. apply in_or_app. right. left. exact Eo.
Qed.

Theorem query_isolation : forall ops X expr i,
  In i (map e_id (q_events (run ops) X expr)) ->
  exists e, In e (evs (run ops)) /\ e_id e = i /\ e_org e = X /\
            In (e_tab e) (expand (run ops) X false expr) /\ ingested ops X i.
Proof.
  intros ops X expr i H. apply in_map_iff in H. destruct H as (e & Ei & He).
  unfold q_events in He. apply filter_In in He. destruct He as [He Hs].
  unfold sel_tab in Hs. apply andb_true_iff in Hs. destruct Hs as [Ho Ht].
  apply N.eqb_eq in Ho. apply mem_In in Ht.
  exists e. repeat split; auto.
  rewrite <- Ho, <- Ei. apply inv_run. exact He.
Qed.

Theorem columns_isolation : forall ops X expr p,
  In p (q_pairs (run ops) X expr) ->
  fst p = X /\ In (snd p) (expand (run ops) X false expr).
Proof.
  intros ops X expr p H. unfold q_pairs in H. apply in_app_or in H. destruct H as [H|H].
  - apply in_map_iff in H. destruct H as (e & E & He). subst p. cbn.
    apply filter_In in He. destruct He as [_ Hs]. unfold sel_tab in Hs.
    apply andb_true_iff in Hs. destruct Hs as [Ho Ht]. apply N.eqb_eq in Ho. apply mem_In in Ht. auto.
  - apply filter_In in H. destruct H as [_ Hs]. apply andb_true_iff in Hs. destruct Hs as [Ho Ht].
    apply N.eqb_eq in Ho. apply mem_In in Ht. auto.
Qed.

(* ---------- delete-index ---------- *)
Theorem delete_removes_named : forall ops X expr e,
  name_eqb expr n_traces = false ->
  In (e_tab e) (del_names (run ops) X expr) ->
  ~ In e (evs (run (ops ++ [Delete X expr]))).
Proof.
  intros ops X expr e Ht Hd H. rewrite run_snoc in H. cbn [step] in H.
  destruct (do_delete (run ops) X expr) as [s' c] eqn:D. cbn [fst] in H.
  pose proof (do_delete_evs (run ops) X expr Ht) as E. rewrite D in E. cbn [fst] in E.
  rewrite E in H. apply filter_In in H. destruct H as [_ H].
  apply mem_In in Hd. rewrite Hd in H. discriminate.
Qed.

(* guard: no other organisation holds events in an index with one of the deleted names *)
Definition no_other_org_in (s : state) (X : N) (D : list name) : bool :=
  forallb (fun e => (e_org e =? X) || negb (mem (e_tab e) D)) (evs s).

Theorem delete_exact_guarded : forall ops X expr,
  name_eqb expr n_traces = false ->
  no_other_org_in (run ops) X (del_names (run ops) X expr) = true ->
  evs (run (ops ++ [Delete X expr])) =
  filter (fun e => negb ((e_org e =? X) && mem (e_tab e) (del_names (run ops) X expr))) (evs (run ops)).
Proof.
  intros ops X expr Ht G. rewrite run_snoc. cbn [step].
  destruct (do_delete (run ops) X expr) as [s' c] eqn:D. cbn [fst].
  pose proof (do_delete_evs (run ops) X expr Ht) as E. rewrite D in E. cbn [fst] in E.
  rewrite E. apply filter_ext_in. intros e He.
  unfold no_other_org_in in G. rewrite forallb_forall in G. specialize (G e He).
  destruct (e_org e =? X); cbn [orb andb] in *; auto.
Qed.

(* a plain index name: no wildcard, no comma, no colon *)
Definition plain (t : name) : bool :=
  negb (has_star t) && negb (existsb (N.eqb c_comma) t) && negb (existsb (N.eqb c_colon) t).

Lemma after_colon_none t : existsb (N.eqb c_colon) t = false -> after_colon t = None.
Proof.
  induction t as [|c t IH]; auto. cbn [existsb after_colon]. intros H.
  apply orb_false_iff in H. destruct H as [H1 H2].
  rewrite (N.eqb_sym c c_colon), H1. auto.
Qed.

Lemma split_comma_none t : forall cur, existsb (N.eqb c_comma) t = false -> split_comma t cur = [rev cur ++ t].
Proof.
  induction t as [|c t IH]; intros cur H; cbn [split_comma].
  - rewrite app_nil_r. reflexivity.
  - cbn [existsb] in H. apply orb_false_iff in H. destruct H as [H1 H2].
    rewrite (N.eqb_sym c c_comma), H1.
    rewrite IH by exact H2. cbn [rev]. rewrite <- app_assoc. reflexivity.
Qed.

Lemma has_star_not_star t : has_star t = false -> name_eqb t [c_star] = false.
Proof.
  intros H. apply name_eqb_neq. intros E. subst. cbn in H. discriminate.
Qed.

Lemma expand_plain s X es t :
  plain t = true -> alias_present s X t = false -> expand s X es t = [t].
Proof.
  unfold plain. intros P A. apply andb_true_iff in P. destruct P as [P Pc]. apply andb_true_iff in P. destruct P as [Ps Pm].
  apply negb_true_iff in Ps, Pm, Pc.
  unfold expand, expand_with, strip_colon. rewrite (after_colon_none t Pc).
  rewrite (has_star_not_star t Ps). rewrite (split_comma_none t [] Pm). cbn [rev app expand_terms].
  unfold expand_term. rewrite Ps, A. cbn. reflexivity.
Qed.

Theorem delete_exact_plain_guarded : forall ops X t,
  plain t = true -> name_eqb t n_traces = false ->
  alias_present (run ops) X t = false ->
  has_tab (ftabs (run ops)) X t = true ->
  forallb (fun e => (e_org e =? X) || negb (name_eqb (e_tab e) t)) (evs (run ops)) = true ->
  evs (run (ops ++ [Delete X t])) =
  filter (fun e => negb ((e_org e =? X) && name_eqb (e_tab e) t)) (evs (run ops)).
Proof.
  intros ops X t P Ht A Hh G.
  assert (D : del_names (run ops) X t = [t]).
  { unfold del_names. rewrite (expand_plain _ _ _ _ P A). cbn. rewrite Hh. reflexivity. }
  rewrite delete_exact_guarded; auto.
  - rewrite D. apply filter_ext. intros e. cbn. rewrite orb_false_r. reflexivity.
  - rewrite D. unfold no_other_org_in. rewrite forallb_forall in *. intros e He. specialize (G e He).
    cbn. rewrite orb_false_r. exact G.
Qed.

(* ---------- witnesses (real defects, see notes/C13.md) ---------- *)
Definition w_a : name := [97].
Definition w_adotb1 : name := [97;46;98;49].       (* a.b1 *)
Definition w_aXb1 : name := [97;88;98;49].         (* aXb1 *)
Definition w_pat : name := [97;46;98;42].          (* a.b* *)

(* the index expression a.b* of org 1 names (glob) only a.b1 but the code also reads index aXb1 *)
Theorem prefix_expand_regex_metachar_refuted :
  exists ops X expr t,
    In t (expand_prefix (run ops) X false expr) /\
    ~ In t (expand_glob (run ops) X false expr) /\
    glob_match expr t = false /\
    (exists e, In e (evs (run ops)) /\ e_org e = X /\ e_tab e = t).
Proof.
  exists [Ingest 1 w_adotb1 [1]; Ingest 1 w_aXb1 [2]], 1, w_pat, w_aXb1.
  split; [vm_compute; tauto|].
  split; [intros H; apply mem_In in H; vm_compute in H; discriminate|].
  split; [vm_compute; reflexivity|].
  exists (mkEv 1 w_aXb1 false 2 0). vm_compute. tauto.
Qed.

(* deleting index a of org 0 removes the events of index a of org 1 *)
Theorem delete_cross_org_refuted :
  exists ops X t e,
    plain t = true /\ In e (evs (run ops)) /\ e_org e <> X /\
    ~ In e (evs (run (ops ++ [Delete X t]))).
Proof.
  exists [Ingest 0 w_a [1]; Ingest 1 w_a [2]], 0, w_a, (mkEv 1 w_a false 2 0).
  split; [vm_compute; reflexivity|]. split; [vm_compute; tauto|]. split; [vm_compute; discriminate|].
  vm_compute. tauto.
Qed.

(* PRE-FIX documentation: delete, ingest again (same process), delete: the second delete answered 404
   and removed nothing *)
Theorem prefix_delete_recreated_refuted :
  exists ops X t e,
    plain t = true /\ e_org e = X /\ e_tab e = t /\
    In e (evs (run_prefix (ops ++ [Delete X t]))) /\
    snd (step_prefix (run_prefix ops) (Delete X t)) = OCode 404.
Proof.
  exists [Ingest 0 w_a [1]; Delete 0 w_a; Ingest 0 w_a [2]], 0, w_a, (mkEv 0 w_a false 2 0).
  split; [vm_compute; reflexivity|]. split; [reflexivity|]. split; [reflexivity|].
  split; vm_compute; tauto.
Qed.

(* PRE-FIX documentation: the column listing still showed the deleted index (unrotated data at delete time) *)
Theorem prefix_delete_left_columns_refuted :
  exists ops X t,
    plain t = true /\
    (forall e, In e (evs (run_prefix ops)) -> e_tab e <> t) /\
    In (X, t) (q_pairs (run_prefix ops) X t).
Proof.
  exists [Ingest 0 w_a [1]; Delete 0 w_a], 0, w_a.
  split; [reflexivity|]. split; vm_compute; tauto.
Qed.

Definition w_al : name := [97;108].   (* al *)
Definition w_ab : name := [97;98].    (* ab *)

(* PRE-FIX documentation: org 0's alias did not survive a graceful restart *)
Theorem prefix_alias_lost_after_restart_refuted :
  exists ops X a t,
    In t (alias_targets (run_prefix ops) X a) /\ alias_targets (run_prefix (ops ++ [Restart])) X a = [].
Proof.
  exists [Ingest 0 w_a [1]; AddAlias 0 w_a w_al], 0, w_al, w_a. split; vm_compute; auto.
Qed.

(* PRE-FIX documentation: org 1 (alias directory present), alias ab -> a: after the restart the INDEX name a
   resolved to ab *)
Theorem prefix_alias_reversed_after_restart_refuted :
  exists ops X a t,
    alias_targets (run_prefix ops) X t = [] /\ In a (alias_targets (run_prefix (ops ++ [Restart])) X t).
Proof.
  exists [MkAliasDir 1; Ingest 1 w_a [1]; Ingest 1 w_ab [2]; AddAlias 1 w_a w_ab], 1, w_ab, w_a.
  split; vm_compute; auto.
Qed.

(* the same histories under the fixed code *)
Example fixed_recreated_delete_works :
  let ops := [Ingest 0 w_a [1]; Delete 0 w_a; Ingest 0 w_a [2]] in
  snd (step (run ops) (Delete 0 w_a)) = OCode 200 /\ evs (run (ops ++ [Delete 0 w_a])) = [].
Proof. vm_compute. auto. Qed.
Example fixed_alias_survives_restart :
  let ops := [Ingest 0 w_a [1]; AddAlias 0 w_a w_al; Restart] in alias_targets (run ops) 0 w_al = [w_a].
Proof. vm_compute. auto. Qed.
Example fixed_alias_not_reversed :
  let ops := [MkAliasDir 1; Ingest 1 w_a [1]; Ingest 1 w_ab [2]; AddAlias 1 w_a w_ab; Restart] in
  alias_targets (run ops) 1 w_ab = [w_a] /\ alias_targets (run ops) 1 w_a = [].
Proof. vm_compute. auto. Qed.

(* ---------- the expansion is glob matching when no regex metacharacter meets a wildcard ---------- *)
Definition is_meta (c : N) : bool :=
  (c =? c_dot) || (c =? c_plus) || (c =? c_quest) || existsb (N.eqb c) rx_unsupported_bytes.
Definition glob_safe (p : name) : bool := forallb (fun c => negb (is_meta c)) p.
Definition no_nl (s : name) : bool := forallb (fun c => negb (c =? c_nl)) s.

(* exact guard on an index expression: every comma term that contains '*' is free of regex metacharacters *)
Definition expr_glob_safe (expr : name) : bool :=
  forallb (fun t => negb (has_star t) || glob_safe t) (split_comma (strip_colon expr) []).
Definition names_ok (s : state) (X : N) : bool :=
  forallb no_nl (aliases_of s X) && forallb no_nl (tabs_of s X).

Definition items_of (p : name) : list ritem :=
  map (fun c => if c =? c_star then IStar ADot else IOne (ALit c)) p.

Lemma parse_glob p : forall acc anchor lvl, glob_safe p = true ->
  rx_parse (translate p) acc anchor lvl = Some (rev acc ++ items_of p).
Proof.
  induction p as [|c p IH]; intros acc anchor lvl H.
  - cbn. rewrite app_nil_r. reflexivity.
  - cbn in H. apply andb_true_iff in H. destruct H as [Hc Hp].
    unfold translate. cbn [flat_map]. fold (translate p).
    destruct (c =? c_star) eqn:Es.
    + apply N.eqb_eq in Es. subst c. cbn [app rx_parse].
      change (c_dot =? c_star) with false. change (c_dot =? c_plus) with false.
      change (c_dot =? c_quest) with false. change (c_dot =? c_dot) with true.
      change (c_star =? c_star) with true. cbn [orb apply_rep].
      rewrite IH by exact Hp. cbn [rev items_of map]. change (c_star =? c_star) with true.
      rewrite <- app_assoc. reflexivity.
    + cbn [app rx_parse]. rewrite Es.
      unfold is_meta in Hc. apply negb_true_iff in Hc.
      apply orb_false_iff in Hc. destruct Hc as [Hc _].
      apply orb_false_iff in Hc. destruct Hc as [Hc Hq].
      apply orb_false_iff in Hc. destruct Hc as [Hd Hpl].
      rewrite Hpl, Hq, Hd. cbn [orb].
      rewrite IH by exact Hp. cbn [rev items_of map]. rewrite Es.
      rewrite <- app_assoc. reflexivity.
Qed.

Lemma rmatch_items p : forall s, no_nl s = true -> rmatch (items_of p) s = glob_match p s.
Proof.
  induction p as [|c p IH]; intros s Hs.
  - reflexivity.
  - cbn [items_of map]. fold (items_of p). destruct (c =? c_star) eqn:Es.
    + cbn [rmatch glob_match]. rewrite Es.
      induction s as [|d s IHs].
      * rewrite IH by exact Hs. reflexivity.
      * cbn in Hs. apply andb_true_iff in Hs. destruct Hs as [Hd Hs'].
        rewrite IH by (cbn; rewrite Hd, Hs'; reflexivity).
        f_equal. cbn [amatch]. rewrite Hd. cbn [andb]. apply IHs. exact Hs'.
    + cbn [rmatch glob_match]. rewrite Es. destruct s as [|d s]; auto.
      cbn in Hs. apply andb_true_iff in Hs. destruct Hs as [_ Hs'].
      rewrite IH by exact Hs'. cbn [amatch]. rewrite (N.eqb_sym d c). reflexivity.
Qed.

Lemma rx_glob p : glob_safe p = true ->
  exists m, rx_matcher p = Some m /\ forall s, no_nl s = true -> m s = glob_match p s.
Proof.
  intros H. unfold rx_matcher, rx_compile. rewrite parse_glob by exact H. cbn [rev app].
  eexists. split; [reflexivity|]. apply rmatch_items.
Qed.

Lemma flat_map_ext_in {A B} (f g : A -> list B) l :
  (forall a, In a l -> f a = g a) -> flat_map f l = flat_map g l.
Proof.
  induction l as [|x l IH]; intros H; cbn; auto.
  rewrite H by (left; reflexivity). rewrite IH; auto. intros a Ha. apply H. right. exact Ha.
Qed.

Lemma expand_term_glob s X t :
  (has_star t = false \/ glob_safe t = true) -> names_ok s X = true ->
  expand_term rx_matcher s X t = expand_term glob_matcher s X t.
Proof.
  intros G Hn. unfold expand_term. destruct (has_star t) eqn:Hs; auto.
  destruct (excluded t); auto.
  destruct G as [G|G]; [discriminate|].
  destruct (rx_glob t G) as (m & Em & Hm). rewrite Em. unfold glob_matcher.
  unfold names_ok in Hn. apply andb_true_iff in Hn. destruct Hn as [Ha Ht].
  rewrite forallb_forall in Ha, Ht.
  f_equal. f_equal.
  - apply flat_map_ext_in. intros a Hin. rewrite Hm by (apply Ha; exact Hin). reflexivity.
  - apply filter_ext_in. intros a Hin. apply Hm. apply Ht. exact Hin.
Qed.

Lemma expand_terms_glob s X terms :
  forallb (fun t => negb (has_star t) || glob_safe t) terms = true -> names_ok s X = true ->
  expand_terms rx_matcher s X terms = expand_terms glob_matcher s X terms.
Proof.
  intros G Hn. induction terms as [|t r IH]; cbn; auto.
  cbn in G. apply andb_true_iff in G. destruct G as [Gt Gr].
  rewrite expand_term_glob; auto.
  - rewrite IH by exact Gr. reflexivity.
  - apply orb_true_iff in Gt. destruct Gt as [Gt|Gt]; [left; apply negb_true_iff; exact Gt | right; exact Gt].
Qed.

Theorem prefix_expand_is_glob_guarded : forall s X es expr,
  expr_glob_safe expr = true -> names_ok s X = true ->
  expand_prefix s X es expr = expand_glob s X es expr.
Proof.
  intros s X es expr G Hn. unfold expand_prefix, expand_glob, expand_with.
  destruct (name_eqb (strip_colon expr) [c_star]); auto.
  rewrite expand_terms_glob; auto.
Qed.

(* ---------- FIXED code: the expansion IS glob matching, for every pattern and every name ---------- *)
Lemma fixed_is_glob p : forall s, rmatch (fixed_items p) s = glob_match p s.
Proof.
  induction p as [|c p IH]; intros s.
  - reflexivity.
  - cbn [fixed_items map]. fold (fixed_items p). destruct (c =? c_star) eqn:Es.
    + cbn [rmatch glob_match]. rewrite Es.
      induction s as [|d s IHs].
      * rewrite IH. reflexivity.
      * rewrite IH. f_equal. cbn [amatch andb]. exact IHs.
    + cbn [rmatch glob_match]. rewrite Es. destruct s as [|d s]; auto.
      rewrite IH. cbn [amatch]. rewrite (N.eqb_sym d c). reflexivity.
Qed.

Lemma expand_term_fixed s X t : expand_term fixed_matcher s X t = expand_term glob_matcher s X t.
Proof.
  unfold expand_term, fixed_matcher, glob_matcher. destruct (has_star t); auto. destruct (excluded t); auto.
  f_equal. f_equal.
  - apply flat_map_ext. intros a. rewrite fixed_is_glob. reflexivity.
  - apply filter_ext. intros a. apply fixed_is_glob.
Qed.

Theorem expand_is_glob : forall s X es expr, expand s X es expr = expand_glob s X es expr.
Proof.
  intros s X es expr. unfold expand, expand_glob, expand_with.
  destruct (name_eqb (strip_colon expr) [c_star]); auto.
  assert (E : forall terms, expand_terms fixed_matcher s X terms = expand_terms glob_matcher s X terms).
  { induction terms as [|t r IH]; cbn; auto. rewrite expand_term_fixed, IH. reflexivity. }
  rewrite E. reflexivity.
Qed.

Corollary query_names_glob : forall ops X expr i,
  In i (map e_id (q_events (run ops) X expr)) ->
  exists e, In e (evs (run ops)) /\ e_id e = i /\ e_org e = X /\
            In (e_tab e) (expand_glob (run ops) X false expr) /\ ingested ops X i.
Proof.
  intros ops X expr i H. destruct (query_isolation ops X expr i H) as (e & H1 & H2 & H3 & H4 & H5).
  exists e. repeat split; auto. rewrite <- expand_is_glob. exact H4.
Qed.

(* regression witness for the repaired defect: a.b* no longer names aXb1 *)
Example fixed_pattern_does_not_name_aXb1 :
  let ops := [Ingest 1 w_adotb1 [1]; Ingest 1 w_aXb1 [2]] in
  expand (run ops) 1 false w_pat = [w_adotb1] /\ map e_id (q_events (run ops) 1 w_pat) = [1].
Proof. vm_compute. auto. Qed.

(* non-vacuity of the guards *)
Example expr_glob_safe_sat : expr_glob_safe [97;42;44;97;46;98;49] = true.   (* "a*,a.b1" *)
Proof. reflexivity. Qed.
Example expr_glob_safe_rejects : expr_glob_safe w_pat = false.
Proof. reflexivity. Qed.
Example delete_guard_sat :
  let ops := [Ingest 0 w_a [1]; Ingest 1 w_aXb1 [2]] in
  no_other_org_in (run ops) 0 (del_names (run ops) 0 w_a) = true /\ del_names (run ops) 0 w_a = [w_a].
Proof. vm_compute. auto. Qed.

(* ====================================================================== *)
(* Non-interference: what org X observes is a function of X's own ops (and the global
   rotate / restart ops) — as long as no OTHER org issues delete-index.             *)
Definition orgp {A} (X : N) (p : N * A) : bool := fst p =? X.
Definition orgt (X : N) (t : N * name * name) : bool := fst (fst t) =? X.
Definition orge (X : N) (e : event) : bool := e_org e =? X.

Record sim (X : N) (s1 s2 : state) : Prop := mkSim {
  sim_ft : filter (orgp X) (ftabs s1) = filter (orgp X) (ftabs s2);
  sim_mt : filter (orgp X) (mtabs s1) = filter (orgp X) (mtabs s2);
  sim_ad : existsb (N.eqb X) (adirs s1) = existsb (N.eqb X) (adirs s2);
  sim_af : filter (orgt X) (afile s1) = filter (orgt X) (afile s2);
  sim_am : filter (orgt X) (amem s1) = filter (orgt X) (amem s2);
  sim_ak : filter (orgp X) (akeys s1) = filter (orgp X) (akeys s2);
  sim_ev : filter (orge X) (evs s1) = filter (orge X) (evs s2);
  sim_gh : filter (orgp X) (ghost s1) = filter (orgp X) (ghost s2);
  sim_sn : segno s1 = segno s2 }.

Lemma sim_refl X s : sim X s s.
Proof. constructor; reflexivity. Qed.
Lemma sim_sym X a b : sim X a b -> sim X b a.
Proof. intros []. constructor; auto. Qed.
Lemma sim_trans X a b c : sim X a b -> sim X b c -> sim X a c.
Proof. intros [] []. constructor; congruence. Qed.

(* accessors read only the org's part *)
Lemma has_tab_proj l X n : has_tab l X n = has_tab (filter (orgp X) l) X n.
Proof.
  unfold has_tab. induction l as [|p l IH]; auto. cbn [existsb filter].
  unfold orgp at 1. unfold pair_is at 1. destruct (fst p =? X) eqn:E; cbn [andb orb existsb].
  - unfold pair_is at 2. rewrite E. cbn [andb]. rewrite IH. reflexivity.
  - exact IH.
Qed.

Lemma has_tab_sim l1 l2 X n : filter (orgp X) l1 = filter (orgp X) l2 -> has_tab l1 X n = has_tab l2 X n.
Proof. intros H. rewrite (has_tab_proj l1), (has_tab_proj l2), H. reflexivity. Qed.

Lemma filter_and_t X (Q : N * name * name -> bool) l :
  filter (fun t => (fst (fst t) =? X) && Q t) l = filter Q (filter (orgt X) l).
Proof. rewrite filter_filter. reflexivity. Qed.

Lemma tabs_of_sim X s1 s2 : sim X s1 s2 -> tabs_of s1 X = tabs_of s2 X.
Proof. intros H. unfold tabs_of. change (fun p : N * name => fst p =? X) with (@orgp name X). rewrite (sim_ft _ _ _ H). reflexivity. Qed.

Lemma aliases_of_sim X s1 s2 : sim X s1 s2 -> aliases_of s1 X = aliases_of s2 X.
Proof. intros H. unfold aliases_of. change (fun p : N * name => fst p =? X) with (@orgp name X). rewrite (sim_ak _ _ _ H). reflexivity. Qed.

Lemma alias_present_sim X s1 s2 a : sim X s1 s2 -> alias_present s1 X a = alias_present s2 X a.
Proof. intros H. apply has_tab_sim. apply (sim_ak _ _ _ H). Qed.

Lemma alias_targets_sim X s1 s2 a : sim X s1 s2 -> alias_targets s1 X a = alias_targets s2 X a.
Proof.
  intros H. unfold alias_targets.
  rewrite (filter_and_t X (fun t => name_eqb (snd (fst t)) a) (amem s1)).
  rewrite (filter_and_t X (fun t => name_eqb (snd (fst t)) a) (amem s2)).
  rewrite (sim_am _ _ _ H). reflexivity.
Qed.

Lemma file_keys_sim X s1 s2 f : sim X s1 s2 -> file_keys s1 X f = file_keys s2 X f.
Proof.
  intros H. unfold file_keys.
  rewrite (filter_and_t X (fun t => name_eqb (snd (fst t)) f) (afile s1)).
  rewrite (filter_and_t X (fun t => name_eqb (snd (fst t)) f) (afile s2)).
  rewrite (sim_af _ _ _ H). reflexivity.
Qed.

Lemma dir_ok_sim X s1 s2 : sim X s1 s2 -> dir_ok s1 X = dir_ok s2 X.
Proof. intros H. unfold dir_ok. rewrite (sim_ad _ _ _ H). reflexivity. Qed.

Lemma expand_term_sim m X s1 s2 t : sim X s1 s2 -> expand_term m s1 X t = expand_term m s2 X t.
Proof.
  intros H. unfold expand_term.
  rewrite (alias_present_sim X s1 s2 t H), (alias_targets_sim X s1 s2 t H),
          (aliases_of_sim X s1 s2 H), (tabs_of_sim X s1 s2 H).
  destruct (has_star t); auto. destruct (excluded t); auto. destruct (m t); auto.
  f_equal. f_equal. apply flat_map_ext. intros a. rewrite (alias_targets_sim X s1 s2 a H). reflexivity.
Qed.

Lemma expand_sim m X s1 s2 es e : sim X s1 s2 -> expand_with m s1 X es e = expand_with m s2 X es e.
Proof.
  intros H. unfold expand_with. rewrite (tabs_of_sim X s1 s2 H).
  assert (E : forall terms, expand_terms m s1 X terms = expand_terms m s2 X terms).
  { induction terms as [|t r IH]; cbn; auto. rewrite (expand_term_sim m X s1 s2 t H), IH. reflexivity. }
  rewrite E. reflexivity.
Qed.

(* list surgery under the org filter *)
Lemma filter_app_own {A} (P : A -> bool) l x : P x = true -> filter P (l ++ [x]) = filter P l ++ [x].
Proof. intros H. rewrite filter_app. cbn. rewrite H. reflexivity. Qed.
Lemma filter_app_other {A} (P : A -> bool) l x : P x = false -> filter P (l ++ [x]) = filter P l.
Proof. intros H. rewrite filter_app. cbn. rewrite H. apply app_nil_r. Qed.
Lemma filter_comm {A} (P Q : A -> bool) l : filter P (filter Q l) = filter Q (filter P l).
Proof. rewrite !filter_filter. apply filter_ext. intros x. apply andb_comm. Qed.
Lemma filter_all {A} (P : A -> bool) l : (forall x, In x l -> P x = true) -> filter P l = l.
Proof. induction l as [|x l IH]; intros H; cbn; auto. rewrite H by (left; auto). rewrite IH; auto. intros y Hy. apply H. right. auto. Qed.
Lemma filter_none {A} (P : A -> bool) l : (forall x, In x l -> P x = false) -> filter P l = [].
Proof. induction l as [|x l IH]; intros H; cbn; auto. rewrite H by (left; auto). apply IH. intros y Hy. apply H. right. auto. Qed.
Lemma filter_map_comm {A B} (f : A -> B) (P : B -> bool) (Q : A -> bool) l :
  (forall x, P (f x) = Q x) -> filter P (map f l) = map f (filter Q l).
Proof. intros H. induction l as [|x l IH]; cbn; auto. rewrite H. destruct (Q x); cbn; rewrite IH; reflexivity. Qed.

(* ---- updates: congruence (same org) and frame (other org) ---- *)
Lemma add_tab_cong X s1 s2 t : sim X s1 s2 -> sim X (add_tab s1 X t) (add_tab s2 X t).
Proof.
  intros H. unfold add_tab. rewrite (has_tab_sim _ _ X t (sim_mt _ _ _ H)).
  destruct (has_tab (mtabs s2) X t); auto.
  destruct H. constructor; cbn; auto;
    rewrite !filter_app_own by (unfold orgp; cbn; apply N.eqb_refl); congruence.
Qed.

Lemma add_tab_frame X Y s t : Y <> X -> sim X (add_tab s Y t) s.
Proof.
  intros N. unfold add_tab. destruct (has_tab (mtabs s) Y t); [apply sim_refl|].
  constructor; cbn; auto; apply filter_app_other; unfold orgp; cbn; apply N.eqb_neq; exact N.
Qed.

Definition put_am (X : N) (idx : name) (cur : list name) : list (N * name * name) :=
  flat_map (fun k => if is_empty k || is_empty idx then [] else [(X, k, idx)]) cur.
Definition put_ak (X : N) (idx : name) (cur : list name) : list (N * name) :=
  flat_map (fun k => if is_empty k || is_empty idx then [] else [(X, k)]) cur.

Lemma put_fold X idx cur : forall am ak,
  fold_left (put_alias X idx) cur (am, ak) = (am ++ put_am X idx cur, ak ++ put_ak X idx cur).
Proof.
  induction cur as [|k r IH]; intros am ak; cbn [fold_left put_am put_ak flat_map].
  - rewrite !app_nil_r. reflexivity.
  - unfold put_alias at 2. cbn [fst snd]. destruct (is_empty k || is_empty idx).
    + rewrite IH. reflexivity.
    + rewrite IH. cbn [app]. rewrite <- !app_assoc. reflexivity.
Qed.

Lemma put_am_org X Y idx cur : forall t, In t (put_am Y idx cur) -> orgt X t = (Y =? X).
Proof.
  intros t H. unfold put_am in H. apply in_flat_map in H. destruct H as (k & _ & H).
  destruct (is_empty k || is_empty idx); cbn in H; [contradiction|]. destruct H as [H|[]]. subst t. reflexivity.
Qed.
Lemma put_ak_org X Y idx cur : forall p, In p (put_ak Y idx cur) -> @orgp name X p = (Y =? X).
Proof.
  intros t H. unfold put_ak in H. apply in_flat_map in H. destruct H as (k & _ & H).
  destruct (is_empty k || is_empty idx); cbn in H; [contradiction|]. destruct H as [H|[]]. subst t. reflexivity.
Qed.

Lemma add_alias_cong X s1 s2 i a : sim X s1 s2 -> sim X (add_alias s1 X i a) (add_alias s2 X i a).
Proof.
  intros H. unfold add_alias. destruct (is_empty i); auto.
  rewrite (dir_ok_sim X s1 s2 H). destruct (negb (dir_ok s2 X)); auto.
  rewrite !put_fold. rewrite (file_keys_sim X s1 s2 i H).
  destruct H. constructor; cbn; auto.
  - rewrite !filter_app_own by (unfold orgt; cbn; apply N.eqb_refl). congruence.
  - rewrite !filter_app. rewrite sim_am0. reflexivity.
  - rewrite !filter_app. rewrite sim_ak0. reflexivity.
Qed.

Lemma add_alias_frame X Y s i a : Y <> X -> sim X (add_alias s Y i a) s.
Proof.
  intros N. unfold add_alias. destruct (is_empty i); [apply sim_refl|].
  destruct (negb (dir_ok s Y)); [apply sim_refl|]. rewrite put_fold.
  assert (F : (Y =? X) = false) by (apply N.eqb_neq; exact N).
  constructor; cbn; auto.
  - apply filter_app_other. unfold orgt. cbn. exact F.
  - rewrite filter_app. rewrite (filter_none (orgt X) (put_am Y i _)); [apply app_nil_r|].
    intros t Ht. rewrite (put_am_org X Y _ _ t Ht). exact F.
  - rewrite filter_app. rewrite (filter_none (orgp X) (put_ak Y i _)); [apply app_nil_r|].
    intros t Ht. rewrite (put_ak_org X Y _ _ t Ht). exact F.
Qed.

Lemma rem_alias_cong X Y s1 s2 i a : sim X s1 s2 -> sim X (rem_alias s1 Y i a) (rem_alias s2 Y i a).
Proof.
  intros H. unfold rem_alias. destruct (is_empty i); auto.
  destruct H. constructor; cbn; auto.
  - rewrite !(filter_comm (orgt X)). congruence.
  - rewrite !(filter_comm (orgt X)). congruence.
Qed.

Lemma rem_alias_frame X Y s i a : Y <> X -> sim X (rem_alias s Y i a) s.
Proof.
  intros N. unfold rem_alias. destruct (is_empty i); [apply sim_refl|].
  assert (F : forall b c t, orgt X t = true -> negb (trip_is Y b c t) = true).
  { intros b c t Ht. unfold orgt in Ht. apply N.eqb_eq in Ht. unfold trip_is. rewrite Ht.
    replace (X =? Y) with false by (symmetry; apply N.eqb_neq; congruence). reflexivity. }
  constructor; cbn; auto.
  - rewrite filter_comm. apply filter_all. intros t Ht. apply filter_In in Ht. apply F. tauto.
  - rewrite filter_comm. apply filter_all. intros t Ht. apply filter_In in Ht. apply F. tauto.
Qed.

Lemma rem_fold_cong X Y n l : forall s1 s2, sim X s1 s2 ->
  sim X (fold_left (fun st a => rem_alias st Y n a) l s1) (fold_left (fun st a => rem_alias st Y n a) l s2).
Proof. induction l as [|a l IH]; intros s1 s2 H; cbn; auto. apply IH. apply rem_alias_cong. exact H. Qed.

Lemma orge_set_rot X e : orge X (set_rot e) = orge X e.
Proof. reflexivity. Qed.

Lemma rotate_evs_sim X l1 l2 : filter (orge X) l1 = filter (orge X) l2 ->
  filter (orge X) (map set_rot l1) = filter (orge X) (map set_rot l2).
Proof.
  intros H. rewrite !(filter_map_comm set_rot (orge X) (orge X)) by (intros; reflexivity). congruence.
Qed.

(* one iteration of delete-index by org X itself *)
Lemma del_one_cong X s1 s2 nf n : sim X s1 s2 ->
  sim X (fst (del_one X (s1, nf) n)) (fst (del_one X (s2, nf) n)) /\
  snd (del_one X (s1, nf) n) = snd (del_one X (s2, nf) n).
Proof.
  intros H. unfold del_one.
  rewrite (has_tab_sim _ _ X n (sim_ft _ _ _ H)). destruct (has_tab (ftabs s2) X n); [|split; auto].
  fold (pre_del s1 X n). fold (pre_del s2 X n).
  assert (P : sim X (pre_del s1 X n) (pre_del s2 X n)).
  { unfold pre_del. rewrite (alias_targets_sim X s1 s2 n H). destruct (alias_targets s2 X n); auto.
    rewrite (file_keys_sim X s1 s2 n H). apply rem_fold_cong. exact H. }
  split; auto. destruct P. constructor; cbn; auto.
  - rewrite !(filter_comm (orgp X)). congruence.
  - rewrite !(filter_comm (orgp X)). congruence.
  - rewrite !del_evs_eq. rewrite !(filter_comm (orge X)). congruence.
Qed.

Lemma del_fold_cong X names : forall s1 s2 nf, sim X s1 s2 ->
  sim X (fst (fold_left (del_one X) names (s1, nf))) (fst (fold_left (del_one X) names (s2, nf))) /\
  snd (fold_left (del_one X) names (s1, nf)) = snd (fold_left (del_one X) names (s2, nf)).
Proof.
  induction names as [|n r IH]; intros s1 s2 nf H; cbn [fold_left]; auto.
  destruct (del_one_cong X s1 s2 nf n H) as [H1 H2].
  destruct (del_one X (s1, nf) n) as [a1 c1]. destruct (del_one X (s2, nf) n) as [a2 c2].
  cbn [fst snd] in *. subst c2. apply IH. exact H1.
Qed.

Lemma do_delete_cong X s1 s2 e : sim X s1 s2 ->
  sim X (fst (do_delete s1 X e)) (fst (do_delete s2 X e)) /\ snd (do_delete s1 X e) = snd (do_delete s2 X e).
Proof.
  intros H. unfold do_delete. destruct (name_eqb e n_traces); [split; auto|].
  unfold expand. rewrite (expand_sim fixed_matcher X s1 s2 true e H).
  destruct (del_fold_cong X (expand_with fixed_matcher s2 X true e) s1 s2 O H) as [H1 H2].
  destruct (fold_left (del_one X) _ (s1, O)) as [a1 c1]. destruct (fold_left (del_one X) _ (s2, O)) as [a2 c2].
  cbn [fst snd] in *. subst c2. split; auto.
Qed.

Lemma aliases_of_index_sim X s1 s2 idx : sim X s1 s2 -> aliases_of_index s1 X idx = aliases_of_index s2 X idx.
Proof.
  intros H. unfold aliases_of_index.
  rewrite (filter_and_t X (fun t => name_eqb (snd t) idx) (amem s1)).
  rewrite (filter_and_t X (fun t => name_eqb (snd t) idx) (amem s2)).
  rewrite (sim_am _ _ _ H). reflexivity.
Qed.

Lemma mem_indexes_sim X s1 s2 : sim X s1 s2 -> filter (orgp X) (mem_indexes s1) = filter (orgp X) (mem_indexes s2).
Proof.
  intros H. unfold mem_indexes.
  rewrite !(filter_map_comm (fun t : N * name * name => (fst (fst t), snd t)) (orgp X) (orgt X)) by (intros; reflexivity).
  rewrite (sim_am _ _ _ H). reflexivity.
Qed.

(* restart *)
Lemma flush_index_other X s fl k : @orgp name X k = false -> filter (orgt X) (flush_index s fl k) = filter (orgt X) fl.
Proof.
  intros F. unfold flush_index. destruct (dir_ok s (fst k)); auto.
  rewrite filter_app. rewrite (filter_none (orgt X) (map _ _)).
  - rewrite app_nil_r. rewrite filter_comm. apply filter_all. intros t Ht. apply filter_In in Ht. destruct Ht as [_ Ht].
    unfold orgt in Ht. unfold orgp in F. apply N.eqb_eq in Ht. rewrite Ht.
    replace (X =? fst k) with false by (rewrite N.eqb_sym; auto). reflexivity.
  - intros t Ht. apply in_map_iff in Ht. destruct Ht as (i & E & _). subst t. exact F.
Qed.

Lemma flush_index_own X s1 s2 fl k : sim X s1 s2 -> @orgp name X k = true ->
  filter (orgt X) (flush_index s1 fl k) = flush_index s2 (filter (orgt X) fl) k.
Proof.
  intros H F. unfold orgp in F. apply N.eqb_eq in F. unfold flush_index. rewrite F.
  rewrite (dir_ok_sim X s1 s2 H). destruct (dir_ok s2 X); auto.
  rewrite filter_app. rewrite filter_comm. rewrite (aliases_of_index_sim X s1 s2 _ H). f_equal.
  apply filter_all. intros t Ht. apply in_map_iff in Ht. destruct Ht as (i & E & _). subst t.
  unfold orgt. cbn. apply N.eqb_refl.
Qed.

Lemma flush_fold_proj X s1 s2 keys : sim X s1 s2 -> forall fl,
  filter (orgt X) (fold_left (flush_index s1) keys fl) =
  fold_left (flush_index s2) (filter (orgp X) keys) (filter (orgt X) fl).
Proof.
  intros H. induction keys as [|k r IH]; intros fl; cbn [fold_left filter]; auto.
  rewrite IH. destruct (orgp X k) eqn:F.
  - cbn [fold_left]. rewrite (flush_index_own X s1 s2 fl k H F). reflexivity.
  - rewrite (flush_index_other X s1 fl k F). reflexivity.
Qed.

Lemma restart_cong X s1 s2 : sim X s1 s2 -> sim X (do_restart s1) (do_restart s2).
Proof.
  intros H.
  assert (FL : filter (orgt X) (fold_left (flush_index s1) (mem_indexes s1) (afile s1)) =
               filter (orgt X) (fold_left (flush_index s2) (mem_indexes s2) (afile s2))).
  { rewrite (flush_fold_proj X s1 s2 (mem_indexes s1) H), (flush_fold_proj X s2 s2 (mem_indexes s2) (sim_refl X s2)).
    rewrite (mem_indexes_sim X s1 s2 H), (sim_af _ _ _ H). reflexivity. }
  unfold do_restart. constructor; cbn.
  - apply (sim_ft _ _ _ H).
  - rewrite !(filter_comm (orgp X)). rewrite (sim_ft _ _ _ H). reflexivity.
  - apply (sim_ad _ _ _ H).
  - exact FL.
  - rewrite !(filter_map_comm _ (orgt X) (orgt X)) by (intros; reflexivity).
    rewrite !(filter_comm (orgt X)). rewrite FL. reflexivity.
  - rewrite !(filter_map_comm (fun t : N * name * name => (fst (fst t), snd t)) (orgp X) (orgt X)) by (intros; reflexivity).
    rewrite !(filter_comm (orgt X)). rewrite FL. reflexivity.
  - apply rotate_evs_sim. apply (sim_ev _ _ _ H).
  - reflexivity.
  - rewrite (sim_sn _ _ _ H). reflexivity.
Qed.

(* queries of X read only X's part *)
Lemma q_events_sim X s1 s2 e : sim X s1 s2 -> q_events s1 X e = q_events s2 X e.
Proof.
  intros H. unfold q_events, expand. rewrite (expand_sim fixed_matcher X s1 s2 false e H).
  set (names := expand_with fixed_matcher s2 X false e).
  assert (E : forall l, filter (sel_tab names X) l = filter (sel_tab names X) (filter (orge X) l)).
  { intros l. rewrite filter_filter. apply filter_ext. intros x. unfold sel_tab, orge.
    destruct (e_org x =? X); reflexivity. }
  rewrite (E (evs s1)), (E (evs s2)), (sim_ev _ _ _ H). reflexivity.
Qed.

Lemma q_pairs_sim X s1 s2 e : sim X s1 s2 -> q_pairs s1 X e = q_pairs s2 X e.
Proof.
  intros H. unfold q_pairs. fold (q_events s1 X e). fold (q_events s2 X e).
  rewrite (q_events_sim X s1 s2 e H). unfold expand. rewrite (expand_sim fixed_matcher X s1 s2 false e H).
  f_equal. set (names := expand_with fixed_matcher s2 X false e).
  assert (E : forall l, filter (fun p : N * name => (fst p =? X) && mem (snd p) names) l =
                        filter (fun p => mem (snd p) names) (filter (orgp X) l)).
  { intros l. rewrite filter_filter. reflexivity. }
  rewrite (E (ghost s1)), (E (ghost s2)), (sim_gh _ _ _ H). reflexivity.
Qed.

Lemma q_list_sim X s1 s2 : sim X s1 s2 -> q_list s1 X = q_list s2 X.
Proof. intros H. unfold q_list, expand. rewrite (expand_sim fixed_matcher X s1 s2 false _ H). reflexivity. Qed.

(* ---- ops ---- *)
Definition op_org (o : op) : option N :=
  match o with
  | Create X _ | Ingest X _ _ | MkAliasDir X | AddAlias X _ _ | RemAlias X _ _
  | Delete X _ | QSearch X _ | QCols X _ | QList X => Some X
  | Rotate | Restart => None
  end.
Definition own (X : N) (o : op) : bool := match op_org o with Some Y => Y =? X | None => false end.
Definition relevant (X : N) (o : op) : bool := match op_org o with Some Y => Y =? X | None => true end.
Definition foreign_delete (X : N) (o : op) : bool := match o with Delete Y _ => negb (Y =? X) | _ => false end.

Lemma step_cong X s1 s2 o : relevant X o = true -> sim X s1 s2 ->
  sim X (fst (step s1 o)) (fst (step s2 o)) /\ snd (step s1 o) = snd (step s2 o).
Proof.
  intros R H. destruct o; cbn [relevant op_org] in R; try (apply N.eqb_eq in R; subst org); cbn [step].
  - split; auto. apply add_tab_cong. exact H.
  - destruct ids as [|i0 ids0]; [split; auto|]. cbn [fst snd]. split; auto.
    unfold resolve. rewrite (alias_targets_sim X s1 s2 idx H).
    set (t := match alias_targets s2 X idx with i :: _ => i | [] => idx end).
    pose proof (add_tab_cong X s1 s2 t H) as A. destruct A.
    constructor; cbn [ftabs mtabs adirs afile amem akeys evs ghost segno]; auto.
    rewrite !filter_app. rewrite sim_ev0, sim_sn0. reflexivity.
  - split; auto. destruct H. constructor; cbn [ftabs mtabs adirs afile amem akeys evs ghost segno]; auto.
    + apply rotate_evs_sim. exact sim_ev0.
    + rewrite sim_sn0. reflexivity.
  - split; auto. destruct H. constructor; cbn; auto. rewrite !existsb_app. cbn. rewrite N.eqb_refl, !orb_true_r. reflexivity.
  - split; auto. apply add_alias_cong. exact H.
  - split; auto. apply rem_alias_cong. exact H.
  - destruct (do_delete_cong X s1 s2 expr H) as [H1 H2].
    destruct (do_delete s1 X expr) as [a1 c1]. destruct (do_delete s2 X expr) as [a2 c2]. cbn [fst snd] in *. subst. auto.
  - split; auto. apply restart_cong. exact H.
  - cbn [fst snd]. rewrite (q_events_sim X s1 s2 expr H). auto.
  - cbn [fst snd]. rewrite (q_pairs_sim X s1 s2 expr H). auto.
  - cbn [fst snd]. rewrite (q_list_sim X s1 s2 H). auto.
Qed.

Lemma step_frame X s o : relevant X o = false -> foreign_delete X o = false -> sim X (fst (step s o)) s.
Proof.
  intros R D. destruct o; cbn [relevant op_org] in R; try discriminate; apply N.eqb_neq in R; cbn [step fst].
  - apply add_tab_frame. exact R.
  - destruct ids as [|i0 ids0]; [apply sim_refl|]. cbn [fst]. set (ids := i0 :: ids0).
    set (t := resolve s org idx). pose proof (add_tab_frame X org s t R) as A. destruct A.
    constructor; cbn [ftabs mtabs adirs afile amem akeys evs ghost]; auto.
    rewrite filter_app. rewrite (filter_none (orge X) (map _ _)); [rewrite app_nil_r; exact sim_ev0|].
    intros e He. apply in_map_iff in He. destruct He as (i & E & _). subst e. unfold orge. cbn. apply N.eqb_neq. exact R.
  - constructor; cbn; auto. rewrite existsb_app. cbn. replace (X =? org) with false by (symmetry; apply N.eqb_neq; congruence).
    rewrite !orb_false_r. reflexivity.
  - apply add_alias_frame. exact R.
  - apply rem_alias_frame. exact R.
  - cbn in D. apply negb_false_iff in D. apply N.eqb_eq in D. contradiction.
  - apply sim_refl.
  - apply sim_refl.
  - apply sim_refl.
Qed.

(* what org X sees: the outputs of its own ops, in order *)
Fixpoint obs_of (X : N) (s : state) (ops : list op) : list out :=
  match ops with
  | [] => []
  | o :: r => (if own X o then [snd (step s o)] else []) ++ obs_of X (fst (step s o)) r
  end.

Lemma own_relevant X o : own X o = true -> relevant X o = true.
Proof. unfold own, relevant. destruct (op_org o); auto. Qed.
Lemma not_relevant_not_own X o : relevant X o = false -> own X o = false.
Proof. unfold own, relevant. destruct (op_org o); auto. Qed.

Lemma noninterference_from X ops : forall s1 s2,
  forallb (fun o => negb (foreign_delete X o)) ops = true -> sim X s1 s2 ->
  obs_of X s1 ops = obs_of X s2 (filter (relevant X) ops) /\
  sim X (run_from s1 ops) (run_from s2 (filter (relevant X) ops)).
Proof.
  induction ops as [|o r IH]; intros s1 s2 G H; cbn [obs_of filter run_from fold_left]; auto.
  cbn in G. apply andb_true_iff in G. destruct G as [Go Gr]. apply negb_true_iff in Go.
  destruct (relevant X o) eqn:R.
  - destruct (step_cong X s1 s2 o R H) as [H1 H2]. cbn [obs_of run_from fold_left]. rewrite H2.
    destruct (IH _ _ Gr H1) as [I1 I2]. unfold run_from in I2. rewrite I1. split; auto.
  - rewrite (not_relevant_not_own X o R). cbn [app].
    apply IH; auto. apply (sim_trans X _ s1); auto. apply step_frame; auto.
Qed.

Theorem org_noninterference_guarded : forall X ops,
  forallb (fun o => negb (foreign_delete X o)) ops = true ->
  obs_of X init ops = obs_of X init (filter (relevant X) ops).
Proof. intros X ops G. apply (noninterference_from X ops init init G (sim_refl X init)). Qed.

(* without the guard: org 0 deletes its index a, org 1's search over its own index a changes *)
Theorem org_noninterference_refuted :
  exists X ops, obs_of X init ops <> obs_of X init (filter (relevant X) ops).
Proof.
  exists 1, [Ingest 1 w_a [2]; Ingest 0 w_a [1]; Delete 0 w_a; QSearch 1 w_a].
  vm_compute. discriminate.
Qed.

Example noninterference_guard_sat :
  forallb (fun o => negb (foreign_delete 1 o)) [Ingest 1 w_a [2]; Ingest 0 w_a [1]; AddAlias 0 w_a w_aXb1; Delete 1 w_a; Restart; QSearch 1 w_a] = true.
Proof. reflexivity. Qed.

(* ---------- unalias is exact ---------- *)
(* RemoveAliases idx [al] of org X removes exactly the pair (al -> idx): afterwards alias a of org Y
   resolves to t iff it did before and (Y, a, t) is not the removed pair. *)
Lemma trip_is_true X a b t : trip_is X a b t = true <-> t = (X, a, b).
Proof.
  destruct t as [[o k] i]. unfold trip_is. cbn [fst snd]. split.
  - intros H. apply andb_true_iff in H. destruct H as [H H3]. apply andb_true_iff in H. destruct H as [H1 H2].
    apply N.eqb_eq in H1. apply name_eqb_eq in H2, H3. subst. reflexivity.
  - intros H. inversion H; subst. rewrite N.eqb_refl, !name_eqb_refl. reflexivity.
Qed.

Theorem unalias_exact : forall s X idx al Y a t,
  is_empty idx = false ->
  (In t (alias_targets (rem_alias s X idx al) Y a) <->
   In t (alias_targets s Y a) /\ ~ (Y = X /\ a = al /\ t = idx)).
Proof.
  intros s X idx al Y a t Hne. unfold alias_targets, rem_alias. rewrite Hne. cbn [amem].
  rewrite !in_map_iff. split.
  - intros (tr & E & H). apply filter_In in H. destruct H as [H P]. apply filter_In in H. destruct H as [H Q].
    split.
    + exists tr. split; auto. apply filter_In. split; auto.
    + intros (EY & Ea & Et). subst.
      apply andb_true_iff in P. destruct P as [P1 P2]. apply N.eqb_eq in P1. apply name_eqb_eq in P2.
      assert (T : trip_is X al (snd tr) tr = true).
      { apply trip_is_true. destruct tr as [[o k] i]. cbn in *. subst. reflexivity. }
      rewrite T in Q. discriminate.
  - intros [(tr & E & H) N]. apply filter_In in H. destruct H as [H P].
    exists tr. split; auto. apply filter_In. split; auto. apply filter_In. split; auto.
    destruct (trip_is X al idx tr) eqn:T; auto. apply trip_is_true in T. subst tr. cbn in *.
    apply andb_true_iff in P. destruct P as [P1 P2]. apply N.eqb_eq in P1. apply name_eqb_eq in P2.
    exfalso. apply N. subst. auto.
Qed.

(* ... and it does not touch what is stored, nor the table lists *)
Lemma unalias_frame s X idx al :
  evs (rem_alias s X idx al) = evs s /\ ftabs (rem_alias s X idx al) = ftabs s /\ akeys (rem_alias s X idx al) = akeys s.
Proof. unfold rem_alias. destruct (is_empty idx); auto. Qed.

(* the selection is exact: every stored event of X whose index is in the expansion is returned *)
Theorem query_complete : forall ops X expr e,
  In e (evs (run ops)) -> e_org e = X -> In (e_tab e) (expand (run ops) X false expr) ->
  In (e_id e) (map e_id (q_events (run ops) X expr)).
Proof.
  intros ops X expr e He Ho Ht. apply in_map. unfold q_events. apply filter_In. split; auto.
  unfold sel_tab. apply andb_true_iff. split; [apply N.eqb_eq; exact Ho | apply mem_In; exact Ht].
Qed.

(* ====================================================================== *)
(* Ingest-side routing: the stream id is injective on (org, index), hence an event ingested by X into t
   is stored under (X, t). *)

(* decimal printing *)
Fixpoint undec_rev (l : list N) : N :=
  match l with [] => 0 | d :: r => (d - 48) + 10 * undec_rev r end.

Lemma undec_dec_rev fuel : forall n, n < 2 ^ N.of_nat fuel -> undec_rev (dec_rev fuel n) = n.
Proof.
  induction fuel as [|f IH]; intros n H.
  - cbn in H. assert (n = 0) by lia. subst. reflexivity.
  - cbn [dec_rev]. destruct (n =? 0) eqn:E.
    + apply N.eqb_eq in E. subst. reflexivity.
    + cbn [undec_rev]. rewrite IH.
      * pose proof (N.div_mod' n 10). pose proof (N.mod_lt n 10). lia.
      * rewrite Nat2N.inj_succ, N.pow_succ_r' in H.
        apply N.eqb_neq in E. assert (n / 10 <= n / 2) by (apply N.div_le_compat_l; lia).
        assert (n / 2 < 2 ^ N.of_nat f) by (apply N.div_lt_upper_bound; lia). lia.
Qed.

Lemma dec_rev_digits fuel : forall n d, In d (dec_rev fuel n) -> 48 <= d <= 57.
Proof.
  induction fuel as [|f IH]; intros n d H; cbn [dec_rev] in H; [contradiction|].
  destruct (n =? 0); [contradiction|]. destruct H as [H|H]; [|eapply IH; eauto].
  pose proof (N.mod_lt n 10). lia.
Qed.

Lemma dec_digits n d : In d (dec n) -> 48 <= d <= 57.
Proof.
  unfold dec. destruct (n =? 0).
  - intros [H|[]]. lia.
  - intros H. apply in_rev in H. eapply dec_rev_digits; eauto.
Qed.

Definition undec (l : list N) : N := undec_rev (rev l).

Lemma undec_dec n : undec (dec n) = n.
Proof.
  unfold undec, dec. destruct (n =? 0) eqn:E.
  - apply N.eqb_eq in E. subst. reflexivity.
  - rewrite rev_involutive. apply undec_dec_rev.
    apply N.eqb_neq in E. rewrite Nat2N.inj_succ, N2Nat.id.
    apply N.log2_spec. lia.
Qed.

Lemma dec_inj a b : dec a = dec b -> a = b.
Proof. intros H. rewrite <- (undec_dec a), <- (undec_dec b), H. reflexivity. Qed.

(* a separator that occurs in neither prefix splits uniquely *)
Lemma split_at_sep (c : N) : forall l1 l2 r1 r2,
  ~ In c l1 -> ~ In c l2 -> l1 ++ c :: r1 = l2 ++ c :: r2 -> l1 = l2 /\ r1 = r2.
Proof.
  induction l1 as [|x l1 IH]; intros [|y l2] r1 r2 H1 H2 E; cbn in E.
  - inversion E. auto.
  - inversion E; subst. exfalso. apply H2. left. reflexivity.
  - inversion E; subst. exfalso. apply H1. left. reflexivity.
  - inversion E; subst. destruct (IH l2 r1 r2) as [A B]; auto.
    + intros Hc. apply H1. right. exact Hc.
    + intros Hc. apply H2. right. exact Hc.
    + subst. auto.
Qed.

Lemma dash_not_in_dec n : ~ In c_dash (dec n).
Proof. intros H. apply dec_digits in H. unfold c_dash in H. lia. Qed.

(* the model's segstore key is injective on (org, index) *)
Theorem stream_key_inj : forall X t Y u, stream_key X t = stream_key Y u -> X = Y /\ t = u.
Proof.
  intros X t Y u E. unfold stream_key in E.
  destruct (split_at_sep c_dash _ _ _ _ (dash_not_in_dec X) (dash_not_in_dec Y) E) as [A B].
  split; [apply dec_inj; exact A | exact B].
Qed.

(* the real formula "<shard>-<org>-<hash(index)>": injective in the org for any hash function, and in
   (org, index) up to collisions of the hash on the index name *)
Section RealStreamId.
  Variable h : name -> N.       (* xxhash.Sum64String *)

  Theorem sid_str_inj : forall X t Y u, sid_str h X t = sid_str h Y u -> X = Y /\ h t = h u.
  Proof.
    intros X t Y u E. unfold sid_str in E. cbn [app] in E. inversion E as [E'].
    destruct (split_at_sep c_dash _ _ _ _ (dash_not_in_dec X) (dash_not_in_dec Y) E') as [A B].
    split; apply dec_inj; assumption.
  Qed.

  Corollary sid_str_inj_pairs : forall X t Y u,
    (h t = h u -> t = u) -> sid_str h X t = sid_str h Y u -> X = Y /\ t = u.
  Proof. intros X t Y u Hc E. destruct (sid_str_inj X t Y u E). auto. Qed.
End RealStreamId.

(* seeded/C13c: without the separator org 12 / "logs" and org 1 / "2logs" get the same key *)
Theorem concat_key_refuted :
  exists X t Y u, (X, t) <> (Y, u) /\ concat_key X t = concat_key Y u.
Proof.
  exists 12, [108;111;103;115], 1, [50;108;111;103;115]. split; [discriminate | vm_compute; reflexivity].
Qed.

(* ---- routing refinement ---- *)
Definition stores_ok (st : stores) : Prop :=
  forall k tgt, In (k, tgt) st -> k = stream_key (fst tgt) (snd tgt).

Lemma route_direct st X t : stores_ok st -> route st (stream_key X t) (X, t) = (X, t).
Proof.
  intros H. unfold route. destruct (find _ st) as [[k tgt]|] eqn:F; auto.
  apply find_some in F. destruct F as [Hin Hk]. cbn [fst] in Hk. apply name_eqb_eq in Hk.
  specialize (H k tgt Hin). rewrite H in Hk. apply stream_key_inj in Hk. destruct Hk as [A B].
  destruct tgt as [o u]. cbn in *. subst. reflexivity.
Qed.

Lemma rstep_direct s st o : stores_ok st ->
  fst (fst (rstep (s, st) o)) = fst (step s o) /\
  snd (rstep (s, st) o) = snd (step s o) /\
  stores_ok (snd (fst (rstep (s, st) o))).
Proof.
  intros H. unfold rstep, rstep_with.
  destruct o; try (destruct (step s _) as [s' x] eqn:E; cbn [fst snd]; rewrite ?E; auto; fail).
  - (* Ingest *)
    destruct ids as [|i0 ids0]; [cbn; auto|].
    rewrite (route_direct st org (resolve s org idx) H). cbn [fst snd step]. repeat split.
    destruct (has_key st (stream_key org (resolve s org idx))); auto.
    intros k tgt Hin. apply in_app_or in Hin. destruct Hin as [Hin|[Hin|[]]]; auto.
    inversion Hin; subst. reflexivity.
  - (* Delete *)
    destruct (step s (Delete org expr)) as [s' x] eqn:E. cbn [fst snd]. repeat split.
    intros k tgt Hin. apply filter_In in Hin. apply H. tauto.
  - (* Restart *)
    destruct (step s Restart) as [s' x] eqn:E. cbn [fst snd]. repeat split.
    intros k tgt [].
Qed.

Lemma routs_direct ops : forall s st, stores_ok st ->
  routs_from (s, st) ops = outs_from s ops /\
  fst (fold_left (fun rs o => fst (rstep rs o)) ops (s, st)) = run_from s ops.
Proof.
  induction ops as [|o r IH]; intros s st H; [split; reflexivity|].
  destruct (rstep_direct s st o H) as (A & B & C).
  unfold routs_from, run_from in *. cbn [routs_with outs_from fold_left].
  change (rstep_with stream_key) with rstep.
  destruct (rstep (s, st) o) as [[s1 st1] x1]. cbn [fst snd] in *.
  destruct (step s o) as [s2 x2]. cbn [fst snd] in *. subst s2 x2.
  destruct (IH s1 st1 C) as [I1 I2]. split.
  - f_equal. exact I1.
  - exact I2.
Qed.

(* for ALL op sequences the routed semantics (what the code does) and the direct one coincide:
   every theorem about [run] / [outs_from] / [obs_of] holds for the routed model *)
Theorem routing_is_direct : forall ops,
  routs_from (init, []) ops = outs_from init ops /\ fst (rrun ops) = run ops.
Proof.
  intros ops. apply (routs_direct ops init []). intros k tgt [].
Qed.

(* with the separator-less key of seeded/C13c the routed model leaks: org 12 reads org 1's event *)
Theorem concat_routing_refuted :
  exists ops X i, In i (match last (routs_with concat_key (init, []) ops) ONone with OIds l => l | _ => [] end) /\
                  ~ ingested ops X i /\ last ops Rotate = QSearch X [108;111;103;115].
Proof.
  exists [Ingest 12 [108;111;103;115] [1]; Ingest 1 [50;108;111;103;115] [2]; QSearch 12 [108;111;103;115]], 12, 2.
  split; [vm_compute; tauto|]. split; [|reflexivity].
  intros (n & ids & Hin & Hi). cbn in Hin. destruct Hin as [E|[E|[E|[]]]]; inversion E; subst.
  cbn in Hi. destruct Hi as [Hi|[]]. discriminate.
Qed.

(* ====================================================================== *)
(* Full-strength statements that hold since the repairs of delete-index and of the alias persistence *)

(* ---- no stale unrotated-segment info: the column listing only shows stored events ---- *)
Lemma rem_alias_ghost s X i a : ghost (rem_alias s X i a) = ghost s.
Proof. unfold rem_alias. destruct (is_empty i); reflexivity. Qed.
Lemma rem_fold_ghost X n l : forall s, ghost (fold_left (fun st a => rem_alias st X n a) l s) = ghost s.
Proof. induction l as [|a l IH]; intros s; cbn; auto. rewrite IH. apply rem_alias_ghost. Qed.
Lemma pre_del_ghost s X n : ghost (pre_del s X n) = ghost s.
Proof. unfold pre_del. destruct (alias_targets s X n); auto. apply rem_fold_ghost. Qed.

Lemma del_one_ghost X s nf n : ghost (fst (del_one X (s, nf) n)) = ghost s.
Proof.
  unfold del_one. destruct (has_tab (ftabs s) X n); cbn [fst ghost]; auto.
  fold (pre_del s X n). apply pre_del_ghost.
Qed.

Lemma del_fold_ghost X names : forall acc, ghost (fst (fold_left (del_one X) names acc)) = ghost (fst acc).
Proof.
  induction names as [|n r IH]; intros [s nf]; cbn [fold_left]; auto.
  rewrite IH. apply del_one_ghost.
Qed.

Lemma ghost_step s o : ghost s = [] -> ghost (fst (step s o)) = [].
Proof.
  intros H. destruct o; cbn [step fst]; auto.
  - unfold add_tab. destruct (has_tab (mtabs s) org idx); auto.
  - destruct ids; auto. cbn [fst ghost]. unfold add_tab. destruct (has_tab _ _ _); auto.
  - unfold add_alias. destruct (is_empty idx); auto. destruct (negb (dir_ok s org)); auto.
    destruct (fold_left _ _ _). exact H.
  - rewrite rem_alias_ghost. exact H.
  - unfold do_delete. destruct (name_eqb expr n_traces); auto.
    pose proof (del_fold_ghost org (expand s org true expr) (s, O)) as G.
    destruct (fold_left (del_one org) (expand s org true expr) (s, O)) as [s' nf]. cbn [fst] in *. congruence.
Qed.

Theorem ghost_empty : forall ops, ghost (run ops) = [].
Proof.
  induction ops as [|o ops IH] using rev_ind; [reflexivity|]. rewrite run_snoc. apply ghost_step. exact IH.
Qed.

Theorem columns_only_of_stored_events : forall ops X expr p,
  In p (q_pairs (run ops) X expr) ->
  exists e, In e (evs (run ops)) /\ p = (e_org e, e_tab e) /\ e_org e = X /\
            In (e_tab e) (expand (run ops) X false expr).
Proof.
  intros ops X expr p H. unfold q_pairs in H. rewrite ghost_empty in H. cbn [filter] in H. rewrite app_nil_r in H.
  apply in_map_iff in H. destruct H as (e & E & He). apply filter_In in He. destruct He as [He Hs].
  unfold sel_tab in Hs. apply andb_true_iff in Hs. destruct Hs as [Ho Ht].
  exists e. repeat split; auto; [apply N.eqb_eq; exact Ho | apply mem_In; exact Ht].
Qed.

(* ---- every index that holds events is listed for its org, so delete-index by name always finds it ---- *)
Definition listed_inv (s : state) : Prop :=
  (forall X t, has_tab (mtabs s) X t = true -> has_tab (ftabs s) X t = true) /\
  (forall e, In e (evs s) -> has_tab (ftabs s) (e_org e) (e_tab e) = true).

Lemma has_tab_app l X t Y u : has_tab (l ++ [(Y, u)]) X t = has_tab l X t || ((Y =? X) && name_eqb u t).
Proof. unfold has_tab. rewrite existsb_app. cbn. rewrite orb_false_r. reflexivity. Qed.

Lemma has_tab_remove_gen l X n Y m :
  has_tab (filter (fun p => negb (pair_is X n p)) l) Y m = has_tab l Y m && negb ((Y =? X) && name_eqb m n).
Proof.
  unfold has_tab. induction l as [|p l IH]; auto. cbn [filter existsb].
  destruct (pair_is X n p) eqn:Pn; cbn [negb existsb]; rewrite IH.
  - destruct (pair_is Y m p) eqn:Pm; cbn [orb]; auto.
    unfold pair_is in *. apply andb_true_iff in Pn, Pm. destruct Pn as [A B], Pm as [C D].
    apply N.eqb_eq in A, C. apply name_eqb_eq in B, D. subst. rewrite N.eqb_refl, name_eqb_refl. cbn.
    rewrite andb_false_r. reflexivity.
  - destruct (pair_is Y m p) eqn:Pm; cbn [orb]; auto.
    destruct ((Y =? X) && name_eqb m n) eqn:E; cbn; auto.
    apply andb_true_iff in E. destruct E as [A B]. apply N.eqb_eq in A. apply name_eqb_eq in B. subst.
    rewrite Pm in Pn. discriminate.
Qed.

Lemma add_tab_listed s X t : listed_inv s -> listed_inv (add_tab s X t) /\ has_tab (ftabs (add_tab s X t)) X t = true.
Proof.
  intros [I1 I2]. unfold add_tab. destruct (has_tab (mtabs s) X t) eqn:M.
  - split; [split; auto|]. apply I1. exact M.
  - unfold listed_inv. cbn [ftabs mtabs evs]. split; [split|].
    + intros Y u. rewrite !has_tab_app. intros H. apply orb_true_iff in H. destruct H as [H|H].
      * rewrite (I1 _ _ H). reflexivity.
      * rewrite H. apply orb_true_r.
    + intros e He. rewrite has_tab_app. rewrite (I2 e He). reflexivity.
    + rewrite has_tab_app, N.eqb_refl, name_eqb_refl. apply orb_true_r.
Qed.

Lemma add_tab_ftabs_mono s X t Y u : has_tab (ftabs s) Y u = true -> has_tab (ftabs (add_tab s X t)) Y u = true.
Proof. unfold add_tab. destruct (has_tab (mtabs s) X t); auto. cbn [ftabs]. rewrite has_tab_app. intros H. rewrite H. reflexivity. Qed.

Lemma rem_alias_mtabs s X i a : mtabs (rem_alias s X i a) = mtabs s.
Proof. unfold rem_alias. destruct (is_empty i); reflexivity. Qed.
Lemma rem_fold_mtabs X n l : forall s, mtabs (fold_left (fun st a => rem_alias st X n a) l s) = mtabs s.
Proof. induction l as [|a l IH]; intros s; cbn; auto. rewrite IH. apply rem_alias_mtabs. Qed.
Lemma pre_del_mtabs s X n : mtabs (pre_del s X n) = mtabs s.
Proof. unfold pre_del. destruct (alias_targets s X n); auto. apply rem_fold_mtabs. Qed.

Lemma del_one_listed X s nf n : listed_inv s -> listed_inv (fst (del_one X (s, nf) n)).
Proof.
  intros [I1 I2]. unfold del_one. destruct (has_tab (ftabs s) X n); [|split; auto].
  fold (pre_del s X n). unfold listed_inv. cbn [fst ftabs mtabs evs]. rewrite pre_del_ftabs, pre_del_mtabs, del_evs_eq, pre_del_evs. split.
  - intros Y u. rewrite !has_tab_remove_gen. intros H. apply andb_true_iff in H. destruct H as [H1 H2].
    rewrite (I1 _ _ H1), H2. reflexivity.
  - intros e He. apply filter_In in He. destruct He as [He Hn]. rewrite has_tab_remove_gen, (I2 e He).
    apply negb_true_iff in Hn. rewrite Hn, andb_false_r. reflexivity.
Qed.

Lemma del_fold_listed X names : forall acc, listed_inv (fst acc) -> listed_inv (fst (fold_left (del_one X) names acc)).
Proof.
  induction names as [|n r IH]; intros [s nf] H; cbn [fold_left]; auto.
  apply IH. destruct (del_one X (s, nf) n) as [s1 nf1] eqn:E.
  pose proof (del_one_listed X s nf n H) as L. rewrite E in L. exact L.
Qed.

Lemma listed_step s o : listed_inv s -> listed_inv (fst (step s o)).
Proof.
  intros H. destruct o; cbn [step fst]; auto.
  - apply add_tab_listed. exact H.
  - destruct ids as [|i0 ids0]; auto. cbn [fst].
    destruct (add_tab_listed s org (resolve s org idx) H) as [[I1 I2] I3]. split; cbn [ftabs mtabs evs]; auto.
    intros e He. apply in_app_or in He. destruct He as [He|He]; auto.
    apply in_map_iff in He. destruct He as (i & E & _). subst e. cbn. exact I3.
  - destruct H as [I1 I2]. split; cbn [ftabs mtabs evs]; auto.
    intros e He. apply in_map_iff in He. destruct He as (e0 & E & H0). subst e. cbn. auto.
  - destruct H as [I1 I2]. unfold add_alias. destruct (is_empty idx); [split; auto|].
    destruct (negb (dir_ok s org)); [split; auto|]. destruct (fold_left _ _ _). split; cbn [ftabs mtabs evs]; auto.
  - destruct H as [I1 I2]. unfold rem_alias. destruct (is_empty idx); split; cbn [ftabs mtabs evs]; auto.
  - unfold do_delete. destruct (name_eqb expr n_traces); auto.
    pose proof (del_fold_listed org (expand s org true expr) (s, O) H) as L.
    destruct (fold_left (del_one org) (expand s org true expr) (s, O)) as [s' nf]. cbn [fst] in *. exact L.
  - destruct H as [I1 I2]. unfold do_restart. split; cbn [ftabs mtabs evs].
    + intros X t Hm. unfold has_tab in *. apply existsb_exists in Hm. destruct Hm as (p & Hp & Hq).
      apply filter_In in Hp. apply existsb_exists. exists p. tauto.
    + intros e He. apply in_map_iff in He. destruct He as (e0 & E & H0). subst e. cbn. auto.
Qed.

Theorem stored_index_is_listed : forall ops e,
  In e (evs (run ops)) -> has_tab (ftabs (run ops)) (e_org e) (e_tab e) = true.
Proof.
  intros ops. assert (L : listed_inv (run ops)).
  { induction ops as [|o ops IH] using rev_ind; [split; [discriminate | intros e []]|].
    rewrite run_snoc. apply listed_step. exact IH. }
  apply L.
Qed.

(* delete-index of a plain, non-alias name removes every event of (X, t) — whatever happened before
   (in particular after delete + re-create in the same process) *)
Theorem delete_plain_removes_all : forall ops X t e,
  plain t = true -> name_eqb t n_traces = false -> alias_present (run ops) X t = false ->
  In e (evs (run (ops ++ [Delete X t]))) -> ~ (e_org e = X /\ e_tab e = t).
Proof.
  intros ops X t e P Ht A He [Eo Et].
  assert (Hb : In e (evs (run ops))).
  { pose proof He as He2. rewrite run_snoc in He2. cbn [step] in He2.
    destruct (do_delete (run ops) X t) as [s' c] eqn:D. cbn [fst] in He2.
    pose proof (do_delete_evs (run ops) X t Ht) as Ev. rewrite D in Ev. cbn [fst] in Ev.
    rewrite Ev in He2. apply filter_In in He2. tauto. }
  pose proof (stored_index_is_listed ops e Hb) as L. rewrite Eo, Et in L.
  apply (delete_removes_named ops X t e Ht); auto.
  unfold del_names. rewrite (expand_plain _ _ _ _ P A). cbn. rewrite L. left. symmetry. exact Et.
Qed.

(* ---- alias persistence: memory and files hold the same relation, and it survives a restart, for every org ---- *)
Definition alias_sync (s : state) : Prop :=
  forall X a t, In (X, a, t) (amem s) <->
                (In (X, t, a) (afile s) /\ is_empty a = false /\ is_empty t = false).

Lemma in_alias_targets s X a t : In t (alias_targets s X a) <-> In (X, a, t) (amem s).
Proof.
  unfold alias_targets. rewrite in_map_iff. split.
  - intros ([[o k] i] & E & H). apply filter_In in H. destruct H as [H P]. cbn in *.
    apply andb_true_iff in P. destruct P as [P1 P2]. apply N.eqb_eq in P1. apply name_eqb_eq in P2. subst. exact H.
  - intros H. exists (X, a, t). split; auto. apply filter_In. split; auto. cbn. rewrite N.eqb_refl, name_eqb_refl. reflexivity.
Qed.

Lemma in_file_keys s X f a : In a (file_keys s X f) <-> In (X, f, a) (afile s).
Proof.
  unfold file_keys. rewrite in_map_iff. split.
  - intros ([[o k] i] & E & H). apply filter_In in H. destruct H as [H P]. cbn in *.
    apply andb_true_iff in P. destruct P as [P1 P2]. apply N.eqb_eq in P1. apply name_eqb_eq in P2. subst. exact H.
  - intros H. exists (X, f, a). split; auto. apply filter_In. split; auto. cbn. rewrite N.eqb_refl, name_eqb_refl. reflexivity.
Qed.

Lemma in_aliases_of_index s X idx a : In a (aliases_of_index s X idx) <-> In (X, a, idx) (amem s).
Proof.
  unfold aliases_of_index. rewrite in_map_iff. split.
  - intros ([[o k] i] & E & H). apply filter_In in H. destruct H as [H P]. cbn in *.
    apply andb_true_iff in P. destruct P as [P1 P2]. apply N.eqb_eq in P1. apply name_eqb_eq in P2. subst. exact H.
  - intros H. exists (X, a, idx). split; auto. apply filter_In. split; auto. cbn. rewrite N.eqb_refl, name_eqb_refl. reflexivity.
Qed.

Lemma in_put_am X idx cur Y a t :
  In (Y, a, t) (put_am X idx cur) <->
  Y = X /\ t = idx /\ In a cur /\ is_empty a = false /\ is_empty idx = false.
Proof.
  unfold put_am. rewrite in_flat_map. split.
  - intros (k & Hk & H). destruct (is_empty k || is_empty idx) eqn:E; [contradiction|].
    destruct H as [H|[]]. inversion H; subst. apply orb_false_iff in E. tauto.
  - intros (A & B & C & D & E). subst. exists a. split; auto. rewrite D, E. left. reflexivity.
Qed.

Lemma add_alias_sync s X idx al : alias_sync s -> alias_sync (add_alias s X idx al).
Proof.
  intros S. unfold add_alias. destruct (is_empty idx) eqn:Ei; auto. destruct (negb (dir_ok s X)); auto.
  rewrite put_fold. intros Y a t. cbn [amem afile]. split.
  - intros H. apply in_app_or in H. destruct H as [H|H].
    + apply S in H. destruct H as (H & D & E). repeat split; auto. apply in_or_app. left. exact H.
    + apply in_put_am in H. destruct H as (A & B & C & D & E). subst.
      apply in_app_or in C. destruct C as [C|[C|[]]].
      * apply in_file_keys in C. repeat split; auto. apply in_or_app. left. exact C.
      * subst. repeat split; auto. apply in_or_app. right. left. reflexivity.
  - intros (H & D & E). apply in_app_or in H. destruct H as [H|[H|[]]].
    + apply in_or_app. left. apply S. tauto.
    + inversion H; subst. apply in_or_app. right. apply in_put_am. repeat split; auto.
      apply in_or_app. right. left. reflexivity.
Qed.

Lemma rem_alias_sync s X idx al : alias_sync s -> alias_sync (rem_alias s X idx al).
Proof.
  intros S. unfold rem_alias. destruct (is_empty idx); auto.
  intros Y a t. cbn [amem afile]. split.
  - intros H. apply filter_In in H. destruct H as [H1 H3]. apply S in H1. destruct H1 as (H1 & D & E).
    repeat split; auto. apply filter_In. split; auto.
    destruct (trip_is X idx al (Y, t, a)) eqn:T; auto. apply trip_is_true in T. inversion T; subst.
    rewrite (proj2 (trip_is_true X al idx (X, al, idx)) eq_refl) in H3. discriminate.
  - intros (H & D & E). apply filter_In in H. destruct H as [H1 H3]. apply filter_In. split; [apply S; tauto|].
    destruct (trip_is X al idx (Y, a, t)) eqn:T; auto. apply trip_is_true in T. inversion T; subst.
    rewrite (proj2 (trip_is_true X idx al (X, idx, al)) eq_refl) in H3. discriminate.
Qed.

Lemma rem_fold_sync X n l : forall s, alias_sync s -> alias_sync (fold_left (fun st a => rem_alias st X n a) l s).
Proof. induction l as [|a l IH]; intros s S; cbn; auto. apply IH. apply rem_alias_sync. exact S. Qed.

Lemma del_one_sync X s nf n : alias_sync s -> alias_sync (fst (del_one X (s, nf) n)).
Proof.
  intros S. unfold del_one. destruct (has_tab (ftabs s) X n); auto.
  fold (pre_del s X n). assert (P : alias_sync (pre_del s X n)).
  { unfold pre_del. destruct (alias_targets s X n); auto. apply rem_fold_sync. exact S. }
  exact P.
Qed.

Lemma del_fold_sync X names : forall acc, alias_sync (fst acc) -> alias_sync (fst (fold_left (del_one X) names acc)).
Proof.
  induction names as [|n r IH]; intros [s nf] H; cbn [fold_left]; auto.
  apply IH. destruct (del_one X (s, nf) n) as [s1 nf1] eqn:E.
  pose proof (del_one_sync X s nf n H) as L. rewrite E in L. exact L.
Qed.

(* the flush rewrites every index file with what the file already says *)
Lemma flush_keeps_relation s : alias_sync s -> forall keys fl,
  (forall X t a, is_empty a = false -> is_empty t = false -> (In (X, t, a) fl <-> In (X, t, a) (afile s))) ->
  forall X t a, is_empty a = false -> is_empty t = false ->
    (In (X, t, a) (fold_left (flush_index s) keys fl) <-> In (X, t, a) (afile s)).
Proof.
  intros S. induction keys as [|k r IH]; intros fl P; cbn [fold_left]; auto.
  apply IH. intros X t a Ea Et. unfold flush_index. destruct (dir_ok s (fst k)); [|apply P; auto].
  destruct ((X =? fst k) && name_eqb t (snd k)) eqn:K.
  - apply andb_true_iff in K. destruct K as [K1 K2]. apply N.eqb_eq in K1. apply name_eqb_eq in K2. subst. split.
    + intros H. apply in_app_or in H. destruct H as [H|H].
      * apply filter_In in H. destruct H as [_ H]. cbn [fst snd] in H. rewrite N.eqb_refl, name_eqb_refl in H. discriminate.
      * apply in_map_iff in H. destruct H as (a' & E & H). inversion E; subst.
        apply in_aliases_of_index in H. apply S in H. tauto.
    + intros H. apply in_or_app. right. apply in_map_iff. exists a. split; auto.
      apply in_aliases_of_index. apply S. tauto.
  - split.
    + intros H. apply in_app_or in H. destruct H as [H|H].
      * apply filter_In in H. destruct H as [H _]. apply P; auto.
      * apply in_map_iff in H. destruct H as (a' & E & H). inversion E; subst.
        rewrite N.eqb_refl, name_eqb_refl in K. discriminate.
    + intros H. apply in_or_app. left. apply filter_In. split; [apply P; auto|].
      cbn [fst snd]. rewrite K. reflexivity.
Qed.

Lemma in_restart_amem s X a t :
  In (X, a, t) (amem (do_restart s)) <->
  In (X, t, a) (afile (do_restart s)) /\ is_empty a = false /\ is_empty t = false.
Proof.
  unfold do_restart. cbn [amem afile]. rewrite in_map_iff. split.
  - intros ([[o f] k] & E & H). apply filter_In in H. destruct H as [H L]. cbn in E. inversion E; subst.
    unfold loadable in L. cbn in L. apply andb_true_iff in L. destruct L as [L1 L2].
    apply negb_true_iff in L1, L2. tauto.
  - intros (H & Ea & Et). exists (X, t, a). split; auto. apply filter_In. split; auto.
    unfold loadable. cbn. rewrite Ea, Et. reflexivity.
Qed.

(* reader and writer agree on the file format, for every org *)
Theorem restart_alias_sync : forall s, alias_sync (do_restart s).
Proof. intros s X a t. apply in_restart_amem. Qed.

Theorem aliases_survive_restart : forall s X a t, alias_sync s ->
  (In t (alias_targets (do_restart s) X a) <-> In t (alias_targets s X a)).
Proof.
  intros s X a t S.
  assert (F : forall Y u b, is_empty b = false -> is_empty u = false ->
              (In (Y, u, b) (afile (do_restart s)) <-> In (Y, u, b) (afile s))).
  { intros Y u b Eb Eu. unfold do_restart. cbn [afile].
    apply (flush_keeps_relation s S (mem_indexes s) (afile s)); auto. intros; tauto. }
  split; intros H.
  - apply in_alias_targets in H. apply in_restart_amem in H. destruct H as (H & Ea & Et).
    apply in_alias_targets. apply S. split; auto. apply F; auto.
  - apply in_alias_targets in H. apply S in H. destruct H as (H & Ea & Et).
    apply in_alias_targets. apply in_restart_amem. split; auto. apply F; auto.
Qed.

Lemma sync_step s o : alias_sync s -> alias_sync (fst (step s o)).
Proof.
  intros S. destruct o; cbn [step fst]; auto.
  - unfold add_tab. destruct (has_tab (mtabs s) org idx); auto.
  - destruct ids; auto. cbn [fst]. unfold add_tab. destruct (has_tab _ _ _); auto.
  - apply add_alias_sync. exact S.
  - apply rem_alias_sync. exact S.
  - unfold do_delete. destruct (name_eqb expr n_traces); auto.
    pose proof (del_fold_sync org (expand s org true expr) (s, O) S) as L.
    destruct (fold_left (del_one org) (expand s org true expr) (s, O)) as [s' nf]. cbn [fst] in *. exact L.
  - apply restart_alias_sync.
Qed.

Theorem alias_sync_run : forall ops, alias_sync (run ops).
Proof.
  induction ops as [|o ops IH] using rev_ind.
  - intros X a t. cbn. split; [intros [] | intros [[] _]].
  - rewrite run_snoc. apply sync_step. exact IH.
Qed.

(* for ALL op sequences of all orgs: what an alias resolves to is the same before and after a graceful restart *)
Theorem aliases_survive_restart_run : forall ops X a t,
  In t (alias_targets (run (ops ++ [Restart])) X a) <-> In t (alias_targets (run ops) X a).
Proof.
  intros ops X a t. rewrite run_snoc. cbn [step fst]. apply aliases_survive_restart. apply alias_sync_run.
Qed.

(* TextPlanProofs.v — the candidate columns recorded by the block-bloom check of an all-column string equality only
   skip work (C03): for ANY filter structure without false negatives the search restricted to the recorded columns
   returns exactly the records in which some column holds the value, on open and on rotated segments, for every
   split of the records into segments and blocks. *)
From SigM Require Import Base Prune TextPlan.
From SigP Require Import BaseProofs PruneProofs.
From Coq Require Import List NArith Bool Lia Permutation.
Import ListNotations.

Lemma bytes_eqb_eq : forall a b, bytes_eqb a b = true -> a = b.
Proof.
  unfold bytes_eqb. induction a as [|x a IH]; destruct b as [|y b]; simpl; intros H; try discriminate; auto.
  apply andb_true_iff in H. destruct H as [E H]. apply N.eqb_eq in E. subst. f_equal. auto.
Qed.

Lemma mem_bytes_in : forall x l, In x l -> mem_bytes x l = true.
Proof.
  induction l as [|y l IH]; simpl; intros H; [contradiction|].
  destruct H as [->|H]; [rewrite bytes_eqb_refl; auto | rewrite IH; auto using orb_true_r].
Qed.

(* the restricted search can never ADD a record, whatever the candidate list is *)
Lemma rec_eq_in_restrict : forall ci cs key r, rec_eq_in ci (Some cs) key r = true -> rec_eq_in ci None key r = true.
Proof.
  intros ci cs key r H. unfold rec_eq_in in *. apply existsb_exists in H. destruct H as [cv [I H]].
  apply existsb_exists. exists cv. split; auto. apply andb_true_iff in H. destruct H as [_ H]. simpl. auto.
Qed.

Lemma filter_none : forall {A} (f : A -> bool) l, (forall x, In x l -> f x = false) -> filter f l = [].
Proof.
  induction l as [|x l IH]; simpl; intros H; auto. rewrite (H x (or_introl eq_refl)). apply IH. intros; apply H; auto.
Qed.

Lemma cmi_lookup_first : forall c t r, cmi_lookup c ((c, t) :: r) = Some (c, t).
Proof. intros. simpl. rewrite bytes_eqb_refl. auto. Qed.

Section Plan.
  (* the bloom filter library: any structure without false negatives *)
  Variable B : Type.
  Variable bempty : B.
  Variable badd : B -> bytes -> B.
  Variable btest : B -> bytes -> bool.
  Hypothesis add_hit : forall b w, btest (badd b w) w = true.
  Hypothesis add_mono : forall b w x, btest b x = true -> btest (badd b w) x = true.

  Definition mkf (vals : list bytes) : bytes -> bool := btest (bloom_of B bempty badd vals).

  Lemma col_values_in : forall c v recs r, In r recs -> In (c, v) (snd r) -> In v (col_values c recs).
  Proof.
    intros c v recs r Hr Hc. unfold col_values. apply in_flat_map. exists r. split; auto.
    apply in_map_iff. exists (c, v). split; auto. apply filter_In. split; auto. simpl. apply bytes_eqb_refl.
  Qed.

  Lemma rec_cols_in : forall c v recs r, In r recs -> In (c, v) (snd r) -> In c (rec_cols recs).
  Proof.
    intros c v recs r Hr Hc. unfold rec_cols. apply in_flat_map. exists r. split; auto.
    apply in_map_iff. exists (c, v). auto.
  Qed.

  (* a cell of the block equal to the key => its column's filter answers yes *)
  Lemma cell_hit : forall ci k b r c v,
    (ci = true -> lower (fst k) = fst k) ->
    In r (tb_recs b) -> In (c, v) (snd r) -> eq_ci ci (fst k) v = true ->
    col_hit k (c, Some (mkf (col_values c (tb_recs b)))) = true.
  Proof.
    intros ci k b r c v LK Hr Hc E. unfold col_hit, probe. simpl.
    unfold mkf. rewrite (bloom_equals_sound B bempty badd btest add_hit add_mono _ v (fst k) ci); auto.
    eapply col_values_in; eauto.
  Qed.

  (* rotated: the column is among the recorded ones *)
  Lemma key_cols_complete : forall ci k b r c v,
    (ci = true -> lower (fst k) = fst k) ->
    In r (tb_recs b) -> In (c, v) (snd r) -> eq_ci ci (fst k) v = true ->
    In c (key_cols (blk_cmis mkf b) k).
  Proof.
    intros ci k b r c v LK Hr Hc E. unfold key_cols. apply in_map_iff.
    exists (c, Some (mkf (col_values c (tb_recs b)))). split; auto.
    apply filter_In. split; [| eapply cell_hit; eauto].
    unfold blk_cmis. apply in_or_app. left. apply in_map_iff. exists c. split; auto. eapply rec_cols_in; eauto.
  Qed.

  Lemma cmi_lookup_map : forall (f : bytes -> option (bytes -> bool)) c l rest,
    In c l -> cmi_lookup c (map (fun c => (c, f c)) l ++ rest) = Some (c, f c).
  Proof.
    intros f c l rest. induction l as [|x l IH]; simpl; intros H; [contradiction|].
    destruct (bytes_eqb x c) eqn:E.
    - apply bytes_eqb_eq in E. subst. auto.
    - destruct H as [->|H]; [rewrite bytes_eqb_refl in E; discriminate | auto].
  Qed.

  (* open segment: the column is among the recorded ones as soon as the segment's column list has it *)
  Lemma key_cols_unrot_complete : forall ci k b segcols r c v,
    (ci = true -> lower (fst k) = fst k) ->
    In c segcols ->
    In r (tb_recs b) -> In (c, v) (snd r) -> eq_ci ci (fst k) v = true ->
    In c (key_cols_unrot segcols (blk_cmis mkf b) k).
  Proof.
    intros ci k b segcols r c v LK Hs Hr Hc E. unfold key_cols_unrot. apply filter_In. split; auto.
    unfold blk_cmis.
    rewrite (cmi_lookup_map (fun c => Some (mkf (col_values c (tb_recs b))))); [| eapply rec_cols_in; eauto].
    eapply cell_hit; eauto.
  Qed.

  Lemma single_key_loop : forall kc k, keys_loop kc [k] LAnd = match kc k with [] => None | cs => Some (cs ++ []) end.
  Proof. intros. simpl. destruct (kc k); auto. Qed.

  (* the search of one block under a plan whose inner loop is complete = the unrestricted search of the block *)
  Lemma search_block_exact : forall ci k b (kc : bytes * option bytes -> list bytes),
    (forall r c v, In r (tb_recs b) -> In (c, v) (snd r) -> eq_ci ci (fst k) v = true -> In c (kc k)) ->
    search_block ci (fst k) (keys_loop kc [k] LAnd) b = allcol_spec ci (fst k) (tb_recs b).
  Proof.
    intros ci k b kc CP. rewrite single_key_loop. unfold allcol_spec.
    assert (EQ : forall cs, (forall c, In c (kc k) -> In c cs) ->
                 filter (rec_eq_in ci (Some cs) (fst k)) (tb_recs b) = filter (rec_eq_in ci None (fst k)) (tb_recs b)).
    { intros cs SUB. apply filter_ext_in. intros r Hr.
      destruct (rec_eq_in ci None (fst k) r) eqn:U.
      - unfold rec_eq_in in *. apply existsb_exists in U. destruct U as [[c v] [I E]]. simpl in E.
        apply existsb_exists. exists (c, v). split; auto. simpl. rewrite E.
        rewrite mem_bytes_in; auto. apply SUB. eapply CP; eauto.
      - destruct (rec_eq_in ci (Some cs) (fst k) r) eqn:R; auto.
        apply rec_eq_in_restrict in R. congruence. }
    destruct (kc k) as [|c0 cs0] eqn:K.
    - (* no column recorded: the block is dropped, and no record of it matches *)
      simpl. rewrite filter_none; auto.
      intros r Hr. destruct (rec_eq_in ci None (fst k) r) eqn:U; auto. unfold rec_eq_in in U.
      apply existsb_exists in U. destruct U as [[c v] [I E]]. simpl in E.
      exfalso. apply (CP r c v Hr I E).
    - simpl. f_equal. apply EQ. intros c Hc. rewrite app_nil_r. auto.
  Qed.

  Lemma seg_cols_in : forall b bs c, In b bs -> In c (rec_cols (tb_recs b)) -> In c (seg_cols bs).
  Proof.
    intros b bs c Hb Hc. unfold seg_cols. apply in_flat_map. exists b. split; auto.
    unfold blk_cols. apply in_or_app. auto.
  Qed.

  (* MAIN: whatever the split into segments and blocks, open or rotated, the answer is the specification, as a list *)
  Theorem allcol_answer_is_spec : forall ci k L,
    (ci = true -> lower (fst k) = fst k) ->
    allcol_answer mkf ci k L = allcol_spec ci (fst k) (layout_recs L).
  Proof.
    intros ci k L LK. unfold allcol_answer, layout_recs, allcol_spec.
    induction L as [|s L IH]; [reflexivity|].
    cbn [flat_map]. rewrite filter_app, map_app, IH. f_equal. clear IH.
    unfold seg_answer. destruct s as [op bs]. cbn [fst snd].
    assert (G : forall l, (forall b, In b l -> In b bs) ->
      flat_map (fun b => search_block ci (fst k)
        (if op then allcol_unrotated (seg_cols bs) (blk_cmis mkf b) [k] LAnd
         else allcol_rotated (blk_cmis mkf b) [k] LAnd) b) l
      = map fst (filter (rec_eq_in ci None (fst k)) (flat_map tb_recs l))).
    { induction l as [|b l IHl]; intros SUB; [reflexivity|].
      cbn [flat_map]. rewrite filter_app, map_app, IHl by (intros; apply SUB; right; auto). f_equal.
      destruct op.
      - unfold allcol_unrotated. rewrite search_block_exact; auto.
        intros r c v Hr Hc E. eapply key_cols_unrot_complete; eauto.
        eapply seg_cols_in; [apply SUB; left; reflexivity|]. eapply rec_cols_in; eauto.
      - unfold allcol_rotated. rewrite search_block_exact; auto.
        intros r c v Hr Hc E. eapply key_cols_complete; eauto. }
    apply G. auto.
  Qed.

  (* layout invariance: two layouts (any flush / rotation history, open or rotated) of the same records *)
  Theorem allcol_layout_invariance : forall ci k L1 L2,
    (ci = true -> lower (fst k) = fst k) ->
    Permutation (layout_recs L1) (layout_recs L2) ->
    Permutation (allcol_answer mkf ci k L1) (allcol_answer mkf ci k L2).
  Proof.
    intros ci k L1 L2 LK P. rewrite !allcol_answer_is_spec by auto. unfold allcol_spec.
    apply Permutation_map.
    induction P; simpl; auto.
    - destruct (rec_eq_in ci None (fst k) x); auto.
    - destruct (rec_eq_in ci None (fst k) x); destruct (rec_eq_in ci None (fst k) y); auto. apply perm_swap.
    - eapply perm_trans; eauto.
  Qed.

  (* what the recorded list must contain: the column of every matching cell, on rotated and on open segments *)
  Theorem allcol_candidates_complete : forall ci k bs b r c v,
    (ci = true -> lower (fst k) = fst k) ->
    In b bs -> In r (tb_recs b) -> In (c, v) (snd r) -> eq_ci ci (fst k) v = true ->
    (exists cs, allcol_rotated (blk_cmis mkf b) [k] LAnd = Some cs /\ In c cs)
    /\ (exists cs, allcol_unrotated (seg_cols bs) (blk_cmis mkf b) [k] LAnd = Some cs /\ In c cs).
  Proof.
    intros ci k bs b r c v LK Hb Hr Hc E. split.
    - pose proof (key_cols_complete ci k b r c v LK Hr Hc E) as I.
      unfold allcol_rotated. rewrite single_key_loop. destruct (key_cols (blk_cmis mkf b) k) eqn:K; [inversion I|].
      eexists. split; eauto. rewrite app_nil_r. auto.
    - assert (S : In c (seg_cols bs)) by (eapply seg_cols_in; eauto; eapply rec_cols_in; eauto).
      pose proof (key_cols_unrot_complete ci k b (seg_cols bs) r c v LK S Hr Hc E) as I.
      unfold allcol_unrotated. rewrite single_key_loop.
      destruct (key_cols_unrot (seg_cols bs) (blk_cmis mkf b) k) eqn:K; [inversion I|].
      eexists. split; eauto. rewrite app_nil_r. auto.
  Qed.
End Plan.

(* the candidate list only restricts: for ANY plan the searched block returns a sub-list of the specification *)
Theorem search_block_only_skips : forall ci key plan b x,
  In x (search_block ci key plan b) -> In x (allcol_spec ci key (tb_recs b)).
Proof.
  intros ci key plan b x H. destruct plan as [cs|]; simpl in H; [|contradiction].
  unfold allcol_spec. apply in_map_iff in H. destruct H as [r [E I]]. apply filter_In in I. destruct I as [I R].
  apply in_map_iff. exists r. split; auto. apply filter_In. split; auto. eapply rec_eq_in_restrict; eauto.
Qed.

(* ---------- the early exit at the first positive column is NOT an optimisation ---------- *)
Definition w_alpha : bytes := [97;108;112;104;97]%N.
Definition w_x : bytes := [120]%N.
Definition w_y : bytes := [121]%N.
Definition c_src : bytes := [115;114;99]%N.
Definition c_dst : bytes := [100;115;116]%N.
(* one block, two records, the value in another column in each *)
Definition wit_block : tblock :=
  mkTB [ (0%nat, [(c_src, w_alpha); (c_dst, w_x)]); (1%nat, [(c_src, w_y); (c_dst, w_alpha)]) ] [].

Theorem allcol_first_positive_refuted :
  let k := (w_alpha, @None bytes) in
  allcol_spec false w_alpha (tb_recs wit_block) = [0%nat; 1%nat]
  /\ allcol_answer_first exact_filter false k [(false, [wit_block])] = [0%nat]      (* rotated: record 1 is lost *)
  /\ allcol_answer_first exact_filter false k [(true, [wit_block])] = [0%nat; 1%nat] (* the same block while open *)
  /\ allcol_answer exact_filter false k [(false, [wit_block])] = [0%nat; 1%nat]     (* the code: every positive column *)
  /\ allcol_rotated (blk_cmis exact_filter wit_block) [k] LAnd = Some [c_src; c_dst; c_src; c_dst]
  /\ allcol_rotated_first (blk_cmis exact_filter wit_block) [k] LAnd = Some [c_src].
Proof. vm_compute. repeat split; reflexivity. Qed.

(* TimePruneProofs.v (C03) — the query time range only skips work: FilterBlocksByTime keeps exactly the
   blocks whose time range overlaps the query range WHATEVER the order of the block summaries, so the answer
   of a time-bounded query is the set of matching records inside the range for every layout (any split
   into segments and blocks, any arrival order, overlapping / nested / descending block time ranges) and
   every GOMAXPROCS.  The early-exit variant of the block loop is correct only for ascending LowTs. *)
From Coq Require Import List Arith NArith Lia Bool Sorting.Sorted Sorting.Permutation.
From Coq Require Import ZifyN ZifyNat ZifyBool.
From SigM Require Import Base SortCmd Sched Fetch TimePrune.
From SigP Require Import BaseProofs SortCmdProofs SchedProofs FetchProofs.
Import ListNotations.
Open Scope N_scope.

(* ---------- the overlap test ---------- *)
(* a timestamp inside the block range and inside the query range: the block is kept (no premise on the range) *)
Lemma overlap_sound tr lo hi t :
  lo <= t -> t <= hi -> ts_in_range tr t = true -> overlap tr lo hi = true.
Proof. unfold overlap, ts_in_range, tr_start, tr_end. destruct tr as [s e]. simpl. intros. lia. Qed.

(* for a proper block range and a proper query range the test is exactly "the two intervals share a point" *)
Lemma overlap_exact tr lo hi : lo <= hi -> tr_start tr <= tr_end tr ->
  (overlap tr lo hi = true <-> exists t, lo <= t /\ t <= hi /\ ts_in_range tr t = true).
Proof.
  unfold overlap, ts_in_range, tr_start, tr_end. destruct tr as [s e]. simpl. intros H1 H2. split.
  - intros H. exists (N.max lo s). lia.
  - intros [t Ht]. lia.
Qed.

(* equivalent closed form under the same premises *)
Lemma overlap_closed_form tr lo hi : lo <= hi -> tr_start tr <= tr_end tr ->
  overlap tr lo hi = (lo <=? tr_end tr) && (tr_start tr <=? hi).
Proof. unfold overlap, tr_start, tr_end. destruct tr as [s e]. simpl. intros. lia. Qed.

(* an inverted query range (start > end) still "overlaps" every block that encloses both ends: harmless (it only
   keeps more), but the exact statement needs the premise *)
Lemma overlap_exact_needs_proper_range :
  overlap (7, 3) 0 10 = true /\ ~ (exists t, 0 <= t /\ t <= 10 /\ ts_in_range (7, 3) t = true).
Proof. split; [reflexivity|]. intros [t Ht]. unfold ts_in_range, tr_start, tr_end in Ht. simpl in Ht. lia. Qed.

(* ---------- FilterBlocksByTime: exactly the allowed overlapping blocks, for ANY list of summaries ---------- *)
Lemma fbt_loop_spec t tr : forall bs i j,
  In j (fbt_loop t tr bs i) <->
  (i <= j)%nat /\ exists b, nth_error bs (j - i) = Some b /\ should_process t j = true /\
                            overlap tr (fst b) (snd b) = true.
Proof.
  induction bs as [|b r IH]; intros i j; simpl.
  - split; [tauto|]. intros [_ [b [H _]]]. destruct (j - i)%nat; discriminate.
  - rewrite in_app_iff, IH. split.
    + intros [H|H].
      * destruct (should_process t i && overlap tr (fst b) (snd b)) eqn:E; [|destruct H].
        destruct H as [<-|[]]. apply andb_true_iff in E as [E1 E2].
        split; [lia|]. exists b. rewrite Nat.sub_diag. auto.
      * destruct H as [Hle [b' [Hn Hr]]]. split; [lia|]. exists b'. split; [|exact Hr].
        replace (j - i)%nat with (S (j - S i)) by lia. exact Hn.
    + intros [Hle [b' [Hn [Hs Ho]]]]. destruct (Nat.eq_dec i j) as [->|Hne].
      * left. rewrite Nat.sub_diag in Hn. simpl in Hn. inversion Hn; subst b'. rewrite Hs, Ho. left; reflexivity.
      * right. split; [lia|]. exists b'. split; [|auto].
        replace (j - i)%nat with (S (j - S i)) in Hn by lia. exact Hn.
Qed.

Theorem filter_blocks_by_time_exact t tr bs j :
  In j (filter_blocks_by_time t tr bs) <->
  exists b, nth_error bs j = Some b /\ should_process t j = true /\ overlap tr (fst b) (snd b) = true.
Proof.
  unfold filter_blocks_by_time. rewrite fbt_loop_spec, Nat.sub_0_r. split; [intros [_ H]; exact H|].
  intros H; split; [lia|exact H].
Qed.

(* the block numbers come out ascending and without repetition (a map keyed by block number loses nothing) *)
Lemma fbt_loop_sorted t tr : forall bs i, StronglySorted lt (fbt_loop t tr bs i).
Proof.
  induction bs as [|b r IH]; intros i; simpl; [constructor|].
  destruct (should_process t i && overlap tr (fst b) (snd b)); simpl; [|apply IH].
  constructor; [apply IH|]. apply Forall_forall. intros j Hj. apply fbt_loop_spec in Hj. lia.
Qed.

Theorem filter_blocks_by_time_ascending t tr bs : StronglySorted lt (filter_blocks_by_time t tr bs).
Proof. apply fbt_loop_sorted. Qed.

(* a block that holds a record inside the query range is never dropped: no premise on the order of the
   summaries, on the range, or on the other blocks *)
Theorem filter_blocks_by_time_keeps_matching_block t tr bs j b ts :
  nth_error bs j = Some b -> should_process t j = true ->
  fst b <= ts -> ts <= snd b -> ts_in_range tr ts = true ->
  In j (filter_blocks_by_time t tr bs).
Proof.
  intros Hn Hs H1 H2 H3. apply filter_blocks_by_time_exact. exists b. repeat split; auto.
  eapply overlap_sound; eauto.
Qed.

(* ---------- the blocks picked = a filter over the block list ---------- *)
Definition blk_overlaps (tr : trange) (b : lblock) : bool := overlap tr (fst (fst b)) (snd (fst b)).

Lemma pick_blocks_fbt tr : forall (s pre : list lblock),
  pick_blocks (pre ++ s) (fbt_loop None tr (map bsum_of s) (length pre)) = filter (blk_overlaps tr) s.
Proof.
  induction s as [|b r IH]; intros pre; simpl; [reflexivity|].
  unfold pick_blocks in *. rewrite flat_map_app.
  replace (pre ++ b :: r) with ((pre ++ [b]) ++ r) by (rewrite <- app_assoc; reflexivity).
  specialize (IH (pre ++ [b])). rewrite app_length in IH. simpl in IH. rewrite Nat.add_1_r in IH.
  rewrite IH. unfold blk_overlaps at 2. unfold bsum_of.
  destruct (overlap tr (fst (fst b)) (snd (fst b))); simpl; [|reflexivity].
  replace ((pre ++ [b]) ++ r) with (pre ++ b :: r) by (rewrite <- app_assoc; reflexivity).
  rewrite nth_error_app2 by lia. rewrite Nat.sub_diag. simpl. reflexivity.
Qed.

Theorem picked_blocks_are_the_overlapping_ones tr s :
  pick_blocks s (filter_blocks_by_time None tr (map bsum_of s)) = filter (blk_overlaps tr) s.
Proof. exact (pick_blocks_fbt tr s []). Qed.

Lemma perm_filter {A} (f : A -> bool) l l' : Permutation l l' -> Permutation (filter f l) (filter f l').
Proof.
  induction 1; simpl; auto.
  - destruct (f x); auto.
  - destruct (f x), (f y); auto. apply perm_swap.
  - eapply Permutation_trans; eauto.
Qed.

(* permutation invariance: the same blocks written in another order -> the same blocks kept *)
Theorem kept_blocks_permutation_invariant tr s1 s2 : Permutation s1 s2 ->
  Permutation (pick_blocks s1 (filter_blocks_by_time None tr (map bsum_of s1)))
              (pick_blocks s2 (filter_blocks_by_time None tr (map bsum_of s2))).
Proof. intros H. rewrite !picked_blocks_are_the_overlapping_ones. apply perm_filter. exact H. Qed.

(* ---------- the early exit ---------- *)
(* it agrees with the real loop when the LowTs of the summaries are ascending (and the ranges are proper) *)
Lemma fbt_break_eq_sorted t tr : tr_start tr <= tr_end tr -> forall bs i,
  StronglySorted (fun a b : bsum => fst a <= fst b) bs -> Forall (fun b : bsum => fst b <= snd b) bs ->
  fbt_break_loop t tr bs i = fbt_loop t tr bs i.
Proof.
  intros Htr. induction bs as [|b r IH]; intros i Hs Hw; simpl; [reflexivity|].
  inversion Hs as [|? ? Hs' Hall]; subst. inversion Hw as [|? ? Hb Hw']; subst.
  destruct (tr_end tr <? fst b) eqn:E.
  - apply N.ltb_lt in E.
    assert (Hnone : forall l k, Forall (fun x : bsum => fst b <= fst x) l -> Forall (fun x : bsum => fst x <= snd x) l ->
                           fbt_loop t tr l k = []).
    { induction l as [|x l IHl]; intros k H1 H2; simpl; [reflexivity|].
      inversion H1; subst. inversion H2; subst. rewrite IHl by assumption.
      rewrite overlap_closed_form by assumption.
      replace (fst x <=? tr_end tr) with false by (symmetry; apply N.leb_gt; lia).
      rewrite andb_false_r. reflexivity. }
    rewrite (Hnone r (S i) Hall Hw'). rewrite overlap_closed_form by assumption.
    replace (fst b <=? tr_end tr) with false by (symmetry; apply N.leb_gt; lia).
    rewrite andb_false_r. reflexivity.
  - rewrite IH by assumption. reflexivity.
Qed.

Theorem early_exit_equal_on_ascending_blocks t tr bs : tr_start tr <= tr_end tr ->
  StronglySorted (fun a b : bsum => fst a <= fst b) bs -> Forall (fun b : bsum => fst b <= snd b) bs ->
  filter_blocks_by_time_break t tr bs = filter_blocks_by_time t tr bs.
Proof. intros. apply fbt_break_eq_sorted; assumption. Qed.

(* two blocks written newest first (a late block after a recent one), query range ending between them: the early
   exit drops the late block although it lies inside the range; the same two blocks in time order are both handled
   correctly, so the kept set of the variant depends on the order of the list *)
Theorem early_exit_drops_late_block :
  filter_blocks_by_time None (5, 25) [(30, 40); (10, 20)] = [1%nat] /\
  filter_blocks_by_time_break None (5, 25) [(30, 40); (10, 20)] = [] /\
  filter_blocks_by_time None (5, 25) [(10, 20); (30, 40)] = [0%nat] /\
  filter_blocks_by_time_break None (5, 25) [(10, 20); (30, 40)] = [0%nat].
Proof. repeat split; reflexivity. Qed.

(* ---------- a time-bounded query over a layout ---------- *)
Definition fbt := filter_blocks_by_time.

Lemma time_seg_blocks tr s :
  sblocks (time_seg fbt tr s) = map (fun b => to_block (restrict_block tr b)) (filter (blk_overlaps tr) s).
Proof. unfold time_seg, fbt. simpl. rewrite picked_blocks_are_the_overlapping_ones. reflexivity. Qed.

Lemma time_queue_wf tr L : layout_ok L = true -> Forall wf_seg (time_queue fbt tr L).
Proof.
  unfold layout_ok, time_queue. rewrite forallb_forall. intros H.
  apply Forall_forall. intros q Hq. apply in_map_iff in Hq as [s [<- Hs]].
  apply filter_In in Hs as [Hs _]. specialize (H s Hs). rewrite forallb_forall in H.
  unfold wf_seg. rewrite time_seg_blocks. apply Forall_forall. intros b Hb.
  apply in_map_iff in Hb as [lb [<- Hlb]]. apply filter_In in Hlb as [Hlb _].
  specialize (H lb Hlb). split.
  - apply lblock_ok_wf. unfold lblock_ok, restrict_block in *. simpl.
    apply andb_true_iff in H as [H1 H2]. apply andb_true_iff. split; [exact H1|].
    rewrite forallb_forall in *. intros r Hr. apply filter_In in Hr as [Hr _]. apply H2; exact Hr.
  - unfold time_seg, to_block, restrict_block. simpl. split; [apply seg_lo_le|apply seg_hi_ge]; assumption.
Qed.

Lemma filter_concat {A} (f : A -> bool) (ll : list (list A)) : filter f (concat ll) = concat (map (filter f) ll).
Proof. induction ll as [|l ll IH]; simpl; [reflexivity|]. rewrite filter_app, IH. reflexivity. Qed.

(* a block outside the range holds no record inside it *)
Lemma block_outside_no_recs tr b : lblock_ok b = true -> blk_overlaps tr b = false ->
  filter (in_range tr) (snd b) = [].
Proof.
  unfold lblock_ok, blk_overlaps. intros H Ho. apply andb_true_iff in H as [_ H]. rewrite forallb_forall in H.
  destruct (filter (in_range tr) (snd b)) as [|r l] eqn:E; [reflexivity|exfalso].
  assert (Hr : In r (filter (in_range tr) (snd b))) by (rewrite E; left; reflexivity).
  apply filter_In in Hr as [Hr Hin]. specialize (H r Hr).
  rewrite (overlap_sound tr _ _ (rts r)) in Ho; [discriminate| lia | lia | exact Hin].
Qed.

Lemma seg_blocks_recs tr s : forallb lblock_ok s = true ->
  concat (map (fun b => filter (in_range tr) (snd b)) (filter (blk_overlaps tr) s)) =
  filter (in_range tr) (concat (map snd s)).
Proof.
  induction s as [|b r IH]; intros H; simpl; [reflexivity|].
  simpl in H. apply andb_true_iff in H as [Hb Hr]. rewrite filter_app, <- (IH Hr).
  destruct (blk_overlaps tr b) eqn:E; simpl; [reflexivity|].
  rewrite (block_outside_no_recs tr b Hb E). reflexivity.
Qed.

(* a segment outside the range holds no record inside it *)
Lemma seg_outside_no_recs tr s : forallb lblock_ok s = true -> overlap tr (seg_lo s) (seg_hi s) = false ->
  filter (in_range tr) (concat (map snd s)) = [].
Proof.
  intros H Ho. destruct (filter (in_range tr) (concat (map snd s))) as [|r l] eqn:E; [reflexivity|exfalso].
  assert (Hr : In r (filter (in_range tr) (concat (map snd s)))) by (rewrite E; left; reflexivity).
  apply filter_In in Hr as [Hr Hin]. apply in_concat in Hr as [rs [Hrs Hr]].
  apply in_map_iff in Hrs as [b [<- Hb]]. rewrite forallb_forall in H. specialize (H b Hb).
  unfold lblock_ok in H. apply andb_true_iff in H as [_ H]. rewrite forallb_forall in H. specialize (H r Hr).
  pose proof (seg_lo_le s b Hb). pose proof (seg_hi_ge s b Hb).
  rewrite (overlap_sound tr _ _ (rts r)) in Ho; [discriminate| lia | lia | exact Hin].
Qed.

(* what the scheduler is given holds exactly the matching records inside the range, in layout order *)
Lemma time_queue_cons tr s L :
  time_queue fbt tr (s :: L) =
  if overlap tr (seg_lo s) (seg_hi s) then time_seg fbt tr s :: time_queue fbt tr L else time_queue fbt tr L.
Proof. unfold time_queue. simpl. destruct (overlap tr (seg_lo s) (seg_hi s)); reflexivity. Qed.

Lemma all_recs_cons a q : all_recs (a :: q) = concat (map recs (sblocks a)) ++ all_recs q.
Proof. unfold all_recs, recs_of, blocks_of. simpl. rewrite map_app, concat_app. reflexivity. Qed.

Lemma time_spec_cons tr s L :
  time_spec tr (s :: L) = filter (in_range tr) (concat (map snd s)) ++ time_spec tr L.
Proof. unfold time_spec. simpl. rewrite filter_app. reflexivity. Qed.

Lemma time_queue_recs tr L : layout_ok L = true -> all_recs (time_queue fbt tr L) = time_spec tr L.
Proof.
  unfold layout_ok.
  induction L as [|s L IH]; intros H; [reflexivity|].
  simpl in H. apply andb_true_iff in H as [Hs HL].
  rewrite time_spec_cons, <- (IH HL), time_queue_cons.
  destruct (overlap tr (seg_lo s) (seg_hi s)) eqn:E.
  - rewrite all_recs_cons. f_equal. rewrite time_seg_blocks, map_map.
    rewrite <- (seg_blocks_recs tr s Hs). reflexivity.
  - rewrite (seg_outside_no_recs tr s Hs E). reflexivity.
Qed.

(* the answer of a time-bounded search: EOF reached, exactly the matching records inside the range, newest first —
   for every well-formed layout (blocks in ANY order, ranges overlapping / nested / descending) and every GOMAXPROCS *)
Theorem time_fetch_is_spec procs tr L : layout_ok L = true ->
  snd (run RF procs (time_queue fbt tr L)) = true /\
  Permutation (fst (run RF procs (time_queue fbt tr L))) (time_spec tr L) /\
  sorted_desc (fst (run RF procs (time_queue fbt tr L))).
Proof.
  intros Hok. pose proof (run_concrete_ok procs _ (time_queue_wf tr L Hok)) as H.
  destruct (run RF procs (time_queue fbt tr L)) as [out eof]. simpl.
  rewrite (time_queue_recs tr L Hok) in H. tauto.
Qed.

Lemma NoDup_map_filter {A B} (g : A -> B) (f : A -> bool) l : NoDup (map g l) -> NoDup (map g (filter f l)).
Proof.
  induction l as [|x l IH]; simpl; intros H; [constructor|]. inversion H; subst.
  destruct (f x); simpl; [|auto]. constructor; [|auto].
  intros Hin. apply in_map_iff in Hin as [y [Hy Hin]]. apply filter_In in Hin as [Hin _].
  apply H2. rewrite <- Hy. apply in_map. exact Hin.
Qed.

Lemma time_spec_lrecs tr L : time_spec tr L = filter (in_range tr) (lrecs L).
Proof. reflexivity. Qed.

(* layout, arrival order and parallelism invariance of a time-bounded query: two layouts of the same matching
   records (pairwise different timestamps) under any two GOMAXPROCS values return the very same list *)
Theorem time_fetch_invariance_exact p1 p2 tr L1 L2 :
  layout_ok L1 = true -> layout_ok L2 = true -> Permutation (lrecs L1) (lrecs L2) ->
  NoDup (map rts (lrecs L1)) ->
  time_fetch_answer p1 tr L1 = time_fetch_answer p2 tr L2 /\ snd (time_fetch_answer p1 tr L1) = true.
Proof.
  intros H1 H2 Hp Hn.
  destruct (time_fetch_is_spec p1 tr L1 H1) as (E1 & P1 & S1).
  destruct (time_fetch_is_spec p2 tr L2 H2) as (E2 & P2 & S2).
  unfold time_fetch_answer, time_answer_with. fold fbt.
  destruct (run RF p1 (time_queue fbt tr L1)) as [o1 e1].
  destruct (run RF p2 (time_queue fbt tr L2)) as [o2 e2]. simpl in *. subst e1 e2.
  assert (o1 = o2).
  { apply sorted_perm_unique; auto.
    - eapply NoDup_map_perm; [apply Permutation_sym; exact P1|].
      rewrite time_spec_lrecs. apply NoDup_map_filter. exact Hn.
    - eapply Permutation_trans; [exact P1|]. eapply Permutation_trans; [|apply Permutation_sym; exact P2].
      rewrite !time_spec_lrecs. apply perm_filter. exact Hp. }
  subst o2. split; reflexivity.
Qed.

(* the same over bare record sets: ANY two splits of ANY record set into segments and blocks (summaries as the
   writer computes them: min / max timestamp of the block), e.g. in time order and in any shuffled arrival order *)
Theorem time_fetch_split_invariance p1 p2 tr (S1 S2 : list (list (list rec))) :
  Permutation (concat (map (@concat rec) S1)) (concat (map (@concat rec) S2)) ->
  NoDup (map rts (concat (map (@concat rec) S1))) ->
  time_fetch_answer p1 tr (layout_of_recs S1) = time_fetch_answer p2 tr (layout_of_recs S2) /\
  snd (time_fetch_answer p1 tr (layout_of_recs S1)) = true.
Proof.
  intros Hp Hn. apply time_fetch_invariance_exact; try apply layout_of_recs_ok;
    rewrite ?lrecs_layout_of_recs; assumption.
Qed.

(* a range that covers every record changes nothing: the unbounded answer of Fetch.v *)
Theorem time_fetch_full_range procs tr L : layout_ok L = true ->
  forallb (in_range tr) (lrecs L) = true ->
  Permutation (fst (run RF procs (time_queue fbt tr L))) (lrecs L).
Proof.
  intros Hok Hall. destruct (time_fetch_is_spec procs tr L Hok) as (_ & P & _).
  eapply Permutation_trans; [exact P|]. rewrite time_spec_lrecs.
  rewrite forallb_forall in Hall. clear P.
  induction (lrecs L) as [|r l IH]; simpl; [constructor|].
  rewrite (Hall r (or_introl eq_refl)). constructor. apply IH. intros x Hx. apply Hall. right; exact Hx.
Qed.

(* ---------- the early exit loses events of a late block ---------- *)
(* one segment, two flushes: the recent events first, then a block of late events (older timestamps).  Query range
   [5,25] = the late events.  The real filter returns them in both arrival orders; the early exit only when the
   blocks were written in time order *)
Definition late_block_layout : list lseg :=
  [[ (30, 40, [(30, 3); (40, 4)]); (10, 20, [(10, 1); (20, 2)]) ]].
Definition inorder_layout : list lseg :=
  [[ (10, 20, [(10, 1); (20, 2)]); (30, 40, [(30, 3); (40, 4)]) ]].

Theorem early_exit_loses_late_events :
  layout_ok late_block_layout = true /\ layout_ok inorder_layout = true /\
  Permutation (lrecs late_block_layout) (lrecs inorder_layout) /\
  time_fetch_answer 16 (5, 25) late_block_layout = ([2; 1], true) /\
  time_fetch_answer 16 (5, 25) inorder_layout = ([2; 1], true) /\
  time_fetch_answer_break 16 (5, 25) inorder_layout = ([2; 1], true) /\
  time_fetch_answer_break 16 (5, 25) late_block_layout = ([], true).
Proof.
  split; [reflexivity|]. split; [reflexivity|]. split.
  - unfold lrecs, late_block_layout, inorder_layout. simpl.
    apply (Permutation_app_comm [(30, 3); (40, 4)] [(10, 1); (20, 2)]).
  - repeat split; vm_compute; reflexivity.
Qed.

(* ---------- the statements of props/C03.v ---------- *)
Theorem overlap_sound_and_exact tr lo hi :
  (forall t, lo <= t -> t <= hi -> ts_in_range tr t = true -> overlap tr lo hi = true) /\
  (lo <= hi -> tr_start tr <= tr_end tr ->
   (overlap tr lo hi = true <-> exists t, lo <= t /\ t <= hi /\ ts_in_range tr t = true)).
Proof. split; [intros t; apply overlap_sound|apply overlap_exact]. Qed.

Theorem time_filter_exact t tr bs :
  (forall j, In j (filter_blocks_by_time t tr bs) <->
     exists b, nth_error bs j = Some b /\ should_process t j = true /\ overlap tr (fst b) (snd b) = true) /\
  StronglySorted lt (filter_blocks_by_time t tr bs) /\
  (forall j b ts, nth_error bs j = Some b -> should_process t j = true ->
     fst b <= ts -> ts <= snd b -> ts_in_range tr ts = true -> In j (filter_blocks_by_time t tr bs)).
Proof.
  split; [intros j; apply filter_blocks_by_time_exact|].
  split; [apply filter_blocks_by_time_ascending|intros j b ts; apply filter_blocks_by_time_keeps_matching_block].
Qed.

Theorem time_filter_permutation_invariant tr s1 s2 :
  pick_blocks s1 (filter_blocks_by_time None tr (map bsum_of s1)) = filter (blk_overlaps tr) s1 /\
  (Permutation s1 s2 ->
   Permutation (pick_blocks s1 (filter_blocks_by_time None tr (map bsum_of s1)))
               (pick_blocks s2 (filter_blocks_by_time None tr (map bsum_of s2)))).
Proof. split; [apply picked_blocks_are_the_overlapping_ones|apply kept_blocks_permutation_invariant]. Qed.

Theorem time_bounded_layout_invariance p1 p2 tr :
  (forall L1 L2, layout_ok L1 = true -> layout_ok L2 = true -> Permutation (lrecs L1) (lrecs L2) ->
     NoDup (map rts (lrecs L1)) ->
     time_fetch_answer p1 tr L1 = time_fetch_answer p2 tr L2 /\ snd (time_fetch_answer p1 tr L1) = true) /\
  (forall S1 S2 : list (list (list rec)),
     Permutation (concat (map (@concat rec) S1)) (concat (map (@concat rec) S2)) ->
     NoDup (map rts (concat (map (@concat rec) S1))) ->
     time_fetch_answer p1 tr (layout_of_recs S1) = time_fetch_answer p2 tr (layout_of_recs S2) /\
     snd (time_fetch_answer p1 tr (layout_of_recs S1)) = true).
Proof. split; [intros L1 L2; apply time_fetch_invariance_exact|intros S1 S2; apply time_fetch_split_invariance]. Qed.

(* TlvProofs.v — round trip of the per-value TLV encoding and agreement of the
   record-length function with the encoder. *)
From Coq Require Import Lia.
From Coq Require Import ZifyN ZifyNat ZifyBool.
From SigM Require Import Base Tlv.
From SigP Require Import BaseProofs.
Ltac Zify.zify_post_hook ::= Z.div_mod_to_equations.
Open Scope N_scope.

Lemma take_app_exact (a r : bytes) : take (length a) (a ++ r) = Some (a, r).
Proof.
  unfold take. rewrite app_length.
  replace (Nat.ltb (length a + length r) (length a)) with false by (symmetry; apply Nat.ltb_ge; lia).
  rewrite firstn_app, Nat.sub_diag, firstn_all. cbn [firstn]. rewrite app_nil_r.
  rewrite skipn_app, Nat.sub_diag, skipn_all. reflexivity.
Qed.

Lemma i64_to_u_bound z : i64_to_u z < 256 ^ N.of_nat 8.
Proof. unfold i64_to_u. change (256 ^ N.of_nat 8) with 18446744073709551616. lia. Qed.

Lemma sext_i64 z : (-9223372036854775808 <= z < 9223372036854775808)%Z -> sext 8 (i64_to_u z) = z.
Proof.
  intros H. unfold sext, i64_to_u.
  change (256 ^ N.of_nat 8) with 18446744073709551616.
  change (18446744073709551616 / 2) with 9223372036854775808.
  destruct (Z.to_N (z mod 18446744073709551616) <? 9223372036854775808) eqn:E; lia.
Qed.

Lemma wf_val_str s : wf_val (VStr s) = true -> N.of_nat (length s) < 65533.
Proof. cbn. intros H. apply N.ltb_lt in H. exact H. Qed.

(* decoding what the encoder wrote, whatever follows in the buffer *)
Theorem tlv_roundtrip v rest : wf_val v = true -> dec_val (enc_val v ++ rest) = Some (v, rest).
Proof.
  intros W. destruct v as [s|z|n|b|b|]; cbn [enc_val app dec_val].
  - (* string *)
    pose proof (wf_val_str s W) as L.
    change (T_STR =? T_STR) with true. cbn iota.
    unfold rd16, le16. rewrite <- app_assoc, rd_le_app by (change (256 ^ N.of_nat 2) with 65536; lia).
    replace (65536 <=? N.of_nat (length s) + 3) with false by (symmetry; apply N.leb_gt; lia).
    rewrite Nat2N.id, take_app_exact. reflexivity.
  - (* int64 *)
    cbn in W. apply andb_true_iff in W as [W1 W2]. apply Z.leb_le in W1. apply Z.ltb_lt in W2.
    change (T_I64 =? T_STR) with false. change (T_I64 =? T_BOOL) with false.
    change (T_I64 =? T_I8) with false. change (T_I64 =? T_I16) with false. change (T_I64 =? T_I32) with false.
    change (T_I64 =? T_I64) with true. cbn iota.
    unfold rd_signed, le64. rewrite rd_le_app by apply i64_to_u_bound.
    rewrite sext_i64 by lia. reflexivity.
  - (* uint64 *)
    cbn in W. apply N.ltb_lt in W.
    change (T_U64 =? T_STR) with false. change (T_U64 =? T_BOOL) with false.
    change (T_U64 =? T_I8) with false. change (T_U64 =? T_I16) with false. change (T_U64 =? T_I32) with false.
    change (T_U64 =? T_I64) with false. change (T_U64 =? T_U8) with false. change (T_U64 =? T_U16) with false.
    change (T_U64 =? T_U32) with false. change (T_U64 =? T_U64) with true. cbn iota.
    unfold rd_unsigned, le64. rewrite rd_le_app by exact W. reflexivity.
  - (* float64 *)
    cbn in W. apply N.ltb_lt in W.
    change (T_F64 =? T_STR) with false. change (T_F64 =? T_BOOL) with false.
    change (T_F64 =? T_I8) with false. change (T_F64 =? T_I16) with false. change (T_F64 =? T_I32) with false.
    change (T_F64 =? T_I64) with false. change (T_F64 =? T_U8) with false. change (T_F64 =? T_U16) with false.
    change (T_F64 =? T_U32) with false. change (T_F64 =? T_U64) with false. change (T_F64 =? T_F64) with true.
    cbn iota. unfold le64. rewrite rd_le_app by exact W. reflexivity.
  - (* bool *)
    change (T_BOOL =? T_STR) with false. change (T_BOOL =? T_BOOL) with true. cbn iota.
    destruct b; reflexivity.
  - reflexivity.
Qed.

Lemma enc_val_length v : length (enc_val v) =
  match v with VStr s => (3 + length s)%nat | VInt _ | VUint _ | VFloat _ => 9%nat | VBool _ => 2%nat | VNull => 1%nat end.
Proof.
  destruct v; cbn [enc_val length]; rewrite ?app_length; unfold le16, le64; rewrite ?le_enc_length; reflexivity.
Qed.

(* getCurrentRecordLength's switch gives exactly the number of bytes the encoder wrote *)
Theorem reclen_agrees v rest : wf_val v = true ->
  reclen (enc_val v ++ rest) = Some (N.of_nat (length (enc_val v))).
Proof.
  intros W. rewrite enc_val_length. destruct v as [s|z|n|b|b|]; cbn [enc_val app reclen].
  - pose proof (wf_val_str s W) as L.
    change (T_STR =? T_STR) with true. cbn [orb].
    unfold rd16, le16. rewrite <- app_assoc, rd_le_app by (change (256 ^ N.of_nat 2) with 65536; lia).
    f_equal. lia.
  - reflexivity.
  - reflexivity.
  - reflexivity.
  - reflexivity.
  - reflexivity.
Qed.

(* the encoder's output is never empty and is a list of bytes when the string payload is *)
Lemma enc_val_nonempty v : enc_val v <> [].
Proof. destruct v; discriminate. Qed.

Lemma cval_eqb_refl v : cval_eqb v v = true.
Proof.
  destruct v; cbn; auto using Z.eqb_refl, N.eqb_refl.
  - induction s as [|x s IH]; cbn; auto. rewrite N.eqb_refl. exact IH.
  - destruct b; reflexivity.
Qed.

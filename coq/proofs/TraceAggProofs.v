(* TraceAggProofs.v — proofs about the aggregation of the stored hourly service-dependency graphs (C12),
   after fixes 37f2dcb (search size 10000) and 25574c6 (the matrix stored as one column "graph").
   Part 1: one cell of the aggregate (T1), order independence (T2).
   Part 2: the old per-edge column key and its split (T3), a stored matrix read back: new format with no
           condition on the names (T4), old format under its guards (T4').
   Part 3: keys of dep_graph.  Part 4: the aggregate over a range (T5 - T7).
   Part 5: refutations of the variants; the pre-fix writer/reader on the old witnesses; the remaining bound. *)
From SigM Require Import Base Trace TraceAgg.
From SigP Require Import BaseProofs TraceProofs.
From Coq Require Import Lia ZifyN ZifyNat ZifyBool Permutation.
From Coq Require Import List NArith Arith Bool.
Import ListNotations.
Ltac Zify.zify_post_hook ::= Z.div_mod_to_equations.
Open Scope N_scope.

(* ------------------------------------------------------------------ *)
(* Part 1: cells of the aggregate                                      *)
(* ------------------------------------------------------------------ *)
Lemma dep_count_addn k v m k' :
  dep_count (addn k v m) k' = dep_count m k' + (if pair_eqb k k' then v else 0).
Proof.
  induction m as [|[k2 w] r IH]; cbn [addn dep_count].
  - destruct (pair_eqb k k'); lia.
  - destruct (pair_eqb k2 k) eqn:E; cbn [dep_count].
    + apply pair_eqb_eq in E; subst k2. destruct (pair_eqb k k'); lia.
    + destruct (pair_eqb k2 k') eqn:E2.
      * destruct (pair_eqb k k') eqn:E3; [|lia].
        apply pair_eqb_eq in E2, E3. subst. rewrite (proj2 (pair_eqb_eq k' k') eq_refl) in E. discriminate.
      * exact IH.
Qed.

Lemma sumN_cons x l : sumN (x :: l) = x + sumN l.
Proof. reflexivity. Qed.
Lemma sumN_app l1 l2 : sumN (l1 ++ l2) = sumN l1 + sumN l2.
Proof. induction l1 as [|x l1 IH]; [reflexivity|]. rewrite <- app_comm_cons, !sumN_cons, IH. lia. Qed.
Lemma sumN_perm l l' : Permutation l l' -> sumN l = sumN l'.
Proof. induction 1; rewrite ?sumN_cons; lia. Qed.
Lemma sumN_rev l : sumN (rev l) = sumN l.
Proof. apply sumN_perm, Permutation_sym, Permutation_rev. Qed.

Lemma hit_value_cons a b kv h : hit_value a b (kv :: h) = col_value a b kv + hit_value a b h.
Proof. reflexivity. Qed.
Lemma hits_value_cons a b h hits : hits_value a b (h :: hits) = hit_value a b h + hits_value a b hits.
Proof. reflexivity. Qed.

Lemma legacy_col_cell m kv a b :
  dep_count (legacy_col_by addn m kv) (a, b) = dep_count m (a, b) + legacy_value a b kv.
Proof.
  unfold legacy_col_by, legacy_value.
  destruct (split_dot (fst kv)) as [|x [|y [|z t]]]; destruct (snd kv) as [v|g| |]; try lia.
  rewrite dep_count_addn. unfold pair_eqb; cbn [fst snd]. reflexivity.
Qed.

Lemma graph_col_cell a b g : forall m,
  dep_count (fold_left (fun acc e => addn (fst e) (snd e) acc) g m) (a, b)
  = dep_count m (a, b) + sumN (map (cell_value a b) g).
Proof.
  induction g as [|e g IH]; intro m; cbn [fold_left map].
  - change (sumN []) with 0. lia.
  - rewrite IH, dep_count_addn, sumN_cons. unfold cell_value. lia.
Qed.

Lemma agg_col_cell m kv a b :
  dep_count (agg_col_by addn m kv) (a, b) = dep_count m (a, b) + col_value a b kv.
Proof.
  unfold agg_col_by, col_value.
  destruct (str_eqb (fst kv) GRAPH); [|apply legacy_col_cell].
  destruct (snd kv) as [v|g| |]; try apply legacy_col_cell.
  apply graph_col_cell.
Qed.

Lemma agg_hit_cell a b h : forall m,
  dep_count (fold_left (agg_col_by addn) h m) (a, b) = dep_count m (a, b) + hit_value a b h.
Proof.
  induction h as [|kv h IH]; intro m; cbn [fold_left].
  - unfold hit_value, sumN; cbn [map fold_right]. lia.
  - rewrite IH, agg_col_cell, hit_value_cons. lia.
Qed.

Lemma agg_hits_cell a b hits : forall m,
  dep_count (fold_left (fun m h => fold_left (agg_col_by addn) h m) hits m) (a, b)
  = dep_count m (a, b) + hits_value a b hits.
Proof.
  induction hits as [|h hits IH]; intro m; cbn [fold_left].
  - unfold hits_value, sumN; cbn [map fold_right]. lia.
  - rewrite IH, agg_hit_cell, hits_value_cons. lia.
Qed.

(* T1 *)
Theorem agg_graph_cell : forall hits a b, dep_count (agg_graph hits) (a, b) = hits_value a b hits.
Proof.
  intros hits a b. unfold agg_graph, agg_graph_by. rewrite agg_hits_cell. cbn [dep_count]. lia.
Qed.

(* T2 *)
Theorem agg_graph_hit_order : forall hits hits' k, Permutation hits hits' ->
  dep_count (agg_graph hits) k = dep_count (agg_graph hits') k.
Proof.
  intros hits hits' [a b] H. rewrite !agg_graph_cell. unfold hits_value.
  apply sumN_perm, Permutation_map, H.
Qed.

Theorem agg_graph_column_order : forall hits hits' k, Forall2 (@Permutation _) hits hits' ->
  dep_count (agg_graph hits) k = dep_count (agg_graph hits') k.
Proof.
  intros hits hits' [a b] H. rewrite !agg_graph_cell. unfold hits_value. f_equal.
  induction H as [|h h' l l' Hp _ IH]; [reflexivity|]. cbn [map]. f_equal; [|exact IH].
  unfold hit_value. apply sumN_perm, Permutation_map, Hp.
Qed.

(* ------------------------------------------------------------------ *)
(* Part 2: column keys                                                 *)
(* ------------------------------------------------------------------ *)
Lemma dotfree_cons c s : dotfree (c :: s) = negb (c =? DOT) && dotfree s.
Proof. reflexivity. Qed.

(* T3 *)
Theorem split_dotfree : forall s, dotfree s = true -> split_dot s = [s].
Proof.
  induction s as [|c s IH]; intro H; [reflexivity|].
  rewrite dotfree_cons in H. apply andb_true_iff in H as [Hc Hs]. apply negb_true_iff in Hc.
  cbn [split_dot]. rewrite Hc, (IH Hs). reflexivity.
Qed.

Lemma split_dot_app a b : dotfree a = true -> split_dot (a ++ DOT :: b) = a :: split_dot b.
Proof.
  induction a as [|c a IH]; intro H.
  - cbn [app split_dot]. rewrite N.eqb_refl. reflexivity.
  - rewrite dotfree_cons in H. apply andb_true_iff in H as [Hc Ha]. apply negb_true_iff in Hc.
    cbn [app split_dot]. rewrite Hc, (IH Ha). reflexivity.
Qed.

Theorem split_col_key : forall a b, dotfree a = true -> dotfree b = true -> a <> [] ->
  split_dot (col_key a b) = [a; b].
Proof.
  intros a b Ha Hb Hne. unfold col_key. destruct a as [|c a]; [contradiction|]. cbn [is_empty].
  rewrite (split_dot_app _ _ Ha), (split_dotfree _ Hb). reflexivity.
Qed.
Lemma dep_count_nokey m k : ~ In k (map fst m) -> dep_count m k = 0.
Proof.
  induction m as [|[k' v] r IH]; cbn [dep_count map fst]; intro H; [reflexivity|].
  destruct (pair_eqb k' k) eqn:E.
  - apply pair_eqb_eq in E. subst. exfalso. apply H. left. reflexivity.
  - apply IH. intro Hc. apply H. right. exact Hc.
Qed.

Lemma sum_cells_dep_count mat a b :
  NoDup (map fst mat) -> sumN (map (cell_value a b) mat) = dep_count mat (a, b).
Proof.
  induction mat as [|[k v] r IH]; intro Hnd; [reflexivity|].
  cbn [map fst] in Hnd. inversion Hnd as [|? ? Hni Hnd']; subst.
  cbn [map dep_count]. rewrite sumN_cons, (IH Hnd'). unfold cell_value. cbn [fst snd].
  destruct (pair_eqb k (a, b)) eqn:E; [|lia].
  apply pair_eqb_eq in E. rewrite <- E, (dep_count_nokey r k Hni). lia.
Qed.

(* T4: the new format, no condition on the service names *)
Theorem stored_hit_value : forall mat a b, NoDup (map fst mat) ->
  hit_value a b (stored_cols mat) = dep_count mat (a, b).
Proof.
  intros mat a b Hnd. unfold stored_cols, hit_value. cbn [map]. rewrite sumN_cons.
  change (sumN []) with 0. unfold col_value. cbn [fst snd].
  replace (str_eqb GRAPH GRAPH) with true by (vm_compute; reflexivity).
  rewrite (sum_cells_dep_count mat a b Hnd). lia.
Qed.

(* a numeric column is read as an old per-edge column whatever its key (also under the key "graph") *)
Lemma col_value_num a b k v : col_value a b (k, VNum v) = legacy_value a b (k, VNum v).
Proof. unfold col_value. cbn [fst snd]. destruct (str_eqb k GRAPH); reflexivity. Qed.

Lemma col_value_stored a b a' b' v :
  dotfree a' = true -> dotfree b' = true -> a <> [] ->
  col_value a b (col_key a' b', VNum v) = if pair_eqb (a', b') (a, b) then v else 0.
Proof.
  intros Da Db Ha. rewrite col_value_num. unfold legacy_value. cbn [fst snd]. destruct a' as [|c a'].
  - unfold col_key. cbn [is_empty]. rewrite (split_dotfree _ Db).
    unfold pair_eqb. cbn [fst snd]. destruct a as [|x a]; [contradiction|]. reflexivity.
  - rewrite (split_col_key _ _ Da Db) by discriminate. unfold pair_eqb. cbn [fst snd]. reflexivity.
Qed.

(* T4': the old format *)
Theorem stored_hit_value_legacy : forall mat a b,
  NoDup (map fst mat) ->
  (forall e, In e mat -> dotfree (fst (fst e)) = true /\ dotfree (snd (fst e)) = true) ->
  a <> [] ->
  hit_value a b (stored_cols_prefix mat) = dep_count mat (a, b).
Proof.
  intros mat a b Hnd Hdf Ha. induction mat as [|[[a' b'] v] r IH]; [reflexivity|].
  cbn [map fst] in Hnd. inversion Hnd as [|? ? Hni Hnd']; subst.
  assert (Hr : hit_value a b (stored_cols_prefix r) = dep_count r (a, b)).
  { apply IH; [exact Hnd' | intros e He; apply Hdf; right; exact He]. }
  destruct (Hdf _ (or_introl eq_refl)) as [Da Db]. cbn [fst snd] in Da, Db.
  change (stored_cols_prefix ((a', b', v) :: r)) with ((col_key a' b', VNum v) :: stored_cols_prefix r).
  rewrite hit_value_cons, (col_value_stored a b a' b' v Da Db Ha), Hr. cbn [dep_count].
  destruct (pair_eqb (a', b') (a, b)) eqn:E; [|lia].
  apply pair_eqb_eq in E. rewrite <- E. rewrite (dep_count_nokey r (a', b') Hni). lia.
Qed.

(* ------------------------------------------------------------------ *)
(* Part 3: the keys of dep_graph                                       *)
(* ------------------------------------------------------------------ *)
Lemma incr_keys_in k m x : In x (map fst (incr k m)) -> x = k \/ In x (map fst m).
Proof.
  induction m as [|[k' v] r IH]; cbn [incr map fst In]; intro H.
  - destruct H as [H|[]]. left. congruence.
  - destruct (pair_eqb k' k); cbn [map fst In] in H.
    + right. exact H.
    + destruct H as [H|H]; [right; left; exact H|]. destruct (IH H) as [E|E]; [left; exact E | right; right; exact E].
Qed.

Lemma incr_keys_nodup k m : NoDup (map fst m) -> NoDup (map fst (incr k m)).
Proof.
  induction m as [|[k' v] r IH]; cbn [incr map fst]; intro H.
  - constructor; [intros [] | constructor].
  - inversion H as [|? ? Hni Hnd]; subst. destruct (pair_eqb k' k) eqn:E; cbn [map fst].
    + constructor; assumption.
    + constructor; [|apply IH, Hnd]. intro Hin. apply incr_keys_in in Hin as [Hin|Hin]; [|exact (Hni Hin)].
      subst k'. rewrite (proj2 (pair_eqb_eq k k) eq_refl) in E. discriminate.
Qed.

Section DepKeys.
Variable pk : span -> str.
Variable svc : list (str * str).

Lemma dep_step_keys_in mat s x :
  In x (map fst (dep_step_by pk svc mat s)) ->
  In x (map fst mat) \/ exists ps, lookup (pk s) svc = Some ps /\ x = (ps, sp_service s).
Proof.
  unfold dep_step_by. destruct (is_empty (sp_parent s)); [tauto|].
  destruct (lookup (pk s) svc) as [ps|]; [|tauto].
  destruct (str_eqb ps (sp_service s)); [tauto|].
  intro H. apply incr_keys_in in H as [H|H]; [right; exists ps; split; [reflexivity | exact H] | left; exact H].
Qed.

Lemma dep_step_keys_nodup mat s : NoDup (map fst mat) -> NoDup (map fst (dep_step_by pk svc mat s)).
Proof.
  unfold dep_step_by. destruct (is_empty (sp_parent s)); [tauto|].
  destruct (lookup (pk s) svc) as [ps|]; [|tauto].
  destruct (str_eqb ps (sp_service s)); [tauto|]. apply incr_keys_nodup.
Qed.

Lemma dep_fold_keys_in l x : forall mat,
  In x (map fst (fold_left (dep_step_by pk svc) l mat)) ->
  In x (map fst mat) \/ exists s ps, In s l /\ lookup (pk s) svc = Some ps /\ x = (ps, sp_service s).
Proof.
  induction l as [|s l IH]; intro mat; cbn [fold_left]; [tauto|].
  intro H. apply IH in H as [H|(s' & ps & Hs & Hl & Hx)].
  - apply dep_step_keys_in in H as [H|(ps & Hl & Hx)]; [left; exact H|].
    right. exists s, ps. split; [left; reflexivity | tauto].
  - right. exists s', ps. split; [right; exact Hs | tauto].
Qed.

Lemma dep_fold_keys_nodup l : forall mat,
  NoDup (map fst mat) -> NoDup (map fst (fold_left (dep_step_by pk svc) l mat)).
Proof.
  induction l as [|s l IH]; intros mat H; cbn [fold_left]; [exact H|]. apply IH, dep_step_keys_nodup, H.
Qed.
End DepKeys.

Lemma svc_map_lookup_service recs x ps :
  lookup x (svc_map recs) = Some ps -> exists p, In p recs /\ sp_service p = ps.
Proof.
  unfold svc_map, svc_map_by. rewrite svc_fold_lookup. cbn [lookup].
  destruct (find (fun p => str_eqb (span_key p) x) (rev recs)) as [p|] eqn:Ef; [|discriminate].
  intro H. apply find_some in Ef as [Hin _]. apply in_rev in Hin. exists p. split; [exact Hin | congruence].
Qed.

Lemma dep_graph_keys_nodup recs : NoDup (map fst (dep_graph recs)).
Proof. unfold dep_graph. apply dep_fold_keys_nodup. constructor. Qed.

Lemma dep_graph_keys_services recs x y :
  In (x, y) (map fst (dep_graph recs)) ->
  exists p c, In p recs /\ In c recs /\ x = sp_service p /\ y = sp_service c.
Proof.
  unfold dep_graph. intro H. apply dep_fold_keys_in in H as [[]|(s & ps & Hs & Hl & Hx)].
  apply svc_map_lookup_service in Hl as (p & Hp & Hps). inversion Hx; subst.
  exists p, s. tauto.
Qed.
(* ------------------------------------------------------------------ *)
(* Part 4: the aggregate over a range                                  *)
(* ------------------------------------------------------------------ *)
(* what one run of the hourly job appends to the store; [enc] = the record format of the writer *)
Definition job_out_by (enc : matrix -> hit) (p : N * list span) : list stored_graph :=
  match dep_graph (snd p) with
  | [] => []
  | g => [mkSG (fst p) (enc g)]
  end.
Definition job_out := job_out_by stored_cols.

Lemma hourly_job_out enc st p : hourly_job_by enc st p = st ++ job_out_by enc p.
Proof. unfold hourly_job_by, job_out_by. destruct (dep_graph (snd p)); [rewrite app_nil_r|]; reflexivity. Qed.

Lemma run_jobs_fold enc ps : forall st, fold_left (hourly_job_by enc) ps st = st ++ flat_map (job_out_by enc) ps.
Proof.
  induction ps as [|p ps IH]; intro st; cbn [fold_left flat_map]; [rewrite app_nil_r; reflexivity|].
  rewrite IH, hourly_job_out, app_assoc. reflexivity.
Qed.

Lemma run_jobs_by_flat_map enc ps : run_jobs_by enc ps = flat_map (job_out_by enc) ps.
Proof. unfold run_jobs_by. rewrite run_jobs_fold. reflexivity. Qed.
Lemma run_jobs_flat_map ps : run_jobs ps = flat_map job_out ps.
Proof. apply run_jobs_by_flat_map. Qed.

Lemma filter_job_out lo hi ps :
  filter (in_range lo hi) (flat_map job_out ps) = flat_map job_out (filter (period_in_range lo hi) ps).
Proof.
  induction ps as [|p ps IH]; cbn [flat_map filter]; [reflexivity|]. rewrite filter_app, IH.
  assert (H : filter (in_range lo hi) (job_out p) = if period_in_range lo hi p then job_out p else []).
  { unfold job_out, job_out_by. destruct (dep_graph (snd p)); [destruct (period_in_range lo hi p); reflexivity|].
    cbn [filter]. unfold in_range, period_in_range. cbn [sg_ts].
    destruct ((lo <=? fst p) && (fst p <=? hi)); reflexivity. }
  rewrite H. destruct (period_in_range lo hi p); reflexivity.
Qed.

Lemma job_out_value a b p :
  sumN (map (fun g => hit_value a b (sg_cols g)) (job_out p)) = hit_value a b (stored_cols (dep_graph (snd p))).
Proof.
  unfold job_out, job_out_by. destruct (dep_graph (snd p)) as [|e g]; [reflexivity|].
  cbn [map sg_cols]. rewrite sumN_cons. change (sumN []) with 0. lia.
Qed.

Lemma period_value a b (p : N * list span) :
  NoDup (map span_key (snd p)) -> a <> b ->
  hit_value a b (stored_cols (dep_graph (snd p))) = cross_pairs (snd p) a b.
Proof.
  intros Hnd Hab.
  rewrite stored_hit_value; [apply dep_graph_counts_exact; assumption | apply dep_graph_keys_nodup].
Qed.

Lemma periods_value a b P :
  (forall p, In p P -> NoDup (map span_key (snd p))) ->
  a <> b ->
  sumN (map (fun g => hit_value a b (sg_cols g)) (flat_map job_out P))
  = sumN (map (fun p => cross_pairs (snd p) a b) P).
Proof.
  intros Hnd Hab. induction P as [|p P IH]; [reflexivity|].
  cbn [flat_map map]. rewrite map_app, sumN_app, sumN_cons, job_out_value.
  rewrite period_value; [|apply Hnd; left; reflexivity | exact Hab].
  rewrite IH; [reflexivity | intros q Hq; apply Hnd; right; exact Hq].
Qed.

(* T5 *)
Theorem agg_view_sum_of_periods : forall periods lo hi a b,
  (forall p, In p periods -> NoDup (map span_key (snd p))) ->
  (length (filter (in_range lo hi) (run_jobs periods)) <= AGG_HITS)%nat ->
  a <> b ->
  dep_count (agg_view lo hi (run_jobs periods)) (a, b)
  = sumN (map (fun recs => cross_pairs recs a b) (periods_in lo hi periods)).
Proof.
  intros periods lo hi a b Hnd Hlen Hab.
  unfold agg_view. rewrite agg_graph_cell. unfold range_hits, range_hits_n.
  rewrite firstn_all2 by (rewrite rev_length; exact Hlen).
  rewrite run_jobs_flat_map, filter_job_out.
  unfold hits_value. rewrite map_map, map_rev, sumN_rev.
  unfold periods_in. rewrite map_map.
  apply periods_value; [|exact Hab].
  intros p Hp. apply filter_In in Hp as [Hp _]. apply Hnd, Hp.
Qed.

(* ---- T6 ---- *)
Lemma count_if_app {A} (f : A -> bool) l1 l2 : count_if f (l1 ++ l2) = count_if f l1 + count_if f l2.
Proof. unfold count_if. rewrite filter_app, app_length. lia. Qed.

Lemma count_if_none {A} (f : A -> bool) l : (forall x, In x l -> f x = false) -> count_if f l = 0.
Proof.
  intro H. unfold count_if. induction l as [|x l IH]; [reflexivity|]. cbn [filter].
  rewrite (H x (or_introl eq_refl)). apply IH. intros y Hy. apply H. right. exact Hy.
Qed.

Lemma list_prod_app_l {A B} (l1 l2 : list A) (m : list B) :
  list_prod (l1 ++ l2) m = list_prod l1 m ++ list_prod l2 m.
Proof. induction l1 as [|x l1 IH]; [reflexivity|]. cbn [app list_prod]. rewrite IH, app_assoc. reflexivity. Qed.

Lemma count_if_prod_app_r {A B} (f : A * B -> bool) l (m1 m2 : list B) :
  count_if f (list_prod l (m1 ++ m2)) = count_if f (list_prod l m1) + count_if f (list_prod l m2).
Proof.
  induction l as [|x l IH]; [reflexivity|]. cbn [list_prod].
  rewrite map_app, !count_if_app, IH. lia.
Qed.

Lemma count_if_prod_none {A B} (f : A * B -> bool) l m :
  (forall x y, In x l -> In y m -> f (x, y) = false) -> count_if f (list_prod l m) = 0.
Proof. intro H. apply count_if_none. intros [x y] Hin. apply in_prod_iff in Hin as [Hx Hy]. apply H; assumption. Qed.

Lemma cross_pairs_app l1 l2 a b :
  (forall x y, In x l1 -> In y l2 -> sp_trace x <> sp_trace y) ->
  cross_pairs (l1 ++ l2) a b = cross_pairs l1 a b + cross_pairs l2 a b.
Proof.
  intro H. unfold cross_pairs. rewrite list_prod_app_l, count_if_app, !count_if_prod_app_r.
  assert (H12 : count_if (is_cross a b) (list_prod l1 l2) = 0).
  { apply count_if_prod_none. intros c p Hc Hp. unfold is_cross.
    assert (E : str_eqb (sp_trace p) (sp_trace c) = false).
    { apply str_eqb_neq. intro E. exact (H c p Hc Hp (eq_sym E)). }
    rewrite E, andb_false_r. reflexivity. }
  assert (H21 : count_if (is_cross a b) (list_prod l2 l1) = 0).
  { apply count_if_prod_none. intros c p Hc Hp. unfold is_cross.
    assert (E : str_eqb (sp_trace p) (sp_trace c) = false).
    { apply str_eqb_neq. exact (H p c Hp Hc). }
    rewrite E, andb_false_r. reflexivity. }
  rewrite H12, H21. lia.
Qed.

Lemma traces_within_head p r :
  forallb (fun s => negb (existsb (trace_in (sp_trace s)) r)) p = true ->
  forall x y, In x p -> In y (concat r) -> sp_trace x <> sp_trace y.
Proof.
  intros H x y Hx Hy E. pose proof (proj1 (forallb_forall _ _) H x Hx) as Hn.
  apply negb_true_iff in Hn. apply in_concat in Hy as (q & Hq & Hyq).
  assert (Ht : existsb (trace_in (sp_trace x)) r = true).
  { apply existsb_exists. exists q. split; [exact Hq|]. unfold trace_in. apply existsb_exists.
    exists y. split; [exact Hyq|]. apply str_eqb_eq. congruence. }
  congruence.
Qed.

Theorem cross_pairs_concat : forall ps a b, traces_within_periods ps = true ->
  cross_pairs (concat ps) a b = sumN (map (fun recs => cross_pairs recs a b) ps).
Proof.
  intros ps a b. induction ps as [|p r IH]; intro H; [reflexivity|].
  cbn [traces_within_periods] in H. apply andb_true_iff in H as [Hh Hr].
  cbn [concat map]. rewrite sumN_cons, <- (IH Hr). apply cross_pairs_app, traces_within_head, Hh.
Qed.

(* ---- T7 ---- *)
Theorem agg_view_equals_union : forall periods lo hi a b,
  (forall p, In p periods -> NoDup (map span_key (snd p))) ->
  (length (filter (in_range lo hi) (run_jobs periods)) <= AGG_HITS)%nat ->
  traces_within_periods (periods_in lo hi periods) = true ->
  a <> b ->
  dep_count (agg_view lo hi (run_jobs periods)) (a, b) = cross_pairs (concat (periods_in lo hi periods)) a b.
Proof.
  intros periods lo hi a b Hnd Hlen Htw Hab.
  rewrite (cross_pairs_concat _ a b Htw). apply agg_view_sum_of_periods; assumption.
Qed.

Theorem agg_view_equals_graph_of_union : forall periods lo hi a b,
  (forall p, In p periods -> NoDup (map span_key (snd p))) ->
  (length (filter (in_range lo hi) (run_jobs periods)) <= AGG_HITS)%nat ->
  traces_within_periods (periods_in lo hi periods) = true ->
  NoDup (map span_key (concat (periods_in lo hi periods))) ->
  a <> b ->
  dep_count (agg_view lo hi (run_jobs periods)) (a, b) = dep_count (dep_graph (concat (periods_in lo hi periods))) (a, b).
Proof.
  intros periods lo hi a b Hnd Hlen Htw Hndc Hab.
  rewrite agg_view_equals_union by assumption. symmetry. apply dep_graph_counts_exact; assumption.
Qed.

(* T8: a store that mixes records of both formats is merged cell by cell: agg_graph_cell (T1) holds for
   any list of hits, each hit valued by hit_value whatever its format. *)

(* ------------------------------------------------------------------ *)
(* Part 5: refutations                                                 *)
(* ------------------------------------------------------------------ *)
Definition periods_nodup_b (periods : list (N * list span)) : bool :=
  forallb (fun p => str_nodupb (map span_key (snd p))) periods.
Lemma periods_nodup_sound periods :
  periods_nodup_b periods = true -> forall p, In p periods -> NoDup (map span_key (snd p)).
Proof.
  intros H p Hp. apply str_nodupb_NoDup. exact (proj1 (forallb_forall _ _) H p Hp).
Qed.

(* two stored graphs that share the edge A -> B: 2 pairs in hour 1, 3 pairs in hour 2 *)
Definition w_overwrite : list (N * list span) :=
  [ (1, [ mkSpan [49] [49] [] [65] [] 0 0 0 1;
          mkSpan [49] [50] [49] [66] [] 0 0 0 1;
          mkSpan [49] [51] [49] [66] [] 0 0 0 1 ]);
    (2, [ mkSpan [50] [49] [] [65] [] 0 0 0 1;
          mkSpan [50] [50] [49] [66] [] 0 0 0 1;
          mkSpan [50] [51] [49] [66] [] 0 0 0 1;
          mkSpan [50] [52] [49] [66] [] 0 0 0 1 ]) ].
Theorem agg_overwrite_refuted : exists periods lo hi,
  (forall p, In p periods -> NoDup (map span_key (snd p))) /\
  (length (filter (in_range lo hi) (run_jobs periods)) <= AGG_HITS)%nat /\
  traces_within_periods (periods_in lo hi periods) = true /\
  cross_pairs (concat (periods_in lo hi periods)) [65] [66] = 5 /\
  dep_count (agg_view lo hi (run_jobs periods)) ([65], [66]) = 5 /\
  dep_count (agg_graph_overwrite (range_hits lo hi (run_jobs periods))) ([65], [66]) = 2.
Proof.
  exists w_overwrite, 0, 10.
  split; [apply periods_nodup_sound; vm_compute; reflexivity|].
  split; [apply Nat.leb_le; vm_compute; reflexivity|].
  split; [vm_compute; reflexivity|].
  split; [vm_compute; reflexivity|].
  split; vm_compute; reflexivity.
Qed.

(* still open: the parent span of trace "1" arrives in hour 1, its child in hour 2 *)
Definition w_across : list (N * list span) :=
  [ (1, [ mkSpan [49] [49] [] [65] [] 0 0 0 1 ]);
    (2, [ mkSpan [49] [50] [49] [66] [] 0 0 0 1 ]) ].
Theorem agg_trace_across_periods_refuted : exists periods lo hi,
  (forall p, In p periods -> NoDup (map span_key (snd p))) /\
  (length (filter (in_range lo hi) (run_jobs periods)) <= AGG_HITS)%nat /\
  NoDup (map span_key (concat (periods_in lo hi periods))) /\
  traces_within_periods (periods_in lo hi periods) = false /\
  cross_pairs (concat (periods_in lo hi periods)) [65] [66] = 1 /\
  dep_count (agg_view lo hi (run_jobs periods)) ([65], [66]) = 0.
Proof.
  exists w_across, 0, 10.
  split; [apply periods_nodup_sound; vm_compute; reflexivity|].
  split; [apply Nat.leb_le; vm_compute; reflexivity|].
  split; [apply str_nodupb_NoDup; vm_compute; reflexivity|].
  split; [vm_compute; reflexivity|].
  split; vm_compute; reflexivity.
Qed.

(* ---- PRE-FIX documentation: the old writer/reader on the old witnesses, and the fixed model's answer ---- *)
(* service "a.b" calls service "c": the old column "a.b.c" has three parts *)
Definition w_dotted : list (N * list span) :=
  [ (1, [ mkSpan [49] [49] [] [97;46;98] [] 0 0 0 1;
          mkSpan [49] [50] [49] [99] [] 0 0 0 1 ]) ].
Theorem prefix_agg_dotted_service_refuted : exists periods lo hi,
  (forall p, In p periods -> NoDup (map span_key (snd p))) /\
  traces_within_periods (periods_in lo hi periods) = true /\
  cross_pairs (concat (periods_in lo hi periods)) [97;46;98] [99] = 1 /\
  dep_count (agg_view_prefix lo hi (run_jobs_prefix periods)) ([97;46;98], [99]) = 0 /\
  dep_count (agg_view lo hi (run_jobs periods)) ([97;46;98], [99]) = 1.
Proof.
  exists w_dotted, 0, 10.
  split; [apply periods_nodup_sound; vm_compute; reflexivity|].
  split; [vm_compute; reflexivity|].
  split; [vm_compute; reflexivity|].
  split; vm_compute; reflexivity.
Qed.

(* the unnamed service "" calls service "A": the old column is "A" *)
Definition w_empty_parent : list (N * list span) :=
  [ (1, [ mkSpan [49] [49] [] [] [] 0 0 0 1;
          mkSpan [49] [50] [49] [65] [] 0 0 0 1 ]) ].
Theorem prefix_agg_empty_parent_refuted : exists periods lo hi,
  (forall p, In p periods -> NoDup (map span_key (snd p))) /\
  traces_within_periods (periods_in lo hi periods) = true /\
  cross_pairs (concat (periods_in lo hi periods)) [] [65] = 1 /\
  dep_count (agg_view_prefix lo hi (run_jobs_prefix periods)) ([], [65]) = 0 /\
  dep_count (agg_view lo hi (run_jobs periods)) ([], [65]) = 1.
Proof.
  exists w_empty_parent, 0, 10.
  split; [apply periods_nodup_sound; vm_compute; reflexivity|].
  split; [vm_compute; reflexivity|].
  split; [vm_compute; reflexivity|].
  split; vm_compute; reflexivity.
Qed.

(* the unnamed service "" calls service "p.q": the old column "p.q" is read as the edge p -> q *)
Definition w_phantom : list (N * list span) :=
  [ (1, [ mkSpan [49] [49] [] [] [] 0 0 0 1;
          mkSpan [49] [50] [49] [112;46;113] [] 0 0 0 1 ]) ].
Theorem prefix_agg_phantom_edge_refuted : exists periods lo hi,
  (forall p, In p periods -> NoDup (map span_key (snd p))) /\
  cross_pairs (concat (periods_in lo hi periods)) [112] [113] = 0 /\
  dep_count (agg_view_prefix lo hi (run_jobs_prefix periods)) ([112], [113]) = 1 /\
  dep_count (agg_view lo hi (run_jobs periods)) ([112], [113]) = 0.
Proof.
  exists w_phantom, 0, 10.
  split; [apply periods_nodup_sound; vm_compute; reflexivity|].
  split; [vm_compute; reflexivity|].
  split; vm_compute; reflexivity.
Qed.

(* 101 hourly graphs A -> B, one trace per hour *)
Definition g_root (i : nat) : span := mkSpan [N.of_nat i] [1] [] [65] [] 0 0 0 1.
Definition g_child (i : nat) : span := mkSpan [N.of_nat i] [2] [1] [66] [] 0 0 0 1.
Definition w_101 : list (N * list span) := map (fun i => (N.of_nat i, [g_root i; g_child i])) (seq 1 101).
Theorem prefix_agg_over_100_graphs_refuted : exists periods lo hi,
  (forall p, In p periods -> NoDup (map span_key (snd p))) /\
  length (filter (in_range lo hi) (run_jobs periods)) = 101%nat /\
  traces_within_periods (periods_in lo hi periods) = true /\
  cross_pairs (concat (periods_in lo hi periods)) [65] [66] = 101 /\
  dep_count (agg_view_prefix lo hi (run_jobs_prefix periods)) ([65], [66]) = 100 /\
  dep_count (agg_view lo hi (run_jobs periods)) ([65], [66]) = 101.
Proof.
  exists w_101, 0, 1000.
  split; [apply periods_nodup_sound; vm_compute; reflexivity|].
  split; [vm_compute; reflexivity|].
  split; [vm_compute; reflexivity|].
  split; [vm_compute; reflexivity|].
  split; vm_compute; reflexivity.
Qed.

(* the remaining bound is exact: 10001 stored graphs A -> B:1 in the range give 10000 *)
Definition w_10001 : list stored_graph :=
  map (fun i => mkSG (N.of_nat i) (stored_cols [(([65], [66]), 1)])) (seq 1 10001).

Theorem agg_over_10000_graphs_refuted : exists store lo hi,
  length (filter (in_range lo hi) store) = 10001%nat /\
  hits_value [65] [66] (map sg_cols (filter (in_range lo hi) store)) = 10001 /\
  dep_count (agg_view lo hi store) ([65], [66]) = 10000.
Proof.
  exists w_10001, 0, 100000.
  split; [apply Nat.eqb_eq; vm_compute; reflexivity|].
  split; vm_compute; reflexivity.
Qed.

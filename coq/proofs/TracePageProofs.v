(* TracePageProofs.v — proofs about the paged reads underneath the trace views (C12):
   head(size+from) and the scroller(from) over ANY batching of the hits return exactly the slice
   [from, from+size) of the hit sequence; the read loops of the handlers (until an empty page /
   until a short page) therefore return every record exactly once, in order, whatever batching each
   page request sees; the views over the paged read are the views over the records. *)
From SigM Require Import Base Trace TracePage.
From SigP Require Import BaseProofs TraceQsProofs TraceProofs.
From Coq Require Import Lia ZifyN ZifyNat ZifyBool Permutation.
From Coq Require Import List NArith Arith Bool.
Import ListNotations.
Ltac Zify.zify_post_hook ::= Z.div_mod_to_equations.
Open Scope N_scope.

Lemma usub64_exact a b : b <= a -> a < pow2_64 -> usub64 a b = a - b.
Proof. unfold usub64, pow2_64. intros. lia. Qed.
Lemma uadd64_exact a b : a + b < pow2_64 -> uadd64 a b = a + b.
Proof. unfold uadd64, pow2_64. intros. lia. Qed.

Section PageProofs.
Context {A : Type}.
Implicit Types (b l recs : list A) (bs : list (list A)).

Lemma discard_after_firstn n b : discard_after n b = firstn (N.to_nat n) b.
Proof.
  unfold discard_after, lenN. destruct (N.of_nat (length b) <=? n) eqn:E; [|reflexivity].
  symmetry. apply firstn_all2. lia.
Qed.
Lemma discard_skipn n b : discard n b = skipn (N.to_nat n) b.
Proof.
  unfold discard, lenN. destruct (N.of_nat (length b) <=? n) eqn:E; [|reflexivity].
  symmetry. apply skipn_all2. lia.
Qed.

(* ---------- head ---------- *)
Lemma head_step_exact limit sent b : limit < pow2_64 -> sent <= limit ->
  let k := N.to_nat (limit - sent) in
  head_step limit sent b =
    (sent + N.of_nat (Nat.min k (length b)), firstn k b, limit <=? sent + N.of_nat (Nat.min k (length b))).
Proof.
  intros HL Hs k. unfold head_step. rewrite usub64_exact by assumption. rewrite discard_after_firstn.
  fold k. unfold lenN. rewrite firstn_length.
  rewrite uadd64_exact by (unfold pow2_64 in *; lia). reflexivity.
Qed.

Lemma head_run_spec limit : limit < pow2_64 -> forall bs sent, sent <= limit ->
  concat (head_run limit sent bs) = firstn (N.to_nat (limit - sent)) (concat bs).
Proof.
  intros HL. induction bs as [|b r IH]; intros sent Hs; cbn [head_run concat].
  - now rewrite firstn_nil.
  - rewrite head_step_exact by assumption. cbv zeta.
    set (k := N.to_nat (limit - sent)).
    rewrite firstn_app.
    destruct (limit <=? sent + N.of_nat (Nat.min k (length b))) eqn:E.
    + assert (Hk : (k - length b = 0)%nat) by lia.
      cbn [concat]. rewrite Hk, firstn_O. reflexivity.
    + assert (Hk : (length b < k)%nat) by lia.
      cbn [concat]. rewrite IH by lia.
      rewrite (firstn_all2 b) by lia. f_equal. f_equal. lia.
Qed.

(* ---------- scroller ---------- *)
Lemma scroll_run_spec : forall bs from, from < pow2_64 ->
  concat (scroll_run from bs) = skipn (N.to_nat from) (concat bs).
Proof.
  induction bs as [|b r IH]; intros from HF; cbn [scroll_run concat].
  - now rewrite skipn_nil.
  - unfold scroll_step. destruct (from =? 0) eqn:E0.
    + apply N.eqb_eq in E0. subst from. cbn [concat]. rewrite IH by (unfold pow2_64; lia). reflexivity.
    + destruct (from <? lenN b) eqn:E1; cbn [concat].
      * rewrite IH by (unfold pow2_64; lia). rewrite discard_skipn, skipn_app. cbn [N.to_nat skipn].
        unfold lenN in E1. replace (N.to_nat from - length b)%nat with 0%nat by lia. reflexivity.
      * unfold lenN in *. rewrite usub64_exact by lia. rewrite IH by lia.
        rewrite discard_skipn, skipn_app, Nat2N.id. rewrite (skipn_all2 b) by lia.
        rewrite (skipn_all2 b) by lia. cbn [app]. f_equal. lia.
Qed.

(* one search request: exactly the slice [from, from+size) of the hit sequence, for ANY batching *)
Theorem engine_page_spec from size bs : from + size < pow2_64 ->
  engine_page from size bs = firstn (N.to_nat size) (skipn (N.to_nat from) (concat bs)).
Proof.
  intros H. unfold engine_page. rewrite uadd64_exact by lia.
  rewrite scroll_run_spec by lia. rewrite head_run_spec by lia.
  rewrite firstn_skipn_comm. f_equal. f_equal. lia.
Qed.

Theorem engine_page_batching_irrelevant from size bs bs' : from + size < pow2_64 ->
  concat bs = concat bs' -> engine_page from size bs = engine_page from size bs'.
Proof. intros H E. rewrite !engine_page_spec by assumption. now rewrite E. Qed.

(* the searcher may stop producing batches once the head stage has seen size+from hits *)
Theorem engine_page_prefix from size bs recs k : from + size < pow2_64 ->
  concat bs = firstn k recs -> (N.to_nat (from + size) <= k)%nat ->
  engine_page from size bs = firstn (N.to_nat size) (skipn (N.to_nat from) recs).
Proof.
  intros H E Hk. rewrite engine_page_spec by assumption. rewrite E.
  rewrite !firstn_skipn_comm. f_equal. rewrite firstn_firstn. f_equal. lia.
Qed.

Lemma cut_concat : forall sizes l, concat (cut sizes l) = l.
Proof.
  induction sizes as [|k r IH]; intros l; cbn [cut].
  - destruct l; cbn; [reflexivity | now rewrite app_nil_r].
  - cbn [concat]. rewrite IH. apply firstn_skipn.
Qed.

(* ---------- the read loops ---------- *)
Lemma skipn_add : forall l (a c : nat), skipn (a + c) l = skipn a (skipn c l).
Proof.
  induction l as [|x l IH]; intros a c.
  - now rewrite !skipn_nil.
  - destruct c as [|c]; [now rewrite Nat.add_0_r|]. rewrite Nat.add_succ_r. cbn [skipn]. apply IH.
Qed.

Section Loops.
Variable recs : list A.
Variable page : N.
Variable q : N -> list A.
Hypothesis Hpage : 0 < page.
Hypothesis Hq : forall from, from mod page = 0 -> from <= lenN recs + page ->
  q from = firstn (N.to_nat page) (skipn (N.to_nat from) recs).

Lemma next_multiple from : from mod page = 0 -> (from + page) mod page = 0.
Proof. intros H. replace (from + page) with (from + 1 * page) by lia. rewrite N.mod_add by lia. exact H. Qed.

Lemma read_until_empty_spec : forall fuel from, from mod page = 0 -> from <= lenN recs + page ->
  (length (skipn (N.to_nat from) recs) < fuel)%nat ->
  read_until_empty fuel page q from = skipn (N.to_nat from) recs.
Proof.
  induction fuel as [|f IH]; intros from Hm Hf Hl; [lia|]. cbn [read_until_empty].
  rewrite Hq by assumption. set (s := skipn (N.to_nat from) recs) in *.
  destruct s as [|x s'] eqn:Es.
  - now rewrite firstn_nil.
  - assert (Hlen : (length s = length recs - N.to_nat from)%nat) by (unfold s; apply skipn_length).
    rewrite Es in Hlen. cbn [length] in Hlen, Hl.
    destruct (firstn (N.to_nat page) (x :: s')) as [|y p] eqn:Ep.
    + destruct (N.to_nat page) eqn:EP; [lia | discriminate Ep].
    + rewrite <- Ep. rewrite IH.
      * replace (N.to_nat (from + page)) with (N.to_nat page + N.to_nat from)%nat by lia.
        rewrite skipn_add. fold s. rewrite Es. apply firstn_skipn.
      * now apply next_multiple.
      * unfold lenN. lia.
      * rewrite skipn_length. lia.
Qed.

Lemma read_until_short_spec : forall fuel from, from mod page = 0 -> from <= lenN recs + page ->
  (length (skipn (N.to_nat from) recs) < fuel)%nat ->
  read_until_short fuel page q from = skipn (N.to_nat from) recs.
Proof.
  induction fuel as [|f IH]; intros from Hm Hf Hl; [lia|]. cbn [read_until_short].
  rewrite Hq by assumption. set (s := skipn (N.to_nat from) recs) in *.
  assert (Hlen : (length s = length recs - N.to_nat from)%nat) by (unfold s; apply skipn_length).
  unfold lenN at 1. rewrite firstn_length.
  destruct (N.of_nat (Nat.min (N.to_nat page) (length s)) <? page) eqn:E.
  - apply firstn_all2. lia.
  - rewrite IH.
    + replace (N.to_nat (from + page)) with (N.to_nat page + N.to_nat from)%nat by lia.
      rewrite skipn_add. fold s. apply firstn_skipn.
    + now apply next_multiple.
    + unfold lenN. lia.
    + rewrite skipn_length. lia.
Qed.
End Loops.

(* a request whose offset is a multiple of the page size and lies below the number of records is executed
   as long as the records fit into the reachable range *)
Lemma multiple_below_reachable page from len : 0 < page -> from mod page = 0 ->
  from < len -> len <= reachable page -> from <= MAX_SCROLL.
Proof.
  unfold reachable. intros Hp Hm Hl Hr.
  pose proof (N.div_mod from page ltac:(lia)) as Hd. rewrite Hm, N.add_0_r in Hd.
  assert (Hk : from / page < MAX_SCROLL / page + 1).
  { apply (N.mul_lt_mono_pos_l page); [assumption|]. rewrite <- Hd. lia. }
  assert (Hk' : from / page <= MAX_SCROLL / page) by lia.
  rewrite Hd. etransitivity; [apply N.mul_le_mono_l, Hk' | apply N.mul_div_le; lia].
Qed.

Lemma search_page_slice page (bat : N -> list (list A)) recs :
  0 < page -> lenN recs + 2 * page < pow2_64 -> lenN recs <= reachable page ->
  (forall from, concat (bat from) = recs) ->
  forall from, from mod page = 0 -> from <= lenN recs + page ->
  search_page from page (bat from) = firstn (N.to_nat page) (skipn (N.to_nat from) recs).
Proof.
  intros Hp Hb Hr Hc from Hm Hf. unfold search_page.
  destruct (MAX_SCROLL <? from) eqn:E.
  - destruct (N.ltb_spec from (lenN recs)) as [Hlt|Hge].
    + pose proof (multiple_below_reachable page from (lenN recs) Hp Hm Hlt Hr). lia.
    + rewrite skipn_all2 by (unfold lenN in Hge; lia). now rewrite firstn_nil.
  - rewrite engine_page_spec by lia. now rewrite Hc.
Qed.

(* every page request sees the same hit sequence, each in its own batching; the records fit below the
   largest offset the search endpoint accepts *)
Theorem paged_read_all_complete page (bat : N -> list (list A)) recs :
  0 < page -> lenN recs + 2 * page < pow2_64 -> lenN recs <= reachable page ->
  (forall from, concat (bat from) = recs) ->
  paged_read_all page bat (length recs) = recs.
Proof.
  intros Hp Hb Hr Hc. unfold paged_read_all.
  rewrite (read_until_empty_spec recs page); try assumption.
  - reflexivity.
  - now apply search_page_slice.
  - now apply N.mod_0_l; lia.
  - unfold lenN. lia.
  - cbn [N.to_nat skipn]. lia.
Qed.

Theorem paged_read_trace_complete page (bat : N -> list (list A)) recs :
  0 < page -> lenN recs + 2 * page < pow2_64 -> lenN recs <= reachable page ->
  (forall from, concat (bat from) = recs) ->
  paged_read_trace page bat (length recs) = recs.
Proof.
  intros Hp Hb Hr Hc. unfold paged_read_trace.
  rewrite (read_until_short_spec recs page); try assumption.
  - reflexivity.
  - now apply search_page_slice.
  - now apply N.mod_0_l; lia.
  - unfold lenN. lia.
  - cbn [N.to_nat skipn]. lia.
Qed.
End PageProofs.

(* the variant whose counter goes down by the batch size loses records as soon as the offset ends
   strictly inside a batch and another batch follows; the model of the code does not *)
Theorem scroll_by_batch_refuted :
  exists (from : N) (bs : list (list N)),
    concat (scroll_run_by_batch from bs) <> skipn (N.to_nat from) (concat bs) /\
    concat (scroll_run from bs) = skipn (N.to_nat from) (concat bs) /\
    concat (scroll_run_by_batch from bs) = [1] /\ skipn (N.to_nat from) (concat bs) = [1; 2].
Proof. exists 1, [[0; 1]; [2]]. vm_compute. repeat split; congruence. Qed.

(* The guard is exact: with one record more than [reachable PAGE] = 11 000 the request from = 11 000 is not
   executed, both loops stop, and the oldest record is never read *)
Fixpoint seq_N (start : N) (k : nat) : list N :=
  match k with O => [] | S k' => start :: seq_N (start + 1) k' end.
Theorem paged_read_over_reachable_refuted :
  reachable PAGE = 11000 /\
  exists recs : list N, lenN recs = 11001 /\
    paged_read_all PAGE (fun _ => [recs]) (length recs) = firstn (N.to_nat 11000) recs /\
    paged_read_trace PAGE (fun _ => [recs]) (length recs) = firstn (N.to_nat 11000) recs /\
    firstn (N.to_nat 11000) recs <> recs.
Proof.
  split; [reflexivity|]. exists (seq_N 0 (N.to_nat 11001)). split; [vm_compute; reflexivity|].
  split; [vm_compute; reflexivity|]. split; [vm_compute; reflexivity|].
  intro H. apply (f_equal (@length N)) in H. vm_compute in H. discriminate H.
Qed.

(* ---------- the views over the paged reads ---------- *)
Theorem dep_graph_paged_exact : forall (bat : N -> list (list span)) recs a b,
  (forall from, concat (bat from) = recs) -> lenN recs <= 11000 ->
  NoDup (map span_key recs) -> a <> b ->
  dep_count (dep_graph (paged_read_all PAGE bat (length recs))) (a, b) = cross_pairs recs a b.
Proof.
  intros bat recs a b Hc Hb Hn Hab. rewrite paged_read_all_complete; try assumption; try reflexivity.
  - now apply dep_graph_counts_exact.
  - unfold PAGE, pow2_64. lia.
Qed.

Theorem red_metrics_paged : forall (bat : N -> list (list span)) recs,
  (forall from, concat (bat from) = recs) -> lenN recs <= 11000 ->
  red_metrics (paged_read_all PAGE bat (length recs)) = red_metrics recs.
Proof.
  intros bat recs Hc Hb. rewrite paged_read_all_complete; try assumption; try reflexivity.
  unfold PAGE, pow2_64. lia.
Qed.

Theorem gantt_view_paged : forall (bat : N -> list (list span)) order recs,
  (forall from, concat (bat from) = recs) -> lenN recs <= 11000 ->
  gantt_view order (paged_read_trace PAGE bat (length recs)) = gantt_view order recs.
Proof.
  intros bat order recs Hc Hb. rewrite paged_read_trace_complete; try assumption; try reflexivity.
  unfold PAGE, pow2_64. lia.
Qed.

(* TraceProofs.v — proofs about the trace-view model (C12).
   Part 1: association lists.  Part 2: forests given by a parent function (climb, chains,
   pigeonhole).  Part 3: BuildSpanTree.  Part 4: search, dependency graph, RED. *)
From SigM Require Import Base Trace.
From SigP Require Import BaseProofs TraceQsProofs.
From Coq Require Import Lia ZifyN ZifyNat ZifyBool Permutation Sorted.
From Coq Require Import List NArith Arith Bool.
Import ListNotations.
Ltac Zify.zify_post_hook ::= Z.div_mod_to_equations.
Open Scope N_scope.

(* ------------------------------------------------------------------ *)
(* Part 1: strings and association lists                               *)
(* ------------------------------------------------------------------ *)
Lemma str_eqb_eq a : forall b, str_eqb a b = true <-> a = b.
Proof.
  unfold str_eqb. induction a as [|x a IH]; intros [|y b]; cbn; split; intro H; try congruence; try reflexivity.
  - apply andb_true_iff in H as [H1 H2]. apply N.eqb_eq in H1. apply IH in H2. congruence.
  - inversion H; subst. apply andb_true_iff; split; [apply N.eqb_refl | apply IH; reflexivity].
Qed.
Lemma str_eqb_refl a : str_eqb a a = true.
Proof. apply str_eqb_eq; reflexivity. Qed.
Lemma str_eqb_neq a b : str_eqb a b = false <-> a <> b.
Proof.
  split; intro H.
  - intro E. apply str_eqb_eq in E. congruence.
  - destruct (str_eqb a b) eqn:E; [apply str_eqb_eq in E; contradiction | reflexivity].
Qed.
Lemma str_eqb_sym a b : str_eqb a b = str_eqb b a.
Proof.
  destruct (str_eqb a b) eqn:E1, (str_eqb b a) eqn:E2; try reflexivity.
  - apply str_eqb_eq in E1; subst. rewrite str_eqb_refl in E2; discriminate.
  - apply str_eqb_eq in E2; subst. rewrite str_eqb_refl in E1; discriminate.
Qed.
Lemma str_dec (a b : str) : {a = b} + {a <> b}.
Proof. destruct (str_eqb a b) eqn:E; [left; apply str_eqb_eq, E | right; apply str_eqb_neq, E]. Qed.
Lemma is_empty_nil s : is_empty s = true <-> s = [].
Proof. destruct s; cbn; split; congruence. Qed.

Section Assoc.
Context {A : Type}.
Implicit Types (m : list (str * A)) (k : str).

Lemma lookup_insert_same k v m : lookup k (insert k v m) = Some v.
Proof.
  induction m as [|[k' v'] r IH]; cbn.
  - rewrite str_eqb_refl; reflexivity.
  - destruct (str_eqb k' k) eqn:E; cbn; rewrite E; [reflexivity | exact IH].
Qed.
Lemma lookup_insert_other k k' v m : k <> k' -> lookup k' (insert k v m) = lookup k' m.
Proof.
  intro Hn. induction m as [|[k2 v2] r IH]; cbn.
  - apply str_eqb_neq in Hn. rewrite Hn; reflexivity.
  - destruct (str_eqb k2 k) eqn:E; cbn.
    + apply str_eqb_eq in E; subst k2. apply str_eqb_neq in Hn. rewrite Hn; reflexivity.
    + destruct (str_eqb k2 k'); [reflexivity | exact IH].
Qed.
Lemma lookup_update_same k f m : lookup k (update k f m) = option_map f (lookup k m).
Proof.
  induction m as [|[k' v'] r IH]; cbn; [reflexivity|].
  destruct (str_eqb k' k) eqn:E; cbn; rewrite E; [reflexivity | exact IH].
Qed.
Lemma lookup_update_other k k' f m : k <> k' -> lookup k' (update k f m) = lookup k' m.
Proof.
  intro Hn. induction m as [|[k2 v2] r IH]; cbn; [reflexivity|].
  destruct (str_eqb k2 k) eqn:E; cbn.
  - apply str_eqb_eq in E; subst k2. apply str_eqb_neq in Hn. rewrite Hn; reflexivity.
  - destruct (str_eqb k2 k'); [reflexivity | exact IH].
Qed.
Lemma update_keys k f m : map fst (update k f m) = map fst m.
Proof.
  induction m as [|[k' v'] r IH]; cbn; [reflexivity|].
  destruct (str_eqb k' k); cbn; [reflexivity | rewrite IH; reflexivity].
Qed.
Lemma lookup_in k m v : lookup k m = Some v -> In (k, v) m.
Proof.
  induction m as [|[k' v'] r IH]; cbn; [discriminate|].
  destruct (str_eqb k' k) eqn:E.
  - intro H; inversion H; subst. apply str_eqb_eq in E; subst. left; reflexivity.
  - intro H; right; apply IH, H.
Qed.
Lemma lookup_none k m : lookup k m = None <-> ~ In k (map fst m).
Proof.
  induction m as [|[k' v'] r IH]; cbn; [tauto|].
  destruct (str_eqb k' k) eqn:E.
  - apply str_eqb_eq in E; subst. split; [discriminate | intro H; exfalso; apply H; left; reflexivity].
  - apply str_eqb_neq in E. rewrite IH. tauto.
Qed.
Lemma lookup_some_key k m : (exists v, lookup k m = Some v) <-> In k (map fst m).
Proof.
  destruct (lookup k m) eqn:E.
  - split; [intros _ | intros _; eexists; reflexivity].
    apply lookup_in in E. apply (in_map fst) in E. exact E.
  - split; [intros [v H]; discriminate | intro H; apply lookup_none in E; contradiction].
Qed.
Lemma in_lookup_nodup k v m : NoDup (map fst m) -> In (k, v) m -> lookup k m = Some v.
Proof.
  induction m as [|[k' v'] r IH]; cbn; [tauto|].
  intros Hnd [H|H].
  - inversion H; subst. rewrite str_eqb_refl; reflexivity.
  - inversion Hnd; subst. destruct (str_eqb k' k) eqn:E.
    + apply str_eqb_eq in E; subst. exfalso. apply H2. apply (in_map fst) in H. exact H.
    + apply IH; assumption.
Qed.
Lemma insert_keys k v m :
  map fst (insert k v m) = if existsb (str_eqb k) (map fst m) then map fst m else map fst m ++ [k].
Proof.
  induction m as [|[k' v'] r IH]; cbn; [reflexivity|].
  rewrite (str_eqb_sym k k'). destruct (str_eqb k' k) eqn:E; cbn; [reflexivity|].
  rewrite IH. destruct (existsb (str_eqb k) (map fst r)); reflexivity.
Qed.
End Assoc.

Lemma existsb_str_in k l : existsb (str_eqb k) l = true <-> In k l.
Proof.
  rewrite existsb_exists. split.
  - intros [x [Hx E]]. apply str_eqb_eq in E; subst; exact Hx.
  - intro H. exists k; split; [exact H | apply str_eqb_refl].
Qed.

Lemma nodup_app {A} (a b : list A) :
  NoDup a -> NoDup b -> (forall z, In z a -> In z b -> False) -> NoDup (a ++ b).
Proof.
  induction a as [|x a IH]; cbn; intros Ha Hb Hd; [exact Hb|].
  inversion Ha; subst. constructor.
  - intro Hin. apply in_app_or in Hin as [Hin|Hin]; [contradiction|]. eapply Hd; [left; reflexivity | exact Hin].
  - apply IH; [assumption | assumption |]. intros z Hz1 Hz2. eapply Hd; [right; exact Hz1 | exact Hz2].
Qed.
Lemma nodup_flat_map {A B} (f : A -> list B) l :
  NoDup l -> (forall x, In x l -> NoDup (f x)) ->
  (forall x y z, In x l -> In y l -> x <> y -> In z (f x) -> In z (f y) -> False) ->
  NoDup (flat_map f l).
Proof.
  induction l as [|x l IH]; cbn; intros Hl Hf Hd; [constructor|].
  inversion Hl; subst. apply nodup_app.
  - apply Hf; left; reflexivity.
  - apply IH; [assumption | intros; apply Hf; right; assumption |].
    intros a b z Ha Hb; apply Hd; right; assumption.
  - intros z Hz1 Hz2. apply in_flat_map in Hz2 as [y [Hy Hz2]].
    apply (Hd x y z); [left; reflexivity | right; exact Hy | intro; subst; contradiction | exact Hz1 | exact Hz2].
Qed.

(* ------------------------------------------------------------------ *)
(* Part 2: forests given by a partial parent function                  *)
(* ------------------------------------------------------------------ *)
Section Forest.
Variable att : str -> option str.      (* the node a span gets attached to *)
Variable L : list str.                 (* the ids in processing order *)
Hypothesis att_in : forall x p, att x = Some p -> In p L.

Definition is_child (p id : str) : bool :=
  match att id with Some q => str_eqb q p | None => false end.
Definition ch (p : str) : list str := filter (is_child p) L.

Local Notation climb := (Trace.climb att).

Fixpoint ids_from (f : nat) (x : str) : list str :=
  x :: match f with O => [] | S f' => flat_map (ids_from f') (ch x) end.

(* there is a downward path of length k from x *)
Fixpoint deep (k : nat) (x : str) : bool :=
  match k with O => true | S k' => existsb (deep k') (ch x) end.

Lemma ch_spec p c : In c (ch p) <-> In c L /\ att c = Some p.
Proof.
  unfold ch. rewrite filter_In. unfold is_child. split; intros [H1 H2]; split; try exact H1.
  - destruct (att c); [apply str_eqb_eq in H2; subst; reflexivity | discriminate].
  - rewrite H2. apply str_eqb_refl.
Qed.

Lemma climb_add a : forall b x, climb (a + b) x = match climb a x with Some z => climb b z | None => None end.
Proof.
  induction a as [|a IH]; intros b x; cbn; [reflexivity|].
  destruct (att x); [apply IH | reflexivity].
Qed.
Lemma climb_S_last k x : climb (S k) x = match climb k x with Some z => att z | None => None end.
Proof.
  replace (S k) with (k + 1)%nat by lia. rewrite climb_add. destruct (climb k x); [|reflexivity].
  cbn. destruct (att s); reflexivity.
Qed.
Lemma climb_prefix k : forall x r, climb k x = Some r -> forall i, (i <= k)%nat -> exists z, climb i x = Some z.
Proof.
  intros x r H i Hi. replace k with (i + (k - i))%nat in H by lia. rewrite climb_add in H.
  destruct (climb i x); [eexists; reflexivity | discriminate].
Qed.
Lemma climb_end a x r : climb a x = Some r -> att r = None -> forall b, (a < b)%nat -> climb b x = None.
Proof.
  intros H Hr b Hb. replace b with (a + S (b - a - 1))%nat by lia. rewrite climb_add, H. cbn. rewrite Hr. reflexivity.
Qed.
Lemma climb_cycle j x : climb j x = Some x -> forall n, climb (n * j) x = Some x.
Proof.
  intros H n. induction n as [|n IH]; cbn; [reflexivity|].
  rewrite climb_add, H. exact IH.
Qed.
(* a node from which the root is reached is not on a cycle *)
Lemma no_cycle a x r j : climb a x = Some r -> att r = None -> climb j x = Some x -> j = O.
Proof.
  intros Ha Hr Hj. destruct j as [|j]; [reflexivity|]. exfalso.
  pose proof (climb_cycle _ _ Hj (S a)) as Hc.
  rewrite (climb_end a x r Ha Hr) in Hc by lia. discriminate.
Qed.
Lemma climb_in k : forall x z, In x L -> climb k x = Some z -> In z L.
Proof.
  induction k as [|k IH]; intros x z Hx H; cbn in H.
  - inversion H; subst; exact Hx.
  - destruct (att x) eqn:E; [|discriminate]. eapply IH; [eapply att_in; exact E | exact H].
Qed.

(* the chain x, att x, att (att x), ... (k+1 elements when defined) *)
Fixpoint chain (k : nat) (x : str) : list str :=
  x :: match k with O => [] | S k' => match att x with Some p => chain k' p | None => [] end end.

Lemma chain_length k : forall x r, climb k x = Some r -> length (chain k x) = S k.
Proof.
  induction k as [|k IH]; intros x r H; cbn in *; [reflexivity|].
  destruct (att x); [|discriminate]. rewrite (IH _ _ H). reflexivity.
Qed.
Lemma chain_in k : forall x z, In z (chain k x) -> exists i, (i <= k)%nat /\ climb i x = Some z.
Proof.
  induction k as [|k IH]; intros x z H; cbn in H.
  - destruct H as [H|[]]; subst. exists O; split; [lia | reflexivity].
  - destruct H as [H|H]; [subst; exists O; split; [lia | reflexivity]|].
    destruct (att x) eqn:E; [|destruct H].
    apply IH in H as [i [Hi Hc]]. exists (S i); split; [lia|]. cbn. rewrite E. exact Hc.
Qed.
Lemma chain_incl k : forall x r, In x L -> climb k x = Some r -> incl (chain k x) L.
Proof.
  intros x r Hx H z Hz. apply chain_in in Hz as [i [Hi Hc]]. eapply climb_in; eassumption.
Qed.
Lemma chain_nodup k : forall x r, climb k x = Some r -> att r = None -> NoDup (chain k x).
Proof.
  induction k as [|k IH]; intros x r H Hr; cbn in *.
  - constructor; [intros [] | constructor].
  - destruct (att x) eqn:E; [|discriminate]. constructor.
    + intro Hin. apply chain_in in Hin as [i [Hi Hc]].
      assert (Hcyc : climb (S i) x = Some x) by (cbn; rewrite E; exact Hc).
      assert (Hx : climb (S k) x = Some r) by (cbn; rewrite E; exact H).
      pose proof (no_cycle _ _ _ _ Hx Hr Hcyc). discriminate.
    + eapply IH; eassumption.
Qed.
(* pigeonhole: a chain that ends in a root is shorter than the number of ids *)
Lemma chain_short k x r : In x L -> climb k x = Some r -> att r = None -> (k < length L)%nat.
Proof.
  intros Hx H Hr.
  pose proof (NoDup_incl_length (chain_nodup _ _ _ H Hr) (chain_incl _ _ _ Hx H)) as Hl.
  rewrite (chain_length _ _ _ H) in Hl. lia.
Qed.

Lemma deep_climb k : forall x, deep (S k) x = true -> exists y, In y L /\ climb (S k) y = Some x.
Proof.
  induction k as [|k IH]; intros x H; cbn [deep] in H; apply existsb_exists in H as [c [Hc Hd]];
    apply ch_spec in Hc as [HcL Hca].
  - exists c; split; [exact HcL|]. cbn. rewrite Hca. reflexivity.
  - apply IH in Hd as [y [Hy Hcl]]. exists y; split; [exact Hy|].
    rewrite climb_S_last, Hcl. exact Hca.
Qed.
Lemma deep_mono k : forall x, deep k x = false -> deep (S k) x = false.
Proof.
  induction k as [|k IH]; intros x H; [discriminate|].
  cbn [deep] in *. apply not_true_is_false. intro Ht. apply existsb_exists in Ht as [c [Hc Hd]].
  assert (existsb (deep k) (ch x) = true); [|congruence].
  apply existsb_exists. exists c; split; [exact Hc|].
  destruct (deep k c) eqn:E; [reflexivity|]. apply IH in E. congruence.
Qed.
Lemma deep_mono_add k j x : deep k x = false -> deep (k + j) x = false.
Proof.
  intro H. induction j as [|j IH]; [rewrite Nat.add_0_r; exact H|].
  replace (k + S j)%nat with (S (k + j)) by lia. apply deep_mono, IH.
Qed.
(* below a root there is no downward path as long as the number of ids *)
Lemma root_not_deep r : att r = None -> L <> [] -> deep (length L) r = false.
Proof.
  intros Hr Hne. destruct (length L) as [|n] eqn:El; [destruct L; [contradiction | discriminate]|].
  apply not_true_is_false. intro Hd. apply deep_climb in Hd as [y [Hy Hc]].
  pose proof (chain_short _ _ _ Hy Hc Hr). lia.
Qed.

(* membership in the id tree *)
Lemma ids_from_climb f : forall x y, In y (ids_from f x) -> exists k, (k <= f)%nat /\ climb k y = Some x.
Proof.
  induction f as [|f IH]; intros x y H; cbn in H.
  - destruct H as [H|[]]; subst. exists O; split; [lia | reflexivity].
  - destruct H as [H|H]; [subst; exists O; split; [lia | reflexivity]|].
    apply in_flat_map in H as [c [Hc Hy]]. apply ch_spec in Hc as [_ Hca].
    apply IH in Hy as [k [Hk Hcl]]. exists (S k); split; [lia|]. rewrite climb_S_last, Hcl. exact Hca.
Qed.
Lemma ids_from_in_L f : forall x y, In x L -> In y (ids_from f x) -> In y L.
Proof.
  induction f as [|f IH]; intros x y Hx H; cbn in H.
  - destruct H as [H|[]]; subst; exact Hx.
  - destruct H as [H|H]; [subst; exact Hx|].
    apply in_flat_map in H as [c [Hc Hy]]. eapply IH; [|exact Hy]. apply ch_spec in Hc. tauto.
Qed.
Lemma climb_ids_from k : forall f x y, In y L -> (k <= f)%nat -> climb k y = Some x -> In y (ids_from f x).
Proof.
  induction k as [|k IH]; intros f x y Hy Hk H.
  - cbn in H. inversion H; subst. destruct f; left; reflexivity.
  - destruct f as [|f]; [lia|]. rewrite climb_S_last in H.
    destruct (climb k y) as [z|] eqn:Ez; [|discriminate].
    cbn [ids_from]. right. apply in_flat_map. exists z. split.
    + apply ch_spec. split; [|exact H]. eapply climb_in; eassumption.
    + apply IH; [exact Hy | lia | exact Ez].
Qed.

(* ---- every id reaches a root: the id tree below a root has no repetition ---- *)
Hypothesis L_nodup : NoDup L.
Hypothesis acyclic : forall x, In x L -> exists a r, climb a x = Some r /\ att r = None.

Lemma climb_diff k1 k2 z c1 c2 :
  climb k1 z = Some c1 -> climb k2 z = Some c2 -> (k1 <= k2)%nat -> climb (k2 - k1) c1 = Some c2.
Proof.
  intros H1 H2 Hle. replace k2 with (k1 + (k2 - k1))%nat in H2 by lia.
  rewrite climb_add, H1 in H2. exact H2.
Qed.

Lemma siblings_disjoint x c1 c2 z k1 k2 :
  In x L -> att c1 = Some x -> att c2 = Some x -> c1 <> c2 ->
  climb k1 z = Some c1 -> climb k2 z = Some c2 -> (k1 <= k2)%nat -> False.
Proof.
  intros Hx Ha1 Ha2 Hne H1 H2 Hle.
  pose proof (climb_diff _ _ _ _ _ H1 H2 Hle) as Hd.
  destruct (k2 - k1)%nat as [|j] eqn:Ej.
  - cbn in Hd. inversion Hd; contradiction.
  - cbn in Hd. rewrite Ha1 in Hd.
    assert (Hcyc : climb (S j) x = Some x) by (rewrite climb_S_last, Hd; exact Ha2).
    destruct (acyclic x Hx) as [a [r [Hr1 Hr2]]].
    pose proof (no_cycle _ _ _ _ Hr1 Hr2 Hcyc). discriminate.
Qed.

Lemma ids_from_nodup f : forall x, In x L -> NoDup (ids_from f x).
Proof.
  induction f as [|f IH]; intros x Hx; cbn [ids_from].
  - constructor; [intros [] | constructor].
  - constructor.
    + intro Hin. apply in_flat_map in Hin as [c [Hc Hy]]. apply ch_spec in Hc as [_ Hca].
      apply ids_from_climb in Hy as [k [_ Hk]].
      assert (Hcyc : climb (S k) x = Some x) by (rewrite climb_S_last, Hk; exact Hca).
      destruct (acyclic x Hx) as [a [r [Hr1 Hr2]]].
      pose proof (no_cycle _ _ _ _ Hr1 Hr2 Hcyc). discriminate.
    + apply nodup_flat_map.
      * apply NoDup_filter, L_nodup.
      * intros c Hc. apply IH. apply ch_spec in Hc; tauto.
      * intros c1 c2 z Hc1 Hc2 Hne Hz1 Hz2.
        apply ch_spec in Hc1 as [_ Ha1]. apply ch_spec in Hc2 as [_ Ha2].
        apply ids_from_climb in Hz1 as [k1 [_ Hk1]]. apply ids_from_climb in Hz2 as [k2 [_ Hk2]].
        destruct (Nat.le_ge_cases k1 k2) as [Hle|Hle].
        -- exact (siblings_disjoint x c1 c2 z k1 k2 Hx Ha1 Ha2 Hne Hk1 Hk2 Hle).
        -- apply (siblings_disjoint x c2 c1 z k2 k1 Hx Ha2 Ha1); [intro; subst; contradiction | exact Hk2 | exact Hk1 | exact Hle].
Qed.

(* a single root that every id reaches: the id tree below it is a permutation of all ids *)
Lemma ids_from_perm r :
  In r L -> att r = None -> (forall y, In y L -> exists k, climb k y = Some r) ->
  Permutation (ids_from (length L) r) L.
Proof.
  intros Hr Har Hall. apply NoDup_Permutation.
  - apply ids_from_nodup, Hr.
  - exact L_nodup.
  - intro y. split.
    + apply ids_from_in_L, Hr.
    + intro Hy. destruct (Hall y Hy) as [k Hk].
      pose proof (chain_short k y r Hy Hk Har) as Hlt.
      eapply climb_ids_from; [exact Hy | | exact Hk]. lia.
Qed.
End Forest.

(* ------------------------------------------------------------------ *)
(* Part 3: BuildSpanTree                                               *)
(* ------------------------------------------------------------------ *)
Lemma g_insert_perm x l : Permutation (g_insert x l) (x :: l).
Proof.
  induction l as [|y r IH]; cbn; [apply Permutation_refl|].
  destruct (g_less y x); [|apply Permutation_refl].
  etransitivity; [apply perm_skip, IH | apply perm_swap].
Qed.
Lemma g_sort_perm l : Permutation (g_sort l) l.
Proof.
  induction l as [|a l IH]; cbn; [constructor|].
  etransitivity; [apply g_insert_perm | apply perm_skip, IH].
Qed.

Definition haskey (keys : list str) (k : str) : bool := existsb (str_eqb k) keys.
(* the node a span gets attached to by the second loop of BuildSpanTree *)
Definition att_k (keys : list str) (pm : pmap) (id : str) : option str :=
  if haskey keys id then
    match lookup id pm with
    | None => None
    | Some p => if is_empty p then None else if haskey keys p then Some p else None
    end
  else None.
Definition chs (m : gmap) (p : str) : list str :=
  match lookup p m with Some n => g_children n | None => [] end.

Lemma haskey_lookup {A} (m : list (str * A)) k : haskey (map fst m) k = true <-> exists v, lookup k m = Some v.
Proof. unfold haskey. rewrite existsb_str_in. symmetry. apply lookup_some_key. Qed.
Lemma haskey_lookup_none {A} (m : list (str * A)) k : haskey (map fst m) k = false <-> lookup k m = None.
Proof.
  destruct (haskey (map fst m) k) eqn:E.
  - apply haskey_lookup in E as [v Hv]. rewrite Hv. split; discriminate.
  - split; [intros _ | reflexivity]. destruct (lookup k m) eqn:El; [|reflexivity].
    assert (haskey (map fst m) k = true) by (apply haskey_lookup; eexists; exact El). congruence.
Qed.

Lemma chs_update_keep k f m q : (forall n, g_children (f n) = g_children n) -> chs (update k f m) q = chs m q.
Proof.
  intro Hf. unfold chs. destruct (str_dec k q) as [->|Hn].
  - rewrite lookup_update_same. destruct (lookup q m); cbn; [apply Hf | reflexivity].
  - rewrite lookup_update_other by exact Hn. reflexivity.
Qed.
Lemma chs_add_child p c m q :
  chs (update p (add_child c) m) q = if str_eqb p q then (if haskey (map fst m) p then chs m q ++ [c] else chs m q) else chs m q.
Proof.
  unfold chs. destruct (str_eqb p q) eqn:E.
  - apply str_eqb_eq in E; subst q. rewrite lookup_update_same.
    destruct (lookup p m) eqn:El; cbn.
    + assert (haskey (map fst m) p = true) as -> by (apply haskey_lookup; eexists; exact El). reflexivity.
    + apply haskey_lookup_none in El. rewrite El. reflexivity.
  - apply str_eqb_neq in E. rewrite lookup_update_other by exact E. reflexivity.
Qed.

Lemma tree_step_keys r pm m id : map fst (tree_step r pm m id) = map fst m.
Proof.
  unfold tree_step. destruct (lookup id m); [|reflexivity].
  destruct (lookup id pm); [|apply update_keys].
  destruct (is_empty s); [apply update_keys|].
  destruct (lookup s (update id (set_times r) m)); [|apply update_keys].
  rewrite update_keys. destruct (_ || _); rewrite ?update_keys; reflexivity.
Qed.

Lemma lookup_update_span k f m q :
  (forall n, g_span (f n) = g_span n) ->
  option_map g_span (lookup q (update k f m)) = option_map g_span (lookup q m).
Proof.
  intro Hf. destruct (str_dec k q) as [->|Hn].
  - rewrite lookup_update_same. destruct (lookup q m); cbn; [rewrite Hf|]; reflexivity.
  - rewrite lookup_update_other by exact Hn. reflexivity.
Qed.
Lemma tree_step_span r pm m id q :
  option_map g_span (lookup q (tree_step r pm m id)) = option_map g_span (lookup q m).
Proof.
  unfold tree_step. destruct (lookup id m); [|reflexivity].
  assert (H1 : option_map g_span (lookup q (update id (set_times r) m)) = option_map g_span (lookup q m))
    by (apply lookup_update_span; reflexivity).
  destruct (lookup id pm); [|exact H1].
  destruct (is_empty s); [exact H1|].
  destruct (lookup s (update id (set_times r) m)); [|exact H1].
  rewrite lookup_update_span by reflexivity.
  destruct (_ || _); [rewrite lookup_update_span by reflexivity|]; exact H1.
Qed.

(* one iteration appends id to the children of the node it is attached to, and to nothing else *)
Lemma tree_step_chs r pm m id q :
  chs (tree_step r pm m id) q =
  chs m q ++ (if is_child (att_k (map fst m) pm) q id then [id] else []).
Proof.
  unfold tree_step, is_child, att_k.
  destruct (lookup id m) as [n|] eqn:En.
  2:{ apply haskey_lookup_none in En. rewrite En. rewrite app_nil_r. reflexivity. }
  assert (Hk : haskey (map fst m) id = true) by (apply haskey_lookup; eexists; exact En). rewrite Hk.
  assert (H1 : forall q, chs (update id (set_times r) m) q = chs m q) by (intro; apply chs_update_keep; reflexivity).
  destruct (lookup id pm) as [p|]; [|rewrite H1, app_nil_r; reflexivity].
  destruct (is_empty p); [rewrite H1, app_nil_r; reflexivity|].
  destruct (lookup p (update id (set_times r) m)) as [pn|] eqn:Ep.
  - assert (Hkp : haskey (map fst m) p = true).
    { rewrite <- (update_keys id (set_times r) m). apply haskey_lookup. eexists; exact Ep. }
    rewrite Hkp. rewrite chs_add_child.
    assert (Hk2 : forall m2 : gmap, map fst m2 = map fst m -> haskey (map fst m2) p = true) by (intros m2 ->; exact Hkp).
    destruct (_ || _).
    + rewrite Hk2 by (rewrite !update_keys; reflexivity).
      rewrite chs_update_keep by reflexivity. rewrite H1.
      destruct (str_eqb p q); [reflexivity | rewrite app_nil_r; reflexivity].
    + rewrite Hk2 by (rewrite !update_keys; reflexivity). rewrite H1.
      destruct (str_eqb p q); [reflexivity | rewrite app_nil_r; reflexivity].
  - assert (Hkp : haskey (map fst m) p = false).
    { rewrite <- (update_keys id (set_times r) m). apply haskey_lookup_none. exact Ep. }
    rewrite Hkp, H1, app_nil_r. reflexivity.
Qed.

Lemma fold_step_keys r pm l : forall m, map fst (fold_left (tree_step r pm) l m) = map fst m.
Proof. induction l as [|x l IH]; intro m; cbn; [reflexivity|]. rewrite IH. apply tree_step_keys. Qed.
Lemma fold_step_span r pm l q : forall m,
  option_map g_span (lookup q (fold_left (tree_step r pm) l m)) = option_map g_span (lookup q m).
Proof. induction l as [|x l IH]; intro m; cbn; [reflexivity|]. rewrite IH. apply tree_step_span. Qed.
Lemma fold_step_chs r pm l q : forall m,
  chs (fold_left (tree_step r pm) l m) q = chs m q ++ filter (is_child (att_k (map fst m) pm) q) l.
Proof.
  induction l as [|x l IH]; intro m; cbn [fold_left filter]; [rewrite app_nil_r; reflexivity|].
  rewrite IH, tree_step_chs, tree_step_keys, <- app_assoc.
  destruct (is_child (att_k (map fst m) pm) q x); reflexivity.
Qed.

(* ---- the maps built by ProcessGanttChartRequest ---- *)
Definition gm_ok (recs : list span) (m : gmap) (pm : pmap) : Prop :=
  map fst pm = map fst m /\ NoDup (map fst m) /\
  (forall k n, lookup k m = Some n ->
     n = init_node (g_span n) /\ sp_id (g_span n) = k /\ In (g_span n) recs /\
     lookup k pm = Some (sp_parent (g_span n))) /\
  (forall s, In s recs -> In (sp_id s) (map fst m)).

Lemma nodup_snoc {A} (l : list A) x : NoDup l -> ~ In x l -> NoDup (l ++ [x]).
Proof.
  intros Hl Hx. apply nodup_app; [exact Hl | constructor; [intros [] | constructor] |].
  intros z Hz [Hz2|[]]. subst. contradiction.
Qed.

Lemma gm_ok_step recs m pm s :
  gm_ok recs m pm ->
  gm_ok (recs ++ [s]) (insert (sp_id s) (init_node s) m) (insert (sp_id s) (sp_parent s) pm).
Proof.
  intros [Hk [Hnd [Hl Hin]]]. unfold gm_ok. rewrite !insert_keys, Hk.
  destruct (existsb (str_eqb (sp_id s)) (map fst m)) eqn:Ex.
  - split; [reflexivity|]. split; [exact Hnd|]. split.
    + intros k n Hlk. destruct (str_dec (sp_id s) k) as [<-|Hne].
      * rewrite lookup_insert_same in Hlk. inversion Hlk; subst n. cbn.
        rewrite lookup_insert_same. repeat split; try reflexivity. apply in_or_app; right; left; reflexivity.
      * rewrite lookup_insert_other in Hlk by exact Hne. destruct (Hl k n Hlk) as [H1 [H2 [H3 H4]]].
        rewrite lookup_insert_other by exact Hne. repeat split; try assumption. apply in_or_app; left; exact H3.
    + intros s' Hs'. apply in_app_or in Hs' as [Hs'|[<-|[]]]; [apply Hin, Hs' | apply existsb_str_in, Ex].
  - assert (Hni : ~ In (sp_id s) (map fst m)) by (intro Hc; apply existsb_str_in in Hc; congruence).
    split; [reflexivity|]. split; [apply nodup_snoc; assumption|]. split.
    + intros k n Hlk. destruct (str_dec (sp_id s) k) as [<-|Hne].
      * rewrite lookup_insert_same in Hlk. inversion Hlk; subst n. cbn.
        rewrite lookup_insert_same. repeat split; try reflexivity. apply in_or_app; right; left; reflexivity.
      * rewrite lookup_insert_other in Hlk by exact Hne. destruct (Hl k n Hlk) as [H1 [H2 [H3 H4]]].
        rewrite lookup_insert_other by exact Hne. repeat split; try assumption. apply in_or_app; left; exact H3.
    + intros s' Hs'. apply in_or_app. apply in_app_or in Hs' as [Hs'|[<-|[]]]; [left; apply Hin, Hs' | right; left; reflexivity].
Qed.

Lemma gantt_maps_ok recs : gm_ok recs (fst (gantt_maps recs)) (snd (gantt_maps recs)).
Proof.
  unfold gantt_maps.
  assert (H : forall l recs0 m pm, gm_ok recs0 m pm ->
            let mp := fold_left (fun mp s => (insert (sp_id s) (init_node s) (fst mp), insert (sp_id s) (sp_parent s) (snd mp))) l (m, pm) in
            gm_ok (recs0 ++ l) (fst mp) (snd mp)).
  { induction l as [|s l IH]; intros recs0 m pm Hok; cbn.
    - rewrite app_nil_r. exact Hok.
    - replace (recs0 ++ s :: l) with ((recs0 ++ [s]) ++ l) by (rewrite <- app_assoc; reflexivity).
      apply IH. apply gm_ok_step, Hok. }
  apply (H recs [] [] []). repeat split; cbn; try constructor; try discriminate; intros s [].
Qed.

(* ---- root choice ---- *)
Lemma find_root_acc order (m : gmap) (pm : pmap) : forall acc n,
  fold_left (root_step m pm) order acc = Some n ->
  acc = Some n \/ exists id, In id order /\ lookup id m = Some n /\ lookup id pm = Some [].
Proof.
  induction order as [|x order IH]; intros acc n H; cbn in H; [left; exact H|].
  apply IH in H as [H|[id [H1 H2]]].
  - unfold root_step in H. destruct (lookup x m) as [nx|] eqn:Ex; [|left; exact H].
    destruct (lookup x pm) as [p|] eqn:Ep; [|left; exact H].
    destruct (is_empty p) eqn:Ee; [|left; exact H].
    right. exists x. apply is_empty_nil in Ee; subst p. inversion H; subst. repeat split; [left; reflexivity | assumption..].
  - right. exists id. split; [right; exact H1 | exact H2].
Qed.
Lemma find_root_spec order (m : gmap) (pm : pmap) n :
  find_root order m pm = Some n -> exists id, In id order /\ lookup id m = Some n /\ lookup id pm = Some [].
Proof. intro H. apply find_root_acc in H as [H|H]; [discriminate | exact H]. Qed.
Lemma find_root_some order (m : gmap) (pm : pmap) : forall acc,
  (acc <> None \/ exists id n, In id order /\ lookup id m = Some n /\ lookup id pm = Some []) ->
  fold_left (root_step m pm) order acc <> None.
Proof.
  induction order as [|x order IH]; intros acc H; cbn.
  - destruct H as [H|[id [n [[] _]]]]. exact H.
  - apply IH. destruct H as [H|[id [n [[<-|Hin] [H1 H2]]]]].
    + left. unfold root_step.
      destruct (lookup x m) as [g|]; [destruct (lookup x pm) as [p|]; [destruct (is_empty p); [discriminate | exact H] | exact H] | exact H].
    + left. unfold root_step. rewrite H1, H2. cbn. discriminate.
    + right. exists id, n. tauto.
Qed.

(* ---- the value reachable from a node of the final map ---- *)
Section Unfold.
Variable mf : gmap.
Variable att : str -> option str.
Variable L : list str.
Hypothesis mf_nodes : forall k n, lookup k mf = Some n -> sp_id (g_span n) = k /\ g_children n = ch att L k.
Hypothesis mf_keys : forall c, In c L -> exists n, lookup c mf = Some n.
Hypothesis att_in' : forall x p, att x = Some p -> In p L.

Definition kid (f : nat) (c : str) : list gtree :=
  match lookup c mf with Some cn => [unfold f mf cn] | None => [] end.
Lemma unfold_S f n : unfold (S f) mf n = GT n (flat_map (kid f) (g_children n)).
Proof. reflexivity. Qed.

Lemma unfold_ids f : forall k n, lookup k mf = Some n -> tree_ids (unfold f mf n) = ids_from att L f k.
Proof.
  induction f as [|f IH]; intros k n Hk; destruct (mf_nodes k n Hk) as [Hid Hch].
  - cbn. rewrite Hid. reflexivity.
  - rewrite unfold_S. unfold tree_ids. cbn [tree_nodes map ids_from]. rewrite Hid, Hch. f_equal.
    assert (Hsub : forall c, In c (ch att L k) -> In c L) by (intros c Hc; apply ch_spec in Hc; tauto).
    clear Hch. revert Hsub. generalize (ch att L k). intros cl Hsub.
    induction cl as [|c cl IHc]; [reflexivity|].
    cbn [flat_map]. unfold kid at 1.
    destruct (mf_keys c (Hsub c (or_introl eq_refl))) as [cn Hcn]. rewrite Hcn.
    cbn [app flat_map]. rewrite map_app. f_equal.
    + exact (IH c cn Hcn).
    + apply IHc. intros c' Hc'. apply Hsub. right; exact Hc'.
Qed.

Lemma unfold_nodes f : forall k n, lookup k mf = Some n ->
  forall x, In x (tree_nodes (unfold f mf n)) -> lookup (sp_id (g_span x)) mf = Some x.
Proof.
  induction f as [|f IH]; intros k n Hk x Hx; destruct (mf_nodes k n Hk) as [Hid Hch].
  - cbn in Hx. destruct Hx as [<-|[]]. rewrite Hid; exact Hk.
  - rewrite unfold_S in Hx. cbn [tree_nodes] in Hx. destruct Hx as [<-|Hx]; [rewrite Hid; exact Hk|].
    apply in_flat_map in Hx as [t [Ht Hx]]. apply in_flat_map in Ht as [c [Hc Ht]].
    unfold kid in Ht. destruct (lookup c mf) as [cn|] eqn:Ec; [|destruct Ht].
    destruct Ht as [<-|[]]. exact (IH c cn Ec x Hx).
Qed.

Lemma unfold_root f n : tree_root (unfold f mf n) = n.
Proof. destruct f; reflexivity. Qed.

(* every edge of the tree links a span to the node it is attached to *)
Lemma unfold_edges f : forall k n, lookup k mf = Some n ->
  forall p c, In (p, c) (tree_edges (unfold f mf n)) ->
  att (sp_id (g_span c)) = Some (sp_id (g_span p)) /\ lookup (sp_id (g_span c)) mf = Some c.
Proof.
  induction f as [|f IH]; intros k n Hk p c He; destruct (mf_nodes k n Hk) as [Hid Hch].
  - destruct He.
  - rewrite unfold_S in He. cbn [tree_edges] in He. apply in_app_or in He as [He|He].
    + apply in_map_iff in He as [t [Ht Hin]]. inversion Ht; subst p c. clear Ht.
      apply in_flat_map in Hin as [c [Hc Ht]]. unfold kid in Ht.
      destruct (lookup c mf) as [cn|] eqn:Ec; [|destruct Ht]. destruct Ht as [<-|[]].
      rewrite unfold_root. destruct (mf_nodes c cn Ec) as [Hcid _]. rewrite Hcid, Hid.
      rewrite Hch in Hc. apply ch_spec in Hc. split; [tauto | exact Ec].
    + apply in_flat_map in He as [t [Ht He]]. apply in_flat_map in Ht as [c' [Hc Ht]]. unfold kid in Ht.
      destruct (lookup c' mf) as [cn|] eqn:Ec; [|destruct Ht]. destruct Ht as [<-|[]].
      exact (IH c' cn Ec p c He).
Qed.

Lemma flat_map_ext_in' {A B} (f g : A -> list B) l : (forall x, In x l -> f x = g x) -> flat_map f l = flat_map g l.
Proof.
  induction l as [|x l IH]; intro H; cbn; [reflexivity|].
  rewrite (H x (or_introl eq_refl)), IH; [reflexivity|]. intros y Hy; apply H; right; exact Hy.
Qed.

(* more fuel changes nothing once no downward path of that length exists *)
Lemma unfold_stable f : forall k n, lookup k mf = Some n -> deep att L (S f) k = false ->
  unfold (S f) mf n = unfold f mf n.
Proof.
  induction f as [|f IH]; intros k n Hk Hd; destruct (mf_nodes k n Hk) as [Hid Hch].
  - rewrite unfold_S. cbn [unfold]. cbn [deep] in Hd.
    destruct (ch att L k) as [|c cl] eqn:Ec; [rewrite Hch; reflexivity | cbn in Hd; discriminate].
  - rewrite (unfold_S (S f)), (unfold_S f). f_equal. apply flat_map_ext_in'. intros c Hc.
    unfold kid. destruct (lookup c mf) as [cn|] eqn:Ec; [|reflexivity]. f_equal.
    apply (IH c cn Ec).
    change (deep att L (S (S f)) k) with (existsb (deep att L (S f)) (ch att L k)) in Hd. rewrite Hch in Hc.
    destruct (deep att L (S f) c) eqn:Edc; [|reflexivity].
    exfalso. assert (existsb (deep att L (S f)) (ch att L k) = true); [|congruence].
    apply existsb_exists. exists c; split; assumption.
Qed.
Lemma unfold_stable_add f j k n : lookup k mf = Some n -> deep att L (S f) k = false ->
  unfold (S f + j) mf n = unfold f mf n.
Proof.
  intros Hk Hd. induction j as [|j IH].
  - rewrite Nat.add_0_r. apply (unfold_stable f k n Hk Hd).
  - replace (S f + S j)%nat with (S (S f + j)) by lia.
    rewrite (unfold_stable (S f + j) k n Hk); [exact IH|].
    replace (S (S f + j)) with (S f + S j)%nat by lia. apply deep_mono_add; [exact att_in' | exact Hd].
Qed.
End Unfold.

(* ---- BuildSpanTree on the maps of ProcessGanttChartRequest ---- *)
Definition Lof (m : gmap) : list str := map (fun n => sp_id (g_span n)) (g_sort (map snd m)).
Definition attof (m : gmap) (pm : pmap) : str -> option str := att_k (map fst m) pm.
Definition mfof (r : N) (m : gmap) (pm : pmap) : gmap := fold_left (tree_step r pm) (Lof m) m.

Section Build.
Variable recs : list span.
Variables (m : gmap) (pm : pmap).
Hypothesis Hgm : gm_ok recs m pm.

Lemma ids_keys : map (fun n => sp_id (g_span n)) (map snd m) = map fst m.
Proof.
  destruct Hgm as [_ [Hnd [Hl _]]]. rewrite map_map. apply map_ext_in. intros [k n] Hin. cbn.
  apply (in_lookup_nodup k n m Hnd) in Hin. apply Hl in Hin. tauto.
Qed.
Lemma L_perm : Permutation (Lof m) (map fst m).
Proof. unfold Lof. rewrite <- ids_keys. apply Permutation_map, g_sort_perm. Qed.
Lemma L_in c : In c (Lof m) <-> In c (map fst m).
Proof. split; apply Permutation_in; [apply L_perm | apply Permutation_sym, L_perm]. Qed.
Lemma L_nodup : NoDup (Lof m).
Proof. destruct Hgm as [_ [Hnd _]]. eapply Permutation_NoDup; [apply Permutation_sym, L_perm | exact Hnd]. Qed.
Lemma L_length : length (Lof m) = length m.
Proof. rewrite (Permutation_length L_perm). apply map_length. Qed.

Lemma ctx_att_in x p : attof m pm x = Some p -> In p (Lof m).
Proof.
  unfold attof, att_k. destruct (haskey (map fst m) x); [|discriminate].
  destruct (lookup x pm) as [q|]; [|discriminate]. destruct (is_empty q); [discriminate|].
  destruct (haskey (map fst m) q) eqn:E; [|discriminate]. intro H; inversion H; subst.
  apply L_in. apply existsb_str_in, E.
Qed.
Lemma att_parent x p : attof m pm x = Some p -> parent_of pm x = Some p.
Proof.
  unfold attof, att_k, parent_of. destruct (haskey (map fst m) x); [|discriminate].
  destruct (lookup x pm) as [q|]; [|discriminate]. destruct (is_empty q); [discriminate|].
  destruct (haskey (map fst m) q); [tauto | discriminate].
Qed.
Lemma att_root x : lookup x pm = Some [] -> attof m pm x = None.
Proof. intro H. unfold attof, att_k. rewrite H. cbn. destruct (haskey (map fst m) x); reflexivity. Qed.
Lemma climb_att_parent k : forall x z, climb (attof m pm) k x = Some z -> climb (parent_of pm) k x = Some z.
Proof.
  induction k as [|k IH]; intros x z H; cbn in *; [exact H|].
  destruct (attof m pm x) as [p|] eqn:E; [|discriminate]. rewrite (att_parent _ _ E). apply IH, H.
Qed.

Variable r : N.
Lemma ctx_nodes k n : lookup k (mfof r m pm) = Some n ->
  sp_id (g_span n) = k /\ g_children n = ch (attof m pm) (Lof m) k.
Proof.
  intro Hk. destruct Hgm as [_ [_ [Hl _]]].
  pose proof (fold_step_span r pm (Lof m) k m) as Hs. fold (mfof r m pm) in Hs. rewrite Hk in Hs. cbn in Hs.
  destruct (lookup k m) as [n0|] eqn:E0; [|discriminate]. cbn in Hs. inversion Hs as [Hsp].
  destruct (Hl k n0 E0) as [Hinit [Hid _]]. split; [rewrite Hsp; exact Hid|].
  pose proof (fold_step_chs r pm (Lof m) k m) as Hc. fold (mfof r m pm) in Hc. unfold chs in Hc.
  rewrite Hk, E0 in Hc. rewrite Hc, Hinit. reflexivity.
Qed.
Lemma ctx_keys c : In c (Lof m) -> exists n, lookup c (mfof r m pm) = Some n.
Proof.
  intro Hc. apply L_in in Hc. apply lookup_some_key. unfold mfof. rewrite fold_step_keys. exact Hc.
Qed.
Lemma ctx_span k n : lookup k (mfof r m pm) = Some n -> exists n0, lookup k m = Some n0 /\ g_span n0 = g_span n.
Proof.
  intro Hk. pose proof (fold_step_span r pm (Lof m) k m) as Hs. fold (mfof r m pm) in Hs. rewrite Hk in Hs. cbn in Hs.
  destruct (lookup k m) as [n0|]; [|discriminate]. exists n0. split; [reflexivity|]. cbn in Hs. congruence.
Qed.
End Build.

(* the node a tree is built from: the model's answer in terms of the id tree *)
Lemma build_some order recs m pm fuel t :
  gm_ok recs m pm -> build_span_tree_fuel fuel order m pm = Some t ->
  exists root rn,
    find_root order m pm = Some root /\ lookup (sp_id (g_span root)) pm = Some [] /\
    lookup (sp_id (g_span root)) m = Some root /\
    lookup (sp_id (g_span root)) (mfof (g_start root) m pm) = Some rn /\
    t = unfold fuel (mfof (g_start root) m pm) rn.
Proof.
  intros Hgm H. unfold build_span_tree_fuel in H.
  destruct (find_root order m pm) as [root|] eqn:Er; [|discriminate].
  destruct (is_empty (sp_id (g_span root))); [discriminate|].
  fold (Lof m) in H. fold (mfof (g_start root) m pm) in H.
  destruct (lookup (sp_id (g_span root)) (mfof (g_start root) m pm)) as [rn|] eqn:El; [|discriminate].
  inversion H; subst t. exists root, rn.
  destruct (find_root_spec _ _ _ _ Er) as [id [_ [H1 H2]]].
  destruct Hgm as [_ [_ [Hl _]]]. destruct (Hl id root H1) as [_ [Hid _]]. rewrite <- Hid in H1, H2.
  repeat split; try assumption; reflexivity.
Qed.

(* tree_total, part 1: the depth bound used by the model (the number of spans) is enough for EVERY
   input: more fuel gives the same value, i.e. the structure reachable from the root is a finite tree *)
Lemma root_facts order recs m pm root :
  gm_ok recs m pm -> find_root order m pm = Some root ->
  lookup (sp_id (g_span root)) pm = Some [] /\ lookup (sp_id (g_span root)) m = Some root /\
  In (sp_id (g_span root)) (Lof m) /\ attof m pm (sp_id (g_span root)) = None.
Proof.
  intros Hgm Er. destruct (find_root_spec _ _ _ _ Er) as [id [_ [H1 H2]]].
  pose proof Hgm as [_ [_ [Hl _]]]. destruct (Hl id root H1) as [_ [Hid _]]. rewrite <- Hid in H1, H2.
  repeat split; try assumption.
  - apply (L_in recs m pm Hgm). apply lookup_some_key. eexists; exact H1.
  - apply att_root, H2.
Qed.

Theorem tree_total_fuel : forall order recs k,
  let m := fst (gantt_maps recs) in let pm := snd (gantt_maps recs) in
  build_span_tree_fuel (length m + k) order m pm = build_span_tree order m pm.
Proof.
  intros order recs k m pm. pose proof (gantt_maps_ok recs) as Hgm. fold m pm in Hgm.
  unfold build_span_tree, build_span_tree_fuel.
  destruct (find_root order m pm) as [root|] eqn:Er; [|reflexivity].
  destruct (is_empty (sp_id (g_span root))); [reflexivity|].
  fold (Lof m). fold (mfof (g_start root) m pm).
  destruct (lookup (sp_id (g_span root)) (mfof (g_start root) m pm)) as [rn|] eqn:El; [|reflexivity].
  f_equal.
  destruct (root_facts _ _ _ _ _ Hgm Er) as [Hp [Hm [HinL Hatt]]].
  rewrite <- (L_length recs m pm Hgm).
  destruct (length (Lof m)) as [|f] eqn:Elen; [destruct (Lof m); [destruct HinL | discriminate]|].
  assert (Hd : deep (attof m pm) (Lof m) (S f) (sp_id (g_span root)) = false).
  { rewrite <- Elen. apply root_not_deep; [apply (ctx_att_in recs m pm Hgm) | exact Hatt |].
    intro E; rewrite E in HinL; destruct HinL. }
  pose proof (unfold_stable_add (mfof (g_start root) m pm) (attof m pm) (Lof m)
                (ctx_nodes recs m pm Hgm (g_start root)) (ctx_keys recs m pm Hgm (g_start root)) (ctx_att_in recs m pm Hgm)) as Hst.
  rewrite (Hst f k _ _ El Hd).
  rewrite <- (Hst f 0%nat _ _ El Hd). rewrite Nat.add_0_r. reflexivity.
Qed.

Lemma gantt_view_eq order recs :
  gantt_view order recs = build_span_tree order (fst (gantt_maps recs)) (snd (gantt_maps recs)).
Proof. unfold gantt_view. destruct (gantt_maps recs); reflexivity. Qed.

(* tree_total, part 2: every span in the tree reaches the root by following the recorded parent ids;
   a span on a parent cycle is therefore never part of the answer *)
Theorem tree_nodes_reach_root : forall order recs t x,
  gantt_view order recs = Some t -> In x (tree_ids t) ->
  let pm := snd (gantt_maps recs) in
  let rid := sp_id (g_span (tree_root t)) in
  parent_of pm rid = None /\ exists k, climb (parent_of pm) k x = Some rid.
Proof.
  intros order recs t x H Hx pm rid. rewrite gantt_view_eq in H. fold pm in H.
  set (m := fst (gantt_maps recs)) in *. pose proof (gantt_maps_ok recs) as Hgm. fold m pm in Hgm.
  unfold build_span_tree in H.
  apply (build_some order recs m pm _ t Hgm) in H as [root [rn [Hr [Hp [Hm [Hf Ht]]]]]].
  pose proof (ctx_nodes recs m pm Hgm (g_start root)) as Hn.
  pose proof (ctx_keys recs m pm Hgm (g_start root)) as Hk.
  assert (Hrid : rid = sp_id (g_span root)).
  { unfold rid. rewrite Ht, unfold_root. destruct (Hn _ _ Hf) as [Hid _]. exact Hid. }
  split.
  - rewrite Hrid. unfold parent_of. rewrite Hp. reflexivity.
  - rewrite Ht in Hx. rewrite (unfold_ids _ _ _ Hn Hk _ _ _ Hf) in Hx.
    apply ids_from_climb in Hx as [k [_ Hc]]. exists k. rewrite Hrid.
    apply (climb_att_parent m pm). exact Hc. apply (ctx_att_in recs m pm Hgm).
Qed.

Theorem tree_excludes_cycles : forall order recs t x,
  gantt_view order recs = Some t -> In x (tree_ids t) -> ~ on_cycle (snd (gantt_maps recs)) x.
Proof.
  intros order recs t x H Hx [j [Hj Hc]].
  destruct (tree_nodes_reach_root order recs t x H Hx) as [Hroot [k Hk]].
  assert (Hin : forall y p, parent_of (snd (gantt_maps recs)) y = Some p -> In p (map snd (snd (gantt_maps recs)))).
  { intros y p Hp. unfold parent_of in Hp. destruct (lookup y (snd (gantt_maps recs))) as [q|] eqn:E; [|discriminate].
    destruct (is_empty q); [discriminate|]. inversion Hp; subst q.
    apply lookup_in in E. apply (in_map snd) in E. exact E. }
  pose proof (no_cycle (parent_of (snd (gantt_maps recs))) _ Hin k x _ j Hk Hroot Hc). lia.
Qed.

(* no_cross_trace_attribution (span tree): every node of the answer is one of the records the tree
   was requested for, with its own fields *)
Theorem tree_nodes_from_records : forall order recs t n,
  gantt_view order recs = Some t -> In n (tree_nodes t) -> In (g_span n) recs.
Proof.
  intros order recs t n H Hn. rewrite gantt_view_eq in H.
  set (m := fst (gantt_maps recs)) in *. set (pm := snd (gantt_maps recs)) in *.
  pose proof (gantt_maps_ok recs) as Hgm. fold m pm in Hgm.
  unfold build_span_tree in H.
  apply (build_some order recs m pm _ t Hgm) in H as [root [rn [Hr [Hp [Hm [Hf Ht]]]]]].
  subst t. apply (unfold_nodes _ _ _ (ctx_nodes recs m pm Hgm (g_start root)) _ _ _ Hf) in Hn.
  apply ctx_span in Hn as [n0 [Hl Hs]]. rewrite <- Hs.
  destruct Hgm as [_ [_ [Hgl _]]]. apply Hgl in Hl. tauto.
Qed.

(* every node sits beneath its parent: the parent id recorded for the child is the id of the node
   it hangs under; the root has no parent id *)
Theorem tree_edges_parent : forall order recs t,
  gantt_view order recs = Some t ->
  sp_parent (g_span (tree_root t)) = [] /\
  forall p c, In (p, c) (tree_edges t) -> sp_parent (g_span c) = sp_id (g_span p) /\ sp_parent (g_span c) <> [].
Proof.
  intros order recs t H. rewrite gantt_view_eq in H.
  set (m := fst (gantt_maps recs)) in *. set (pm := snd (gantt_maps recs)) in *.
  pose proof (gantt_maps_ok recs) as Hgm. fold m pm in Hgm.
  unfold build_span_tree in H.
  apply (build_some order recs m pm _ t Hgm) in H as [root [rn [Hr [Hp [Hm [Hf Ht]]]]]].
  pose proof (ctx_nodes recs m pm Hgm (g_start root)) as Hn.
  assert (Hpar : forall x, In x (tree_nodes t) -> lookup (sp_id (g_span x)) pm = Some (sp_parent (g_span x))).
  { intros x Hx. subst t. apply (unfold_nodes _ _ _ Hn _ _ _ Hf) in Hx.
    apply ctx_span in Hx as [n0 [Hl Hs]]. rewrite <- Hs.
    pose proof Hgm as [_ [_ [Hgl _]]]. destruct (Hgl _ _ Hl) as [_ [Hid [_ Hq]]]. rewrite Hid. exact Hq. }
  split.
  - assert (Hin : In (tree_root t) (tree_nodes t)) by (destruct t; left; reflexivity).
    apply Hpar in Hin. rewrite Ht, unfold_root in Hin. rewrite Ht, unfold_root.
    destruct (Hn _ _ Hf) as [Hid _]. rewrite Hid, Hp in Hin. inversion Hin. reflexivity.
  - intros p c He. subst t.
    destruct (unfold_edges _ _ _ Hn _ _ _ Hf p c He) as [Ha Hl].
    apply (att_parent m pm) in Ha. unfold parent_of in Ha.
    apply ctx_span in Hl as [n0 [Hl Hs]].
    pose proof Hgm as [_ [_ [Hgl _]]]. destruct (Hgl _ _ Hl) as [_ [Hid [_ Hq]]].
    rewrite Hs in Hid, Hq. rewrite Hq in Ha.
    destruct (is_empty (sp_parent (g_span c))) eqn:Ee; [discriminate|].
    injection Ha as Hpc. split; [exact Hpc|]. intro E. rewrite E in Ee. discriminate.
Qed.

(* ---- the guarded completeness theorem ---- *)
Lemma str_nodupb_NoDup l : str_nodupb l = true -> NoDup l.
Proof.
  induction l as [|x l IH]; cbn; intro H; [constructor|].
  apply andb_true_iff in H as [H1 H2]. constructor; [|apply IH, H2].
  intro Hin. apply existsb_str_in in Hin. rewrite Hin in H1. discriminate.
Qed.

Lemma gantt_keys_nodup recs :
  NoDup (map sp_id recs) -> map fst (fst (gantt_maps recs)) = map sp_id recs.
Proof.
  unfold gantt_maps.
  assert (H : forall l (m : gmap) (pm : pmap), NoDup (map fst m ++ map sp_id l) ->
            map fst (fst (fold_left (fun mp s => (insert (sp_id s) (init_node s) (fst mp), insert (sp_id s) (sp_parent s) (snd mp))) l (m, pm)))
            = map fst m ++ map sp_id l).
  { induction l as [|s l IH]; intros m pm Hnd; cbn.
    - rewrite app_nil_r. reflexivity.
    - rewrite IH; rewrite insert_keys.
      + assert (Hni : existsb (str_eqb (sp_id s)) (map fst m) = false).
        { apply not_true_is_false. intro Hc. apply existsb_str_in in Hc.
          apply NoDup_remove_2 in Hnd. apply Hnd. apply in_or_app; left; exact Hc. }
        rewrite Hni, <- app_assoc. reflexivity.
      + assert (Hni : existsb (str_eqb (sp_id s)) (map fst m) = false).
        { apply not_true_is_false. intro Hc. apply existsb_str_in in Hc.
          apply NoDup_remove_2 in Hnd. apply Hnd. apply in_or_app; left; exact Hc. }
        rewrite Hni, <- app_assoc. exact Hnd. }
  intro Hnd. apply (H recs [] []). exact Hnd.
Qed.

Lemma reaches_climb (m : gmap) (pm : pmap) :
  map fst pm = map fst m ->
  forall f y, haskey (map fst m) y = true -> reaches pm f y = true ->
  exists k r', climb (attof m pm) k y = Some r' /\ lookup r' pm = Some [].
Proof.
  intro Hkeys. induction f as [|f IH]; intros y Hy H; cbn in H; [discriminate|].
  destruct (lookup y pm) as [p|] eqn:Ep; [|discriminate].
  destruct (is_empty p) eqn:Ee.
  - apply is_empty_nil in Ee; subst p. exists O, y. split; [reflexivity | exact Ep].
  - assert (Hp : haskey (map fst m) p = true).
    { destruct f as [|f']; [discriminate|]. cbn in H. destruct (lookup p pm) as [q|] eqn:Eq; [|discriminate].
      rewrite <- Hkeys. apply haskey_lookup. eexists; exact Eq. }
    destruct (IH p Hp H) as [k [r' [Hc Hr]]]. exists (S k), r'. split; [|exact Hr].
    cbn. unfold attof at 1, att_k. rewrite Hy, Ep, Ee, Hp. exact Hc.
Qed.

Lemma nodup_id_inj recs a b :
  NoDup (map sp_id recs) -> In a recs -> In b recs -> sp_id a = sp_id b -> a = b.
Proof.
  induction recs as [|s l IH]; cbn; intros Hnd Ha Hb E; [destruct Ha|].
  inversion Hnd as [|? ? Hni Hnd']; subst.
  destruct Ha as [Ha|Ha], Hb as [Hb|Hb].
  - congruence.
  - exfalso. apply Hni. subst a. rewrite E. apply in_map, Hb.
  - exfalso. apply Hni. subst b. rewrite <- E. apply in_map, Ha.
  - apply IH; assumption.
Qed.

Theorem tree_contains_each_span_once_guarded : forall order recs,
  wf_forest recs = true -> Permutation order (map sp_id recs) ->
  exists t, gantt_view order recs = Some t /\ Permutation (tree_ids t) (map sp_id recs).
Proof.
  intros order recs Hwf Hord. unfold wf_forest in Hwf.
  apply andb_true_iff in Hwf as [Hwf Hall]. apply andb_true_iff in Hwf as [Hnd Hone].
  apply str_nodupb_NoDup in Hnd. apply Nat.eqb_eq in Hone.
  set (m := fst (gantt_maps recs)) in *. set (pm := snd (gantt_maps recs)) in *.
  pose proof (gantt_maps_ok recs) as Hgm. fold m pm in Hgm.
  pose proof (gantt_keys_nodup recs Hnd) as Hkeys. fold m in Hkeys.
  pose proof Hgm as [Hpk [Hmnd [Hgl Hgin]]].
  rewrite forallb_forall in Hall.
  (* the single root *)
  destruct (filter (fun s => is_empty (sp_parent s)) recs) as [|s0 [|? ?]] eqn:Ef; try discriminate. clear Hone.
  assert (Hs0 : In s0 recs /\ sp_parent s0 = []).
  { assert (Hin : In s0 (filter (fun s => is_empty (sp_parent s)) recs)) by (rewrite Ef; left; reflexivity).
    apply filter_In in Hin as [H1 H2]. apply is_empty_nil in H2. tauto. }
  assert (Huniq : forall k, lookup k pm = Some [] -> haskey (map fst m) k = true -> k = sp_id s0).
  { intros k Hk Hh. apply haskey_lookup in Hh as [n Hn]. destruct (Hgl k n Hn) as [_ [Hid [Hin Hq]]].
    rewrite Hk in Hq. injection Hq as Hq.
    assert (Hf : In (g_span n) (filter (fun s => is_empty (sp_parent s)) recs)).
    { apply filter_In. split; [exact Hin|]. rewrite <- Hq. reflexivity. }
    rewrite Ef in Hf. destruct Hf as [Hf|[]]. rewrite <- Hid, <- Hf. reflexivity. }
  assert (Hk0 : haskey (map fst m) (sp_id s0) = true).
  { unfold haskey. apply existsb_str_in. rewrite Hkeys. apply in_map. tauto. }
  assert (Hp0 : lookup (sp_id s0) pm = Some []).
  { apply haskey_lookup in Hk0 as [n Hn]. destruct (Hgl _ n Hn) as [_ [Hid [Hin Hq]]].
    rewrite Hq. f_equal.
    assert (g_span n = s0); [|subst s0; tauto].
    destruct Hs0 as [Hs0 _]. exact (nodup_id_inj recs _ _ Hnd Hin Hs0 Hid). }
  (* the root is found *)
  destruct (find_root order m pm) as [root|] eqn:Er.
  2:{ exfalso. revert Er. apply find_root_some. right.
      apply haskey_lookup in Hk0 as [n Hn]. exists (sp_id s0), n. repeat split; try assumption.
      eapply Permutation_in; [apply Permutation_sym, Hord | apply in_map; tauto]. }
  destruct (root_facts _ _ _ _ _ Hgm Er) as [Hrp [Hrm [HrL Hratt]]].
  assert (Hrid : sp_id (g_span root) = sp_id s0).
  { apply Huniq; [exact Hrp | apply haskey_lookup; eexists; exact Hrm]. }
  assert (Hne : is_empty (sp_id (g_span root)) = false).
  { rewrite Hrid. destruct Hs0 as [Hs0 _]. apply Hall in Hs0. apply andb_true_iff in Hs0 as [Hs0 _].
    destruct (is_empty (sp_id s0)); [discriminate | reflexivity]. }
  destruct (ctx_keys recs m pm Hgm (g_start root) _ HrL) as [rn Hrn].
  exists (unfold (length m) (mfof (g_start root) m pm) rn). split.
  - rewrite gantt_view_eq. fold m pm. unfold build_span_tree, build_span_tree_fuel. rewrite Er, Hne.
    fold (Lof m). fold (mfof (g_start root) m pm). rewrite Hrn. reflexivity.
  - rewrite (unfold_ids _ _ _ (ctx_nodes recs m pm Hgm (g_start root)) (ctx_keys recs m pm Hgm (g_start root)) _ _ _ Hrn).
    rewrite <- (L_length recs m pm Hgm), <- Hkeys.
    etransitivity; [|apply (L_perm recs m pm Hgm)].
    assert (Hreach : forall y, In y (Lof m) -> exists k, climb (attof m pm) k y = Some (sp_id (g_span root))).
    { intros y Hy. apply (L_in recs m pm Hgm) in Hy.
      assert (Hhy : haskey (map fst m) y = true) by (apply existsb_str_in, Hy).
      rewrite Hkeys in Hy. apply in_map_iff in Hy as [s [<- Hs]].
      apply Hall in Hs. apply andb_true_iff in Hs as [_ Hs].
      destruct (reaches_climb m pm Hpk _ _ Hhy Hs) as [k [r' [Hc Hr']]]. exists k. rewrite Hc. f_equal.
      rewrite Hrid. apply Huniq; [exact Hr'|].
      apply existsb_str_in. apply (L_in recs m pm Hgm).
      eapply (climb_in (attof m pm) (Lof m) (ctx_att_in recs m pm Hgm)); [|exact Hc].
      apply (L_in recs m pm Hgm). apply existsb_str_in, Hhy. }
    apply ids_from_perm.
    + apply (ctx_att_in recs m pm Hgm).
    + apply (L_nodup recs m pm Hgm).
    + intros x Hx. destruct (Hreach x Hx) as [k Hk]. exists k, (sp_id (g_span root)). split; [exact Hk | exact Hratt].
    + exact HrL.
    + exact Hratt.
    + exact Hreach.
Qed.

(* ------------------------------------------------------------------ *)
(* Part 4a: service dependency graph                                   *)
(* ------------------------------------------------------------------ *)
Lemma pair_eqb_eq k k' : pair_eqb k k' = true <-> k = k'.
Proof.
  destruct k as [a b], k' as [a' b']. unfold pair_eqb. cbn. rewrite andb_true_iff, !str_eqb_eq.
  split; [intros [-> ->]; reflexivity | intro H; inversion H; tauto].
Qed.
Lemma dep_count_incr k mat k' :
  dep_count (incr k mat) k' = dep_count mat k' + (if pair_eqb k k' then 1 else 0).
Proof.
  induction mat as [|[k2 v] r IH]; cbn.
  - destruct (pair_eqb k k'); reflexivity.
  - destruct (pair_eqb k2 k) eqn:E; cbn.
    + apply pair_eqb_eq in E; subst k2. destruct (pair_eqb k k'); lia.
    + destruct (pair_eqb k2 k') eqn:E2.
      * destruct (pair_eqb k k') eqn:E3; [|lia].
        apply pair_eqb_eq in E2, E3. subst. rewrite (proj2 (pair_eqb_eq k' k') eq_refl) in E. discriminate.
      * exact IH.
Qed.

(* the struct key spanKey{traceID, spanID}: equal iff both fields are equal *)
Lemma app_inj_len {A} (a a' b b' : list A) : length a = length a' -> a ++ b = a' ++ b' -> a = a' /\ b = b'.
Proof.
  revert a'. induction a as [|x a IH]; intros [|y a'] Hl H; cbn in *; try discriminate; [tauto|].
  inversion H; subst. destruct (IH a' ltac:(lia) H2) as [-> ->]. tauto.
Qed.
Lemma skey_inj t i t' i' : skey t i = skey t' i' <-> t = t' /\ i = i'.
Proof.
  unfold skey. split; [|intros [-> ->]; reflexivity].
  intro H. inversion H as [[Hl Happ]]. apply Nat2N.inj in Hl. exact (app_inj_len _ _ _ _ Hl Happ).
Qed.
Lemma skey_eqb t i t' i' : str_eqb (skey t i) (skey t' i') = str_eqb t t' && str_eqb i i'.
Proof.
  destruct (str_eqb (skey t i) (skey t' i')) eqn:E.
  - apply str_eqb_eq, skey_inj in E as [-> ->]. rewrite !str_eqb_refl. reflexivity.
  - symmetry. apply not_true_is_false. intro H. apply andb_true_iff in H as [H1 H2].
    apply str_eqb_eq in H1, H2. subst. rewrite str_eqb_refl in E. discriminate.
Qed.

Lemma find_app {A} (f : A -> bool) l1 l2 :
  find f (l1 ++ l2) = match find f l1 with Some x => Some x | None => find f l2 end.
Proof. induction l1 as [|x l1 IH]; cbn; [reflexivity|]. destruct (f x); [reflexivity | exact IH]. Qed.

Section Keyed.
Variable kf : span -> str.     (* the key a span is stored under *)
Variable pk : span -> str.     (* the key its parent is looked up with *)

(* does the child c add one to the cell (a, b)? *)
Definition dep_hit (svc : list (str * str)) (a b : str) (c : span) : bool :=
  negb (is_empty (sp_parent c)) &&
  match lookup (pk c) svc with
  | Some ps => negb (str_eqb ps (sp_service c)) && str_eqb ps a && str_eqb (sp_service c) b
  | None => false
  end.

Lemma dep_fold svc a b l : forall mat,
  dep_count (fold_left (dep_step_by pk svc) l mat) (a, b)
  = dep_count mat (a, b) + N.of_nat (length (filter (dep_hit svc a b) l)).
Proof.
  induction l as [|c l IH]; intro mat; cbn [fold_left filter]; [cbn; lia|].
  rewrite IH. unfold dep_step_by at 1. unfold dep_hit at 2.
  destruct (is_empty (sp_parent c)); cbn [negb andb]; [lia|].
  destruct (lookup (pk c) svc) as [ps|]; [|lia].
  destruct (str_eqb ps (sp_service c)); cbn [negb andb]; [lia|].
  rewrite dep_count_incr. unfold pair_eqb; cbn [fst snd].
  destruct (str_eqb ps a && str_eqb (sp_service c) b); cbn [length]; lia.
Qed.

Lemma svc_fold_lookup x l : forall m0,
  lookup x (fold_left (fun m s => insert (kf s) (sp_service s) m) l m0) =
  match find (fun p => str_eqb (kf p) x) (rev l) with
  | Some p => Some (sp_service p)
  | None => lookup x m0
  end.
Proof.
  induction l as [|s l IH]; intro m0; cbn [fold_left rev]; [reflexivity|].
  rewrite IH, find_app. destruct (find _ (rev l)); [reflexivity|]. cbn [find].
  destruct (str_eqb (kf s) x) eqn:E.
  - apply str_eqb_eq in E; subst x. apply lookup_insert_same.
  - apply str_eqb_neq in E. apply lookup_insert_other, E.
Qed.

Lemma nodup_key_inj recs a b :
  NoDup (map kf recs) -> In a recs -> In b recs -> kf a = kf b -> a = b.
Proof.
  induction recs as [|s l IH]; cbn; intros Hnd Ha Hb E; [destruct Ha|].
  inversion Hnd as [|? ? Hni Hnd']; subst.
  destruct Ha as [Ha|Ha], Hb as [Hb|Hb].
  - congruence.
  - exfalso. apply Hni. subst a. rewrite E. apply in_map, Hb.
  - exfalso. apply Hni. subst b. rewrite <- E. apply in_map, Ha.
  - apply IH; assumption.
Qed.

(* with unique keys the service map holds the service of THE span with that key *)
Lemma svc_map_spec recs x :
  NoDup (map kf recs) ->
  (forall p, In p recs -> kf p = x -> lookup x (svc_map_by kf recs) = Some (sp_service p)) /\
  ((forall p, In p recs -> kf p <> x) -> lookup x (svc_map_by kf recs) = None).
Proof.
  intro Hnd. unfold svc_map_by. rewrite svc_fold_lookup. cbn [lookup]. split.
  - intros p Hp Hx. destruct (find _ (rev recs)) as [q|] eqn:Ef.
    + apply find_some in Ef as [Hq Hqx]. apply in_rev in Hq. apply str_eqb_eq in Hqx.
      rewrite (nodup_key_inj recs q p Hnd Hq Hp); [reflexivity | congruence].
    + exfalso. assert (Hpr : In p (rev recs)) by (apply in_rev; rewrite rev_involutive; exact Hp).
      pose proof (find_none _ _ Ef p Hpr) as Hn. cbn in Hn. subst x. rewrite str_eqb_refl in Hn. discriminate.
  - intro Hno. destruct (find _ (rev recs)) as [q|] eqn:Ef; [|reflexivity].
    apply find_some in Ef as [Hq Hqx]. apply in_rev in Hq. apply str_eqb_eq in Hqx. exfalso. exact (Hno q Hq Hqx).
Qed.

Lemma filter_none_key l x (g : span -> bool) :
  ~ In x (map kf l) -> filter (fun p => str_eqb (kf p) x && g p) l = [].
Proof.
  induction l as [|q l IH]; cbn; intro Hni; [reflexivity|].
  destruct (str_eqb (kf q) x) eqn:Eq.
  - apply str_eqb_eq in Eq. exfalso. apply Hni. left. exact Eq.
  - cbn. apply IH. intro Hc; apply Hni; right; exact Hc.
Qed.

Lemma count_unique_key recs x (g : span -> bool) :
  NoDup (map kf recs) ->
  length (filter (fun p => str_eqb (kf p) x && g p) recs) =
  match find (fun p => str_eqb (kf p) x) recs with Some p => if g p then 1%nat else 0%nat | None => 0%nat end.
Proof.
  induction recs as [|s l IH]; cbn [filter find map]; intro Hnd; [reflexivity|].
  inversion Hnd as [|? ? Hni Hnd']; subst.
  destruct (str_eqb (kf s) x) eqn:E; cbn [andb].
  - apply str_eqb_eq in E.
    assert (Hz : filter (fun p => str_eqb (kf p) x && g p) l = []).
    { apply filter_none_key. rewrite <- E. exact Hni. }
    destruct (g s); cbn [length]; rewrite Hz; reflexivity.
  - apply IH, Hnd'.
Qed.
End Keyed.

Lemma filter_map_length {A B} (f : B -> bool) (g : A -> B) l :
  length (filter f (map g l)) = length (filter (fun x => f (g x)) l).
Proof. induction l as [|x l IH]; cbn; [reflexivity|]. destruct (f (g x)); cbn; rewrite IH; reflexivity. Qed.
Lemma filter_list_prod_length {A B} (f : A * B -> bool) l1 l2 :
  length (filter f (list_prod l1 l2)) = list_sum (map (fun c => length (filter (fun p => f (c, p)) l2)) l1).
Proof.
  induction l1 as [|c l1 IH]; cbn; [reflexivity|].
  rewrite filter_app, app_length, filter_map_length, IH. reflexivity.
Qed.
Lemma filter_length_sum {A} (f : A -> bool) l :
  length (filter f l) = list_sum (map (fun c => if f c then 1%nat else 0%nat) l).
Proof. induction l as [|c l IH]; cbn; [reflexivity|]. destruct (f c); cbn; rewrite IH; reflexivity. Qed.

(* dep_graph_counts_exact: the handler reads the whole window and looks parents up within the span's
   own trace, so for ALL record lists in which a (trace id, span id) pair occurs once every cell of the
   matrix is the exact number of parent-child pairs of one trace that cross those two services *)
Theorem dep_graph_counts_exact : forall recs a b,
  NoDup (map span_key recs) -> a <> b ->
  dep_count (dep_graph recs) (a, b) = cross_pairs recs a b.
Proof.
  intros recs a b Hnd Hab. unfold dep_graph, cross_pairs, count_if.
  rewrite (dep_fold span_key). cbn [dep_count]. rewrite N.add_0_l. f_equal.
  rewrite filter_list_prod_length, filter_length_sum. f_equal. apply map_ext. intro c.
  unfold dep_hit, is_cross.
  destruct (is_empty (sp_parent c)) eqn:Ee; cbn [negb andb].
  { clear. induction recs as [|q l IHl]; [reflexivity|]. cbn. exact IHl. }
  transitivity (length (filter (fun p => str_eqb (span_key p) (parent_key c) &&
                                         (str_eqb (sp_service p) a && str_eqb (sp_service c) b)) recs)).
  2:{ f_equal. apply filter_ext. intro p. unfold span_key, parent_key. rewrite skey_eqb.
      rewrite (andb_comm (str_eqb (sp_trace p) (sp_trace c))). rewrite !andb_assoc. reflexivity. }
  rewrite (count_unique_key span_key recs (parent_key c) _ Hnd).
  destruct (find (fun p => str_eqb (span_key p) (parent_key c)) recs) as [p|] eqn:Ef.
  - apply find_some in Ef as [Hp Hpx]. apply str_eqb_eq in Hpx.
    unfold svc_map. rewrite (proj1 (svc_map_spec span_key recs (parent_key c) Hnd) p Hp Hpx).
    destruct (str_eqb (sp_service p) a) eqn:Ea, (str_eqb (sp_service c) b) eqn:Eb; cbn; rewrite ?andb_false_r; try reflexivity.
    apply str_eqb_eq in Ea, Eb.
    assert (str_eqb (sp_service p) (sp_service c) = false) as -> by (apply str_eqb_neq; congruence). reflexivity.
  - unfold svc_map. rewrite (proj2 (svc_map_spec span_key recs (parent_key c) Hnd)); [reflexivity|].
    intros p Hp Hx. pose proof (find_none _ _ Ef p Hp) as Hn. cbv beta in Hn. rewrite Hx, str_eqb_refl in Hn. discriminate.
Qed.

(* ---- PRE-FIX documentation (dep_graph_prefix): the two repaired defects ---- *)
(* 150 traces, each a root in service "A" with one child in service "B"; the handler saw the first 100 rows *)
Definition w_root (i : nat) : span := mkSpan [N.of_nat i] [1; N.of_nat i] [] [65] [114] 0 10 10 1.
Definition w_child (i : nat) : span := mkSpan [N.of_nat i] [2; N.of_nat i] [1; N.of_nat i] [66] [99] 1 5 4 1.
Definition w_150 : list span := flat_map (fun i => [w_root i; w_child i]) (seq 1 150).

Theorem prefix_dep_graph_page_refuted :
  exists recs, NoDup (map span_key recs) /\ length recs = 300%nat /\
    cross_pairs recs [65] [66] = 150 /\ dep_count (dep_graph_prefix DEFAULT_PAGE recs) ([65], [66]) = 50 /\
    dep_count (dep_graph recs) ([65], [66]) = 150.
Proof.
  exists w_150. split; [apply str_nodupb_NoDup; vm_compute; reflexivity|].
  split; [vm_compute; reflexivity|]. split; [vm_compute; reflexivity|]. split; vm_compute; reflexivity.
Qed.

(* spans were joined to their parents by span id alone.  Trace 1: root (service X1) with child c1 (X2).
   Trace 2: root (Y1) with a child (Y2) whose parent id is c1's id (which does not exist in trace 2):
   the pre-fix graph has an edge X2 -> Y2 that no trace contains *)
Definition w_cross : list span :=
  [mkSpan [1] [1] [] [88;49] [114] 0 9 9 1; mkSpan [1] [2] [1] [88;50] [99] 1 2 1 1;
   mkSpan [2] [3] [] [89;49] [114] 0 9 9 1; mkSpan [2] [4] [2] [89;50] [99] 1 2 1 1].
Theorem prefix_dep_graph_cross_trace_refuted :
  exists recs, NoDup (map span_key recs) /\ (length recs <= DEFAULT_PAGE)%nat /\
    cross_pairs recs [88;50] [89;50] = 0 /\
    dep_count (dep_graph_prefix DEFAULT_PAGE recs) ([88;50], [89;50]) = 1 /\
    dep_count (dep_graph recs) ([88;50], [89;50]) = 0.
Proof.
  exists w_cross.
  split; [apply str_nodupb_NoDup; vm_compute; reflexivity|].
  split; [vm_compute; lia|]. split; [vm_compute; reflexivity|]. split; vm_compute; reflexivity.
Qed.

(* ------------------------------------------------------------------ *)
(* Part 4b: trace search                                               *)
(* ------------------------------------------------------------------ *)
(* ---- the Go string order and the sort of the buckets ---- *)
Lemma str_ltb_irrefl a : str_ltb a a = false.
Proof. induction a as [|x a IH]; cbn; [reflexivity|]. rewrite N.ltb_irrefl. exact IH. Qed.
Lemma str_ltb_trans a : forall b c, str_ltb a b = true -> str_ltb b c = true -> str_ltb a c = true.
Proof.
  induction a as [|x a IH]; intros [|y b] [|z c] H1 H2; cbn in *; try discriminate; try reflexivity.
  destruct (x <? y) eqn:Exy.
  - destruct (y <? z) eqn:Eyz.
    + assert (x <? z = true) as -> by (apply N.ltb_lt; apply N.ltb_lt in Exy, Eyz; lia). reflexivity.
    + destruct (z <? y) eqn:Ezy; [discriminate|].
      assert (y = z) by (apply N.ltb_ge in Eyz, Ezy; lia). subst z. rewrite Exy. reflexivity.
  - destruct (y <? x) eqn:Eyx; [discriminate|].
    assert (x = y) by (apply N.ltb_ge in Exy, Eyx; lia). subst y.
    destruct (x <? z) eqn:Exz; [reflexivity|]. destruct (z <? x); [discriminate|]. eapply IH; eassumption.
Qed.
Lemma str_ltb_total a : forall b, str_ltb a b = false -> str_ltb b a = false -> a = b.
Proof.
  induction a as [|x a IH]; intros [|y b] H1 H2; cbn in *; try discriminate; [reflexivity|].
  destruct (x <? y) eqn:Exy; [discriminate|]. destruct (y <? x) eqn:Eyx; [discriminate|].
  assert (x = y) by (apply N.ltb_ge in Exy, Eyx; lia). subst y. f_equal. apply IH; assumption.
Qed.
Lemma str_ltb_asym a b : str_ltb a b = true -> str_ltb b a = false.
Proof.
  intro H. destruct (str_ltb b a) eqn:E; [|reflexivity].
  pose proof (str_ltb_trans _ _ _ H E) as Hc. rewrite str_ltb_irrefl in Hc. discriminate.
Qed.
Definition str_le (a b : str) : Prop := str_ltb b a = false.
Lemma str_le_trans a b c : str_le a b -> str_le b c -> str_le a c.
Proof.
  unfold str_le. intros H1 H2. destruct (str_ltb c a) eqn:E; [|reflexivity].
  (* c < a, b <= c (not c < b), a <= b (not b < a) *)
  destruct (str_ltb a b) eqn:Eab.
  - pose proof (str_ltb_trans _ _ _ E Eab) as Hc. congruence.
  - assert (a = b) by (apply str_ltb_total; assumption). subst b. congruence.
Qed.

Lemma str_insert_perm x l : Permutation (str_insert x l) (x :: l).
Proof.
  induction l as [|y r IH]; cbn; [apply Permutation_refl|].
  destruct (str_ltb x y); [apply Permutation_refl|].
  etransitivity; [apply perm_skip, IH | apply perm_swap].
Qed.
Lemma str_sort_perm l : Permutation (str_sort l) l.
Proof.
  induction l as [|a l IH]; cbn; [constructor|].
  etransitivity; [apply str_insert_perm | apply perm_skip, IH].
Qed.
Lemma str_insert_sorted x l : StronglySorted str_le l -> StronglySorted str_le (str_insert x l).
Proof.
  induction 1 as [|y r Hr IH Hy]; cbn [str_insert].
  - constructor; constructor.
  - destruct (str_ltb x y) eqn:E.
    + constructor; [constructor; assumption|].
      assert (Hxy : str_le x y) by (unfold str_le; apply str_ltb_asym, E).
      constructor; [exact Hxy|]. eapply Forall_impl; [|exact Hy]. intros z Hz. eapply str_le_trans; eassumption.
    + constructor; [exact IH|].
      apply (Permutation_Forall (Permutation_sym (str_insert_perm x r))).
      constructor; [exact E | exact Hy].
Qed.
Lemma str_sort_sorted l : StronglySorted str_le (str_sort l).
Proof. induction l as [|a l IH]; cbn; [constructor | apply str_insert_sorted, IH]. Qed.
Lemma str_sorted_perm_unique : forall l1 l2,
  StronglySorted str_le l1 -> StronglySorted str_le l2 -> Permutation l1 l2 -> l1 = l2.
Proof.
  induction l1 as [|x l1 IH]; intros [|y l2] S1 S2 P.
  - reflexivity.
  - apply Permutation_nil in P. discriminate.
  - apply Permutation_sym, Permutation_nil in P. discriminate.
  - apply StronglySorted_inv in S1 as [S1 F1]. apply StronglySorted_inv in S2 as [S2 F2].
    assert (Hx : In x (y :: l2)) by (apply (Permutation_in _ P); left; reflexivity).
    assert (Hy : In y (x :: l1)) by (apply (Permutation_in _ (Permutation_sym P)); left; reflexivity).
    rewrite Forall_forall in F1, F2.
    assert (E : x = y).
    { destruct Hx as [Hx|Hx]; [auto|]. destruct Hy as [Hy|Hy]; [auto|].
      apply F2 in Hx. apply F1 in Hy. unfold str_le in *. apply str_ltb_total; assumption. }
    subst y. f_equal. apply IH; auto. eapply Permutation_cons_inv; exact P.
Qed.
(* whatever order the engine returns the buckets in, the handler slices the same sequence *)
Lemma str_sort_perm_eq l1 l2 : Permutation l1 l2 -> str_sort l1 = str_sort l2.
Proof.
  intro P. apply str_sorted_perm_unique; try apply str_sort_sorted.
  etransitivity; [apply str_sort_perm|]. etransitivity; [exact P|]. apply Permutation_sym, str_sort_perm.
Qed.

Lemma firstn_skipn_add {A} a b : forall l : list A, firstn a l ++ firstn b (skipn a l) = firstn (a + b) l.
Proof.
  induction a as [|a IH]; intro l; cbn; [reflexivity|].
  destruct l as [|x l]; cbn; [destruct b; reflexivity|]. rewrite IH. reflexivity.
Qed.
(* the pages 1..n are consecutive pieces of the sequence *)
Lemma pages_concat ids n :
  flat_map (page_slice ids) (seq 1 n) = firstn (n * TRACE_PAGE_LIMIT) ids.
Proof.
  induction n as [|n IH]; [reflexivity|].
  rewrite seq_S, flat_map_app, IH. cbn [flat_map]. rewrite app_nil_r. unfold page_slice.
  replace (1 + n - 1)%nat with n by lia. rewrite firstn_skipn_add. f_equal. lia.
Qed.

Lemma summarise_ids winS winE recs t :
  map ts_id (summarise winS winE recs t) = if listable winS winE recs t then [t] else [].
Proof. unfold summarise, listable. destruct (root_info_of winS winE recs t); reflexivity. Qed.
Lemma listed_ids winS winE recs l :
  map ts_id (flat_map (summarise winS winE recs) l) = filter (listable winS winE recs) l.
Proof.
  induction l as [|t l IH]; [reflexivity|]. cbn [flat_map filter]. rewrite map_app, IH, summarise_ids.
  destruct (listable winS winE recs t); reflexivity.
Qed.

(* search_lists_each_trace_once: "trace search lists each trace rooted in the window exactly once, with
   its root service/operation and its span and error counts" for ALL span lists, when every page
   request [p] gets the buckets in its own arbitrary order [bo p] (any permutation of the distinct
   trace ids): the pages 1..n together list exactly the listable traces, each once. *)
Theorem search_lists_each_trace_once : forall winS winE recs (bo : nat -> list str) n,
  (forall p, Permutation (bo p) (distinct_traces recs)) -> NoDup (distinct_traces recs) ->
  (length (distinct_traces recs) <= n * TRACE_PAGE_LIMIT)%nat ->
  let listed := flat_map (fun p => search_traces winS winE recs (bo p) p) (seq 1 n) in
  map ts_id listed = filter (listable winS winE recs) (str_sort (distinct_traces recs)) /\
  NoDup (map ts_id listed) /\
  (forall t, In t (map ts_id listed) <-> In t (map sp_trace recs) /\ listable winS winE recs t = true) /\
  forall s, In s listed ->
    root_info_of winS winE recs (ts_id s) = ROk (ts_start s) (ts_end s) (ts_service s) (ts_name s) /\
    ts_count s = count_if (of_trace (ts_id s)) recs /\
    ts_errs s = count_if (fun x => of_trace (ts_id s) x && is_error x) recs.
Proof.
  intros winS winE recs bo n Hbo Hnd Hlen. cbv zeta.
  set (ids := str_sort (distinct_traces recs)).
  assert (Hp : forall p, search_traces winS winE recs (bo p) p = flat_map (summarise winS winE recs) (page_slice ids p)).
  { intro p. unfold search_traces, search_page, page_ids. rewrite (str_sort_perm_eq _ _ (Hbo p)). reflexivity. }
  assert (Hcat : flat_map (fun p => search_traces winS winE recs (bo p) p) (seq 1 n)
                 = flat_map (summarise winS winE recs) ids).
  { transitivity (flat_map (summarise winS winE recs) (flat_map (page_slice ids) (seq 1 n))).
    - induction (seq 1 n) as [|p l IH]; [reflexivity|]. cbn [flat_map]. rewrite flat_map_app, IH, Hp. reflexivity.
    - rewrite pages_concat, firstn_all2; [reflexivity|].
      unfold ids. rewrite (Permutation_length (str_sort_perm _)). exact Hlen. }
  rewrite Hcat.
  assert (Hids : NoDup ids) by (eapply Permutation_NoDup; [apply Permutation_sym, str_sort_perm | exact Hnd]).
  split; [apply listed_ids|]. split; [rewrite listed_ids; apply NoDup_filter, Hids|]. split.
  - intro t. rewrite listed_ids, filter_In. split; intros [H1 H2]; (split; [|exact H2]).
    + apply (Permutation_in _ (str_sort_perm _)) in H1. revert H1. unfold distinct_traces.
      generalize (map sp_trace recs). intro l. induction l as [|x l IH]; cbn; [tauto|].
      destruct (existsb (str_eqb x) l); [intro H; right; apply IH, H|].
      intros [H|H]; [left; exact H | right; apply IH, H].
    + apply (Permutation_in _ (Permutation_sym (str_sort_perm _))). revert H1. unfold distinct_traces.
      generalize (map sp_trace recs). intro l. induction l as [|x l IH]; cbn; [tauto|].
      destruct (existsb (str_eqb x) l) eqn:Ex.
      * intros [H|H]; [subst; apply IH; apply existsb_str_in, Ex | apply IH, H].
      * intros [H|H]; [left; exact H | right; apply IH, H].
  - intros s Hs. apply in_flat_map in Hs as [t [_ Hs]]. unfold summarise in Hs.
    destruct (root_info_of winS winE recs t) eqn:Er; try (destruct Hs; fail).
    destruct Hs as [<-|[]]. cbn. rewrite Er. repeat split; reflexivity.
Qed.

Lemma dedup_nodup l : NoDup (dedup_by str_eqb l).
Proof.
  induction l as [|x l IH]; cbn; [constructor|].
  destruct (existsb (str_eqb x) l) eqn:E; [exact IH|]. constructor; [|exact IH].
  intro Hin. assert (In x l).
  { clear - Hin. induction l as [|y l IHl]; cbn in *; [tauto|].
    destruct (existsb (str_eqb y) l); [right; apply IHl, Hin|]. destruct Hin as [H|H]; [left; exact H | right; apply IHl, H]. }
  apply existsb_str_in in H. congruence.
Qed.
Lemma distinct_traces_nodup recs : NoDup (distinct_traces recs).
Proof. apply dedup_nodup. Qed.

(* no_cross_trace_attribution (search): the summary of trace t is a function of the spans of t only *)
Lemma filter_filter_and {A} (f g : A -> bool) l : filter f (filter g l) = filter (fun x => g x && f x) l.
Proof.
  induction l as [|x l IH]; [reflexivity|]. cbn. destruct (g x); cbn; [destruct (f x); rewrite IH; reflexivity | exact IH].
Qed.
Theorem summary_depends_on_own_spans : forall winS winE recs t,
  summarise winS winE recs t = summarise winS winE (filter (of_trace t) recs) t.
Proof.
  intros winS winE recs t.
  assert (Hr : root_spans t (filter (of_trace t) recs) = root_spans t recs).
  { unfold root_spans. rewrite filter_filter_and. apply filter_ext. intro s.
    destruct (of_trace t s); reflexivity. }
  assert (Hc : forall g, count_if (fun x => of_trace t x && g x) (filter (of_trace t) recs)
                         = count_if (fun x => of_trace t x && g x) recs).
  { intro g. unfold count_if. rewrite filter_filter_and. f_equal. f_equal. apply filter_ext. intro s.
    destruct (of_trace t s); reflexivity. }
  unfold summarise, root_info_of, root_info_gen. rewrite Hr.
  pose proof (Hc (fun _ => true)) as Hc1. pose proof (Hc is_error) as Hc2.
  assert (He : forall l, count_if (fun x => of_trace t x && true) l = count_if (of_trace t) l).
  { intro l. unfold count_if. f_equal. f_equal. apply filter_ext. intro s. apply andb_true_r. }
  rewrite !He in Hc1. rewrite Hc1, Hc2. reflexivity.
Qed.
Theorem no_cross_trace_attribution_search : forall winS winE recs recs' t,
  filter (of_trace t) recs = filter (of_trace t) recs' ->
  summarise winS winE recs t = summarise winS winE recs' t.
Proof.
  intros. rewrite (summary_depends_on_own_spans winS winE recs), (summary_depends_on_own_spans winS winE recs'). congruence.
Qed.

(* ---- PRE-FIX documentation (search_traces_prefix): the two repaired defects ---- *)
(* 1: the buckets were sliced in the order of the response, which differs between two page requests
   (iteration order of a Go map): page 1 and page 2 together listed one trace twice and another one
   never.  51 single-span traces.  The fixed handler lists every trace once for the same two orders. *)
Definition w_single (i : nat) : span := mkSpan [N.of_nat i] [N.of_nat i] [] [65] [114] 5 6 1 1.
Definition w_51 : list span := map w_single (seq 1 51).
Definition w_b1 : list str := map (fun i => [N.of_nat i]) (seq 1 51).
Theorem prefix_search_pages_refuted :
  exists recs b1 b2 t_twice t_never,
    Permutation b1 b2 /\ NoDup b1 /\ b1 = distinct_traces recs /\
    listable 0 1 recs t_twice = true /\ listable 0 1 recs t_never = true /\
    match search_traces_prefix 0 1 recs b1 1, search_traces_prefix 0 1 recs b2 2 with
    | Some p1, Some p2 =>
      count_if (fun s => str_eqb (ts_id s) t_twice) (p1 ++ p2) = 2 /\
      count_if (fun s => str_eqb (ts_id s) t_never) (p1 ++ p2) = 0
    | _, _ => False
    end /\
    let p12 := search_traces 0 1 recs b1 1 ++ search_traces 0 1 recs b2 2 in
    count_if (fun s => str_eqb (ts_id s) t_twice) p12 = 1 /\ count_if (fun s => str_eqb (ts_id s) t_never) p12 = 1.
Proof.
  exists w_51, w_b1, (rev w_b1), [1], [51].
  split; [apply Permutation_rev|]. split; [apply str_nodupb_NoDup; vm_compute; reflexivity|].
  split; [vm_compute; reflexivity|]. split; [vm_compute; reflexivity|]. split; [vm_compute; reflexivity|].
  split; vm_compute; split; reflexivity.
Qed.

(* 2: one trace with two root spans that start at different times made the whole page fail (HTTP 500),
   the well-formed trace next to it was not listed; the fixed handler lists it *)
Definition w_two_roots : list span :=
  [mkSpan [1] [1] [] [65] [114] 5 6 1 1;
   mkSpan [2] [2] [] [65] [114] 5 6 1 1; mkSpan [2] [3] [] [65] [114] 7 8 1 1].
Theorem prefix_search_abort_refuted :
  exists recs t, listable 0 1 recs t = true /\
    search_traces_prefix 0 1 recs (distinct_traces recs) 1 = None /\
    map ts_id (search_traces 0 1 recs (distinct_traces recs) 1) = [t].
Proof. exists w_two_roots, [1]. split; [vm_compute; reflexivity|]. split; vm_compute; reflexivity. Qed.

(* ------------------------------------------------------------------ *)
(* Part 4c: RED metrics                                                *)
(* ------------------------------------------------------------------ *)
Lemma lookup_snoc {A} k k' (v : A) m :
  lookup k (m ++ [(k', v)]) = match lookup k m with Some x => Some x | None => if str_eqb k' k then Some v else None end.
Proof. induction m as [|[k2 v2] r IH]; cbn; [reflexivity|]. destruct (str_eqb k2 k); [reflexivity | exact IH]. Qed.
Lemma lookup_map_snd {A B} (f : A -> B) k (m : list (str * A)) :
  lookup k (map (fun kv => (fst kv, f (snd kv))) m) = option_map f (lookup k m).
Proof. induction m as [|[k2 v2] r IH]; cbn; [reflexivity|]. destruct (str_eqb k2 k); [reflexivity | exact IH]. Qed.

Definition acc_of (l : list span) : red_acc :=
  mkAcc (N.of_nat (length l)) (N.of_nat (length (filter is_error l))) (map sp_dur l).
Lemma acc_add_of s l : acc_add s (acc_of l) = acc_of (l ++ [s]).
Proof.
  unfold acc_add, acc_of. cbn [ra_cnt ra_err ra_durs]. rewrite app_length, filter_app, app_length, map_app. cbn [length filter map].
  f_equal; [lia|]. destruct (is_error s); cbn [length]; lia.
Qed.
Definition acc_inv (svc : str) (m : list (str * red_acc)) (l0 : list span) : Prop :=
  lookup svc m = match l0 with [] => None | _ => Some (acc_of l0) end.
Lemma acc_fold svc l : forall m0 l0, acc_inv svc m0 l0 ->
  acc_inv svc (fold_left acc_step l m0) (l0 ++ filter (fun s => str_eqb (sp_service s) svc) l).
Proof.
  induction l as [|s l IH]; intros m0 l0 Hinv; cbn [fold_left filter]; [rewrite app_nil_r; exact Hinv|].
  destruct (str_eqb (sp_service s) svc) eqn:E.
  - apply str_eqb_eq in E. replace (l0 ++ s :: filter (fun s0 => str_eqb (sp_service s0) svc) l)
      with ((l0 ++ [s]) ++ filter (fun s0 => str_eqb (sp_service s0) svc) l) by (rewrite <- app_assoc; reflexivity).
    apply IH. unfold acc_inv, acc_step in *. rewrite E.
    destruct (l0 ++ [s]) as [|x y] eqn:Ex; [destruct l0; discriminate|]. rewrite <- Ex.
    destruct l0 as [|a l0'].
    + rewrite Hinv. rewrite lookup_snoc, Hinv, str_eqb_refl. f_equal. apply (acc_add_of s []).
    + rewrite Hinv. rewrite lookup_update_same, Hinv. cbn [option_map]. f_equal. apply acc_add_of.
  - apply IH. unfold acc_inv, acc_step in *. apply str_eqb_neq in E.
    destruct (lookup (sp_service s) m0).
    + rewrite lookup_update_other by exact E. exact Hinv.
    + rewrite lookup_snoc, Hinv. destruct l0; [|reflexivity].
      apply str_eqb_neq in E. rewrite E. reflexivity.
Qed.

Lemma key_match p s : str_eqb (span_key p) (parent_key s) = str_eqb (sp_trace p) (sp_trace s) && str_eqb (sp_id p) (sp_parent s).
Proof. unfold span_key, parent_key. apply skey_eqb. Qed.

Lemma is_entry_spec recs s : NoDup (map span_key recs) -> is_entry (svc_map recs) s = entry_spec recs s.
Proof.
  intro Hnd. unfold is_entry, entry_spec. destruct (is_empty (sp_parent s)); [reflexivity|]. cbn [orb].
  destruct (existsb (fun p => str_eqb (span_key p) (parent_key s)) recs) eqn:Ex.
  - apply existsb_exists in Ex as [p [Hp Hx]]. pose proof Hx as Hm. rewrite key_match in Hm.
    apply str_eqb_eq in Hx. unfold svc_map.
    rewrite (proj1 (svc_map_spec span_key recs _ Hnd) p Hp Hx). f_equal.
    destruct (str_eqb (sp_service p) (sp_service s)) eqn:Es.
    + symmetry. apply existsb_exists. exists p. split; [exact Hp|]. rewrite Hm, Es. reflexivity.
    + symmetry. apply not_true_is_false. intro Hc. apply existsb_exists in Hc as [q [Hq Hqq]].
      apply andb_true_iff in Hqq as [H1 H2]. rewrite <- key_match in H1. apply str_eqb_eq in H1.
      rewrite (nodup_key_inj span_key recs q p Hnd Hq Hp) in H2 by congruence. congruence.
  - unfold svc_map. rewrite (proj2 (svc_map_spec span_key recs _ Hnd)).
    + symmetry. apply negb_true_iff. apply not_true_is_false. intro Hc. apply existsb_exists in Hc as [q [Hq Hqq]].
      apply andb_true_iff in Hqq as [H1 _]. rewrite <- key_match in H1.
      assert (existsb (fun p => str_eqb (span_key p) (parent_key s)) recs = true); [|congruence].
      apply existsb_exists. exists q. tauto.
    + intros p Hp Hx. assert (existsb (fun p => str_eqb (span_key p) (parent_key s)) recs = true); [|congruence].
      apply existsb_exists. exists p. split; [exact Hp | rewrite Hx; apply str_eqb_refl].
Qed.

Lemma ms_bounded (l : list span) :
  Forall (fun s => sp_dur s < pow2_64) l -> bounded (map (fun s => sp_dur s / 1000000) l).
Proof.
  intro H. unfold bounded. apply Forall_map. eapply Forall_impl; [|exact H]. cbn. intros s Hs.
  unfold pow2_64 in Hs. apply N.div_lt_upper_bound; lia.
Qed.

(* red_metrics_exact: for every service, the stored record holds the number of its entry spans (rate =
   that number / 60), the number of erroring entry spans (error rate = 100 * that / number) and the
   interpolated percentiles of the sorted millisecond durations of exactly those spans *)
Theorem red_metrics_exact : forall recs svc,
  NoDup (map span_key recs) -> Forall (fun s => sp_dur s < pow2_64) recs ->
  let es := filter (fun s => entry_spec recs s && str_eqb (sp_service s) svc) recs in
  let ds := n_sort (map (fun s => sp_dur s / 1000000) es) in
  lookup svc (red_metrics recs) =
    match es with
    | [] => None
    | _ => Some (mkRed (N.of_nat (length es)) (N.of_nat (length (filter is_error es)))
                       (Some (pct_spec_x100 ds 50)) (Some (pct_spec_x100 ds 90))
                       (Some (pct_spec_x100 ds 95)) (Some (pct_spec_x100 ds 99)))
    end.
Proof.
  intros recs svc Hnd Hb. cbv zeta. unfold red_metrics. rewrite lookup_map_snd.
  pose proof (acc_fold svc (entry_spans recs) [] [] eq_refl) as Hacc. unfold acc_inv in Hacc. cbn [app] in Hacc.
  assert (Hes : filter (fun s => str_eqb (sp_service s) svc) (entry_spans recs)
                = filter (fun s => entry_spec recs s && str_eqb (sp_service s) svc) recs).
  { unfold entry_spans. rewrite filter_filter_and. apply filter_ext. intro s.
    rewrite (is_entry_spec recs s Hnd). reflexivity. }
  rewrite Hes in Hacc. rewrite Hacc. clear Hacc Hes.
  assert (Hbes : Forall (fun s => sp_dur s < pow2_64) (filter (fun s => entry_spec recs s && str_eqb (sp_service s) svc) recs)).
  { apply Forall_forall. intros s Hs. apply filter_In in Hs as [Hs _]. rewrite Forall_forall in Hb. apply Hb, Hs. }
  destruct (filter (fun s => entry_spec recs s && str_eqb (sp_service s) svc) recs) as [|e0 es']; [reflexivity|].
  set (es := e0 :: es') in *.
  cbn [option_map]. f_equal. unfold red_of_acc, acc_of. cbn [ra_cnt ra_err ra_durs]. rewrite map_map.
  set (d0 := map (fun s => sp_dur s / 1000000) es) in *.
  assert (Hb0 : bounded d0) by (apply ms_bounded, Hbes).
  assert (Hne0 : d0 <> []) by (unfold d0, es; discriminate).
  assert (Hb1 : bounded (pp_mutate d0)).
  { unfold bounded. eapply Permutation_Forall; [apply Permutation_sym, pp_mutate_perm | exact Hb0]. }
  assert (Hne1 : pp_mutate d0 <> []).
  { intro Hc. apply Hne0. apply Permutation_nil. rewrite <- Hc. apply pp_mutate_perm. }
  assert (Hs1 : n_sort (pp_mutate d0) = n_sort d0) by (apply n_sort_perm_eq, pp_mutate_perm).
  rewrite (find_percentile_correct d0 50 Hne0 ltac:(lia) Hb0).
  rewrite !(find_percentile_correct (pp_mutate d0) _ Hne1) by (try lia; exact Hb1).
  rewrite Hs1. reflexivity.
Qed.

(* the tree requested for trace T (the records with trace id T) contains spans of T only *)
Theorem tree_only_own_trace : forall order recs T t,
  gantt_view order (filter (of_trace T) recs) = Some t ->
  Forall (fun n => sp_trace (g_span n) = T) (tree_nodes t).
Proof.
  intros order recs T t H. apply Forall_forall. intros n Hn.
  apply (tree_nodes_from_records _ _ _ _ H) in Hn. apply filter_In in Hn as [_ Hn].
  unfold of_trace in Hn. apply str_eqb_eq in Hn. exact Hn.
Qed.

(* ------------------------------------------------------------------ *)
(* Part 5: OTLP request -> stored events                               *)
(* ------------------------------------------------------------------ *)
(* the events of a resource depend on that resource only, whatever precedes or follows it in the request *)
Theorem request_events_resource_local : forall pre r post,
  request_events (pre ++ r :: post) = request_events pre ++ resource_events r ++ request_events post.
Proof. intros. unfold request_events. rewrite flat_map_app. reflexivity. Qed.

Theorem request_events_perm : forall req req',
  Permutation req req' -> Permutation (request_events req) (request_events req').
Proof. intros req req' H. unfold request_events. apply Permutation_flat_map, H. Qed.

Theorem event_service_own_resource : forall req e,
  In e (request_events req) ->
  exists r o, In r req /\ In o (concat (or_scopes r)) /\ e = span_to_event (resource_service r) o /\
              sp_service e = resource_service r.
Proof.
  intros req e H. unfold request_events in H. apply in_flat_map in H as [r [Hr He]].
  unfold resource_events in He. apply in_map_iff in He as [o [Ho Hin]].
  exists r, o. subst e. repeat split; assumption.
Qed.

Definition svc_step (service : str) (kv : str * option str) : str :=
  if str_eqb (fst kv) service_name_key then (match snd kv with Some v => v | None => [] end) else service.
Lemma svc_fold_keep attrs : forall acc,
  forallb (fun kv => negb (str_eqb (fst kv) service_name_key)) attrs = true -> fold_left svc_step attrs acc = acc.
Proof.
  induction attrs as [|kv l IH]; intros acc H; cbn [fold_left forallb] in *; [reflexivity|].
  apply andb_true_iff in H as [H1 H2]. apply negb_true_iff in H1. unfold svc_step at 2. rewrite H1. apply IH, H2.
Qed.

(* a resource without Resource message, or without a service.name attribute, stores service "" *)
Theorem unnamed_resource_service : forall r,
  match or_attrs r with
  | None => True
  | Some attrs => forallb (fun kv => negb (str_eqb (fst kv) service_name_key)) attrs = true
  end -> resource_service r = [].
Proof.
  intros r H. unfold resource_service. destruct (or_attrs r) as [attrs|]; [|reflexivity].
  exact (svc_fold_keep attrs [] H).
Qed.

(* the last service.name attribute wins *)
Theorem named_resource_service : forall pre v post scopes,
  forallb (fun kv => negb (str_eqb (fst kv) service_name_key)) post = true ->
  resource_service (mkRes (Some (pre ++ (service_name_key, Some v) :: post)) scopes) = v.
Proof.
  intros pre v post scopes H. unfold resource_service. cbn [or_attrs].
  change (fold_left svc_step (pre ++ (service_name_key, Some v) :: post) [] = v).
  rewrite fold_left_app. cbn [fold_left]. unfold svc_step at 2. cbn [fst snd]. rewrite str_eqb_refl.
  apply svc_fold_keep, H.
Qed.

Theorem bucket_order_irrelevant : forall winS winE recs b1 b2 p,
  Permutation b1 b2 -> search_traces winS winE recs b1 p = search_traces winS winE recs b2 p.
Proof. intros. unfold search_traces, page_ids. rewrite (str_sort_perm_eq b1 b2); auto. Qed.

From SigM Require Import Base Trace.
From SigP Require Import BaseProofs.
From Coq Require Import Lia ZifyN ZifyNat ZifyBool Permutation Sorted.
Ltac Zify.zify_post_hook ::= Z.div_mod_to_equations.
Open Scope N_scope.
From Coq Require Import List NArith Arith.
Import ListNotations.

(* 2^63: (a+b)/2 does not wrap in uint64 *)
Definition bounded (l : list N) : Prop := Forall (fun x => x < 9223372036854775808) l.

(* ------------------------------------------------------------------ *)
(* insertion sort                                                      *)
(* ------------------------------------------------------------------ *)
Lemma n_sort_cons a l : n_sort (a :: l) = n_insert a (n_sort l).
Proof. reflexivity. Qed.

Lemma n_insert_perm x l : Permutation (n_insert x l) (x :: l).
Proof.
  induction l as [|y r IH]; cbn [n_insert].
  - apply Permutation_refl.
  - destruct (x <=? y).
    + apply Permutation_refl.
    + etransitivity; [apply perm_skip, IH | apply perm_swap].
Qed.

Lemma n_sort_perm : forall l, Permutation (n_sort l) l.
Proof.
  induction l as [|a l IH].
  - constructor.
  - rewrite n_sort_cons. etransitivity; [apply n_insert_perm|]. apply perm_skip, IH.
Qed.

Lemma n_sort_length l : length (n_sort l) = length l.
Proof. apply Permutation_length, n_sort_perm. Qed.

Lemma n_insert_ssorted x l : StronglySorted N.le l -> StronglySorted N.le (n_insert x l).
Proof.
  induction 1 as [|y r Hr IH Hy]; cbn [n_insert].
  - constructor; constructor.
  - destruct (x <=? y) eqn:E.
    + constructor.
      * constructor; auto.
      * constructor; [lia|]. eapply Forall_impl; [|exact Hy]. intros z Hz; cbn in Hz. lia.
    + constructor; auto.
      apply (Permutation_Forall (Permutation_sym (n_insert_perm x r))).
      constructor; [lia|auto].
Qed.

Lemma n_sort_ssorted l : StronglySorted N.le (n_sort l).
Proof.
  induction l as [|a l IH].
  - constructor.
  - rewrite n_sort_cons. apply n_insert_ssorted, IH.
Qed.

Lemma n_sort_sorted : forall l, Sorted N.le (n_sort l).
Proof. intros l. apply StronglySorted_Sorted, n_sort_ssorted. Qed.

Lemma ssorted_perm_unique : forall l1 l2,
  StronglySorted N.le l1 -> StronglySorted N.le l2 -> Permutation l1 l2 -> l1 = l2.
Proof.
  induction l1 as [|x l1 IH]; intros [|y l2] S1 S2 P.
  - reflexivity.
  - apply Permutation_nil in P. discriminate.
  - apply Permutation_sym, Permutation_nil in P. discriminate.
  - apply StronglySorted_inv in S1 as [S1 F1]. apply StronglySorted_inv in S2 as [S2 F2].
    assert (Hx : In x (y :: l2)) by (apply (Permutation_in _ P); left; reflexivity).
    assert (Hy : In y (x :: l1)) by (apply (Permutation_in _ (Permutation_sym P)); left; reflexivity).
    rewrite Forall_forall in F1, F2.
    assert (E : x = y).
    { destruct Hx as [Hx|Hx]; [auto|]. destruct Hy as [Hy|Hy]; [auto|].
      apply F2 in Hx. apply F1 in Hy. lia. }
    subst y. f_equal. apply IH; auto. eapply Permutation_cons_inv; exact P.
Qed.

Lemma sorted_perm_unique : forall l1 l2, Sorted N.le l1 -> Sorted N.le l2 -> Permutation l1 l2 -> l1 = l2.
Proof.
  intros l1 l2 S1 S2 P.
  assert (T : Relations_1.Transitive N.le) by (intros x y z; apply N.le_trans).
  apply ssorted_perm_unique; auto; apply Sorted_StronglySorted; auto.
Qed.

Lemma n_sort_perm_eq : forall l1 l2, Permutation l1 l2 -> n_sort l1 = n_sort l2.
Proof.
  intros l1 l2 P. apply ssorted_perm_unique; try apply n_sort_ssorted.
  etransitivity; [apply n_sort_perm|]. etransitivity; [exact P|]. apply Permutation_sym, n_sort_perm.
Qed.

Lemma ssorted_app l1 l2 : StronglySorted N.le l1 -> StronglySorted N.le l2 ->
  (forall x y, In x l1 -> In y l2 -> x <= y) -> StronglySorted N.le (l1 ++ l2).
Proof.
  induction 1 as [|x r Hr IH Hx]; intros S2 H; cbn [app]; auto.
  constructor.
  - apply IH; auto. intros a b Ha Hb. apply H; auto. right; auto.
  - apply Forall_app; split; auto.
    apply Forall_forall. intros b Hb. apply H; auto. left; auto.
Qed.

(* three-way partition of the sorted list *)
Lemma partition_perm p l :
  Permutation l (filter (fun x => x <? p) l ++ filter (fun x => x =? p) l ++ filter (fun x => p <? x) l).
Proof.
  induction l as [|a l IH]; cbn [filter]; [constructor|].
  destruct (a <? p) eqn:E1; destruct (a =? p) eqn:E2; destruct (p <? a) eqn:E3; try lia.
  - cbn [app]. apply perm_skip, IH.
  - apply Permutation_cons_app, IH.
  - rewrite app_assoc. apply Permutation_cons_app. rewrite <- app_assoc. apply IH.
Qed.

Lemma n_sort_partition p l :
  n_sort l = n_sort (filter (fun x => x <? p) l) ++ filter (fun x => x =? p) l
             ++ n_sort (filter (fun x => p <? x) l).
Proof.
  apply ssorted_perm_unique.
  - apply n_sort_ssorted.
  - apply ssorted_app; [apply n_sort_ssorted| |].
    + apply ssorted_app; [|apply n_sort_ssorted|].
      * induction l as [|a l IH]; cbn [filter]; [constructor|].
        destruct (a =? p) eqn:E; auto. constructor; auto.
        apply Forall_forall. intros b Hb. apply filter_In in Hb as [_ Hb]. lia.
      * intros x y Hx Hy. apply filter_In in Hx as [_ Hx].
        apply (Permutation_in _ (n_sort_perm _)) in Hy. apply filter_In in Hy as [_ Hy]. lia.
    + intros x y Hx Hy.
      apply (Permutation_in _ (n_sort_perm _)) in Hx. apply filter_In in Hx as [_ Hx].
      apply in_app_or in Hy as [Hy|Hy].
      * apply filter_In in Hy as [_ Hy]. lia.
      * apply (Permutation_in _ (n_sort_perm _)) in Hy. apply filter_In in Hy as [_ Hy]. lia.
  - etransitivity; [apply n_sort_perm|]. etransitivity; [apply (partition_perm p)|].
    apply Permutation_app; [apply Permutation_sym, n_sort_perm|].
    apply Permutation_app; [apply Permutation_refl | apply Permutation_sym, n_sort_perm].
Qed.

(* ------------------------------------------------------------------ *)
(* chunks                                                              *)
(* ------------------------------------------------------------------ *)
Lemma chunks5_S f arr : arr <> [] -> chunks5 (S f) arr = firstn 5 arr :: chunks5 f (skipn 5 arr).
Proof. destruct arr; [congruence | reflexivity]. Qed.

Lemma chunks5_nil f : chunks5 f [] = [].
Proof. destruct f; reflexivity. Qed.

Lemma chunks5_flat (g : list N -> list N) : (forall c, Permutation (g c) c) ->
  forall fuel arr, (length arr <= fuel)%nat -> Permutation (flat_map g (chunks5 fuel arr)) arr.
Proof.
  intros Hg. induction fuel as [|f IH]; intros arr H.
  - destruct arr; cbn in H; [constructor | lia].
  - destruct arr as [|a r]; [constructor|].
    rewrite chunks5_S by discriminate. cbn [flat_map].
    rewrite <- (firstn_skipn 5 (a :: r)) at 3.
    apply Permutation_app; [apply Hg|]. apply IH. rewrite skipn_length. cbn [length] in *. lia.
Qed.

Lemma pp_mutate_perm : forall l, Permutation (pp_mutate l) l.
Proof.
  intros l. unfold pp_mutate. destruct (Nat.ltb (length l) 5).
  - apply n_sort_perm.
  - apply chunks5_flat; [|lia].
    intros c. destruct (Nat.eqb (length c) 5); [apply n_sort_perm | apply Permutation_refl].
Qed.

Lemma chunks5_incl : forall fuel arr c, In c (chunks5 fuel arr) -> incl c arr.
Proof.
  induction fuel as [|f IH]; intros arr c H; [destruct H|].
  destruct arr as [|a r]; [destruct H|].
  rewrite chunks5_S in H by discriminate. intros x Hx.
  rewrite <- (firstn_skipn 5 (a :: r)). apply in_or_app.
  destruct H as [<-|H]; [left; exact Hx|]. right. exact (IH _ _ H x Hx).
Qed.

Lemma chunks5_full_len : forall fuel arr,
  (5 * length (filter (fun c => Nat.eqb (length c) 5) (chunks5 fuel arr)) <= length arr)%nat.
Proof.
  induction fuel as [|f IH]; intros arr; [cbn; lia|].
  destruct arr as [|a r]; [cbn; lia|].
  rewrite chunks5_S by discriminate. cbn [filter].
  specialize (IH (skipn 5 (a :: r))). rewrite skipn_length in IH.
  destruct (Nat.eqb (length (firstn 5 (a :: r))) 5) eqn:E.
  - apply Nat.eqb_eq in E. rewrite firstn_length in E. cbn [length] in *. lia.
  - lia.
Qed.

Lemma full_chunks_len arr : (5 * length (full_chunks arr) <= length arr)%nat.
Proof. apply chunks5_full_len. Qed.

Lemma full_chunks_nonempty arr : (5 <= length arr)%nat -> (1 <= length (full_chunks arr))%nat.
Proof.
  intros H. unfold full_chunks.
  assert (Hne : arr <> []) by (intros ->; cbn in H; lia).
  destruct (length arr) as [|n] eqn:El; [lia|].
  rewrite chunks5_S by exact Hne. cbn [filter].
  assert (E : Nat.eqb (length (firstn 5 arr)) 5 = true)
    by (apply Nat.eqb_eq; rewrite firstn_length; lia).
  rewrite E. cbn [length]. lia.
Qed.

Lemma median_in arr m :
  In m (map (fun c => nth 2 (n_sort c) 0) (full_chunks arr)) -> In m arr.
Proof.
  rewrite in_map_iff. intros (c & <- & Hc).
  unfold full_chunks in Hc. apply filter_In in Hc as [Hc Hl]. apply Nat.eqb_eq in Hl.
  apply (chunks5_incl _ _ _ Hc). apply (Permutation_in _ (n_sort_perm c)).
  apply nth_In. rewrite n_sort_length. lia.
Qed.

(* ------------------------------------------------------------------ *)
(* pivots                                                              *)
(* ------------------------------------------------------------------ *)
Definition between (l : list N) (p : N) : Prop := exists a b, In a l /\ In b l /\ a <= p <= b.

Lemma avg64_bounds x y : x < 9223372036854775808 -> y < 9223372036854775808 ->
  x <= y -> x <= avg64 x y <= y.
Proof. intros Hx Hy H. unfold avg64, add64, pow2_64. lia. Qed.

Lemma avg64_comm x y : avg64 x y = avg64 y x.
Proof. unfold avg64, add64. rewrite N.add_comm. reflexivity. Qed.

Lemma between_in l x : In x l -> between l x.
Proof. intros H. exists x, x. repeat split; auto; lia. Qed.

Lemma between_avg l x y : bounded l -> In x l -> In y l -> between l (avg64 x y).
Proof.
  intros B Hx Hy. unfold bounded in B. rewrite Forall_forall in B.
  destruct (N.le_ge_cases x y) as [H|H].
  - exists x, y. repeat split; auto; apply avg64_bounds; auto.
  - exists y, x. rewrite avg64_comm. repeat split; auto; apply avg64_bounds; auto.
Qed.

Lemma between_incl l l' p : incl l l' -> between l p -> between l' p.
Proof. intros H (a & b & Ha & Hb & Hab). exists a, b. repeat split; auto; lia. Qed.

Lemma bounded_incl l l' : incl l' l -> bounded l -> bounded l'.
Proof.
  unfold bounded. rewrite !Forall_forall. intros H B x Hx. apply B, H, Hx.
Qed.

Lemma sorted_nth_in l i : (i < length l)%nat -> In (nth i (n_sort l) 0) l.
Proof.
  intros H. apply (Permutation_in _ (n_sort_perm l)). apply nth_In. rewrite n_sort_length. exact H.
Qed.

Lemma nlogn_median_between arr : bounded arr -> (1 <= length arr)%nat ->
  exists p, nlogn_median arr = Some p /\ between arr p.
Proof.
  intros B H. unfold nlogn_median. cbv zeta. rewrite n_sort_length.
  destruct (Nat.eqb (length arr) 0) eqn:E0; [lia|].
  destruct (Nat.eqb (length arr mod 2) 1) eqn:E1.
  - eexists; split; [reflexivity|]. apply between_in, sorted_nth_in. lia.
  - eexists; split; [reflexivity|]. apply between_avg; auto; apply sorted_nth_in; lia.
Qed.

Definition pivot_of (f : nat) (arr : list N) : option N :=
  if Nat.ltb (length arr) 5 then nlogn_median arr
  else
    let medians := map (fun c => nth 2 (n_sort c) 0) (full_chunks arr) in
    let n := length medians in
    if Nat.eqb (n mod 2) 1 then qsel f medians (n / 2)
    else
      match qsel f medians (n / 2 - 1), qsel f (pp_mutate medians) (n / 2) with
      | Some a, Some b => Some (avg64 a b)
      | _, _ => None
      end.

Lemma qsel_S2 f arr k : (2 <= length arr)%nat ->
  qsel (S f) arr k =
  match pivot_of f arr with
  | None => None
  | Some p =>
    if Nat.ltb k (length (filter (fun x => x <? p) (pp_mutate arr)))
    then qsel f (filter (fun x => x <? p) (pp_mutate arr)) k
    else if Nat.ltb k (length (filter (fun x => x <? p) (pp_mutate arr))
                       + length (filter (fun x => x =? p) (pp_mutate arr)))
    then match filter (fun x => x =? p) (pp_mutate arr) with x :: _ => Some x | [] => None end
    else qsel f (filter (fun x => p <? x) (pp_mutate arr))
           (k - length (filter (fun x => x <? p) (pp_mutate arr))
              - length (filter (fun x => x =? p) (pp_mutate arr)))
  end.
Proof.
  intros H. destruct arr as [|x [|y r]]; cbn [length] in H; try lia. reflexivity.
Qed.

Lemma qsel_single f x k : qsel (S f) [x] k = Some x.
Proof. reflexivity. Qed.

Definition qsel_ok (f : nat) : Prop :=
  forall l k, bounded l -> (k < length l)%nat -> (length l <= f)%nat ->
    qsel f l k = Some (nth k (n_sort l) 0).

Lemma pivot_between f arr : qsel_ok f -> bounded arr -> (2 <= length arr)%nat ->
  (length arr <= S f)%nat -> exists p, pivot_of f arr = Some p /\ between arr p.
Proof.
  intros IH B H2 Hf. unfold pivot_of.
  destruct (Nat.ltb (length arr) 5) eqn:E5.
  - apply nlogn_median_between; auto. lia.
  - cbv zeta. set (med := map (fun c => nth 2 (n_sort c) 0) (full_chunks arr)).
    assert (Hin : incl med arr) by (intros m Hm; apply median_in; exact Hm).
    assert (Hl1 : (1 <= length med)%nat)
      by (unfold med; rewrite map_length; apply full_chunks_nonempty; lia).
    assert (Hl2 : (5 * length med <= length arr)%nat)
      by (unfold med; rewrite map_length; apply full_chunks_len).
    assert (Bm : bounded med) by (eapply bounded_incl; eauto).
    destruct (Nat.eqb (length med mod 2) 1) eqn:E2.
    + rewrite IH by (auto; lia).
      eexists; split; [reflexivity|]. apply (between_incl med); auto.
      apply between_in, sorted_nth_in. lia.
    + pose proof (pp_mutate_perm med) as Pm.
      assert (Lm : length (pp_mutate med) = length med) by (apply Permutation_length, Pm).
      assert (Bp : bounded (pp_mutate med)).
      { eapply bounded_incl; [|exact Bm]. intros z Hz. apply (Permutation_in _ Pm), Hz. }
      rewrite IH by (auto; lia).
      rewrite IH by (auto; lia).
      rewrite (n_sort_perm_eq _ _ Pm).
      eexists; split; [reflexivity|]. apply (between_incl med); auto.
      apply between_avg; auto; apply sorted_nth_in; lia.
Qed.

Lemma filter_length_le {A} (g : A -> bool) l : (length (filter g l) <= length l)%nat.
Proof. induction l as [|a l IH]; cbn [filter length]; [lia|]. destruct (g a); cbn [length]; lia. Qed.

Lemma filter_length_lt {A} (g : A -> bool) l b : In b l -> g b = false ->
  (length (filter g l) < length l)%nat.
Proof.
  induction l as [|a l IH]; intros Hb Hg; [destruct Hb|].
  cbn [filter length]. destruct Hb as [->|Hb].
  - rewrite Hg. pose proof (filter_length_le g l). lia.
  - specialize (IH Hb Hg). destruct (g a); cbn [length]; lia.
Qed.

Lemma filter_incl {A} (g : A -> bool) l : incl (filter g l) l.
Proof. intros x Hx. apply filter_In in Hx. tauto. Qed.

Lemma qsel_step f : qsel_ok f -> qsel_ok (S f).
Proof.
  intros IH arr k B Hk Hf.
  destruct (Nat.eq_dec (length arr) 1) as [E1|E1].
  - destruct arr as [|x [|y r]]; cbn [length] in E1; try lia.
    rewrite qsel_single. cbn [length] in Hk. replace k with 0%nat by lia. reflexivity.
  - assert (H2 : (2 <= length arr)%nat) by lia.
    rewrite qsel_S2 by exact H2.
    destruct (pivot_between f arr IH B H2 Hf) as (p & -> & (a & b & Ha & Hb & Hab)).
    pose proof (pp_mutate_perm arr) as Pa.
    set (a' := pp_mutate arr) in *.
    assert (La : length a' = length arr) by (apply Permutation_length, Pa).
    assert (Ba : bounded a').
    { eapply bounded_incl; [|exact B]. intros z Hz. apply (Permutation_in _ Pa), Hz. }
    apply (Permutation_in _ (Permutation_sym Pa)) in Ha, Hb.
    set (lows := filter (fun x => x <? p) a').
    set (pivots := filter (fun x => x =? p) a').
    set (highs := filter (fun x => p <? x) a').
    assert (Hlow : (length lows < length a')%nat)
      by (apply (filter_length_lt _ _ b); auto; lia).
    assert (Hhigh : (length highs < length a')%nat)
      by (apply (filter_length_lt _ _ a); auto; lia).
    assert (Dec : n_sort arr = n_sort lows ++ pivots ++ n_sort highs).
    { rewrite (n_sort_perm_eq _ _ (Permutation_sym Pa)). apply n_sort_partition. }
    assert (Len : (length arr = length lows + length pivots + length highs)%nat).
    { rewrite <- (n_sort_length arr), Dec, !app_length, !n_sort_length. lia. }
    assert (Hpiv : forall i, (i < length pivots)%nat -> nth i pivots 0 = p).
    { intros i Hi. assert (Hn : In (nth i pivots 0) pivots) by (apply nth_In; exact Hi).
      apply filter_In in Hn as [_ Hn]. lia. }
    rewrite Dec.
    destruct (Nat.ltb k (length lows)) eqn:C1.
    + rewrite IH.
      * rewrite app_nth1 by (rewrite n_sort_length; lia). reflexivity.
      * eapply bounded_incl; [apply filter_incl | exact Ba].
      * lia.
      * lia.
    + rewrite app_nth2 by (rewrite n_sort_length; lia). rewrite n_sort_length.
      destruct (Nat.ltb k (length lows + length pivots)) eqn:C2.
      * rewrite app_nth1 by lia. rewrite Hpiv by lia.
        specialize (Hpiv 0%nat). destruct pivots as [|x ps]; cbn [length] in *; [lia|].
        cbn [nth] in Hpiv. rewrite Hpiv by lia. reflexivity.
      * rewrite app_nth2 by lia. rewrite IH.
        -- reflexivity.
        -- eapply bounded_incl; [apply filter_incl | exact Ba].
        -- lia.
        -- lia.
Qed.

Theorem qsel_correct : forall fuel l k, bounded l -> (k < length l)%nat -> (length l <= fuel)%nat ->
  qsel fuel l k = Some (nth k (n_sort l) 0).
Proof.
  induction fuel as [|f IH].
  - intros l k _ Hk Hf. lia.
  - apply qsel_step. exact IH.
Qed.

Theorem quickselect_correct : forall l k, bounded l -> (k < length l)%nat ->
  quickselect l k = Some (nth k (n_sort l) 0).
Proof. intros l k B Hk. unfold quickselect. apply qsel_correct; auto. Qed.

(* percentile = linear interpolation between the two neighbouring order statistics *)
Definition pct_spec_x100 (s : list N) (p : nat) : N :=
  let a := (p * (length s - 1))%nat in
  let lo := nth (a / 100) s 0 in
  if Nat.eqb (a mod 100) 0 then 100 * lo
  else 100 * lo + (nth (S (a / 100)) s 0 - lo) * N.of_nat (a mod 100).

Theorem find_percentile_correct : forall l p, l <> [] -> (p <= 100)%nat -> bounded l ->
  find_percentile_x100 l p = Some (pct_spec_x100 (n_sort l) p).
Proof.
  intros l p Hne Hp B. unfold find_percentile_x100, pct_spec_x100. cbv zeta.
  rewrite n_sort_length.
  destruct l as [|x r] eqn:El; [congruence|]. rewrite <- El in *. clear El.
  assert (Hlen : (1 <= length l)%nat) by (destruct l; [congruence | cbn; lia]).
  destruct (Nat.ltb 100 p) eqn:E100; [lia|].
  assert (Ha : (p * (length l - 1) <= 100 * (length l - 1))%nat) by (apply Nat.mul_le_mono_r; exact Hp).
  set (a := (p * (length l - 1))%nat) in *. clearbody a.
  destruct (Nat.eqb (a mod 100) 0) eqn:Er.
  - rewrite quickselect_correct by (auto; lia). reflexivity.
  - pose proof (pp_mutate_perm l) as Pm.
    assert (Lm : length (pp_mutate l) = length l) by (apply Permutation_length, Pm).
    assert (Bp : bounded (pp_mutate l)).
    { eapply bounded_incl; [|exact B]. intros z Hz. apply (Permutation_in _ Pm), Hz. }
    rewrite quickselect_correct by (auto; lia).
    rewrite quickselect_correct by (auto; lia).
    rewrite (n_sort_perm_eq _ _ Pm). reflexivity.
Qed.

Print Assumptions quickselect_correct.
Print Assumptions find_percentile_correct.

(* TsEncProofs.v — round trip of the timestamp column's top-diff encoding. *)
From Coq Require Import Lia.
From Coq Require Import ZifyN ZifyNat ZifyBool.
From SigM Require Import Base TsEnc.
From SigP Require Import BaseProofs.
Ltac Zify.zify_post_hook ::= Z.div_mod_to_equations.
Open Scope N_scope.

(* ---------- lowest / highest timestamp as the writer tracks them ---------- *)
Lemma fold_low_spec ts : forall a, a <> 0 -> Forall (fun t => t <> 0) ts ->
  let l := fold_left adj_low ts a in
  l <= a /\ l <> 0 /\ Forall (fun t => l <= t) ts.
Proof.
  induction ts as [|t r IH]; intros a Ha Hts; cbn [fold_left].
  - cbn. repeat split; auto; lia.
  - inversion Hts as [|? ? Ht Hr]; subst.
    assert (Ha' : adj_low a t <> 0) by (unfold adj_low; destruct (a =? 0) eqn:E; [lia|]; destruct (t <? a); lia).
    destruct (IH (adj_low a t) Ha' Hr) as (I1 & I2 & I3).
    assert (adj_low a t <= a /\ adj_low a t <= t).
    { unfold adj_low. destruct (a =? 0) eqn:E; [lia|]. destruct (t <? a) eqn:E2; lia. }
    cbn zeta. repeat split; try lia.
    constructor; [lia | exact I3].
Qed.

Lemma fold_high_spec ts : forall a, a <> 0 -> Forall (fun t => t <> 0) ts ->
  let h := fold_left adj_high ts a in
  a <= h /\ Forall (fun t => t <= h) ts.
Proof.
  induction ts as [|t r IH]; intros a Ha Hts; cbn [fold_left].
  - cbn. split; auto; lia.
  - inversion Hts as [|? ? Ht Hr]; subst.
    assert (Ha' : adj_high a t <> 0) by (unfold adj_high; destruct (a =? 0) eqn:E; [lia|]; destruct (a <? t); lia).
    destruct (IH (adj_high a t) Ha' Hr) as (I1 & I2).
    assert (a <= adj_high a t /\ t <= adj_high a t).
    { unfold adj_high. destruct (a =? 0) eqn:E; [lia|]. destruct (a <? t) eqn:E2; lia. }
    cbn zeta. split; try lia.
    constructor; [lia | exact I2].
Qed.

Lemma fold_high_bound B ts : forall a, a < B -> Forall (fun t => t < B) ts -> fold_left adj_high ts a < B.
Proof.
  induction ts as [|t r IH]; intros a Ha Hts; cbn [fold_left]; auto.
  inversion Hts; subst. apply IH; auto.
  unfold adj_high. destruct (a =? 0); auto. destruct (a <? t); auto.
Qed.

Definition ts_range (t : N) : Prop := 0 < t < pow2_64.

Lemma ts_ok_range t : ts_ok t = true -> ts_range t.
Proof. unfold ts_ok, ts_range. intros H. apply andb_true_iff in H as [H1 H2]. lia. Qed.

Lemma low_high_spec ts : ts <> [] -> Forall ts_range ts ->
  ts_low ts <> 0 /\ ts_high ts < pow2_64 /\ Forall (fun t => ts_low ts <= t <= ts_high ts) ts.
Proof.
  intros Hne Hr. destruct ts as [|t r]; [congruence|].
  inversion Hr as [|? ? Ht Hr']; subst.
  assert (Hnz : Forall (fun x => x <> 0) r) by (eapply Forall_impl; [|exact Hr']; unfold ts_range; cbn; lia).
  unfold ts_low, ts_high. cbn [fold_left].
  change (adj_low 0 t) with t. change (adj_high 0 t) with t.
  assert (Ht0 : t <> 0) by (unfold ts_range in Ht; lia).
  destruct (fold_low_spec r t Ht0 Hnz) as (L1 & L2 & L3).
  destruct (fold_high_spec r t Ht0 Hnz) as (H1 & H2).
  cbn zeta in *.
  repeat split; auto.
  - apply fold_high_bound; [unfold ts_range in Ht; lia|].
    eapply Forall_impl; [|exact Hr']. unfold ts_range; cbn; lia.
  - constructor; [lia|].
    rewrite Forall_forall in *. intros x Hx. specialize (L3 x Hx). specialize (H2 x Hx). lia.
Qed.

(* ---------- width selection ---------- *)
Lemma ts_width_spec d : d < pow2_64 ->
  let '(w, ty) := ts_width d in
  d < 256 ^ N.of_nat w /\ width_of_type ty = Some w /\ (1 <= w)%nat.
Proof.
  intros H. unfold ts_width.
  destruct (d <=? 255) eqn:E1; [cbn; repeat split; lia|].
  destruct (d <=? 65535) eqn:E2; [cbn; repeat split; lia|].
  destruct (d <=? 4294967295) eqn:E3; [cbn; repeat split; lia|].
  cbn. unfold pow2_64 in H. repeat split; lia.
Qed.

(* ---------- value list ---------- *)
Lemma ts_take_roundtrip w low xs : forall rest,
  Forall (fun x => x < 256 ^ N.of_nat w /\ x + low < pow2_64) xs ->
  ts_take w (length xs) low (concat (map (le_enc w) xs) ++ rest) = map (fun x => x + low) xs.
Proof.
  induction xs as [|x xs IH]; intros rest H; cbn [length ts_take map concat]; auto.
  inversion H as [|? ? [Hx1 Hx2] Hxs]; subst.
  rewrite <- app_assoc.
  rewrite firstn_app, le_enc_length, Nat.sub_diag. cbn [firstn]. rewrite app_nil_r.
  rewrite firstn_all2 by (rewrite le_enc_length; lia).
  rewrite skipn_app, le_enc_length, Nat.sub_diag. cbn [skipn].
  rewrite skipn_all2 by (rewrite le_enc_length; lia). cbn [app].
  rewrite le_dec_enc by exact Hx1.
  rewrite IH by exact Hxs. f_equal. unfold pow2_64 in *. rewrite N.mod_small; lia.
Qed.

Lemma concat_map_length {A} (f : A -> bytes) w xs : (forall x, length (f x) = w) ->
  length (concat (map f xs)) = (w * length xs)%nat.
Proof. intros H. induction xs as [|x xs IH]; cbn; [lia|]. rewrite app_length, H, IH. lia. Qed.

(* every block of timestamps the writer can produce decodes to the same timestamps:
   explicit guards: at least one record, fewer than 65536 records (RecCount is a uint16),
   timestamps in (0, 2^64) (0 is the writer's "not set" marker for LowTs/HighTs) *)
Theorem ts_roundtrip ts : ts <> [] -> Forall (fun t => ts_ok t = true) ts -> N.of_nat (length ts) < 65536 ->
  ts_decode (length ts) (ts_encode ts) = Some ts.
Proof.
  intros Hne Hok Hlen.
  assert (Hr : Forall ts_range ts) by (eapply Forall_impl; [|exact Hok]; apply ts_ok_range).
  destruct (low_high_spec ts Hne Hr) as (Hl0 & Hhi & Hbetween).
  assert (Hlh : ts_low ts <= ts_high ts).
  { destruct ts as [|t r]; [congruence|]. inversion Hbetween; subst. lia. }
  unfold ts_encode.
  assert (Hd : sub64 (ts_high ts) (ts_low ts) = ts_high ts - ts_low ts).
  { unfold sub64, pow2_64 in *. rewrite (N.mod_small (ts_low ts)) by lia.
    replace (ts_high ts + 18446744073709551616 - ts_low ts) with ((ts_high ts - ts_low ts) + 1 * 18446744073709551616) by lia.
    rewrite N.mod_add by lia. apply N.mod_small. lia. }
  rewrite Hd.
  pose proof (ts_width_spec (ts_high ts - ts_low ts)) as W.
  destruct (ts_width (ts_high ts - ts_low ts)) as [w ty].
  destruct W as (W1 & W2 & W3); [unfold pow2_64 in *; lia|].
  set (low := ts_low ts) in *.
  set (xs := map (fun t => sub64 t low) ts).
  assert (Ebody : concat (map (fun t => le_enc w (sub64 t low)) ts) = concat (map (le_enc w) xs))
    by (unfold xs; rewrite map_map; reflexivity).
  rewrite Ebody.
  assert (Lxs : length xs = length ts) by (unfold xs; apply map_length).
  assert (Lbody : length (concat (map (le_enc w) xs)) = (w * length ts)%nat).
  { rewrite (concat_map_length (le_enc w) w) by (intro; apply le_enc_length). lia. }
  unfold ts_decode.
  cbn [length].
  rewrite app_length. unfold le64. rewrite le_enc_length, Lbody.
  replace (Nat.ltb (S (S (8 + w * length ts))) 10) with false by (symmetry; apply Nat.ltb_ge; lia).
  change (TS_ENC =? TS_ENC) with true. cbn [negb].
  rewrite W2.
  rewrite firstn_app, le_enc_length, Nat.sub_diag, firstn_O, app_nil_r.
  rewrite firstn_all2 by (rewrite le_enc_length; lia).
  rewrite skipn_app, le_enc_length, Nat.sub_diag, skipn_O.
  rewrite skipn_all2 by (rewrite le_enc_length; lia). rewrite app_nil_l.
  rewrite le_dec_enc by (change (256 ^ N.of_nat 8) with 18446744073709551616; unfold pow2_64 in *; lia).
  rewrite Lbody.
  assert (Eavail : (N.of_nat (w * length ts) / N.of_nat w) mod 65536 = N.of_nat (length ts)).
  { rewrite Nat2N.inj_mul, N.mul_comm, N.div_mul by lia. apply N.mod_small. lia. }
  rewrite Eavail.
  replace (N.of_nat (length ts) <? N.of_nat (length ts)) with false by (symmetry; apply N.ltb_ge; lia).
  f_equal.
  rewrite <- Lxs. rewrite <- (app_nil_r (concat (map (le_enc w) xs))).
  rewrite ts_take_roundtrip.
  - unfold xs. rewrite map_map.
    rewrite <- (map_id ts) at 2. apply map_ext_in. intros t Ht.
    rewrite Forall_forall in Hbetween. specialize (Hbetween t Ht).
    unfold sub64, pow2_64 in *. rewrite (N.mod_small low) by lia.
    replace (t + 18446744073709551616 - low) with ((t - low) + 1 * 18446744073709551616) by lia.
    rewrite N.mod_add by lia. rewrite N.mod_small by lia. lia.
  - unfold xs. rewrite Forall_map. rewrite Forall_forall in *. intros t Ht.
    specialize (Hbetween t Ht).
    assert (E : sub64 t low = t - low).
    { unfold sub64, pow2_64 in *. rewrite (N.mod_small low) by lia.
      replace (t + 18446744073709551616 - low) with ((t - low) + 1 * 18446744073709551616) by lia.
      rewrite N.mod_add by lia. apply N.mod_small. lia. }
    rewrite E. unfold pow2_64 in *. split; lia.
Qed.

(* the width is the smallest of 1/2/4/8 bytes that holds HighTs - LowTs *)
Lemma ts_width_boundaries :
  ts_width 255 = (1%nat, 1) /\ ts_width 256 = (2%nat, 2) /\ ts_width 65535 = (2%nat, 2) /\
  ts_width 65536 = (4%nat, 3) /\ ts_width 4294967295 = (4%nat, 3) /\ ts_width 4294967296 = (8%nat, 4).
Proof. repeat split; reflexivity. Qed.

(* TsidProofs.v — when the TSID pre-image identifies a series, and when it does not. *)
From Coq Require Import Lia.
From SigM Require Import Base Tsid.
From SigP Require Import BaseProofs.
Open Scope N_scope.

Definition no_us (b : bytes) : Prop := ~ In 95 b.

(* cutting at the first underscore is unambiguous when the prefixes have none *)
Lemma split_at_us a : forall a' r r', no_us a -> no_us a' ->
  a ++ 95 :: r = a' ++ 95 :: r' -> a = a' /\ r = r'.
Proof.
  induction a as [|x a IH]; intros [|y a'] r r' Ha Ha' E; cbn in E.
  - injection E as E. auto.
  - injection E as E1 E2. exfalso. apply Ha'. left. auto.
  - injection E as E1 E2. exfalso. apply Ha. left. auto.
  - injection E as E1 E2. subst y.
    destruct (IH a' r r') as [-> ->]; auto.
    + intro H. apply Ha. right. exact H.
    + intro H. apply Ha'. right. exact H.
Qed.

(* Series with at most one tag: equal pre-images imply equal name, key and value,
   provided names and keys contain no underscore.  (Values are unrestricted.) *)
Theorem preimage_injective_le1 n1 n2 (t1 t2 : list tagp) :
  (length t1 <= 1)%nat -> (length t2 <= 1)%nat ->
  no_us n1 -> no_us n2 -> Forall (fun kv => no_us (fst kv)) t1 -> Forall (fun kv => no_us (fst kv)) t2 ->
  preimage n1 t1 = preimage n2 t2 -> n1 = n2 /\ t1 = t2.
Proof.
  intros L1 L2 Hn1 Hn2 Hk1 Hk2 E. unfold preimage, preimage_sorted, SEP in E.
  destruct t1 as [|[k1 v1] [|? ?]]; cbn in L1; try lia;
  destruct t2 as [|[k2 v2] [|? ?]]; cbn in L2; try lia; cbn in E.
  - apply split_at_us in E as [-> _]; auto.
  - apply split_at_us in E as [-> E]; auto. exfalso.
    injection E as E. destruct k2; cbn in E; discriminate.
  - apply split_at_us in E as [-> E]; auto. exfalso.
    injection E as E. destruct k1; cbn in E; discriminate.
  - rewrite !app_nil_r in E.
    apply split_at_us in E as [-> E]; auto.
    injection E as E.
    inversion Hk1 as [|? ? Hk1' _]; inversion Hk2 as [|? ? Hk2' _]; subst. cbn in *.
    try rewrite <- !app_assoc in E. cbn in E.
    apply split_at_us in E as [-> E]; auto.
    injection E as ->. auto.
Qed.

(* With two tags the pre-image is NOT injective even for purely alphanumeric keys and values:
   a value runs into the following key because no separator is written after a value. *)
Definition s (l : list N) := l.
Theorem preimage_collision_refuted :
  exists n (t1 t2 : list tagp),
    t1 <> t2 /\ sort_desc t1 = t1 /\ sort_desc t2 = t2 /\ preimage n t1 = preimage n t2.
Proof.
  (* c{z="1",ab="2"}  vs  c{z="1a",b="2"} *)
  exists [99], [([122], [49]); ([97;98], [50])], [([122], [49;97]); ([98], [50])].
  split; [discriminate|]. repeat split; vm_compute; reflexivity.
Qed.

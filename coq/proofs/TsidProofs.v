(* TsidProofs.v — when the TSID pre-image identifies a series, and when it does not. *)
From Coq Require Import Lia.
From SigM Require Import Base Tsid.
From SigP Require Import BaseProofs.
Open Scope N_scope.

Definition no_us (b : bytes) : Prop := ~ In 95 b.

(* cutting at the first underscore is unambiguous when the prefixes have none *)
Lemma split_at_us a : forall a' r r', no_us a -> no_us a' ->
  a ++ 95 :: r = a' ++ 95 :: r' -> a = a' /\ r = r'.
Proof.
  induction a as [|x a IH]; intros [|y a'] r r' Ha Ha' E; cbn in E.
  - injection E as E. auto.
  - injection E as E1 E2. exfalso. apply Ha'. left. auto.
  - injection E as E1 E2. exfalso. apply Ha. left. auto.
  - injection E as E1 E2. subst y.
    destruct (IH a' r r') as [-> ->]; auto.
    + intro H. apply Ha. right. exact H.
    + intro H. apply Ha'. right. exact H.
Qed.

(* Series with at most one tag: equal pre-images imply equal name, key and value,
   provided names and keys contain no underscore.  (Values are unrestricted.) *)
Theorem preimage_injective_le1 n1 n2 (t1 t2 : list tagp) :
  (length t1 <= 1)%nat -> (length t2 <= 1)%nat ->
  no_us n1 -> no_us n2 -> Forall (fun kv => no_us (fst kv)) t1 -> Forall (fun kv => no_us (fst kv)) t2 ->
  preimage n1 t1 = preimage n2 t2 -> n1 = n2 /\ t1 = t2.
Proof.
  intros L1 L2 Hn1 Hn2 Hk1 Hk2 E. unfold preimage, preimage_sorted, SEP in E.
  destruct t1 as [|[k1 v1] [|? ?]]; cbn in L1; try lia;
  destruct t2 as [|[k2 v2] [|? ?]]; cbn in L2; try lia; cbn in E.
  - apply split_at_us in E as [-> _]; auto.
  - apply split_at_us in E as [-> E]; auto. exfalso.
    injection E as E. destruct k2; cbn in E; discriminate.
  - apply split_at_us in E as [-> E]; auto. exfalso.
    injection E as E. destruct k1; cbn in E; discriminate.
  - rewrite !app_nil_r in E.
    apply split_at_us in E as [-> E]; auto.
    injection E as E.
    inversion Hk1 as [|? ? Hk1' _]; inversion Hk2 as [|? ? Hk2' _]; subst. cbn in *.
    try rewrite <- !app_assoc in E. cbn in E.
    apply split_at_us in E as [-> E]; auto.
    injection E as ->. auto.
Qed.

(* With two tags the pre-image is NOT injective even for purely alphanumeric keys and values:
   a value runs into the following key because no separator is written after a value. *)
Definition s (l : list N) := l.
Theorem preimage_collision_refuted :
  exists n (t1 t2 : list tagp),
    t1 <> t2 /\ sort_desc t1 = t1 /\ sort_desc t2 = t2 /\ preimage n t1 = preimage n t2.
Proof.
  (* c{z="1",ab="2"}  vs  c{z="1a",b="2"} *)
  exists [99], [([122], [49]); ([97;98], [50])], [([122], [49;97]); ([98], [50])].
  split; [discriminate|]. repeat split; vm_compute; reflexivity.
Qed.

(* ---- any number of tags: series that carry the SAME tag keys (the usual case: one metric, one label
   schema, different label values) are never merged, provided names, keys and values contain no
   underscore.  The conclusion is about the canonical (sorted) tag lists, i.e. the tag SETS. ---- *)
Fixpoint insert_key (k : bytes) (l : list bytes) : list bytes :=
  match l with
  | [] => [k]
  | u :: r => if bytes_gtb u k then u :: insert_key k r else k :: l
  end.
Definition sort_keys (l : list bytes) : list bytes := fold_right insert_key [] l.

Lemma insert_desc_keys t l : map fst (insert_desc t l) = insert_key (fst t) (map fst l).
Proof.
  induction l as [|u r IH]; cbn [insert_desc insert_key map]; [reflexivity|].
  destruct (bytes_gtb (fst u) (fst t)); cbn [map]; [rewrite IH|]; reflexivity.
Qed.

Lemma sort_desc_keys l : map fst (sort_desc l) = sort_keys (map fst l).
Proof.
  unfold sort_desc, sort_keys. induction l as [|t l IH]; cbn [fold_right map]; [reflexivity|].
  rewrite insert_desc_keys, IH. reflexivity.
Qed.

Lemma no_us_app a b : no_us a -> no_us b -> no_us (a ++ b).
Proof. unfold no_us. intros Ha Hb H. apply in_app_or in H as [H|H]; auto. Qed.

Definition tag_no_us (kv : tagp) : Prop := no_us (fst kv) /\ no_us (snd kv).

Lemma tags_same_keys_injective : forall (s1 s2 : list tagp),
  map fst s1 = map fst s2 -> Forall tag_no_us s1 -> Forall tag_no_us s2 ->
  concat (map (fun kv => fst kv ++ SEP ++ snd kv) s1) = concat (map (fun kv => fst kv ++ SEP ++ snd kv) s2) ->
  s1 = s2.
Proof.
  induction s1 as [|[k v] s1 IH]; intros [|[k' v'] s2] K F1 F2 E; cbn [map] in K; try discriminate; [reflexivity|].
  injection K as -> K.
  inversion F1 as [|? ? [Hk Hv] F1']; inversion F2 as [|? ? [_ Hv'] F2']; subst. cbn [fst snd] in *.
  cbn [map concat fst snd] in E. unfold SEP in E. rewrite <- !app_assoc in E.
  apply app_inv_head in E. cbn [app] in E. injection E as E.
  destruct s1 as [|[k1 w1] s1]; destruct s2 as [|[k2 w2] s2]; cbn [map] in K; try discriminate.
  - cbn [map concat] in E. rewrite !app_nil_r in E. subst. reflexivity.
  - injection K as Kk K.
    assert (E' : (v ++ k1) ++ 95 :: 95 :: w1 ++ concat (map (fun kv => fst kv ++ [95;95] ++ snd kv) s1)
               = (v' ++ k2) ++ 95 :: 95 :: w2 ++ concat (map (fun kv => fst kv ++ [95;95] ++ snd kv) s2)).
    { cbn [map concat fst snd] in E. rewrite <- !app_assoc in E. cbn [app] in E.
      rewrite <- !app_assoc. cbn [app]. exact E. }
    inversion F1' as [|? ? [Hk1 _] _]; inversion F2' as [|? ? [Hk2 _] _]; subst. cbn [fst snd] in *.
    apply split_at_us in E' as [Ev _]; [|apply no_us_app; assumption|apply no_us_app; assumption].
    apply app_inv_tail in Ev. subst v'.
    apply app_inv_head in E.
    f_equal. apply IH; try assumption.
    cbn [map fst]. f_equal. exact K.
Qed.

Theorem preimage_injective_same_keys n1 n2 (t1 t2 : list tagp) :
  map fst t1 = map fst t2 -> no_us n1 -> no_us n2 -> Forall tag_no_us t1 -> Forall tag_no_us t2 ->
  preimage n1 t1 = preimage n2 t2 -> n1 = n2 /\ sort_desc t1 = sort_desc t2.
Proof.
  intros K Hn1 Hn2 F1 F2 E. unfold preimage, preimage_sorted, SEP in E. cbn [app] in E.
  apply split_at_us in E as [-> E]; auto. injection E as E. split; [reflexivity|].
  assert (P : forall t, Forall tag_no_us t -> Forall tag_no_us (sort_desc t)).
  { intros t F. unfold sort_desc. induction F as [|x l Hx F IHF]; cbn [fold_right]; [constructor|].
    revert IHF. generalize (fold_right insert_desc [] l) as acc. induction acc as [|u r IHr]; intros Hacc; cbn [insert_desc].
    - constructor; auto.
    - inversion Hacc; subst. destruct (bytes_gtb (fst u) (fst x)); constructor; auto. }
  apply tags_same_keys_injective; auto.
  rewrite !sort_desc_keys, K. reflexivity.
Qed.

Example preimage_same_keys_guard_sat :
  let t1 := [([104;111;115;116], [104;49]); ([100;99], [101;117])] in   (* host=h1, dc=eu *)
  let t2 := [([104;111;115;116], [104;50]); ([100;99], [101;117])] in   (* host=h2, dc=eu *)
  map fst t1 = map fst t2 /\ Forall tag_no_us t1 /\ Forall tag_no_us t2 /\ preimage [99] t1 <> preimage [99] t2.
Proof.
  cbv zeta. split; [reflexivity|]. split; [|split].
  - repeat constructor; cbn; intros H; repeat (destruct H as [H|H]; [discriminate|]); exact H.
  - repeat constructor; cbn; intros H; repeat (destruct H as [H|H]; [discriminate|]); exact H.
  - vm_compute. discriminate.
Qed.

(* WalHandoffProofs.v — forced rotation: the hand-off from the three metrics WALs to the store is crash-safe at every
   milestone boundary exactly when every log is dropped only after what it held has been stored. *)
From Coq Require Import Lia.
From SigM Require Import Base WalHandoff.
From SigP Require Import BaseProofs.
Open Scope N_scope.

Lemma kind_eqb_eq a b : kind_eqb a b = true <-> a = b.
Proof. destruct a, b; simpl; split; intros H; try reflexivity; try discriminate H. Qed.

Lemma item_eqb_eq a b : item_eqb a b = true <-> a = b.
Proof.
  destruct a as [k s], b as [k' s']. unfold item_eqb. cbn [fst snd].
  rewrite andb_true_iff, kind_eqb_eq, N.eqb_eq. split.
  - intros [-> ->]. reflexivity.
  - intros H. inversion H. auto.
Qed.

Lemma item_eqb_refl a : item_eqb a a = true.
Proof. apply item_eqb_eq. reflexivity. Qed.

Lemma item_eqb_sym a b : item_eqb a b = item_eqb b a.
Proof.
  destruct (item_eqb a b) eqn:E.
  - apply item_eqb_eq in E. subst. symmetry. apply item_eqb_refl.
  - destruct (item_eqb b a) eqn:F; auto. apply item_eqb_eq in F. subst. rewrite item_eqb_refl in E. discriminate E.
Qed.

(* the log of x is removed by milestone o *)
Definition gone_by (o : hop) (x : item) : bool :=
  match o with
  | Stored _ _ => false
  | Dropped KMeta _ => is_meta (fst x)
  | Dropped k sh => item_eqb (k, sh) x
  end.

Lemma covers_filter xs o : covers xs o = filter (gone_by o) xs.
Proof.
  destruct o as [k sh|k sh]; cbn [covers gone_by].
  - induction xs; simpl; auto.
  - destruct k; reflexivity.
Qed.

Lemma stored_dropped s k sh : stored (hstep s (Dropped k sh)) = stored s.
Proof. destruct k; reflexivity. Qed.

Lemma item_eqb_kind_diff k sh x : is_meta (fst x) = true -> is_meta k = false -> item_eqb (k, sh) x = false.
Proof.
  destruct x as [k' s']. cbn [fst]. intros Hx Hk. unfold item_eqb. cbn [fst snd].
  destruct k, k'; simpl in *; try discriminate; reflexivity.
Qed.

Lemma recovered_dropped s k sh x :
  recovered (hstep s (Dropped k sh)) x
  = if gone_by (Dropped k sh) x then memi x (stored s) else recovered s x.
Proof.
  unfold recovered. rewrite stored_dropped. unfold log_gone.
  destruct k; cbn [hstep gone_by dropped meta_dropped].
  - (* KDp *)
    destruct (is_meta (fst x)) eqn:Hm.
    + rewrite item_eqb_kind_diff by auto. reflexivity.
    + unfold memi at 2. cbn [existsb]. rewrite (item_eqb_sym x (KDp, sh)).
      destruct (item_eqb (KDp, sh) x); cbn [orb negb]; [rewrite orb_false_r|]; reflexivity.
  - (* KName *)
    destruct (is_meta (fst x)) eqn:Hm.
    + rewrite item_eqb_kind_diff by auto. reflexivity.
    + unfold memi at 2. cbn [existsb]. rewrite (item_eqb_sym x (KName, sh)).
      destruct (item_eqb (KName, sh) x); cbn [orb negb]; [rewrite orb_false_r|]; reflexivity.
  - (* KMeta *)
    destruct (is_meta (fst x)); cbn [negb]; [rewrite orb_false_r|]; reflexivity.
Qed.

Lemma recovered_stored_mono s k sh x : recovered s x = true -> recovered (hstep s (Stored k sh)) x = true.
Proof.
  unfold recovered. intros H.
  assert (L : log_gone (hstep s (Stored k sh)) x = log_gone s x) by reflexivity. rewrite L.
  assert (M : memi x (stored (hstep s (Stored k sh))) = item_eqb x (k, sh) || memi x (stored s)) by reflexivity.
  rewrite M. destruct (item_eqb x (k, sh)); [reflexivity|]. exact H.
Qed.

Lemma all_recovered_dropped s xs k sh : all_recovered s xs = true ->
  all_recovered (hstep s (Dropped k sh)) xs = forallb (fun x => memi x (stored s)) (covers xs (Dropped k sh)).
Proof.
  intros Hs. rewrite covers_filter.
  apply eq_true_iff_eq. unfold all_recovered in *. rewrite !forallb_forall. rewrite forallb_forall in Hs.
  split; intros H x Hx.
  - apply filter_In in Hx. destruct Hx as [Hx Hg].
    specialize (H x Hx). rewrite recovered_dropped, Hg in H. exact H.
  - rewrite recovered_dropped. destruct (gone_by (Dropped k sh) x) eqn:Hg.
    + apply H. apply filter_In. auto.
    + apply Hs. exact Hx.
Qed.

Lemma safe_gen xs : forall ops s, all_recovered s xs = true ->
  ((forall k, all_recovered (hrun s (firstn k ops)) xs = true) <-> ordered_from (stored s) xs ops = true).
Proof.
  induction ops as [|o ops IH]; intros s Hs.
  - cbn [ordered_from]. split; auto. intros _ k. rewrite firstn_nil. exact Hs.
  - destruct o as [k0 sh|k0 sh].
    + cbn [ordered_from].
      assert (Hs' : all_recovered (hstep s (Stored k0 sh)) xs = true).
      { unfold all_recovered in *. rewrite forallb_forall in *. intros x Hx. apply recovered_stored_mono. auto. }
      specialize (IH _ Hs'). cbn [hstep stored] in IH. rewrite <- IH. split; intros H k.
      * exact (H (S k)).
      * destruct k; [exact Hs | exact (H k)].
    + assert (E : ordered_from (stored s) xs (Dropped k0 sh :: ops)
                 = forallb (fun x => memi x (stored s)) (covers xs (Dropped k0 sh)) && ordered_from (stored s) xs ops)
        by reflexivity.
      rewrite E. rewrite <- (all_recovered_dropped s xs k0 sh Hs). rewrite andb_true_iff.
      split.
      * intros H. assert (H1 := H 1%nat). cbn [firstn hrun fold_left] in H1. split; [exact H1|].
        specialize (IH _ H1). rewrite stored_dropped in IH. apply IH. intros k. exact (H (S k)).
      * intros [H1 H2] k. destruct k; [exact Hs|].
        specialize (IH _ H1). rewrite stored_dropped in IH. apply IH. exact H2.
Qed.

Lemma all_recovered_h0 xs : all_recovered h0 xs = true.
Proof.
  unfold all_recovered. apply forallb_forall. intros x _. unfold recovered, log_gone, h0. cbn [stored dropped meta_dropped].
  destruct (is_meta (fst x)); reflexivity.
Qed.

(* 1: for ANY item set and ANY milestone sequence *)
Theorem handoff_safe_iff_ordered : forall xs ops, crash_safe xs ops <-> ordered_from [] xs ops = true.
Proof. intros xs ops. unfold crash_safe. apply (safe_gen xs ops h0 (all_recovered_h0 xs)). Qed.

(* 2: the code's sequence, one shard *)
Theorem forced_rotation_single_safe : forall sh k,
  all_recovered (hrun h0 (firstn k (forced_rotation [sh]))) (items [sh]) = true.
Proof.
  intros sh. apply (proj2 (handoff_safe_iff_ordered (items [sh]) (forced_rotation [sh]))).
  cbv - [N.eqb]. rewrite !N.eqb_refl. reflexivity.
Qed.

(* 3: the swapped order loses the meta entry *)
Theorem forced_rotation_swapped_refuted : forall sh,
  recovered (hrun h0 (firstn 5 (forced_rotation_swapped [sh]))) (KMeta, sh) = false.
Proof. intros sh. cbv - [N.eqb]. reflexivity. Qed.

Corollary forced_rotation_swapped_not_safe : forall sh, ~ crash_safe (items [sh]) (forced_rotation_swapped [sh]).
Proof.
  intros sh H. specialize (H 5%nat). unfold all_recovered in H. rewrite forallb_forall in H.
  specialize (H (KMeta, sh)). rewrite forced_rotation_swapped_refuted in H.
  assert (In (KMeta, sh) (items [sh])) as Hin by (simpl; auto). specialize (H Hin). discriminate H.
Qed.

(* 4: several shards *)
Lemma memi_head x st : memi x (x :: st) = true.
Proof. unfold memi. cbn [existsb]. rewrite item_eqb_refl. reflexivity. Qed.

Lemma ordered_single_stored st x k sh r :
  ordered_from st [x] (Stored k sh :: r) = ordered_from ((k, sh) :: st) [x] r.
Proof. reflexivity. Qed.

Lemma ordered_single_dropped st x k sh r :
  ordered_from st [x] (Dropped k sh :: r) = implb (gone_by (Dropped k sh) x) (memi x st) && ordered_from st [x] r.
Proof.
  change (ordered_from st [x] (Dropped k sh :: r))
    with (forallb (fun y => memi y st) (covers [x] (Dropped k sh)) && ordered_from st [x] r).
  rewrite covers_filter. cbn [filter]. destruct (gone_by (Dropped k sh) x); cbn [forallb implb]; [rewrite andb_true_r|]; reflexivity.
Qed.

Lemma implb_head y x st : implb (item_eqb y x) (memi x (y :: st)) = true.
Proof. unfold memi. cbn [existsb]. rewrite (item_eqb_sym x y). destruct (item_eqb y x); reflexivity. Qed.

(* a block keeps a datapoint / name item ordered because its Stored precedes its Dropped inside the block; the block
   that drops the shared meta log keeps a meta item ordered only when it is the item of that very shard *)
Lemma block_ordered x b sh rest :
  (b = true -> is_meta (fst x) = true -> x = (KMeta, sh)) ->
  (forall st, ordered_from st [x] rest = true) ->
  forall st, ordered_from st [x] (rotate_shard b sh ++ rest) = true.
Proof.
  intros Hb Hrest st. unfold rotate_shard. cbn [app].
  rewrite ordered_single_stored, ordered_single_dropped, ordered_single_stored, ordered_single_dropped, ordered_single_stored.
  cbn [gone_by]. rewrite !implb_head. cbn [andb].
  destruct b; cbn [app].
  - rewrite ordered_single_dropped. cbn [gone_by].
    destruct (is_meta (fst x)) eqn:Hm.
    + assert (Hx := Hb eq_refl eq_refl). rewrite Hx at 1. rewrite memi_head. cbn [implb andb]. apply Hrest.
    + cbn [implb andb]. apply Hrest.
  - apply Hrest.
Qed.

Lemma rest_ordered x : forall r st, ordered_from st [x] (flat_map (rotate_shard false) r) = true.
Proof.
  induction r as [|sh r IH]; intros st; [reflexivity|].
  cbn [flat_map]. apply block_ordered; [intros H; discriminate H | exact IH].
Qed.

Theorem forced_rotation_guarded : forall shards k x, In x (items shards) ->
  (fst x = KMeta -> snd x = hd 0 shards) ->
  recovered (hrun h0 (firstn k (forced_rotation shards))) x = true.
Proof.
  intros shards k x Hin Hg.
  assert (S : crash_safe [x] (forced_rotation shards)).
  { apply handoff_safe_iff_ordered. destruct shards as [|sh r]; [reflexivity|].
    cbn [forced_rotation]. apply block_ordered; [|apply rest_ordered].
    intros _ Hm. destruct x as [kx sx]. cbn [fst snd hd] in *. destruct kx; try discriminate Hm.
    rewrite (Hg eq_refl). reflexivity. }
  specialize (S k). unfold all_recovered in S. cbn [forallb] in S. rewrite andb_true_r in S. exact S.
Qed.

(* 5: the meta entry of a shard rotated after the first one is lost in the window *)
Theorem forced_rotation_multi_refuted :
  NoDup [0; 1] /\ In (KMeta, 1) (items [0; 1]) /\
  recovered (hrun h0 (firstn 6 (forced_rotation [0; 1]))) (KMeta, 1) = false.
Proof.
  split; [|split].
  - repeat constructor; simpl; intuition discriminate.
  - simpl. intuition.
  - vm_compute. reflexivity.
Qed.

(* ---- the start-up recovery as a hand-off ---- *)
(* 6: as coded (delete the WAL file that was read, then write the rebuilt block / the .mnm file): a crash between the
   two loses the logged datapoints / names *)
Theorem recovery_as_coded_refuted : forall sh,
  recovered (hrun h0 (firstn 1 (recovery_ops [sh]))) (KDp, sh) = false /\
  recovered (hrun h0 (firstn 3 (recovery_ops [sh]))) (KName, sh) = false.
Proof. intros sh. split; cbv - [N.eqb]; rewrite ?N.eqb_refl; reflexivity. Qed.

Lemma ordered_drop_after_store xs k sh st r : is_meta k = false ->
  ordered_from st xs (Stored k sh :: Dropped k sh :: r) = ordered_from ((k, sh) :: st) xs r.
Proof.
  intros Hk.
  change (ordered_from st xs (Stored k sh :: Dropped k sh :: r))
    with (forallb (fun y => memi y ((k, sh) :: st)) (covers xs (Dropped k sh)) && ordered_from ((k, sh) :: st) xs r).
  replace (forallb (fun y => memi y ((k, sh) :: st)) (covers xs (Dropped k sh))) with true; [reflexivity|].
  symmetry. apply forallb_forall. intros y Hy. rewrite covers_filter in Hy. apply filter_In in Hy.
  destruct Hy as [_ Hg]. destruct k; try discriminate Hk; cbn [gone_by] in Hg;
    apply item_eqb_eq in Hg; subst y; apply memi_head.
Qed.

Lemma ordered_store_drop xs k : is_meta k = false -> forall shards rest,
  (forall st, ordered_from st xs rest = true) ->
  forall st, ordered_from st xs (flat_map (fun sh => [Stored k sh; Dropped k sh]) shards ++ rest) = true.
Proof.
  intros Hk shards rest Hrest. induction shards as [|sh r IH]; intros st; [apply Hrest|].
  cbn [flat_map app]. rewrite ordered_drop_after_store by exact Hk. apply IH.
Qed.

Lemma ordered_stores xs k : forall l st, ordered_from st xs (map (Stored k) l) = true.
Proof. induction l as [|sh l IH]; intros st; [reflexivity|]. cbn [map ordered_from]. apply IH. Qed.

(* 7: store first, then delete what was replayed: safe for every number of shards *)
Theorem recovery_store_first_safe : forall shards, crash_safe (items shards) (recovery_ops_store_first shards).
Proof.
  intros shards. apply handoff_safe_iff_ordered. unfold recovery_ops_store_first.
  apply ordered_store_drop; [reflexivity|]. intros st.
  apply ordered_store_drop; [reflexivity|]. intros st'. apply ordered_stores.
Qed.

(* ---- the forced rotation after fix 739a6ba: the shared meta-entry log is dropped once, after every shard ---- *)
Lemma memi_In x l : memi x l = true <-> In x l.
Proof.
  unfold memi. rewrite existsb_exists. split.
  - intros [y [Hy E]]. apply item_eqb_eq in E. subst. exact Hy.
  - intros H. exists x. split; [exact H | apply item_eqb_refl].
Qed.

Lemma memi_incl x st st' : incl st st' -> memi x st = true -> memi x st' = true.
Proof. intros Hi H. apply memi_In. apply Hi. apply memi_In. exact H. Qed.

Lemma ordered_mono xs : forall ops st st', incl st st' -> ordered_from st xs ops = true -> ordered_from st' xs ops = true.
Proof.
  induction ops as [|o ops IH]; intros st st' Hi H; [reflexivity|].
  destruct o as [k sh|k sh].
  - cbn [ordered_from] in *. apply (IH ((k, sh) :: st)); [|exact H].
    intros y [Hy|Hy]; [left; exact Hy | right; apply Hi; exact Hy].
  - change (forallb (fun x => memi x st) (covers xs (Dropped k sh)) && ordered_from st xs ops = true) in H.
    change (forallb (fun x => memi x st') (covers xs (Dropped k sh)) && ordered_from st' xs ops = true).
    apply andb_true_iff in H. destruct H as [H1 H2]. apply andb_true_iff. split.
    + rewrite forallb_forall in *. intros y Hy. apply (memi_incl y st st' Hi). apply H1. exact Hy.
    + apply (IH st st' Hi H2).
Qed.

Lemma meta_items_in shards x : In x (items shards) -> is_meta (fst x) = true -> exists sh, In sh shards /\ x = (KMeta, sh).
Proof.
  unfold items. intros Hin Hm. apply in_flat_map in Hin. destruct Hin as [sh [Hsh Hx]].
  exists sh. split; [exact Hsh|].
  cbn [In] in Hx. destruct Hx as [Hx|[Hx|[Hx|[]]]]; subst x; cbn in Hm; try discriminate Hm. reflexivity.
Qed.

(* the final drop of the shared log is covered when the meta item of every shard is stored *)
Lemma ordered_meta_drop shards st :
  (forall sh, In sh shards -> In (KMeta, sh) st) -> ordered_from st (items shards) [meta_drop] = true.
Proof.
  intros H. unfold meta_drop.
  change (forallb (fun x => memi x st) (covers (items shards) (Dropped KMeta 0)) && true = true).
  rewrite andb_true_r. apply forallb_forall. intros y Hy. rewrite covers_filter in Hy. apply filter_In in Hy.
  destruct Hy as [Hin Hg]. cbn [gone_by] in Hg. destruct (meta_items_in _ _ Hin Hg) as [sh [Hsh ->]].
  apply memi_In. apply H. exact Hsh.
Qed.

Lemma ordered_seq_blocks xs : forall l st rest,
  (forall st', incl (map (pair KMeta) l ++ st) st' -> ordered_from st' xs rest = true) ->
  ordered_from st xs (flat_map rotate_shard_fixed l ++ rest) = true.
Proof.
  induction l as [|sh l IH]; intros st rest H.
  - cbn [flat_map app]. apply H. cbn [map app]. apply incl_refl.
  - cbn [flat_map]. unfold rotate_shard_fixed at 1. cbn [app].
    rewrite ordered_drop_after_store by reflexivity.
    rewrite ordered_drop_after_store by reflexivity.
    cbn [ordered_from]. apply IH. intros st' Hi. apply H.
    intros y Hy. cbn [map app] in Hy. destruct Hy as [Hy|Hy].
    + apply Hi. apply in_or_app. right. left. exact Hy.
    + apply in_app_or in Hy. destruct Hy as [Hy|Hy]; apply Hi; apply in_or_app; [left; exact Hy|].
      right. right. right. right. exact Hy.
Qed.

(* 8: the schedule "one shard after the other", every number of shards: the FULL statement *)
Theorem forced_rotation_fixed_safe : forall shards, crash_safe (items shards) (forced_rotation_fixed shards).
Proof.
  intros shards. apply handoff_safe_iff_ordered. unfold forced_rotation_fixed.
  apply ordered_seq_blocks. intros st' Hi. apply ordered_meta_drop.
  intros sh Hsh. apply Hi. apply in_or_app. left. apply in_map. exact Hsh.
Qed.

(* 9: EVERY schedule of the goroutines *)
Definition qok (st : list item) (q : list hop) : Prop := forall x, ordered_from st [x] q = true.
Definition nometa (q : list hop) : Prop := forall o, In o q -> is_meta_drop o = false.
Definition stores (q : list hop) : list item :=
  flat_map (fun o => match o with Stored k sh => [(k, sh)] | _ => [] end) q.

Lemma qok_mono st st' q : incl st st' -> qok st q -> qok st' q.
Proof. intros Hi H x. apply (ordered_mono [x] q st st' Hi (H x)). Qed.

Lemma all_nil_stores qs : Forall (fun q => q = []) qs -> flat_map stores qs = [].
Proof. induction 1 as [|q qs Hq _ IH]; [reflexivity|]. cbn [flat_map]. rewrite Hq, IH. reflexivity. Qed.

Lemma il_ordered xs rest : forall qs ops, Interleave qs ops ->
  forall st, Forall (qok st) qs -> Forall nometa qs ->
  (forall st', incl (flat_map stores qs ++ st) st' -> ordered_from st' xs rest = true) ->
  ordered_from st xs (ops ++ rest) = true.
Proof.
  induction 1 as [qs Hnil | qs1 o q qs2 r HI IH]; intros st Hq Hn Hrest.
  - cbn [app]. apply Hrest. rewrite (all_nil_stores qs Hnil). cbn [app]. apply incl_refl.
  - apply Forall_app in Hq. destruct Hq as [Hq1 Hq]. inversion Hq as [|? ? Hqo Hq2]; subst.
    apply Forall_app in Hn. destruct Hn as [Hn1 Hn]. inversion Hn as [|? ? Hno Hn2]; subst.
    assert (Hnq : nometa q) by (intros o' Ho'; apply Hno; right; exact Ho').
    destruct o as [k sh|k sh].
    + (* Stored *)
      cbn [app ordered_from]. apply IH.
      * apply Forall_app. split; [|constructor].
        -- eapply Forall_impl; [|exact Hq1]. intros a Ha. apply (qok_mono st); [|exact Ha]. intros y Hy; right; exact Hy.
        -- intros x. exact (Hqo x).
        -- eapply Forall_impl; [|exact Hq2]. intros a Ha. apply (qok_mono st); [|exact Ha]. intros y Hy; right; exact Hy.
      * apply Forall_app. split; [exact Hn1|]. constructor; [exact Hnq|exact Hn2].
      * intros st' Hi. apply Hrest. intros y Hy. apply Hi.
        rewrite flat_map_app in *. cbn [flat_map stores app] in *.
        apply in_app_or in Hy. destruct Hy as [Hy|Hy].
        -- apply in_app_or in Hy. destruct Hy as [Hy|Hy].
           ++ apply in_or_app. left. apply in_or_app. left. exact Hy.
           ++ cbn [app] in Hy. destruct Hy as [Hy|Hy].
              ** apply in_or_app. right. left. exact Hy.
              ** apply in_or_app. left. apply in_or_app. right. exact Hy.
        -- apply in_or_app. right. right. exact Hy.
    + (* Dropped: not the meta log *)
      assert (Hk : is_meta k = false).
      { specialize (Hno (Dropped k sh) (or_introl eq_refl)). destruct k; try reflexivity. discriminate Hno. }
      cbn [app].
      change (forallb (fun x => memi x st) (covers xs (Dropped k sh)) && ordered_from st xs (r ++ rest) = true).
      apply andb_true_iff. split.
      * apply forallb_forall. intros y Hy. rewrite covers_filter in Hy. apply filter_In in Hy. destruct Hy as [_ Hg].
        assert (Hy : y = (k, sh)).
        { destruct k; try discriminate Hk; cbn [gone_by] in Hg; apply item_eqb_eq in Hg; auto. }
        subst y. specialize (Hqo (k, sh)). rewrite ordered_single_dropped in Hqo.
        apply andb_true_iff in Hqo. destruct Hqo as [Hi _].
        assert (Hg' : gone_by (Dropped k sh) (k, sh) = true) by exact Hg. rewrite Hg' in Hi. exact Hi.
      * apply IH.
        -- apply Forall_app. split; [exact Hq1|]. constructor; [|exact Hq2].
           intros x. specialize (Hqo x). rewrite ordered_single_dropped in Hqo.
           apply andb_true_iff in Hqo. exact (proj2 Hqo).
        -- apply Forall_app. split; [exact Hn1|]. constructor; [exact Hnq|exact Hn2].
        -- intros st' Hi. apply Hrest. intros y Hy. apply Hi.
           rewrite flat_map_app in *. cbn [flat_map stores app] in *. exact Hy.
Qed.

Lemma rotate_shard_fixed_qok st sh : qok st (rotate_shard_fixed sh).
Proof.
  intros x. unfold rotate_shard_fixed.
  rewrite ordered_single_stored, ordered_single_dropped, ordered_single_stored, ordered_single_dropped.
  cbn [gone_by]. rewrite !implb_head. reflexivity.
Qed.

Lemma rotate_shard_fixed_nometa sh : nometa (rotate_shard_fixed sh).
Proof. intros o Ho. unfold rotate_shard_fixed in Ho. cbn [In] in Ho. repeat (destruct Ho as [Ho|Ho]; [subst o; reflexivity|]). destruct Ho. Qed.

Theorem forced_rotation_any_schedule_safe : forall shards ops,
  Interleave (map rotate_shard_fixed shards) ops -> crash_safe (items shards) (ops ++ [meta_drop]).
Proof.
  intros shards ops HI. apply handoff_safe_iff_ordered.
  apply (il_ordered (items shards) [meta_drop] _ _ HI).
  - apply Forall_forall. intros q Hq. apply in_map_iff in Hq. destruct Hq as [sh [<- _]]. apply rotate_shard_fixed_qok.
  - apply Forall_forall. intros q Hq. apply in_map_iff in Hq. destruct Hq as [sh [<- _]]. apply rotate_shard_fixed_nometa.
  - intros st' Hi. apply ordered_meta_drop. intros sh Hsh. apply Hi. apply in_or_app. left.
    apply in_flat_map. exists (rotate_shard_fixed sh). split; [apply in_map; exact Hsh|].
    unfold rotate_shard_fixed, stores. cbn. auto 10.
Qed.

(* 10: the log dropped before the shards are registered: unsafe for every non-empty set of shards *)
Theorem forced_rotation_drop_first_refuted : forall shards sh, In sh shards ->
  recovered (hrun h0 (firstn 1 (forced_rotation_drop_first shards))) (KMeta, sh) = false
  /\ ~ crash_safe (items shards) (forced_rotation_drop_first shards).
Proof.
  intros shards sh Hsh.
  assert (R : recovered (hrun h0 (firstn 1 (forced_rotation_drop_first shards))) (KMeta, sh) = false) by reflexivity.
  split; [exact R|]. intros H. specialize (H 1%nat). unfold all_recovered in H. rewrite forallb_forall in H.
  assert (Hin : In (KMeta, sh) (items shards)).
  { unfold items. apply in_flat_map. exists sh. split; [exact Hsh|]. cbn. auto. }
  specialize (H _ Hin). rewrite R in H. discriminate H.
Qed.

(* WalOrderProofs.v — replay order of a block's WAL files = append order only up to 10 files. *)
From Coq Require Import Lia.
From SigM Require Import Base WalOrder.
Open Scope nat_scope.

Lemma dir_order_small_b : forallb (fun n => nat_list_eqb (dir_order n) (seq 0 n)) (seq 0 11) = true.
Proof. vm_compute. reflexivity. Qed.

Lemma nat_list_eqb_eq a : forall b, nat_list_eqb a b = true -> a = b.
Proof.
  induction a as [|x a IH]; intros [|y b] H; cbn in H; try discriminate; auto.
  apply andb_true_iff in H as [H1 H2]. apply Nat.eqb_eq in H1. subst. f_equal. apply IH. exact H2.
Qed.

(* up to 10 files (indices 0..9) the directory order is the append order *)
Theorem wal_dir_order_small : forall n, n <= 10 -> dir_order n = seq 0 n.
Proof.
  intros n H. apply nat_list_eqb_eq.
  pose proof dir_order_small_b as B. rewrite forallb_forall in B. apply B. apply in_seq. lia.
Qed.

(* with an 11th file, "10.wal" is replayed between "1.wal" and "2.wal" *)
Theorem wal_dir_order_refuted : dir_order 11 = [0; 1; 10; 2; 3; 4; 5; 6; 7; 8; 9] /\ dir_order 11 <> seq 0 11.
Proof. split; [vm_compute; reflexivity|]. vm_compute. discriminate. Qed.

(* WalOrderProofs.v — replay order of a block's WAL files = append order only up to 10 files. *)
From Coq Require Import Lia.
From SigM Require Import Base WalOrder.
Open Scope nat_scope.

Lemma dir_order_small_b : forallb (fun n => nat_list_eqb (dir_order n) (seq 0 n)) (seq 0 11) = true.
Proof. vm_compute. reflexivity. Qed.

Lemma nat_list_eqb_eq a : forall b, nat_list_eqb a b = true -> a = b.
Proof.
  induction a as [|x a IH]; intros [|y b] H; cbn in H; try discriminate; auto.
  apply andb_true_iff in H as [H1 H2]. apply Nat.eqb_eq in H1. subst. f_equal. apply IH. exact H2.
Qed.

(* up to 10 files (indices 0..9) the directory order is the append order *)
Theorem wal_dir_order_small : forall n, n <= 10 -> dir_order n = seq 0 n.
Proof.
  intros n H. apply nat_list_eqb_eq.
  pose proof dir_order_small_b as B. rewrite forallb_forall in B. apply B. apply in_seq. lia.
Qed.

(* with an 11th file, "10.wal" is replayed between "1.wal" and "2.wal" *)
Theorem wal_dir_order_refuted : dir_order 11 = [0; 1; 10; 2; 3; 4; 5; 6; 7; 8; 9] /\ dir_order 11 <> seq 0 11.
Proof. split; [vm_compute; reflexivity|]. vm_compute. discriminate. Qed.

(* ---- after the fix: the files are sorted by numeric index, so the replay order is the append
   order for EVERY number of files ---- *)
From Coq Require Import Sorting.Permutation Sorting.Sorted.

Lemma insert_idx_perm i l : Permutation (i :: l) (insert_idx i l).
Proof.
  induction l as [|j r IH]; cbn [insert_idx]; [apply Permutation_refl|].
  destruct (lex_leb (suffix i) (suffix j)); [apply Permutation_refl|].
  eapply perm_trans; [apply perm_swap|]. apply perm_skip. exact IH.
Qed.

Lemma dir_order_perm n : Permutation (seq 0 n) (dir_order n).
Proof.
  unfold dir_order. generalize (seq 0 n) as l. induction l as [|i l IH]; cbn [fold_right]; [constructor|].
  eapply perm_trans; [apply perm_skip; exact IH|]. apply insert_idx_perm.
Qed.

Lemma insert_num_perm i l : Permutation (i :: l) (insert_num i l).
Proof.
  induction l as [|j r IH]; cbn [insert_num]; [apply Permutation_refl|].
  destruct (Nat.ltb i j); [apply Permutation_refl|].
  eapply perm_trans; [apply perm_swap|]. apply perm_skip. exact IH.
Qed.

Lemma sort_num_perm l : Permutation l (sort_num l).
Proof.
  unfold sort_num. induction l as [|i l IH]; cbn [fold_right]; [constructor|].
  eapply perm_trans; [apply perm_skip; exact IH|]. apply insert_num_perm.
Qed.

Lemma insert_num_sorted i l : StronglySorted le l -> StronglySorted le (insert_num i l).
Proof.
  induction 1 as [|j r Hr IH Hj]; cbn [insert_num].
  - constructor; constructor.
  - destruct (Nat.ltb_spec i j) as [Hij|Hij].
    + constructor; [constructor; assumption|]. constructor; [lia|].
      rewrite Forall_forall in *. intros x Hx. specialize (Hj x Hx). lia.
    + constructor; [exact IH|].
      rewrite Forall_forall in *. intros x Hx.
      apply (Permutation_in _ (Permutation_sym (insert_num_perm i r))) in Hx.
      destruct Hx as [<-|Hx]; [lia|auto].
Qed.

Lemma sort_num_sorted l : StronglySorted le (sort_num l).
Proof. unfold sort_num. induction l as [|i l IH]; cbn [fold_right]; [constructor|]. apply insert_num_sorted. exact IH. Qed.

Lemma sorted_perm_unique : forall l1 l2 : list nat,
  StronglySorted le l1 -> StronglySorted le l2 -> Permutation l1 l2 -> l1 = l2.
Proof.
  induction l1 as [|x l1 IH]; intros l2 S1 S2 P.
  - apply Permutation_nil in P. subst. reflexivity.
  - destruct l2 as [|y l2]; [apply Permutation_sym, Permutation_nil in P; discriminate|].
    inversion S1 as [|? ? S1' F1]; subst. inversion S2 as [|? ? S2' F2]; subst.
    rewrite Forall_forall in F1, F2.
    assert (x = y) as ->.
    { assert (Hx : In x (y :: l2)) by (eapply Permutation_in; [exact P|left; reflexivity]).
      assert (Hy : In y (x :: l1)) by (eapply Permutation_in; [apply Permutation_sym; exact P|left; reflexivity]).
      destruct Hx as [->|Hx]; [reflexivity|]. destruct Hy as [->|Hy]; [reflexivity|].
      specialize (F1 _ Hy). specialize (F2 _ Hx). lia. }
    f_equal. apply IH; try assumption. eapply Permutation_cons_inv. exact P.
Qed.

Lemma seq_sorted s n : StronglySorted le (seq s n).
Proof.
  revert s. induction n as [|n IH]; intros s; cbn [seq]; constructor; [apply IH|].
  rewrite Forall_forall. intros x Hx. apply in_seq in Hx. lia.
Qed.

Theorem wal_replay_order_is_append_order : forall n, replay_order n = seq 0 n.
Proof.
  intros n. unfold replay_order. apply sorted_perm_unique.
  - apply sort_num_sorted.
  - apply seq_sorted.
  - apply Permutation_sym. eapply perm_trans; [apply dir_order_perm|apply sort_num_perm].
Qed.

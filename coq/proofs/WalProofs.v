(* WalProofs.v — round trip, truncation-prefix and damage-rejection for the WAL model. *)
From Coq Require Import Lia.
From Coq Require Import ZifyN ZifyNat ZifyBool.
From SigM Require Import Base Crc32 Wal.
From SigP Require Import BaseProofs Crc32Proofs.
Ltac Zify.zify_post_hook ::= Z.div_mod_to_equations.
Open Scope N_scope.

Lemma crc32_range p : bytes_ok p -> crc32 p < 4294967296.
Proof.
  intros H. unfold crc32. apply lxor_bound; [|lia].
  apply crc_raw_bound; [lia|exact H].
Qed.

Definition small (p : bytes) : Prop :=
  bytes_ok p /\ N.of_nat (length p) + 4 < 4294967296.

Lemma pow_256_4 : 256 ^ N.of_nat 4 = 4294967296. Proof. reflexivity. Qed.

Lemma frame_length p : length (frame p) = (8 + length p)%nat.
Proof. unfold frame, le32. rewrite !app_length, !le_enc_length. reflexivity. Qed.

Lemma frame_ok p : bytes_ok p -> bytes_ok (frame p).
Proof. intros H. unfold frame, le32. rewrite !bytes_ok_app. repeat split; auto; apply le_enc_ok. Qed.

Lemma frames_len_spec ps : length (encode ps) = frames_len ps.
Proof.
  induction ps as [|p ps IH]; cbn [encode map concat frames_len]; auto.
  rewrite app_length, frame_length. fold (encode ps). lia.
Qed.

Definition next_body (f : bytes) : (bytes * bytes) + status :=
  match rd32 f with
  | None => inr Err
  | Some (sz, r1) =>
    if sz <? 4 then inr Err else
    match rd32 r1 with
    | None => inr Err
    | Some (c, r2) =>
      if N.of_nat (length r2) <? sz - 4 then inr Err else
      let n := N.to_nat (sz - 4) in
      let p := firstn n r2 in
      if crc32 p =? c then inl (p, skipn n r2) else inr Err
    end
  end.

Lemma next_nonempty f : (0 < length f)%nat -> next f = next_body f.
Proof. destruct f; cbn [length]; [lia|reflexivity]. Qed.

Lemma le32_length n : length (le32 n) = 4%nat. Proof. apply le_enc_length. Qed.

Lemma next_frame p r : small p -> next (frame p ++ r) = inl (p, r).
Proof.
  intros [Hb Hs]. unfold next, frame.
  remember (N.of_nat (length p) + 4) as sz.
  assert (E : (le32 sz ++ le32 (crc32 p) ++ p) ++ r = le32 sz ++ (le32 (crc32 p) ++ (p ++ r)))
    by now rewrite <- !app_assoc.
  rewrite E.
  destruct (le32 sz ++ le32 (crc32 p) ++ p ++ r) eqn:D.
  { apply (f_equal (@length _)) in D. unfold le32 in D. rewrite app_length, le_enc_length in D. cbn in D. lia. }
  rewrite <- D. clear D.
  unfold rd32, le32. rewrite rd_le_app by (rewrite pow_256_4; subst; exact Hs).
  replace (sz <? 4) with false by (symmetry; apply N.ltb_ge; lia).
  rewrite rd_le_app by (rewrite pow_256_4; apply crc32_range; exact Hb).
  replace (N.of_nat (length (p ++ r)) <? sz - 4) with false
    by (symmetry; apply N.ltb_ge; rewrite app_length; lia).
  cbv zeta. replace (N.to_nat (sz - 4)) with (length p) by lia.
  rewrite firstn_app, Nat.sub_diag, firstn_all. cbn [firstn]. rewrite app_nil_r.
  rewrite N.eqb_refl. rewrite skipn_app, Nat.sub_diag, skipn_all. reflexivity.
Qed.

Theorem wal_roundtrip ps : Forall small ps ->
  read_all (S (length ps)) (encode ps) = (ps, CleanEOF).
Proof.
  induction 1 as [|p ps Hp Hps IH].
  - reflexivity.
  - cbn [encode map concat length]. change (concat (map frame ps)) with (encode ps).
    cbn [read_all]. rewrite next_frame by assumption.
    cbn [read_all] in IH. rewrite IH. reflexivity.
Qed.

(* a strict prefix of one frame never yields a block; the empty prefix is the clean end *)
Lemma next_strict_prefix p k : small p -> (k < length (frame p))%nat ->
  next (firstn k (frame p)) = inr (if Nat.eqb k 0 then CleanEOF else Err).
Proof.
  intros [Hb Hs] Hk. rewrite frame_length in Hk.
  destruct k as [|k]; [reflexivity|].
  cbn [Nat.eqb].
  unfold frame. remember (N.of_nat (length p) + 4) as sz.
  set (A := le32 sz). set (B := le32 (crc32 p)).
  assert (LA : length A = 4%nat) by apply le_enc_length.
  assert (LB : length B = 4%nat) by apply le_enc_length.
  unfold next.
  destruct (firstn (S k) (A ++ B ++ p)) eqn:D.
  { apply (f_equal (@length _)) in D. rewrite firstn_length, !app_length in D. cbn in D. lia. }
  rewrite <- D. clear D.
  destruct (Nat.lt_ge_cases (S k) 4) as [H4|H4].
  { unfold rd32. rewrite rd_le_short; [reflexivity|]. rewrite firstn_length. lia. }
  rewrite firstn_app, LA. rewrite (firstn_all2 A) by lia.
  unfold rd32 at 1. unfold A at 1. unfold le32. rewrite rd_le_app by (rewrite pow_256_4; subst; exact Hs).
  replace (sz <? 4) with false by (symmetry; apply N.ltb_ge; lia).
  destruct (Nat.lt_ge_cases (S k) 8) as [H8|H8].
  { unfold rd32. rewrite rd_le_short; [reflexivity|]. rewrite firstn_length, app_length. lia. }
  rewrite firstn_app, LB. rewrite (firstn_all2 B) by lia.
  unfold rd32. unfold B at 1. unfold le32. rewrite rd_le_app by (rewrite pow_256_4; apply crc32_range; exact Hb).
  replace (N.of_nat (length (firstn (S k - 4 - 4) p)) <? sz - 4) with true
    by (symmetry; apply N.ltb_lt; rewrite firstn_length; lia).
  reflexivity.
Qed.

Fixpoint is_prefix {A} (a b : list A) : Prop :=
  match a, b with
  | [], _ => True
  | x :: a', y :: b' => x = y /\ is_prefix a' b'
  | _ :: _, [] => False
  end.

(* Exact result of reading any byte-prefix of the frames:
   the whole frames that fit, then clean end exactly at a frame boundary. *)
Definition cut_status (k : nat) (ps : list bytes) : status :=
  let b := whole_frames k ps in
  if Nat.eqb (Nat.min k (frames_len ps)) (frames_len (firstn b ps)) then CleanEOF else Err.

Lemma whole_frames_bound ps : forall k, (8 * whole_frames k ps <= Nat.min k (frames_len ps))%nat.
Proof.
  induction ps as [|p ps IH]; intros k; cbn [whole_frames frames_len]; [lia|].
  destruct (Nat.leb_spec (8 + length p) k); [|lia].
  specialize (IH (k - (8 + length p))%nat). lia.
Qed.

Lemma whole_frames_le_length ps : forall k, (whole_frames k ps <= length ps)%nat.
Proof.
  induction ps as [|p ps IH]; intros k; cbn [whole_frames length]; [lia|].
  destruct (Nat.leb (8 + length p) k); [|lia]. specialize (IH (k - (8 + length p))%nat). lia.
Qed.

Theorem wal_prefix_exact ps : Forall small ps -> forall k fuel,
  (whole_frames k ps < fuel)%nat ->
  read_all fuel (firstn k (encode ps)) = (firstn (whole_frames k ps) ps, cut_status k ps).
Proof.
  induction 1 as [|p ps Hp Hps IH]; intros k fuel Hf.
  - cbn [encode map concat]. rewrite firstn_nil. destruct fuel; [cbn in Hf; lia|].
    unfold cut_status. cbn. rewrite Nat.min_0_r. reflexivity.
  - cbn [encode map concat]. change (concat (map frame ps)) with (encode ps).
    destruct fuel as [|fuel]; [lia|]. revert Hf.
    cbn [whole_frames].
    destruct (Nat.leb_spec (8 + length p) k) as [Hge|Hlt]; intros Hf.
    + rewrite firstn_app, frame_length. rewrite firstn_all2 by (rewrite frame_length; lia).
      cbn [read_all]. rewrite next_frame by assumption.
      rewrite (IH (k - (8 + length p))%nat fuel) by lia.
      cbn [firstn]. f_equal.
      unfold cut_status. cbn [whole_frames].
      replace (Nat.leb (8 + length p) k) with true by (symmetry; apply Nat.leb_le; lia).
      cbn [firstn frames_len].
      replace (Nat.min k (8 + length p + frames_len ps))
        with (8 + length p + Nat.min (k - (8 + length p)) (frames_len ps))%nat by lia.
      rewrite Nat.eqb_sym.
      destruct (Nat.eqb_spec (frames_len (firstn (whole_frames (k - (8 + length p)) ps) ps))
                             (Nat.min (k - (8 + length p)) (frames_len ps)));
      destruct (Nat.eqb_spec (8 + length p + Nat.min (k - (8 + length p)) (frames_len ps))
                             (8 + length p + frames_len (firstn (whole_frames (k - (8 + length p)) ps) ps))%nat);
      try reflexivity; lia.
    + rewrite firstn_app, frame_length. replace (k - (8 + length p))%nat with 0%nat by lia.
      cbn [firstn]. rewrite app_nil_r.
      cbn [read_all]. rewrite next_strict_prefix by (auto; rewrite frame_length; lia).
      cbn [firstn]. f_equal.
      unfold cut_status. cbn [whole_frames].
      replace (Nat.leb (8 + length p) k) with false by (symmetry; apply Nat.leb_gt; lia).
      cbn [firstn frames_len].
      destruct (Nat.eqb_spec k 0) as [->|Hk]; [reflexivity|].
      replace (Nat.eqb (Nat.min k (8 + length p + frames_len ps)) 0) with false
        by (symmetry; apply Nat.eqb_neq; lia).
      reflexivity.
Qed.

Lemma firstn_is_prefix {A} n (l : list A) : is_prefix (firstn n l) l.
Proof. revert n; induction l as [|x l IH]; intros [|n]; cbn; auto. Qed.

Corollary wal_prefix ps : Forall small ps -> forall k,
  is_prefix (fst (read_all (S (length ps)) (firstn k (encode ps)))) ps.
Proof.
  intros H k. rewrite wal_prefix_exact; auto. { apply firstn_is_prefix. }
  pose proof (whole_frames_le_length ps k). lia.
Qed.

(* ---------- damage ---------- *)

(* [damaged p f'] : f' is frame p with exactly one byte of the checksum field or
   of the payload replaced by a different byte value *)
Inductive damaged (p : bytes) : bytes -> Prop :=
| dmg_crc i y : (i < 4)%nat -> y < 256 -> nth_error (le32 (crc32 p)) i <> Some y ->
    damaged p (le32 (N.of_nat (length p) + 4) ++ set_nth i y (le32 (crc32 p)) ++ p)
| dmg_payload pre x y post : p = pre ++ x :: post -> y < 256 -> x <> y ->
    damaged p (le32 (N.of_nat (length p) + 4) ++ le32 (crc32 p) ++ pre ++ y :: post).

Lemma nth_error_set_nth_neq {A} i (y : A) l :
  nth_error l i <> Some y -> (i < length l)%nat -> set_nth i y l <> l.
Proof.
  revert i; induction l as [|x l IH]; intros [|i] H Hl E; cbn in *; try lia.
  - injection E as ->. auto.
  - injection E as E. eapply IH; eauto. lia.
Qed.

Lemma set_nth_ok i y l : y < 256 -> bytes_ok l -> bytes_ok (set_nth i y l).
Proof.
  intros Hy. revert i; induction l as [|x l IH]; intros [|i] H; cbn; auto;
  inversion H; subst; constructor; auto. apply IH; auto.
Qed.

Lemma next_damaged p f' r : small p -> damaged p f' -> next (f' ++ r) = inr Err.
Proof.
  intros [Hb Hs] D. remember (N.of_nat (length p) + 4) as sz.
  destruct D as [i y Hi Hy Hn | pre x y post Ep Hy Hxy]; rewrite <- Heqsz.
  - (* checksum field *)
    set (C' := set_nth i y (le32 (crc32 p))).
    assert (LC : length C' = 4%nat) by (unfold C'; rewrite set_nth_length; apply le_enc_length).
    assert (OKC : bytes_ok C') by (apply set_nth_ok; [exact Hy|apply le_enc_ok]).
    rewrite next_nonempty by (rewrite !app_length, le32_length; lia).
    unfold next_body. cbv zeta. rewrite <- !app_assoc.
    unfold rd32 at 1. unfold le32 at 1. rewrite rd_le_app by (rewrite pow_256_4; subst; exact Hs).
    replace (sz <? 4) with false by (symmetry; apply N.ltb_ge; lia).
    unfold rd32. rewrite rd_le_bytes by exact LC.
    match goal with |- context [N.ltb ?a ?b] =>
      destruct (N.ltb_spec a b) as [Hx|Hx]; [rewrite app_length in Hx; lia|clear Hx] end.
    replace (N.to_nat (sz - 4)) with (length p) by lia.
    rewrite firstn_app, Nat.sub_diag, firstn_all. cbn [firstn]. rewrite app_nil_r.
    destruct (N.eqb_spec (crc32 p) (le_dec C')) as [E|]; [exfalso|reflexivity].
    assert (C' = le32 (crc32 p)).
    { apply le_dec_inj.
      - exact OKC.
      - apply le_enc_ok.
      - rewrite LC. unfold le32. now rewrite le_enc_length.
      - unfold le32. rewrite le_dec_enc by (rewrite pow_256_4; apply crc32_range; exact Hb). auto. }
    revert H. apply nth_error_set_nth_neq; [exact Hn|]. unfold le32. rewrite le_enc_length. exact Hi.
  - (* payload byte *)
    set (p' := pre ++ y :: post).
    assert (Lp : length p' = length p) by (subst p p'; rewrite !app_length; reflexivity).
    assert (Hb' : bytes_ok p').
    { subst p. unfold p'. apply bytes_ok_app in Hb as [H1 H2]. inversion H2; subst.
      apply bytes_ok_app; split; auto. constructor; auto. }
    rewrite next_nonempty by (rewrite !app_length, le32_length; lia).
    unfold next_body. cbv zeta. fold p'. rewrite <- !app_assoc.
    unfold rd32 at 1. unfold le32 at 1. rewrite rd_le_app by (rewrite pow_256_4; subst sz; exact Hs).
    replace (sz <? 4) with false by (symmetry; apply N.ltb_ge; lia).
    unfold rd32, le32. rewrite rd_le_app by (rewrite pow_256_4; apply crc32_range; exact Hb).
    match goal with |- context [N.ltb ?a ?b] =>
      destruct (N.ltb_spec a b) as [Hx|Hx]; [rewrite app_length in Hx; lia|clear Hx] end.
    replace (N.to_nat (sz - 4)) with (length p') by lia.
    rewrite firstn_app, Nat.sub_diag, firstn_all. cbn [firstn]. rewrite app_nil_r.
    destruct (N.eqb_spec (crc32 p') (crc32 p)) as [E|]; [exfalso|reflexivity].
    assert (Hparts : bytes_ok pre /\ x < 256 /\ bytes_ok post).
    { rewrite Ep in Hb. apply bytes_ok_app in Hb as [H1 H2]. inversion H2; subst; auto. }
    destruct Hparts as (H1 & Hx & H2).
    revert E. unfold p'. rewrite Ep.
    apply crc32_single_byte; auto.
Qed.

(* reading stops with an error right at the damaged frame, having returned
   exactly the blocks before it, whatever follows *)
Theorem wal_damage_rejected ps p f' tail : Forall small ps -> small p -> damaged p f' ->
  forall fuel, (length ps < fuel)%nat ->
  read_all fuel (encode ps ++ f' ++ tail) = (ps, Err).
Proof.
  intros Hps Hp D. induction Hps as [|q ps Hq Hps IH]; intros fuel Hf.
  - cbn [encode map concat app]. destruct fuel; [cbn in Hf; lia|].
    cbn [read_all]. rewrite (next_damaged p) by assumption. reflexivity.
  - cbn [encode map concat]. change (concat (map frame ps)) with (encode ps).
    destruct fuel as [|fuel]; [lia|]. cbn [length] in Hf.
    rewrite <- app_assoc. cbn [read_all]. rewrite next_frame by assumption.
    rewrite IH by lia. reflexivity.
Qed.

(* ---------- typed replay ---------- *)
Section Typed.
  Context {A : Type}.
  Variable enc : list A -> bytes.
  Variable decode_block : bytes -> option (list A).
  Variable empty_is_eof : bool.
  Hypothesis dec_enc : forall xs, decode_block (enc xs) = Some xs.
  Hypothesis enc_small : forall xs, small (enc xs).

  Lemma replay_blocks_prefix (bs : list (list A)) :
    Forall (fun xs => xs <> []) bs -> forall k fuel, (whole_frames k (map enc bs) < fuel)%nat ->
    replay_blocks decode_block empty_is_eof fuel (firstn k (encode (map enc bs)))
    = (concat (firstn (whole_frames k (map enc bs)) bs), cut_status k (map enc bs)).
  Proof.
    induction 1 as [|xs bs Hne Hbs IH]; intros k fuel Hf.
    - cbn [map encode concat]. rewrite firstn_nil. destruct fuel; [cbn in Hf; lia|].
      unfold cut_status. cbn. rewrite Nat.min_0_r. reflexivity.
    - cbn [map encode concat]. change (concat (map frame (map enc bs))) with (encode (map enc bs)).
      destruct fuel as [|fuel]; [lia|]. revert Hf.
      cbn [map whole_frames].
      destruct (Nat.leb_spec (8 + length (enc xs)) k) as [Hge|Hlt]; intros Hf.
      + rewrite firstn_app, frame_length. rewrite firstn_all2 by (rewrite frame_length; lia).
        cbn [replay_blocks]. rewrite next_frame by apply enc_small.
        rewrite dec_enc. destruct xs as [|x xs]; [congruence|].
        rewrite (IH (k - (8 + length (enc (x :: xs))))%nat fuel) by lia.
        cbn [firstn concat]. f_equal.
        unfold cut_status. cbn [whole_frames].
        replace (Nat.leb (8 + length (enc (x :: xs))) k) with true by (symmetry; apply Nat.leb_le; lia).
        cbn [firstn frames_len].
        set (L := (8 + length (enc (x :: xs)))%nat) in *.
        replace (Nat.min k (L + frames_len (map enc bs)))
          with (L + Nat.min (k - L) (frames_len (map enc bs)))%nat by lia.
        destruct (Nat.eqb_spec (Nat.min (k - L) (frames_len (map enc bs)))
                   (frames_len (firstn (whole_frames (k - L) (map enc bs)) (map enc bs))));
        destruct (Nat.eqb_spec (L + Nat.min (k - L) (frames_len (map enc bs)))
                   (L + frames_len (firstn (whole_frames (k - L) (map enc bs)) (map enc bs)))%nat);
        try reflexivity; lia.
      + rewrite firstn_app, frame_length. replace (k - (8 + length (enc xs)))%nat with 0%nat by lia.
        cbn [firstn]. rewrite app_nil_r.
        cbn [replay_blocks]. rewrite next_strict_prefix by (try apply enc_small; rewrite frame_length; lia).
        cbn [firstn concat]. f_equal.
        unfold cut_status. cbn [whole_frames].
        replace (Nat.leb (8 + length (enc xs)) k) with false by (symmetry; apply Nat.leb_gt; lia).
        cbn [firstn frames_len].
        destruct (Nat.eqb_spec k 0) as [->|Hk]; [reflexivity|].
        replace (Nat.eqb (Nat.min k (8 + length (enc xs) + frames_len (map enc bs))) 0) with false
          by (symmetry; apply Nat.eqb_neq; lia).
        reflexivity.
  Qed.

  (* A log file cut at any byte k replays exactly the batches whose frames are
     complete, in order, and nothing else. *)
  Theorem replay_cut (bs : list (list A)) : Forall (fun xs => xs <> []) bs -> forall k,
    replay decode_block empty_is_eof (firstn k (wal_file (map enc bs)))
    = match k with
      | O => ([], Err)
      | S k' => (concat (firstn (whole_frames k' (map enc bs)) bs), cut_status k' (map enc bs))
      end.
  Proof.
    intros H k. unfold replay, wal_file. destruct k as [|k]; [reflexivity|].
    cbn [firstn open_wal]. change (WAL_VERSION =? WAL_VERSION) with true. cbn beta iota.
    apply replay_blocks_prefix; auto.
    rewrite firstn_length, frames_len_spec.
    pose proof (whole_frames_bound (map enc bs) k). lia.
  Qed.

  (* one damaged byte in the checksum or payload of batch j's frame: exactly the
     batches before it are replayed and the iterator reports an error *)
  Theorem replay_damage (bs : list (list A)) xs f' tail :
    Forall (fun xs => xs <> []) bs -> damaged (enc xs) f' ->
    replay decode_block empty_is_eof (wal_file (map enc bs) ++ f' ++ tail) = (concat bs, Err).
  Proof.
    intros Hne D. unfold replay, wal_file. cbn [app open_wal].
    change (WAL_VERSION =? WAL_VERSION) with true. cbn beta iota.
    assert (G : forall fuel, (length bs < fuel)%nat ->
      replay_blocks decode_block empty_is_eof fuel (encode (map enc bs) ++ f' ++ tail) = (concat bs, Err)).
    { induction Hne as [|ys bs Hy Hbs IH]; intros fuel Hf.
      - cbn [map encode concat app]. destruct fuel; [cbn in Hf; lia|].
        cbn [replay_blocks]. rewrite (next_damaged (enc xs)) by (auto using enc_small). reflexivity.
      - cbn [map encode concat]. change (concat (map frame (map enc bs))) with (encode (map enc bs)).
        destruct fuel as [|fuel]; [lia|]. cbn [length] in Hf.
        rewrite <- app_assoc. cbn [replay_blocks]. rewrite next_frame by apply enc_small.
        rewrite dec_enc. destruct ys as [|y ys]; [congruence|].
        rewrite IH by lia. reflexivity. }
    apply G. rewrite !app_length, frames_len_spec.
    assert (length bs <= frames_len (map enc bs))%nat.
    { clear. induction bs as [|b bs IH]; cbn [map frames_len length]; lia. }
    lia.
  Qed.
End Typed.

(* WalRestartProofs.v — the ORDER in which start-up calls the three recovery functions, which cooperate through the
   segment directory.  Closed form of a restart for EVERY sequence of calls; the orders that replay every completed
   append in ONE restart are exactly those that call RecoverWALData before a later RecoverMNameWALData. *)
From Coq Require Import Lia Bool.
From SigM Require Import Base WalRestart.
From SigP Require Import BaseProofs.
Open Scope N_scope.

(* the state reached from s0 when the datapoint replay (d), the name replay (n), the meta replay (m) have taken effect *)
Definition st (s : seg) (d n m : bool) : seg :=
  mkSeg (sdir s || (d && nonempty (dp_log s)) || (n && nonempty (nm_log s)))
        (dp_blk s)
        (if d then [] else dp_log s)
        (if d && nonempty (dp_log s) then set_blk (dp_blk s) (dp_log s) (blocks s) else blocks s)
        (if n then [] else nm_log s)
        (if n && nonempty (nm_log s) then nm_log s else nm_st s)
        (me_log s)
        (me_st s || (m && me_log s)).

Lemma st_init s : st s false false false = s.
Proof. destruct s as [c b dl bl nl ns ml ms]. unfold st. cbn. rewrite !orb_false_r. reflexivity. Qed.

Lemma st_replayed s : st s true true true = replayed_state s.
Proof. destruct s as [c b dl bl nl ns ml ms]. unfold st, replayed_state. cbn. reflexivity. Qed.

(* the name flag does not matter when no name is logged *)
Lemma st_names_irrelevant s d n n' m : nm_log s = [] -> st s d n m = st s d n' m.
Proof.
  destruct s as [c b dl bl nl ns ml ms]. cbn. intros ->. unfold st. cbn.
  destruct n, n'; cbn; rewrite ?andb_false_r, ?orb_false_r; reflexivity.
Qed.

(* can the names be stored now: the directory exists (from the start or through the datapoint replay) or is created *)
Definition can_store (mk : bool) (s : seg) (d : bool) : bool := sdir s || (d && nonempty (dp_log s)) || mk.

Definition fstep (mk : bool) (s : seg) (fl : bool * bool * bool) (f : rfun) : bool * bool * bool :=
  match fl with
  | (d, n, m) =>
      match f with
      | RDp => (true, n, m)
      | RNm => (d, n || can_store mk s d, m)
      | RMeta => (d, n, true)
      end
  end.

Lemma rstep_st mk s d n m f :
  rstep mk (st s d n m) f = (let '(d', n', m') := fstep mk s (d, n, m) f in st s d' n' m').
Proof.
  destruct s as [c b dl bl nl ns ml ms].
  destruct f; unfold fstep, can_store, rstep, st; cbn.
  - (* RDp *) destruct d; cbn.
    + reflexivity.
    + destruct dl as [|x dl]; cbn.
      * rewrite ?andb_false_r, ?orb_false_r. reflexivity.
      * rewrite ?orb_true_r. cbn. reflexivity.
  - (* RNm *) destruct n; cbn.
    + reflexivity.
    + destruct nl as [|x nl]; cbn; rewrite ?andb_false_r, ?orb_false_r;
        destruct c, d, mk, dl; cbn; reflexivity.
  - (* RMeta *) destruct ml; cbn.
    + rewrite ?andb_true_r, ?orb_true_r. reflexivity.
    + rewrite ?andb_false_r. reflexivity.
Qed.

Definition frun mk s fl order := fold_left (fstep mk s) order fl.

Lemma restart_st mk s order : forall d n m,
  restart mk order (st s d n m) = (let '(d', n', m') := frun mk s (d, n, m) order in st s d' n' m').
Proof.
  unfold restart, frun. induction order as [|f r IH]; intros d n m; cbn [fold_left].
  - reflexivity.
  - rewrite rstep_st. destruct (fstep mk s (d, n, m) f) as [[d1 n1] m1] eqn:E. cbn. apply IH.
Qed.

(* the flags after any sequence of calls *)
Definition nfin (mk : bool) (s : seg) (d n : bool) (order : list rfun) : bool :=
  n || (mem_rfun RNm order && can_store mk s d) || (nonempty (dp_log s) && dp_then_names order).

Lemma frun_closed mk s order : forall d n m,
  frun mk s (d, n, m) order = (d || mem_rfun RDp order, nfin mk s d n order, m || mem_rfun RMeta order).
Proof.
  unfold frun, nfin, can_store. induction order as [|f r IH]; intros d n m; cbn [fold_left].
  - cbn. rewrite !andb_false_r, !orb_false_r. reflexivity.
  - destruct f; cbn [fstep]; rewrite IH; cbn [mem_rfun dp_then_names]; unfold can_store; cbn [orb];
      destruct d, n, m, (mem_rfun RDp r), (mem_rfun RNm r), (mem_rfun RMeta r), (sdir s), (nonempty (dp_log s)), mk,
        (dp_then_names r); reflexivity.
Qed.

(* CLOSED FORM: the state after a restart that calls the recovery functions in ANY sequence *)
Theorem restart_closed_form mk order s :
  restart mk order s =
  st s (mem_rfun RDp order)
       ((mem_rfun RNm order && (sdir s || mk)) || (nonempty (dp_log s) && dp_then_names order))
       (mem_rfun RMeta order).
Proof.
  rewrite <- (st_init s) at 1. rewrite restart_st, frun_closed. unfold nfin, can_store. cbn.
  rewrite orb_false_r. reflexivity.
Qed.

(* ---- one restart replays everything ---- *)
Theorem good_order_replays_all mk order s :
  good_order mk order = true -> names_storable mk s = true ->
  restart mk order s = replayed_state s.
Proof.
  unfold good_order, names_storable. intros G S.
  rewrite restart_closed_form, <- st_replayed.
  apply andb_true_iff in G as [G G4]. apply andb_true_iff in G as [G G3]. apply andb_true_iff in G as [G1 G2].
  rewrite G1, G2, G3. cbn [andb].
  destruct (nonempty (nm_log s)) eqn:NE.
  - f_equal.
    destruct mk, (sdir s), (nonempty (dp_log s)), (dp_then_names order); cbn in *; try reflexivity; discriminate.
  - apply st_names_irrelevant. destruct (nm_log s); [reflexivity|discriminate NE].
Qed.

Lemma good_startup_order mk : good_order mk startup_order = true.
Proof. destruct mk; reflexivity. Qed.

(* startIngestServer's order: every completed append is in the store after ONE restart, nothing else changes *)
Theorem startup_order_replays_all mk s :
  names_storable mk s = true -> restart mk startup_order s = replayed_state s.
Proof. apply good_order_replays_all, good_startup_order. Qed.

(* the witnesses used to separate the orders *)
Definition w_dp : seg := mkSeg false 0 [1] [] [] [] false false.
Definition w_nm : seg := mkSeg true 0 [] [] [7] [] false false.
Definition w_me : seg := mkSeg true 0 [] [] [] [] true false.
(* a crashed segment in its FIRST block: no directory yet; datapoints and names logged *)
Definition w_first_block : seg := mkSeg false 0 [1; 2] [] [7] [] true false.

Lemma seg_nm_st_eq a b : a = b -> nm_st a = nm_st b.
Proof. intros ->. reflexivity. Qed.

(* ... and ONLY the good orders do: the characterisation of the call sequences *)
Theorem replays_all_iff_good_order mk order :
  (forall s, names_storable mk s = true -> restart mk order s = replayed_state s) <-> good_order mk order = true.
Proof.
  split.
  - intros H. unfold good_order.
    assert (D : mem_rfun RDp order = true).
    { specialize (H w_dp). rewrite restart_closed_form in H.
      destruct (mem_rfun RDp order); [reflexivity|].
      assert (E := f_equal dp_log (H ltac:(destruct mk; reflexivity))). cbn in E. discriminate E. }
    assert (N : mem_rfun RNm order = true).
    { specialize (H w_nm). rewrite restart_closed_form in H.
      destruct (mem_rfun RNm order); [reflexivity|].
      assert (E := f_equal nm_log (H ltac:(destruct mk; reflexivity))). cbn in E. discriminate E. }
    assert (M : mem_rfun RMeta order = true).
    { specialize (H w_me). rewrite restart_closed_form in H.
      destruct (mem_rfun RMeta order); [reflexivity|].
      assert (E := f_equal me_st (H ltac:(destruct mk; reflexivity))). cbn in E. discriminate E. }
    rewrite D, N, M. cbn [andb].
    destruct mk; [reflexivity|]. cbn [orb].
    specialize (H w_first_block). rewrite restart_closed_form in H. rewrite N in H. cbn in H.
    destruct (dp_then_names order); [reflexivity|].
    assert (E := f_equal nm_log (H eq_refl)). cbn in E. discriminate E.
  - intros G s S. apply good_order_replays_all; assumption.
Qed.

(* seed C10h's order: the segment in its first block gets its datapoints back but not its names (the name log is kept),
   and only a SECOND restart stores them *)
Theorem names_first_refuted :
  names_storable false w_first_block = true /\
  let s1 := restart false names_first_order w_first_block in
  get_blk 0 (blocks s1) = Some [1; 2] /\ nm_st s1 = [] /\ nm_log s1 = [7] /\
  restart false names_first_order s1 = replayed_state w_first_block /\
  restart false startup_order w_first_block = replayed_state w_first_block.
Proof. vm_compute. repeat split; reflexivity. Qed.

Lemma mem_rfun_app f a b : mem_rfun f (a ++ b) = mem_rfun f a || mem_rfun f b.
Proof. induction a as [|g r IH]; cbn; [reflexivity|]. rewrite IH, orb_assoc. reflexivity. Qed.

Lemma dp_then_names_app a b :
  mem_rfun RDp a = true -> mem_rfun RNm b = true -> dp_then_names (a ++ b) = true.
Proof.
  intros A B. induction a as [|g r IH]; cbn in *; [discriminate A|].
  destruct g; cbn in *.
  - rewrite mem_rfun_app, B, orb_true_r. reflexivity.
  - apply IH, A.
  - apply IH, A.
Qed.

(* whatever the order (each function called once or more): two restarts replay everything *)
Theorem second_restart_replays_all order s :
  mem_rfun RDp order && mem_rfun RNm order && mem_rfun RMeta order = true ->
  names_storable false s = true ->
  restart false order (restart false order s) = replayed_state s.
Proof.
  intros G S. unfold restart. rewrite <- fold_left_app. fold (restart false (order ++ order) s).
  apply andb_true_iff in G as [G G3]. apply andb_true_iff in G as [G1 G2].
  apply good_order_replays_all; [|exact S].
  unfold good_order. rewrite !mem_rfun_app, G1, G2, G3. cbn.
  apply dp_then_names_app; assumption.
Qed.

(* the crash state the code of today cannot repair: names logged, no datapoint logged yet, first block (no directory):
   the names stay in the log on every restart *)
Definition w_names_only : seg := mkSeg false 0 [] [] [7] [] false false.
Theorem names_only_state_never_replayed order n :
  Nat.iter n (restart false order) w_names_only = w_names_only.
Proof.
  induction n as [|n IH]; [reflexivity|].
  change (restart false order (Nat.iter n (restart false order) w_names_only) = w_names_only). rewrite IH.
  rewrite restart_closed_form. cbn. rewrite !andb_false_r. cbn.
  destruct (mem_rfun RDp order), (mem_rfun RMeta order); reflexivity.
Qed.

(* with os.MkdirAll in FlushMetricNames the order is irrelevant and no crash state is excluded *)
Theorem mkdir_fix_any_order order s :
  mem_rfun RDp order && mem_rfun RNm order && mem_rfun RMeta order = true ->
  restart true order s = replayed_state s.
Proof.
  intros G. apply good_order_replays_all; [|reflexivity].
  unfold good_order. rewrite G. reflexivity.
Qed.

(* every function loops over all the shards before the next function starts: the same as shard by shard *)
Theorem restart_all_map mk order : forall ss,
  restart_all mk order ss = map (restart mk order) ss.
Proof.
  unfold restart_all, restart. induction order as [|f r IH]; intros ss; cbn [fold_left].
  - symmetry. apply map_id.
  - rewrite IH. unfold rstep_all. rewrite map_map. reflexivity.
Qed.

Theorem startup_order_replays_all_shards mk ss :
  forallb (names_storable mk) ss = true ->
  restart_all mk startup_order ss = map replayed_state ss.
Proof.
  intros H. rewrite restart_all_map. apply map_ext_in. intros s I.
  apply startup_order_replays_all. rewrite forallb_forall in H. apply H, I.
Qed.

(* nothing is invented, whatever the order and the state: a block other than the log's keeps its content *)
Lemma get_set_blk_other b b' v bs : b' <> b -> get_blk b' (set_blk b v bs) = get_blk b' bs.
Proof.
  intros NE. induction bs as [|[k w] r IH]; cbn.
  - destruct (b =? b') eqn:E; [apply N.eqb_eq in E; congruence|reflexivity].
  - destruct (k =? b) eqn:E; cbn.
    + apply N.eqb_eq in E. subst k. destruct (b =? b') eqn:F; [apply N.eqb_eq in F; congruence|reflexivity].
    + destruct (k =? b'); [reflexivity|apply IH].
Qed.
Lemma get_set_blk_same b v bs : get_blk b (set_blk b v bs) = Some v.
Proof.
  induction bs as [|[k w] r IH]; cbn.
  - rewrite N.eqb_refl. reflexivity.
  - destruct (k =? b) eqn:E; cbn.
    + rewrite N.eqb_refl. reflexivity.
    + rewrite E. apply IH.
Qed.

Theorem restart_nothing_invented mk order s :
  let s' := restart mk order s in
  (forall b, b <> dp_blk s -> get_blk b (blocks s') = get_blk b (blocks s)) /\
  (get_blk (dp_blk s) (blocks s') = Some (dp_log s) \/ blocks s' = blocks s) /\
  (nm_st s' = nm_log s \/ nm_st s' = nm_st s) /\
  (me_st s' = true -> me_st s = true \/ me_log s = true).
Proof.
  cbn zeta. rewrite restart_closed_form. unfold st. cbn.
  repeat split.
  - intros b NE. destruct (mem_rfun RDp order && nonempty (dp_log s)); [apply get_set_blk_other; exact NE|reflexivity].
  - destruct (mem_rfun RDp order && nonempty (dp_log s)); [left; apply get_set_blk_same|right; reflexivity].
  - match goal with |- context [if ?c then _ else _] => destruct c end; [left|right]; reflexivity.
  - destruct (me_st s); [left; reflexivity|]. destruct (me_log s); [right; reflexivity|].
    rewrite andb_false_r. cbn. intros H. discriminate H.
Qed.

(* ---- the code since fix 5e1901f: FlushMetricNames creates the segment directory (mk = true) ---- *)
Lemma names_storable_mk ss : forallb (names_storable true) ss = true.
Proof. induction ss as [|s r IH]; [reflexivity|]. cbn. exact IH. Qed.

Theorem mkdir_fix_startup_order s : restart true startup_order s = replayed_state s.
Proof. apply mkdir_fix_any_order. reflexivity. Qed.

Theorem mkdir_fix_any_order_shards order ss :
  mem_rfun RDp order && mem_rfun RNm order && mem_rfun RMeta order = true ->
  restart_all true order ss = map replayed_state ss.
Proof.
  intros G. rewrite restart_all_map. apply map_ext. intros s. apply mkdir_fix_any_order, G.
Qed.

(* ... and a sequence that leaves a function out does not: the three calls are all needed *)
Theorem mkdir_fix_replays_all_iff order :
  (forall s, restart true order s = replayed_state s) <->
  mem_rfun RDp order && mem_rfun RNm order && mem_rfun RMeta order = true.
Proof.
  split.
  - intros H.
    assert (G : good_order true order = true).
    { apply replays_all_iff_good_order. intros s _. apply H. }
    unfold good_order in G. cbn [orb] in G. rewrite andb_true_r in G. exact G.
  - intros G s. apply mkdir_fix_any_order, G.
Qed.

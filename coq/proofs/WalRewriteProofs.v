(* WalRewriteProofs.v — Wal.Write through tmp + rename: after a crash at ANY call boundary of ANY
   sequence of Writes, restart reads exactly the block of the last completed Write. *)
From Coq Require Import Lia.
From SigM Require Import Base Crc32 Wal WalRewrite.
From SigP Require Import BaseProofs Crc32Proofs WalProofs.
Open Scope N_scope.

Lemma read_file_version_only : read_file [WAL_VERSION] = ([], CleanEOF).
Proof. reflexivity. Qed.

Lemma read_file_single p : small p -> read_file (wal_file [p]) = ([p], CleanEOF).
Proof.
  intros Hp. unfold read_file, wal_file. cbn [open_wal]. change (WAL_VERSION =? WAL_VERSION) with true. cbv iota.
  pose proof (wal_prefix_exact [p] (Forall_cons p Hp (Forall_nil _)) (length (encode [p])) (S (length (encode [p])))) as W.
  rewrite firstn_all in W.
  assert (Hw : whole_frames (length (encode [p])) [p] = 1%nat).
  { cbn [encode map concat whole_frames]. rewrite app_nil_r, frame_length.
    replace (Nat.leb (8 + length p) (8 + length p)) with true by (symmetry; apply Nat.leb_le; lia).
    reflexivity. }
  rewrite Hw in W. rewrite W by (rewrite frames_len_spec; cbn [frames_len]; lia). cbn [firstn]. f_equal.
  unfold cut_status. rewrite Hw. cbn [firstn frames_len].
  rewrite frames_len_spec. cbn [frames_len]. rewrite Nat.min_id. rewrite Nat.eqb_refl. reflexivity.
Qed.

Definition alen (_ : bytes) : nat := 6%nat.

Lemma write_atomic_length p : length (write_atomic p) = 6%nat.
Proof. reflexivity. Qed.

(* the log file is untouched until the rename, which installs exactly wal_file [p] *)
Lemma atomic_prefix f p j : (j < 6)%nat -> logf (wrun f (firstn j (write_atomic p))) = logf f.
Proof.
  intros H. unfold write_atomic, parts. cbn [map app].
  do 6 (destruct j as [|j]; [reflexivity|]). lia.
Qed.

Lemma atomic_full f p : wrun f (write_atomic p) = {| logf := wal_file [p]; tmpf := [] |}.
Proof.
  unfold write_atomic, parts, wrun. cbn [map app fold_left wstep logf tmpf].
  f_equal. unfold wal_file, encode, frame. cbn [map concat app]. rewrite app_nil_r. reflexivity.
Qed.

Theorem rewrite_atomic_crash_safe ps : Forall small ps -> forall k f cur,
  logf f = wal_file (expected_blocks cur) -> (match cur with Some p => small p | None => True end) ->
  recovered (wrun f (firstn k (writes write_atomic ps)))
  = (expected_blocks (last_completed alen ps k cur), CleanEOF).
Proof.
  induction 1 as [|p ps Hp Hps IH]; intros k f cur Hf Hc.
  - cbn [writes flat_map last_completed]. rewrite firstn_nil. unfold wrun. cbn [fold_left].
    unfold recovered. rewrite Hf. destruct cur as [q|]; cbn [expected_blocks].
    + apply read_file_single. exact Hc.
    + reflexivity.
  - cbn [writes flat_map last_completed]. fold (writes write_atomic ps).
    unfold alen at 1. rewrite firstn_app, write_atomic_length.
    unfold wrun. rewrite fold_left_app. fold (wrun f (firstn k (write_atomic p))).
    fold (wrun (wrun f (firstn k (write_atomic p))) (firstn (k - 6) (writes write_atomic ps))).
    destruct (Nat.leb_spec 6 k) as [Hk|Hk].
    + rewrite firstn_all2 by (rewrite write_atomic_length; lia).
      rewrite atomic_full. apply IH; [reflexivity|exact Hp].
    + replace (k - 6)%nat with 0%nat by lia. cbn [firstn]. unfold wrun at 1. cbn [fold_left].
      unfold recovered. rewrite atomic_prefix by exact Hk. rewrite Hf.
      destruct cur as [q|]; cbn [expected_blocks].
      * apply read_file_single. exact Hc.
      * reflexivity.
Qed.

Corollary rewrite_atomic_from_new ps k : Forall small ps ->
  recovered (wrun fs_new (firstn k (writes write_atomic ps)))
  = (expected_blocks (last_completed alen ps k None), CleanEOF).
Proof. intros H. apply rewrite_atomic_crash_safe; auto. Qed.

(* the in-place protocol loses the completed block: crash right after the truncation of the second Write *)
Theorem rewrite_inplace_refuted :
  let ps := [[65]; [66]] in
  recovered (wrun fs_new (firstn 5 (writes write_inplace ps))) = ([[65]], CleanEOF) /\
  recovered (wrun fs_new (firstn 6 (writes write_inplace ps))) = ([], Err).
Proof. cbv zeta. split; vm_compute; reflexivity. Qed.

Corollary rewrite_inplace_refuted_blocks :
  recovered (wrun fs_new (firstn 5 (writes write_inplace [[65]; [66]]))) = ([[65]], CleanEOF) /\
  fst (recovered (wrun fs_new (firstn 6 (writes write_inplace [[65]; [66]])))) = [].
Proof. split; vm_compute; reflexivity. Qed.

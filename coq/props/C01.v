(* C01 — Log ingest-to-query round trip is lossless and exact.
   Statements only; proofs in SigP.TlvProofs / SigP.TsEncProofs / SigP.ColStoreProofs / SigP.ReaderReuseProofs.

   Model (SigM.Tlv, SigM.TsEnc, SigM.ColStore): the flattened (column, typed value) pairs of an
   event as ParseRawJsonObject hands them to the writer; the open block as per-column buffers with
   dictionary tracking (doLogEventFilling, back-fill of late and absent columns, checkAddDictEnc);
   the flush (consolidateColumnTypes, dictionary-vs-raw choice, PackDictEnc, timestamp top-diff
   block); the readers (ReadDictEnc + deGetRec, raw iteration with getCurrentRecordLength, the
   constant-record-length shortcut, GetCvalFromRec, convertRawRecordsToTimestamps); match-all over
   the blocks of a segment.  strconv.ParseFloat / FormatFloat are parameters [fc]. *)
From SigM Require Import Base Tlv TsEnc ColStore ReaderReuse FlushSlots.
From SigP Require Import BaseProofs TlvProofs TsEncProofs ColStoreProofs ReaderReuseProofs FlushSlotsProofs.
Open Scope N_scope.

(* ---------- codecs ---------- *)

(* Every column value the ingest path can produce (string below 65533 bytes, int64, uint64,
   float64 bit pattern, bool, null) is decoded by GetCvalFromRec to the same value, whatever
   follows it in the column buffer. *)
Theorem C01_tlv_roundtrip : forall v rest, wf_val v = true -> dec_val (enc_val v ++ rest) = Some (v, rest).
Proof. exact tlv_roundtrip. Qed.
Print Assumptions C01_tlv_roundtrip.

(* getCurrentRecordLength's switch returns exactly the number of bytes the encoder wrote. *)
Theorem C01_reclen_agrees : forall v rest, wf_val v = true ->
  reclen (enc_val v ++ rest) = Some (N.of_nat (length (enc_val v))).
Proof. exact reclen_agrees. Qed.
Print Assumptions C01_reclen_agrees.

(* Timestamp column: for every non-empty list of fewer than 65536 timestamps in (0, 2^64), in any
   order, the top-diff block (width 1/2/4/8 chosen from HighTs-LowTs) decodes to the same list.
   (0 is excluded: the writer uses LowTs = 0 / HighTs = 0 as "not set"; ingest replaces a 0
   timestamp by the arrival time.) *)
Theorem C01_ts_roundtrip : forall ts, ts <> [] -> Forall (fun t => ts_ok t = true) ts ->
  N.of_nat (length ts) < 65536 -> ts_decode (length ts) (ts_encode ts) = Some ts.
Proof. exact ts_roundtrip. Qed.
Print Assumptions C01_ts_roundtrip.

Theorem C01_ts_width_boundaries :
  ts_width 255 = (1%nat, 1) /\ ts_width 256 = (2%nat, 2) /\ ts_width 65535 = (2%nat, 2) /\
  ts_width 65536 = (4%nat, 3) /\ ts_width 4294967295 = (4%nat, 3) /\ ts_width 4294967296 = (8%nat, 4).
Proof. exact ts_width_boundaries. Qed.
Print Assumptions C01_ts_width_boundaries.

(* Dictionary-encoded column: PackDictEnc followed by ReadDictEnc + deGetRec gives, for every record
   number, the word of the last dictionary entry that lists it — for every dictionary of fewer than
   65536 words whose words are TLVs the reader's switch knows and whose record numbers are below the
   block's record count (at most 65536). *)
Theorem C01_dict_roundtrip : forall n d,
  N.of_nat (length d) < 65536 -> N.of_nat n <= 65536 ->
  Forall (fun e => (forall rest, dict_word_len (fst e ++ rest) = Some (N.of_nat (length (fst e)))) /\
                   N.of_nat (length (snd e)) < 65536 /\ Forall (fun r => r < N.of_nat n) (snd e)) d ->
  dict_records n (pack_dict (N.of_nat (length d)) d) = Some (map (dict_lookup d) (seqN 0 n)).
Proof. exact dict_roundtrip. Qed.
Print Assumptions C01_dict_roundtrip.

(* Raw column block: walking the buffer with the record-length switch returns the records one by one. *)
Theorem C01_raw_roundtrip : forall vs, Forall (fun v => wf_val v = true) vs ->
  raw_records INCONSISTENT (length vs) (concat (map enc_val vs)) = Some (map enc_val vs).
Proof. exact raw_roundtrip. Qed.
Print Assumptions C01_raw_roundtrip.

(* The constant-record-length shortcut (AllSeenColumnSizes) is sound as long as every record of the
   block really has that length ... *)
Theorem C01_shortcut_sound : forall csz vs, Forall (fun v => wf_val v = true) vs ->
  0 < csz -> csz <> INCONSISTENT ->
  Forall (fun v => N.of_nat (length (enc_val v)) = csz) vs ->
  raw_records csz (length vs) (concat (map enc_val vs)) = Some (map enc_val vs).
Proof. exact shortcut_sound. Qed.
Print Assumptions C01_shortcut_sound.

(* ... which consolidateColumnTypes can break: {"a":5},{"a":"abcdef"},{"a":1.5} all encode to 9 bytes;
   the block is rewritten as text "5","abcdef","1.5" (4, 9, 6 bytes); a reader that is given 9 returns
   bytes cut at multiples of 9 and then runs out of the buffer.  (The match-all record fetch passes no
   constant length; filter search on rotated segments does.) *)
Theorem C01_text_conversion_changes_record_lengths :
  exists fc vs, Forall (fun v => length (enc_val v) = 9%nat) vs /\
    let buf := concat (map enc_val vs) in
    let b := to_strings fc (S (length buf)) buf in
    to_numbers fc (S (length buf)) buf = None /\
    raw_records 9 (length vs) b <> raw_records INCONSISTENT (length vs) b.
Proof. exact shortcut_after_consolidation_refuted. Qed.
Print Assumptions C01_text_conversion_changes_record_lengths.

(* The writer therefore has to give up the constant length of such a column.  The repaired code
   ([pre = false]) sets AllSeenColumnSizes to INCONSISTENT when convertColumnToStrings rewrote the
   column, and counts the null records of backFillPastRecords: on the two witnesses below column a
   ends INCONSISTENT, while column b (an int in every record) keeps 9. *)
Theorem C01_seen_size_after_repair :
  seen_after false w_seen_text ka = Some INCONSISTENT /\
  seen_after false w_seen_late ka = Some INCONSISTENT /\
  seen_after false w_seen_late kb = Some 9.
Proof. exact seen_size_after_repair. Qed.
Print Assumptions C01_seen_size_after_repair.

(* FULL STATEMENT for the shortcut, now true of the model: for every segment (any events the ingest path
   can produce, no guard on the mixing of types, duplicated keys allowed; any limit, any leftover bloom
   keys), if AllSeenColumnSizes ends with a constant length s for column k, then in every flushed block
   that has the column the reader that is given s returns exactly what the length-walking reader
   returns.  (Invariant: a recorded constant length is the encoded length of every record of the
   column in the open block; it only ever changes to INCONSISTENT; consolidation to numbers keeps
   9-byte records, consolidation to text gives the length up.) *)
Theorem C01_seen_size_sound : forall (fc : fconv),
  (forall b, N.of_nat (length (ff fc b)) < 65533) ->
  forall card, card < 65536 -> forall blooms (blocks : list (list event)),
  Forall (fun evs => evs <> [] /\ Forall (fun e => event_ok e = true) evs) blocks ->
  forall k s, get k (st_seen (snd (ingest_blocks fc false card (init_store blooms) blocks))) = Some s ->
  s <> INCONSISTENT ->
  forall fb blk, In fb (fst (ingest_blocks fc false card (init_store blooms) blocks)) ->
    get k (fb_cols fb) = Some blk ->
    read_col s (N.to_nat (fb_n fb)) blk = read_col INCONSISTENT (N.to_nat (fb_n fb)) blk.
Proof. exact seen_size_sound. Qed.
Print Assumptions C01_seen_size_sound.

(* PRE-FIX documentation ([pre = true], no longer the code; class
   constant_length_shortcut_after_text_conversion, a regression is reported by the harness):
   AllSeenColumnSizes said 9 for column a although (1) the flushed block holds records of 4, 9 and 6
   bytes and the reader that is given 9 fails, (2) the second block {"b":1},{"a":6,"b":2} of the
   segment starts column a with a back-filled 1-byte null. *)
Theorem C01_prefix_seen_size_refuted :
  (exists blocks k, get k (st_seen (snd (ingest_blocks fc_w true 501 (init_store []) blocks))) = Some 9 /\
     exists fb blk recs, nth_error (fst (ingest_blocks fc_w true 501 (init_store []) blocks)) 0 = Some fb /\
       get k (fb_cols fb) = Some blk /\ read_col INCONSISTENT 3 blk = Some recs /\
       map (@length N) recs = [4; 9; 6]%nat /\ read_col 9 3 blk = None) /\
  (exists blocks k, get k (st_seen (snd (ingest_blocks fc_w true 501 (init_store []) blocks))) = Some 9 /\
     exists fb blk recs, nth_error (fst (ingest_blocks fc_w true 501 (init_store []) blocks)) 1 = Some fb /\
       get k (fb_cols fb) = Some blk /\ read_col INCONSISTENT 2 blk = Some recs /\
       map (@length N) recs = [1; 9]%nat).
Proof. exact prefix_seen_size_refuted. Qed.
Print Assumptions C01_prefix_seen_size_refuted.

(* ---------- the store ---------- *)

(* FULL STATEMENT (property text): for all batches of events, reading the flushed blocks returns
   exactly the events, positionally: record i of column k of block j is the value event i of block j
   sent under k (absent = null), with the timestamp sent; a number may come back as its decimal
   text when the block column also holds a non-numeric string; nothing else.
   The faithful model violates it in two ways (refuted below; both are documented semantics of
   consolidateColumnTypes and stay known findings), so the proved variant carries the boolean
   guard [block_ok]: per block, 1..65535 events; per event, values as the JSON ingest path produces
   them (no uint64), timestamp in (0, 2^64); per block column, no number together with a
   number-looking string and no number together with a bool.
   Flattened keys need NOT be distinct any more: the repaired doLogEventFilling keeps the first value
   of a key that occurs twice in one event ([colview] = first value) and nothing else moves.
   [fc] = strconv.ParseFloat / FormatFloat (FormatFloat's output shorter than 65533 bytes);
   [card] = the dictionary cardinality limit (uint16; 501 by default); [blooms] = the columns that
   already have a bloom index from earlier segments of the same stream (any set).
   The conclusion is positional per block and per column: "no value migrates". *)
Theorem C01_store_roundtrip_guarded : forall (fc : fconv),
  (forall b, N.of_nat (length (ff fc b)) < 65533) ->
  forall card, card < 65536 -> forall blooms (blocks : list (list event)),
  Forall (fun evs => block_ok fc evs = true) blocks ->
  exists outs, read_all (fst (ingest_blocks fc false card (init_store blooms) blocks)) = Some outs /\
    Forall2 (fun evs out =>
               fst out = map ev_ts evs /\
               forall k, col_allowed fc (colview k evs)
                           (match get k (snd out) with Some vs => vs | None => repeat VNull (length evs) end))
            blocks outs.
Proof. exact store_roundtrip_guarded. Qed.
Print Assumptions C01_store_roundtrip_guarded.

(* the guard is satisfiable, on blocks that exercise a late column, an explicit null, the allowed
   relaxation, a dictionary block and a raw block; the model's result is shown *)
Theorem C01_guard_nonvacuous :
  Forall (fun evs => block_ok fc_w evs = true) w_ok /\
  run_read fc_w 2 [] w_ok =
    Some [([1700000000001; 1700000000300; 1700000000002],
           [(ka, [VStr [53]; VStr [120]; VStr [49;46;53]]); (kz, [VStr [112]; VNull; VNull]); (kb, [VNull; VBool true; VBool false])]);
          ([1700000070000], [(ka, [VInt (-1)]); (kz, [VStr [113]])])].
Proof. exact guard_nonvacuous. Qed.
Print Assumptions C01_guard_nonvacuous.

(* a duplicated key after the repair: {"a":7,"a":8,"z":"p"} then {"a":9,"z":"q"} returns a = 7, 9 with a
   raw block (limit 2) and with a dictionary block (limit 501) *)
Theorem C01_duplicate_key_keeps_first_value :
  out_col (match run_read fc_w 2 [] w_dup with Some o => o | None => [] end) 0 ka = [VInt 7; VInt 9] /\
  out_col (match run_read fc_w 501 [] w_dup with Some o => o | None => [] end) 0 ka = [VInt 7; VInt 9].
Proof. exact dupkey_fixed_witness. Qed.
Print Assumptions C01_duplicate_key_keeps_first_value.

(* PRE-FIX documentation ([pre = true], no longer the code; class duplicate_key_shifts_column, a
   regression is reported by the harness): the second value of the duplicated key was appended to the
   column as one more record; with the cardinality limit reached (raw block) column a returned 7, 8 —
   the second event's 9 was replaced by the first event's second value. *)
Theorem C01_prefix_dupkey_refuted :
  exists fc card blocks outs,
    Forall (Forall (fun e => event_ok e = true)) blocks /\
    read_all (fst (ingest_blocks fc true card (init_store []) blocks)) = Some outs /\
    exists k, out_col outs 0 k = [VInt 7; VInt 8] /\ colview k (nth 0 blocks []) = [VInt 7; VInt 9].
Proof. exact prefix_dupkey_refuted. Qed.
Print Assumptions C01_prefix_dupkey_refuted.

(* REFUTED without "no number together with a number-looking string" (confirmed defect, class
   numeric_string_becomes_number): {"a":5},{"a":"007"},{"a":"1e3"} returns 5, 7, 1000.0 although
   every event is well-formed and the column holds no non-numeric string. *)
Theorem C01_store_roundtrip_refuted_numstring :
  exists fc card blocks outs,
    Forall (Forall (fun e => event_ok e = true)) blocks /\
    read_all (fst (ingest_blocks fc false card (init_store []) blocks)) = Some outs /\
    exists k, colview k (nth 0 blocks []) = [VInt 5; VStr [48;48;55]; VStr [49;101;51]] /\
              out_col outs 0 k = [VInt 5; VInt 7; VFloat 4652007308841189376].
Proof. exact store_roundtrip_refuted_numstring. Qed.
Print Assumptions C01_store_roundtrip_refuted_numstring.

(* REFUTED without "no number together with a bool" (classes bool_becomes_text,
   number_becomes_text_without_string): {"b":1},{"a":true,"b":1},{"a":5,"b":1}: column a never
   holds a string, yet it returns "true" and "5". *)
Theorem C01_store_roundtrip_refuted_bool_number :
  exists fc card blocks outs,
    Forall (Forall (fun e => event_ok e = true)) blocks /\
    read_all (fst (ingest_blocks fc false card (init_store []) blocks)) = Some outs /\
    exists k, colview k (nth 0 blocks []) = [VNull; VBool true; VInt 5] /\
              out_col outs 0 k = [VNull; VStr s_true; VStr [53]].
Proof. exact store_roundtrip_refuted_bool_number. Qed.
Print Assumptions C01_store_roundtrip_refuted_bool_number.

(* ---------- readers kept across blocks (SigM.ReaderReuse) ---------- *)
(* One block worker of a segment search uses one TimeRangeReader and one SegmentFileReader per column for
   every block it is handed, in any order.  The readers keep their file read buffer while it is long enough
   (the tail of a longer, earlier block stays behind the bytes of the current one) and the dictionary table
   deRecToTlv (ResizeSlice keeps the old entries). *)

(* The reused read buffer: its first len(blk) bytes are the block just read, whatever it held before. *)
Theorem C01_read_buffer_prefix : forall buf blk,
  firstn (length blk) (buf_load buf blk) = blk /\ length (buf_load buf blk) = Nat.max (length buf) (length blk).
Proof. intros buf blk. split; [apply buf_load_prefix | apply buf_load_length]. Qed.
Print Assumptions C01_read_buffer_prefix.

(* Whatever sequence of timestamp blocks (any sizes, any order, any bytes) one TimeRangeReader reads and
   whatever its buffer held at the start, every block decodes as it does on its own. *)
Theorem C01_time_reader_reuse_independent : forall reqs buf,
  trr_read_seq buf reqs = map (fun r => ts_decode (fst r) (snd r)) reqs.
Proof. exact trr_reuse_independent. Qed.
Print Assumptions C01_time_reader_reuse_independent.

(* ... so for every list of blocks of timestamps the writer can produce (each non-empty, fewer than 65536
   timestamps in (0, 2^64), any order inside the block) one reader returns exactly the timestamps sent,
   block after block - in particular for a block of more than 64 KiB followed by a small one. *)
Theorem C01_time_reader_reuse_roundtrip : forall tss buf,
  Forall (fun ts => ts <> [] /\ Forall (fun t => ts_ok t = true) ts /\ N.of_nat (length ts) < 65536) tss ->
  trr_read_seq buf (map (fun ts => (length ts, ts_encode ts)) tss) = map Some tss.
Proof. exact trr_reuse_roundtrip. Qed.
Print Assumptions C01_time_reader_reuse_roundtrip.

(* Why the decoder must be handed the slice [:len]: on the whole buffer, after a block of 8200 timestamps
   with 8-byte deltas (65610 bytes), a block of 100 timestamps with 1-byte deltas has
   uint16(65610 - 10) = 64 "available" records and is rejected (ErrTooFewRecords). *)
Theorem C01_time_reader_whole_buffer_refuted : exists buf ts,
  ts_decode (length ts) (ts_encode ts) = Some ts /\ (length (ts_encode ts) < length buf)%nat /\
  ts_decode (length ts) (buf_load buf (ts_encode ts)) = None.
Proof. exact trr_whole_buffer_refuted. Qed.
Print Assumptions C01_time_reader_whole_buffer_refuted.

(* Column reader: for every sequence of blocks that are raw blocks (any bytes) or packed dictionaries
   (fewer than 65536 known words, record numbers below the block's record count) that list EVERY record of
   their block, and for every previous content of deRecToTlv, one SegmentFileReader returns for each block
   what a fresh reader returns (read_col; with C01_dict_roundtrip / C01_raw_roundtrip: the records written). *)
Theorem C01_column_reader_reuse_independent : forall csz reqs cap,
  Forall reuse_blk_ok reqs ->
  sfr_read_seq csz (Some cap) reqs = map (fun r => read_col csz (fst r) (snd r)) reqs.
Proof. exact sfr_reuse_independent. Qed.
Print Assumptions C01_column_reader_reuse_independent.

(* The guard "lists every record" is needed: a record no entry lists keeps the word index of the block
   read before (table [1;1], dictionary {backfill: [0]; true: []}: record 1 reads "true", a fresh reader
   the backfill word).  The writer lists every record while deCount < limit (ColInv in ColStoreProofs). *)
Theorem C01_column_reader_reuse_unlisted_record_refuted : exists cap n d,
  N.of_nat (length d) < 65536 /\ Forall (dict_entry_ok n) d /\
  sfr_read_seq INCONSISTENT (Some cap) [(n, (ENC_DICT, pack_dict (N.of_nat (length d)) d))]
  <> [read_col INCONSISTENT n (ENC_DICT, pack_dict (N.of_nat (length d)) d)].
Proof. exact sfr_reuse_uncovered_refuted. Qed.
Print Assumptions C01_column_reader_reuse_unlisted_record_refuted.

(* ================================================================== *)
(* Wide events: the block flush works in waves of P = 2*GOMAXPROCS column goroutines, every goroutine of *)
(* a wave owns one scratch buffer (FlushSlots.v: the walk of AppendWipToSegfile over the columns of the  *)
(* segment, of which any subset may have no data in this block).                                         *)
(* ================================================================== *)

(* For every P > 0, every list of columns and every pattern of columns without data in the block: the
   buffer handed to a goroutine exists, and two goroutines of the same wave never get the same buffer. *)
Theorem C01_flush_wave_buffers_distinct : forall every P cols l1 l2, (0 < P)%nat ->
  In l1 (flush_launches slot_code every P cols) -> In l2 (flush_launches slot_code every P cols) ->
  (l_slot l1 < P)%nat /\ (l_wave l1 = l_wave l2 -> l_slot l1 = l_slot l2 -> l1 = l2).
Proof. exact code_wave_buffers. Qed.
Print Assumptions C01_flush_wave_buffers_distinct.

(* Exactly the columns with data get a goroutine, each one, in iteration order (whatever the buffer
   policy), and no wave has more than P goroutines. *)
Theorem C01_flush_every_data_column_once : forall pol every P cols w,
  map l_col (flush_launches pol every P cols) = data_cols cols 0 /\
  ((0 < P)%nat -> (length (wave_of w (flush_launches pol every P cols)) <= P)%nat).
Proof. exact data_cols_once. Qed.
Print Assumptions C01_flush_every_data_column_once.

(* The executable check of the case files accepts the code's policy for every input. *)
Theorem C01_flush_slots_check_total : forall every P cols, (0 < P)%nat -> flush_slots_ok slot_code every P cols = true.
Proof. exact code_flush_slots_ok. Qed.
Print Assumptions C01_flush_slots_check_total.

(* Under EVERY schedule of the goroutines of a wave (each compresses into its buffer, later writes the
   buffer to its column file), every column file receives the compressed block of its own column: for
   every compressor enc, every P > 0, every column list and pattern of skipped columns, every wave, every
   previous content of the buffers. *)
Theorem C01_flush_files_exact_for_every_schedule : forall enc every P cols w sch b0, (0 < P)%nat ->
  wf_sched (wave_of w (flush_launches slot_code every P cols)) sch ->
  forall c b, In (c, b) (exec enc b0 sch) -> b = enc c.
Proof. exact code_flush_files_exact. Qed.
Print Assumptions C01_flush_files_exact_for_every_schedule.

(* The same for any set of goroutines whose buffers are pairwise different. *)
Theorem C01_flush_distinct_buffers_own_bytes : forall enc ls sch b0,
  (forall l1 l2, In l1 ls -> In l2 ls -> l_slot l1 = l_slot l2 -> l_col l1 = l_col l2) ->
  wf_sched ls sch ->
  forall c b, In (c, b) (exec enc b0 sch) -> b = enc c.
Proof. exact exec_own_bytes. Qed.
Print Assumptions C01_flush_distinct_buffers_own_bytes.

(* A buffer index taken modulo P from a counter of the goroutines started so far is equally safe ... *)
Theorem C01_flush_counter_of_started_goroutines_distinct : forall P cols l1 l2, (0 < P)%nat ->
  In l1 (flush_launches slot_modidx false P cols) -> In l2 (flush_launches slot_modidx false P cols) ->
  l_wave l1 = l_wave l2 -> l_slot l1 = l_slot l2 -> l1 = l2.
Proof. exact modidx_launched_only_distinct. Qed.
Print Assumptions C01_flush_counter_of_started_goroutines_distinct.

(* ... but not from a counter of ALL columns: P = 2, three columns of which the middle one has no data in
   the block: the first and the third goroutine run in the same wave with the same buffer, and there is a
   schedule in which the file of column 0 receives the block of column 2 (a value migrates to another
   column) - for every compressor. *)
Theorem C01_flush_counter_of_all_columns_refuted :
  (exists P cols l1 l2, (0 < P)%nat /\
     In l1 (flush_launches slot_modidx true P cols) /\ In l2 (flush_launches slot_modidx true P cols) /\
     l_wave l1 = l_wave l2 /\ l_slot l1 = l_slot l2 /\ l_col l1 <> l_col l2) /\
  (exists P cols w sch, (0 < P)%nat /\
     wf_sched (wave_of w (flush_launches slot_modidx true P cols)) sch /\
     forall (enc : nat -> bytes) b0, In (0%nat, enc 2%nat) (exec enc b0 sch)).
Proof. exact modidx_every_refuted_both. Qed.
Print Assumptions C01_flush_counter_of_all_columns_refuted.

(* C02 — Search filters select exactly the matching events.
   Statements only; proofs are in SigP.DteProofs / SigP.FilterProofs.

   Property text: for every search expression (field comparisons with = != < <= > >= against
   string, integer and decimal literals, wildcards, free-text terms and phrases, AND/OR/NOT,
   the query time range) an event is in the result iff it satisfies the expression under the
   engine's comparison rules: case-insensitive text match, numeric comparison by value
   independent of how the number or literal was written; search clause and `where` stage agree
   on numeric fields; A AND B / A OR B are intersection / union.

   spec_cmp / spec_eval / spec_select are written from that text (Dte.v, Filter.v);
   impl_cmp / exec / impl_select follow the Go code.  The full-strength statement
       forall e tr evs, impl_select e tr evs = spec_select e tr evs
   is FALSE for the code as it is (C02_cmp_refuted_*, C02_not_complement_refuted); what holds
   is the guarded form with the boolean guards cmp_guard / expr_guard. *)
From SigM Require Import Base Dte Filter.
From SigP Require Import BaseProofs DteProofs FilterProofs.
From Coq Require Import QArith.
Open Scope Z_scope.

(* ---- one comparison ---- *)
(* FULL STATEMENT (false): forall ci o st l, impl_cmp ci o st l = spec_cmp ci o st l.
   Guarded: the literal is an integer in the stored type's range or the stored value is a
   float; float = / != only when equal or at least 1e-4 apart; != not on an absent field or
   across number/text; wildcard values without newline. *)
Theorem C02_cmp_refines_spec_guarded : forall ci o st l,
  stored_wf st = true -> lit_wf l = true -> cmp_guard o st l = true ->
  impl_cmp ci o st l = spec_cmp ci o st l.
Proof. exact cmp_refines_spec_guarded. Qed.
Print Assumptions C02_cmp_refines_spec_guarded.

Theorem C02_cmp_guard_satisfiable :
  cmp_guard Lt (SInt 2) (LNum (NLInt 3)) = true /\ cmp_guard Lt (SFloat (5 # 2)) (LNum (NLDec (5 # 2))) = true /\
  cmp_guard Eq (SFloat (5 # 2)) (LNum (NLDec (5 # 2))) = true /\ cmp_guard Eq (SInt 5) (LNum (NLDec (10 # 2))) = true /\
  cmp_guard Eq (SStr [97]%N) (LStr [97; 42]%N) = true.
Proof. exact cmp_guard_satisfiable. Qed.
Print Assumptions C02_cmp_guard_satisfiable.

(* integer-typed stored value vs decimal literal: compared with int64(literal); witness n=2, 2.5, < *)
Theorem C02_cmp_refuted_int_vs_decimal :
  exists o z q, stored_wf (SInt z) = true /\
    impl_cmp true o (SInt z) (LNum (NLDec q)) <> spec_cmp true o (SInt z) (LNum (NLDec q)).
Proof. exact cmp_refuted_int_vs_decimal. Qed.
Print Assumptions C02_cmp_refuted_int_vs_decimal.

Theorem C02_cmp_refuted_int_vs_decimal_rows :
  impl_cmp true Ge (SInt 2) (LNum (NLDec (5 # 2))) = true /\ spec_cmp true Ge (SInt 2) (LNum (NLDec (5 # 2))) = false /\
  impl_cmp true Eq (SInt 2) (LNum (NLDec (5 # 2))) = true /\ spec_cmp true Eq (SInt 2) (LNum (NLDec (5 # 2))) = false /\
  impl_cmp true Gt (SInt (-2)) (LNum (NLDec (-5 # 2))) = false /\ spec_cmp true Gt (SInt (-2)) (LNum (NLDec (-5 # 2))) = true.
Proof. exact cmp_refuted_int_vs_decimal_more. Qed.
Print Assumptions C02_cmp_refuted_int_vs_decimal_rows.

(* AlmostEquals: 1.00001 = 1 *)
Theorem C02_cmp_refuted_float_tolerance :
  exists r n, impl_cmp true Eq (SFloat r) (LNum n) <> spec_cmp true Eq (SFloat r) (LNum n).
Proof. exact cmp_refuted_float_tolerance. Qed.
Print Assumptions C02_cmp_refuted_float_tolerance.

(* n != 5 is satisfied by a record without n *)
Theorem C02_cmp_refuted_ne_absent :
  impl_cmp true Ne SAbsent (LNum (NLInt 5)) <> spec_cmp true Ne SAbsent (LNum (NLInt 5)).
Proof. exact cmp_refuted_ne_absent. Qed.
Print Assumptions C02_cmp_refuted_ne_absent.

(* unsigned record vs negative literal; signed record vs literal beyond int64 *)
Theorem C02_cmp_refuted_width :
  impl_cmp true Lt (SUint 5) (LNum (NLInt (-1))) <> spec_cmp true Lt (SUint 5) (LNum (NLInt (-1))) /\
  impl_cmp true Lt (SInt 5) (LNum (NLInt two63)) <> spec_cmp true Lt (SInt 5) (LNum (NLInt two63)).
Proof. exact cmp_refuted_width. Qed.
Print Assumptions C02_cmp_refuted_width.

(* ---- search clause vs where stage ---- *)
(* the where stage compares numeric fields by value (exact-rational model; full strength since
   the repair of ConvertToSameType, fixes/C02-where-failed-conversion-keeps-value) *)
Theorem C02_where_refines_spec : forall ci o st n v,
  stored_num st = Some v -> where_cmp o st n = Some (spec_cmp ci o st (LNum n)).
Proof. exact where_refines_spec. Qed.
Print Assumptions C02_where_refines_spec.

(* ---- PRE-FIX documentation (about [where_cmp_prefix]: ConvertToSameType overwrote the left
   value with int64(0) when its conversion failed; no longer the code) ----
   Before the fix the statement above held only under the guard "not = / != between a field
   value that is not an int64 and the literal 0", and was refuted without it: `| where x=0`
   kept every row whose x is not an integer (confirmed on the pre-fix code; the harness keeps
   the generator stream, a regression is class where_noninteger_equals_zero). *)
Theorem C02_prefix_where_refines_spec_guarded : forall ci o st n v,
  stored_num st = Some v -> where_prefix_guard o st n = true ->
  where_cmp_prefix o st n = Some (spec_cmp ci o st (LNum n)).
Proof. exact where_prefix_refines_spec_guarded. Qed.
Print Assumptions C02_prefix_where_refines_spec_guarded.

Theorem C02_prefix_where_zero_refuted :
  where_cmp_prefix Eq (SFloat (5 # 2)) (NLInt 0) = Some true /\ spec_cmp true Eq (SFloat (5 # 2)) (LNum (NLInt 0)) = false.
Proof. exact where_prefix_zero_refuted. Qed.
Print Assumptions C02_prefix_where_zero_refuted.

(* FULL STATEMENT (false): forall numeric st, where_cmp o st n = Some (impl_cmp ci o st (LNum n));
   guarded by the search clause's comparison guard only *)
Theorem C02_search_where_agree_guarded : forall ci o st n v,
  stored_num st = Some v -> stored_wf st = true -> lit_wf (LNum n) = true ->
  cmp_guard o st (LNum n) = true ->
  where_cmp o st n = Some (impl_cmp ci o st (LNum n)).
Proof. exact search_where_agree_guarded. Qed.
Print Assumptions C02_search_where_agree_guarded.

Theorem C02_search_where_refuted :
  exists o st n, where_cmp o st n <> Some (impl_cmp true o st (LNum n)).
Proof. exact search_where_refuted. Qed.
Print Assumptions C02_search_where_refuted.

(* ---- expressions on record lists ---- *)
(* the block search state machine (nested conditions, leaf queries restricted to the records
   still set / not yet set, first search of an OR replaces, later ones unite) yields, for
   EVERY expression and record list, the record-level evaluation within the time range *)
Theorem C02_search_state_machine_pointwise : forall tr e evs,
  exec tr e evs = map (fun ev => check_in_range tr (ev_ts ev) && peval e ev) evs.
Proof. exact exec_pointwise. Qed.
Print Assumptions C02_search_state_machine_pointwise.

Theorem C02_and_is_intersection : forall a b tr evs ev,
  In ev (impl_select (EAnd a b) tr evs) <-> In ev (impl_select a tr evs) /\ In ev (impl_select b tr evs).
Proof. exact and_is_intersection. Qed.
Print Assumptions C02_and_is_intersection.

Theorem C02_and_is_intersection_list : forall a b tr evs,
  impl_select (EAnd a b) tr evs = impl_select b tr (impl_select a tr evs).
Proof. exact and_is_intersection_list. Qed.
Print Assumptions C02_and_is_intersection_list.

Theorem C02_or_is_union : forall a b tr evs ev,
  In ev (impl_select (EOr a b) tr evs) <-> In ev (impl_select a tr evs) \/ In ev (impl_select b tr evs).
Proof. exact or_is_union. Qed.
Print Assumptions C02_or_is_union.

(* FULL STATEMENT (false): NOT a selects the in-range records not selected by a.
   Guarded: every comparison of a is two-valued on every record (value present, of the
   literal's kind, inside cmp_guard for the operator and for the flipped operator). *)
Theorem C02_not_is_complement : forall a tr evs,
  expr_wf a = true ->
  (forall ev, In ev evs -> ev_wf ev = true /\ expr_guard false a ev = true /\ expr_guard true a ev = true) ->
  forall ev, In ev (impl_select (ENot a) tr evs) <->
             In ev evs /\ check_in_range tr (ev_ts ev) = true /\ ~ In ev (impl_select a tr evs).
Proof. exact not_is_complement. Qed.
Print Assumptions C02_not_is_complement.

Theorem C02_not_complement_refuted :
  exists a tr evs ev, In ev evs /\ check_in_range tr (ev_ts ev) = true /\
    ~ In ev (impl_select a tr evs) /\ ~ In ev (impl_select (ENot a) tr evs).
Proof. exact not_complement_refuted. Qed.
Print Assumptions C02_not_complement_refuted.

(* FULL STATEMENT (false): forall e tr evs, impl_select e tr evs = spec_select e tr evs *)
Theorem C02_select_exact_guarded : forall e tr evs,
  expr_wf e = true ->
  (forall ev, In ev evs -> ev_wf ev = true /\ expr_guard false e ev = true) ->
  impl_select e tr evs = spec_select e tr evs.
Proof. exact select_exact_guarded. Qed.
Print Assumptions C02_select_exact_guarded.

Theorem C02_expr_guard_satisfiable :
  let e := ENot (EOr (EAtom (ACmp 1%N Gt (LNum (NLInt 2)) true)) (EAtom (ACmp 2%N Eq (LStr [97; 42]%N) true))) in
  let ev := mkEv 0%N 5 [(1%N, SInt 3); (2%N, SStr [65; 98]%N)] in
  expr_guard false e ev = true /\ ev_wf ev = true /\ expr_wf e = true /\ spec_eval e ev = false.
Proof. exact expr_guard_satisfiable. Qed.
Print Assumptions C02_expr_guard_satisfiable.

(* ---- time range ---- *)
Theorem C02_time_range_exact : forall tr ts,
  check_in_range tr ts = true <-> t_start tr <= ts <= t_end tr.
Proof. exact time_range_exact. Qed.
Print Assumptions C02_time_range_exact.

Theorem C02_overlap_iff : forall tr earliest latest,
  t_start tr <= t_end tr -> earliest <= latest ->
  (check_range_overlap tr earliest latest = true <->
   exists ts, earliest <= ts <= latest /\ check_in_range tr ts = true).
Proof. exact overlap_iff. Qed.
Print Assumptions C02_overlap_iff.

(* dropping a block by its [low, high] summary never loses a record in range *)
Theorem C02_time_prune_sound : forall tr low high ts,
  t_start tr <= t_end tr -> low <= ts <= high ->
  check_range_overlap tr low high = false -> check_in_range tr ts = false.
Proof. exact time_prune_sound. Qed.
Print Assumptions C02_time_prune_sound.

(* ---- wildcards ---- *)
(* the matcher used as specification is the glob: the value is the literals in order with
   arbitrary gaps (case-insensitively) *)
Theorem C02_glob_match_sem : forall ci p s,
  glob_match ci p s = true <-> rsem true ci (rx_of_pat p) s.
Proof. intros ci p s. exact (rx_match_sem true ci (rx_of_pat p) s). Qed.
Print Assumptions C02_glob_match_sem.

(* what the code evaluates for a wildcard (prefix/suffix/contains fast path of pkg/regex, or
   the regexp fragment) is the glob, on values without a newline *)
Theorem C02_wildcard_impl_is_glob : forall ci p s,
  no_nl s = true -> wild_impl ci p s = glob_match ci p s.
Proof. exact wild_impl_glob. Qed.
Print Assumptions C02_wildcard_impl_is_glob.

(* Go's regexp is a premise: on the source text SPLToRegex produces it implements the fragment
   (quoted literals, ".*" that does not cross a newline, anchors, (?i)) *)
Theorem C02_glob_regex_equiv : forall go_match : list N -> list N -> bool,
  (forall ci p s, go_match (spl_to_regex ci p) s = rx_match false ci (rx_of_pat p) s) ->
  forall ci p s, no_nl s = true -> go_match (spl_to_regex ci p) s = glob_match ci p s.
Proof. exact glob_regex_equiv. Qed.
Print Assumptions C02_glob_regex_equiv.

Theorem C02_wildcard_newline_refuted :
  wild_impl true [97; 42; 98]%N [97; 10; 98]%N = false /\ glob_match true [97; 42; 98]%N [97; 10; 98]%N = true.
Proof. exact wild_newline_refuted. Qed.
Print Assumptions C02_wildcard_newline_refuted.

(* ---- free-text words and phrases ---- *)
(* the loop of IsSubWordPresent finds exactly the occurrences delimited by spaces / value ends *)
Theorem C02_is_subword_spec : forall ci hay w, is_subword ci hay w = word_occurs ci w hay.
Proof. exact is_subword_spec. Qed.
Print Assumptions C02_is_subword_spec.

(* ---- tie by translation: the Gallina definitions regenerated from dtypeutils.go by gotrans on
   every run are the model's time-range predicates ---- *)
From SigG Require Import Gen.
From SigP Require Import GenC02.
Theorem C02_code_CheckInRange_is_model : forall tr ts,
  gen_CheckInRange (t_end tr) (t_start tr) ts = Filter.check_in_range tr ts.
Proof. exact gen_CheckInRange_is_model. Qed.
Print Assumptions C02_code_CheckInRange_is_model.
Theorem C02_code_CheckRangeOverLap_is_model : forall tr lo hi,
  gen_CheckRangeOverLap (t_end tr) (t_start tr) lo hi = Filter.check_range_overlap tr lo hi.
Proof. exact gen_CheckRangeOverLap_is_model. Qed.
Print Assumptions C02_code_CheckRangeOverLap_is_model.
Theorem C02_code_AreTimesFullyEnclosed_is_model : forall tr lo hi,
  gen_AreTimesFullyEnclosed (t_end tr) (t_start tr) lo hi = Filter.times_fully_enclosed tr lo hi.
Proof. exact gen_AreTimesFullyEnclosed_is_model. Qed.
Print Assumptions C02_code_AreTimesFullyEnclosed_is_model.

(* C02 — Search filters select exactly the matching events.
   Statements only; proofs are in SigP.DteProofs / SigP.FilterProofs / SigP.FilterPlanProofs / SigP.ChunkWalkProofs / SigP.FilterChunkProofs.

   Property text: for every search expression (field comparisons with = != < <= > >= against
   string, integer and decimal literals, wildcards, free-text terms and phrases, AND/OR/NOT,
   the query time range) an event is in the result iff it satisfies the expression under the
   engine's comparison rules: case-insensitive text match, numeric comparison by value
   independent of how the number or literal was written; search clause and `where` stage agree
   on numeric fields; A AND B / A OR B are intersection / union.

   spec_cmp / spec_eval / spec_select are written from that text (Dte.v, Filter.v);
   impl_cmp / exec / impl_select follow the Go code.  The full-strength statement
       forall e tr evs, impl_select e tr evs = spec_select e tr evs
   is FALSE for the code as it is (C02_cmp_refuted_*, C02_not_complement_refuted); what holds
   is the guarded form with the boolean guards cmp_guard / expr_guard. *)
From SigM Require Import Base Dte Filter FilterPlan.
From SigP Require Import BaseProofs DteProofs FilterProofs FilterPlanProofs.
From Coq Require Import QArith.
Open Scope Z_scope.

(* ---- one comparison ---- *)
(* FULL STATEMENT (false): forall ci o st l, impl_cmp ci o st l = spec_cmp ci o st l.
   Guarded: the literal is an integer in the stored type's range or the stored value is a
   float; float = / != only when equal or at least 1e-4 apart; != not on an absent field or
   across number/text; wildcard values without newline. *)
Theorem C02_cmp_refines_spec_guarded : forall ci o st l,
  stored_wf st = true -> lit_wf l = true -> cmp_guard o st l = true ->
  impl_cmp ci o st l = spec_cmp ci o st l.
Proof. exact cmp_refines_spec_guarded. Qed.
Print Assumptions C02_cmp_refines_spec_guarded.

Theorem C02_cmp_guard_satisfiable :
  cmp_guard Lt (SInt 2) (LNum (NLInt 3)) = true /\ cmp_guard Lt (SFloat (5 # 2)) (LNum (NLDec (5 # 2))) = true /\
  cmp_guard Eq (SFloat (5 # 2)) (LNum (NLDec (5 # 2))) = true /\ cmp_guard Eq (SInt 5) (LNum (NLDec (10 # 2))) = true /\
  cmp_guard Eq (SStr [97]%N) (LStr [97; 42]%N) = true.
Proof. exact cmp_guard_satisfiable. Qed.
Print Assumptions C02_cmp_guard_satisfiable.

(* integer-typed stored value vs decimal literal: compared with int64(literal); witness n=2, 2.5, < *)
Theorem C02_cmp_refuted_int_vs_decimal :
  exists o z q, stored_wf (SInt z) = true /\
    impl_cmp true o (SInt z) (LNum (NLDec q)) <> spec_cmp true o (SInt z) (LNum (NLDec q)).
Proof. exact cmp_refuted_int_vs_decimal. Qed.
Print Assumptions C02_cmp_refuted_int_vs_decimal.

Theorem C02_cmp_refuted_int_vs_decimal_rows :
  impl_cmp true Ge (SInt 2) (LNum (NLDec (5 # 2))) = true /\ spec_cmp true Ge (SInt 2) (LNum (NLDec (5 # 2))) = false /\
  impl_cmp true Eq (SInt 2) (LNum (NLDec (5 # 2))) = true /\ spec_cmp true Eq (SInt 2) (LNum (NLDec (5 # 2))) = false /\
  impl_cmp true Gt (SInt (-2)) (LNum (NLDec (-5 # 2))) = false /\ spec_cmp true Gt (SInt (-2)) (LNum (NLDec (-5 # 2))) = true.
Proof. exact cmp_refuted_int_vs_decimal_more. Qed.
Print Assumptions C02_cmp_refuted_int_vs_decimal_rows.

(* AlmostEquals: 1.00001 = 1 *)
Theorem C02_cmp_refuted_float_tolerance :
  exists r n, impl_cmp true Eq (SFloat r) (LNum n) <> spec_cmp true Eq (SFloat r) (LNum n).
Proof. exact cmp_refuted_float_tolerance. Qed.
Print Assumptions C02_cmp_refuted_float_tolerance.

(* n != 5 is satisfied by a record without n *)
Theorem C02_cmp_refuted_ne_absent :
  impl_cmp true Ne SAbsent (LNum (NLInt 5)) <> spec_cmp true Ne SAbsent (LNum (NLInt 5)).
Proof. exact cmp_refuted_ne_absent. Qed.
Print Assumptions C02_cmp_refuted_ne_absent.

(* unsigned record vs negative literal; signed record vs literal beyond int64 *)
Theorem C02_cmp_refuted_width :
  impl_cmp true Lt (SUint 5) (LNum (NLInt (-1))) <> spec_cmp true Lt (SUint 5) (LNum (NLInt (-1))) /\
  impl_cmp true Lt (SInt 5) (LNum (NLInt two63)) <> spec_cmp true Lt (SInt 5) (LNum (NLInt two63)).
Proof. exact cmp_refuted_width. Qed.
Print Assumptions C02_cmp_refuted_width.

(* ---- search clause vs where stage ---- *)
(* the where stage compares numeric fields by value (exact-rational model; full strength since
   the repair of ConvertToSameType, fixes/C02-where-failed-conversion-keeps-value) *)
Theorem C02_where_refines_spec : forall ci o st n v,
  stored_num st = Some v -> where_cmp o st n = Some (spec_cmp ci o st (LNum n)).
Proof. exact where_refines_spec. Qed.
Print Assumptions C02_where_refines_spec.

(* ---- PRE-FIX documentation (about [where_cmp_prefix]: ConvertToSameType overwrote the left
   value with int64(0) when its conversion failed; no longer the code) ----
   Before the fix the statement above held only under the guard "not = / != between a field
   value that is not an int64 and the literal 0", and was refuted without it: `| where x=0`
   kept every row whose x is not an integer (confirmed on the pre-fix code; the harness keeps
   the generator stream, a regression is class where_noninteger_equals_zero). *)
Theorem C02_prefix_where_refines_spec_guarded : forall ci o st n v,
  stored_num st = Some v -> where_prefix_guard o st n = true ->
  where_cmp_prefix o st n = Some (spec_cmp ci o st (LNum n)).
Proof. exact where_prefix_refines_spec_guarded. Qed.
Print Assumptions C02_prefix_where_refines_spec_guarded.

Theorem C02_prefix_where_zero_refuted :
  where_cmp_prefix Eq (SFloat (5 # 2)) (NLInt 0) = Some true /\ spec_cmp true Eq (SFloat (5 # 2)) (LNum (NLInt 0)) = false.
Proof. exact where_prefix_zero_refuted. Qed.
Print Assumptions C02_prefix_where_zero_refuted.

(* FULL STATEMENT (false): forall numeric st, where_cmp o st n = Some (impl_cmp ci o st (LNum n));
   guarded by the search clause's comparison guard only *)
Theorem C02_search_where_agree_guarded : forall ci o st n v,
  stored_num st = Some v -> stored_wf st = true -> lit_wf (LNum n) = true ->
  cmp_guard o st (LNum n) = true ->
  where_cmp o st n = Some (impl_cmp ci o st (LNum n)).
Proof. exact search_where_agree_guarded. Qed.
Print Assumptions C02_search_where_agree_guarded.

Theorem C02_search_where_refuted :
  exists o st n, where_cmp o st n <> Some (impl_cmp true o st (LNum n)).
Proof. exact search_where_refuted. Qed.
Print Assumptions C02_search_where_refuted.

(* ---- expressions on record lists ---- *)
(* the block search state machine (nested conditions, leaf queries restricted to the records
   still set / not yet set, first search of an OR replaces, later ones unite) yields, for
   EVERY expression and record list, the record-level evaluation within the time range *)
Theorem C02_search_state_machine_pointwise : forall tr e evs,
  exec tr e evs = map (fun ev => check_in_range tr (ev_ts ev) && peval e ev) evs.
Proof. exact exec_pointwise. Qed.
Print Assumptions C02_search_state_machine_pointwise.

Theorem C02_and_is_intersection : forall a b tr evs ev,
  In ev (impl_select (EAnd a b) tr evs) <-> In ev (impl_select a tr evs) /\ In ev (impl_select b tr evs).
Proof. exact and_is_intersection. Qed.
Print Assumptions C02_and_is_intersection.

Theorem C02_and_is_intersection_list : forall a b tr evs,
  impl_select (EAnd a b) tr evs = impl_select b tr (impl_select a tr evs).
Proof. exact and_is_intersection_list. Qed.
Print Assumptions C02_and_is_intersection_list.

Theorem C02_or_is_union : forall a b tr evs ev,
  In ev (impl_select (EOr a b) tr evs) <-> In ev (impl_select a tr evs) \/ In ev (impl_select b tr evs).
Proof. exact or_is_union. Qed.
Print Assumptions C02_or_is_union.

(* FULL STATEMENT (false): NOT a selects the in-range records not selected by a.
   Guarded: every comparison of a is two-valued on every record (value present, of the
   literal's kind, inside cmp_guard for the operator and for the flipped operator). *)
Theorem C02_not_is_complement : forall a tr evs,
  expr_wf a = true ->
  (forall ev, In ev evs -> ev_wf ev = true /\ expr_guard false a ev = true /\ expr_guard true a ev = true) ->
  forall ev, In ev (impl_select (ENot a) tr evs) <->
             In ev evs /\ check_in_range tr (ev_ts ev) = true /\ ~ In ev (impl_select a tr evs).
Proof. exact not_is_complement. Qed.
Print Assumptions C02_not_is_complement.

Theorem C02_not_complement_refuted :
  exists a tr evs ev, In ev evs /\ check_in_range tr (ev_ts ev) = true /\
    ~ In ev (impl_select a tr evs) /\ ~ In ev (impl_select (ENot a) tr evs).
Proof. exact not_complement_refuted. Qed.
Print Assumptions C02_not_complement_refuted.

(* FULL STATEMENT (false): forall e tr evs, impl_select e tr evs = spec_select e tr evs *)
Theorem C02_select_exact_guarded : forall e tr evs,
  expr_wf e = true ->
  (forall ev, In ev evs -> ev_wf ev = true /\ expr_guard false e ev = true) ->
  impl_select e tr evs = spec_select e tr evs.
Proof. exact select_exact_guarded. Qed.
Print Assumptions C02_select_exact_guarded.

Theorem C02_expr_guard_satisfiable :
  let e := ENot (EOr (EAtom (ACmp 1%N Gt (LNum (NLInt 2)) true)) (EAtom (ACmp 2%N Eq (LStr [97; 42]%N) true))) in
  let ev := mkEv 0%N 5 [(1%N, SInt 3); (2%N, SStr [65; 98]%N)] in
  expr_guard false e ev = true /\ ev_wf ev = true /\ expr_wf e = true /\ spec_eval e ev = false.
Proof. exact expr_guard_satisfiable. Qed.
Print Assumptions C02_expr_guard_satisfiable.

(* ---- all-column comparisons (free-text number N = `*=N`, `*<N`, ...) and the block / column plan ---- *)
(* AAny o l neg: "some field of the event satisfies  field o l", negated when neg.  It is covered by
   C02_select_exact_guarded (guard: every field inside cmp_guard).  NOT keeps the operator and negates the result
   (Comparison.Negated -> ExpressionFilter.NegateMatch -> SearchQuery.IsNegated), so NOT a is the complement of a for
   EVERY operator, literal and record list, without a guard.  (Before "fix: NOT on an all-column comparison with a
   number ..." deMorgansLaw flipped the operator of `*=404` and `*!=404` was "some column differs": {a:404, b:1} was
   returned by `404` and by `NOT 404`; the harness keeps the stream, a regression is class negated_allcolumn_number.) *)
Theorem C02_not_allcolumn_is_complement : forall o l n tr evs ev,
  In ev (impl_select (ENot (EAtom (AAny o l n))) tr evs) <->
  In ev evs /\ check_in_range tr (ev_ts ev) = true /\ ~ In ev (impl_select (EAtom (AAny o l n)) tr evs).
Proof. exact not_allcolumn_is_complement. Qed.
Print Assumptions C02_not_allcolumn_is_complement.

Theorem C02_allcolumn_guard_satisfiable :
  let e := EOr (EAtom (AAny Eq (LNum (NLInt 404)) false)) (ENot (EAtom (AAny Eq (LNum (NLInt 500)) false))) in
  let ev := mkEv 1%N 11 [(0%N, SInt 1); (1%N, SInt 200); (2%N, SInt 500); (3%N, SStr [97]%N)] in
  expr_guard false e ev = true /\ ev_wf ev = true /\ expr_wf e = true /\ spec_eval e ev = false.
Proof. repeat split; vm_compute; reflexivity. Qed.
Print Assumptions C02_allcolumn_guard_satisfiable.

(* the state machine with an all-column comparison restricted to a list of candidate columns *)
Theorem C02_search_state_machine_pointwise_cols : forall cs tr e evs,
  exec_in cs tr e evs = map (fun ev => check_in_range tr (ev_ts ev) && peval_in cs e ev) evs.
Proof. exact exec_in_pointwise. Qed.
Print Assumptions C02_search_state_machine_pointwise_cols.

(* SegmentSearchRequest.JoinRequest as a map operation: AND keeps the blocks both operands kept, OR keeps the blocks of
   either; the candidate columns (CmiPassedCnames) of a block both kept are united in both cases *)
Theorem C02_join_and_blocks_columns : forall b p q,
  lookup_b b (join_and p q) =
  match lookup_b b p, lookup_b b q with
  | Some a, Some c => Some (union_cols a c)
  | _, _ => None
  end.
Proof. exact lookup_join_and. Qed.
Print Assumptions C02_join_and_blocks_columns.

Theorem C02_join_or_blocks_columns : forall b p q,
  lookup_b b (join_or p q) =
  match lookup_b b p, lookup_b b q with
  | Some a, Some c => Some (union_cols a c)
  | Some a, None => Some a
  | None, o => o
  end.
Proof. exact lookup_join_or. Qed.
Print Assumptions C02_join_or_blocks_columns.

Theorem C02_union_cols_is_union : forall c a b, mem_col c (union_cols a b) = mem_col c a || mem_col c b.
Proof. exact mem_col_union. Qed.
Print Assumptions C02_union_cols_is_union.

(* MAIN (planning layer): for EVERY expression, time range and block layout (distinct block numbers), and every
   micro-index check that is sound for the leaves of the expression on the blocks (a dropped block holds no record the
   leaf matches, whatever columns are read; the columns that passed suffice for the leaf -- discharged for range entries and blooms by C03), the
   search that (1) builds one block -> columns plan per leaf (time filter + micro index), (2) merges the plans through
   the AND / OR tree with JoinRequest (first request of a file taken as is), (3) runs the whole tree on each block of the
   merged plan with all-column comparisons reading only the block's candidate columns, selects exactly the records the
   unplanned record-level search selects from all records.  With C02_select_exact_guarded this is the specification. *)
Theorem C02_plan_select_exact : forall cmi e tr blks,
  NoDup (map fst blks) ->
  (forall a, In a (leaves (push_not false e)) -> forall nb, In nb blks -> cmi_sound_on cmi a (snd nb)) ->
  plan_select cmi e tr blks = impl_select e tr (all_events blks).
Proof. exact plan_select_exact. Qed.
Print Assumptions C02_plan_select_exact.

(* A OR B / A AND B of the PLANNED search = union / intersection of the planned results of A and of B *)
Theorem C02_plan_or_is_union : forall cmi a b tr blks ev,
  NoDup (map fst blks) ->
  (forall x, In x (leaves (push_not false a) ++ leaves (push_not false b)) -> forall nb, In nb blks -> cmi_sound_on cmi x (snd nb)) ->
  (In ev (plan_select cmi (EOr a b) tr blks) <-> In ev (plan_select cmi a tr blks) \/ In ev (plan_select cmi b tr blks)).
Proof. exact plan_or_is_union. Qed.
Print Assumptions C02_plan_or_is_union.

Theorem C02_plan_and_is_intersection : forall cmi a b tr blks ev,
  NoDup (map fst blks) ->
  (forall x, In x (leaves (push_not false a) ++ leaves (push_not false b)) -> forall nb, In nb blks -> cmi_sound_on cmi x (snd nb)) ->
  (In ev (plan_select cmi (EAnd a b) tr blks) <-> In ev (plan_select cmi a tr blks) /\ In ev (plan_select cmi b tr blks)).
Proof. exact plan_and_is_intersection. Qed.
Print Assumptions C02_plan_and_is_intersection.

(* non-vacuity, and why the union of the candidate columns is needed: one block, 404 only in column 1, 500 only in
   column 2; the leaf plans are {0:[1]} and {0:[2]}, JoinRequest gives {0:[1;2]} and `404 OR 500` returns both records;
   a merge that keeps the receiver's columns of a block both operands kept loses the record that matches through column 2 *)
Theorem C02_plan_union_needed :
  let tr := mkTr 0 100 in
  let pa := leaf_plan cmi_model tr (AAny Eq (LNum (NLInt 404)) false) [(0%N, ex_blk)] in
  let pb := leaf_plan cmi_model tr (AAny Eq (LNum (NLInt 500)) false) [(0%N, ex_blk)] in
  pa = Some [(0%N, [1%N])] /\ pb = Some [(0%N, [2%N])] /\
  join_file LOr pa pb = Some [(0%N, [1%N; 2%N])] /\
  ids (plan_select cmi_model ex_e tr [(0%N, ex_blk)]) = [0%N; 1%N] /\
  ids (impl_select ex_e tr ex_blk) = [0%N; 1%N] /\
  ids (pick ex_blk (exec_in (lookup_b 0%N (join_or_keep [(0%N, [1%N])] [(0%N, [2%N])])) tr (push_not false ex_e) ex_blk)) = [0%N].
Proof. exact plan_union_needed. Qed.
Print Assumptions C02_plan_union_needed.

(* a negated all-column comparison never drops a block (every record of a block in which no column can satisfy the
   positive comparison is wanted); the candidate columns are those of the positive comparison *)
Theorem C02_plan_negated_leaf :
  let tr := mkTr 0 100 in
  leaf_plan cmi_model tr (AAny Eq (LNum (NLInt 404)) true) [(0%N, ex_blk)] = Some [(0%N, [1%N])] /\
  leaf_plan cmi_model tr (AAny Eq (LNum (NLInt 777777)) true) [(0%N, ex_blk)] = Some [(0%N, [])] /\
  leaf_plan cmi_model tr (AAny Eq (LNum (NLInt 777777)) false) [(0%N, ex_blk)] = None /\
  ids (plan_select cmi_model (ENot (EAtom (AAny Eq (LNum (NLInt 404)) false))) tr [(0%N, ex_blk)]) = [1%N] /\
  ids (plan_select cmi_model (ENot (EAtom (AAny Eq (LNum (NLInt 777777)) false))) tr [(0%N, ex_blk)]) = [0%N; 1%N].
Proof. exact plan_negated_leaf. Qed.
Print Assumptions C02_plan_negated_leaf.

(* the "dropped block" half of the soundness premise, for a leaf that is not a negated all-column comparison, follows
   from "the leaf matches no record of the block" (reading fewer columns only removes matches) *)
Theorem C02_positive_leaf_restriction : forall cs a ev,
  positive_atom a = true -> impl_atom a ev = false -> impl_atom_in cs a ev = false.
Proof. exact impl_atom_in_le. Qed.
Print Assumptions C02_positive_leaf_restriction.

(* a range entry [mn, mx] that holds a value satisfying the comparison passes does{Int,Uint}PassRangeFilter (all six operators) *)
Theorem C02_range_entry_pass_sound : forall o l mn mx v,
  mn <= v <= mx -> zcmp o v l = true -> pass_z o l mn mx = true.
Proof. exact pass_z_sound. Qed.
Print Assumptions C02_range_entry_pass_sound.

(* ---- time range ---- *)
Theorem C02_time_range_exact : forall tr ts,
  check_in_range tr ts = true <-> t_start tr <= ts <= t_end tr.
Proof. exact time_range_exact. Qed.
Print Assumptions C02_time_range_exact.

Theorem C02_overlap_iff : forall tr earliest latest,
  t_start tr <= t_end tr -> earliest <= latest ->
  (check_range_overlap tr earliest latest = true <->
   exists ts, earliest <= ts <= latest /\ check_in_range tr ts = true).
Proof. exact overlap_iff. Qed.
Print Assumptions C02_overlap_iff.

(* dropping a block by its [low, high] summary never loses a record in range *)
Theorem C02_time_prune_sound : forall tr low high ts,
  t_start tr <= t_end tr -> low <= ts <= high ->
  check_range_overlap tr low high = false -> check_in_range tr ts = false.
Proof. exact time_prune_sound. Qed.
Print Assumptions C02_time_prune_sound.

(* ---- wildcards ---- *)
(* the matcher used as specification is the glob: the value is the literals in order with
   arbitrary gaps (case-insensitively) *)
Theorem C02_glob_match_sem : forall ci p s,
  glob_match ci p s = true <-> rsem true ci (rx_of_pat p) s.
Proof. intros ci p s. exact (rx_match_sem true ci (rx_of_pat p) s). Qed.
Print Assumptions C02_glob_match_sem.

(* what the code evaluates for a wildcard (prefix/suffix/contains fast path of pkg/regex, or
   the regexp fragment) is the glob, on values without a newline *)
Theorem C02_wildcard_impl_is_glob : forall ci p s,
  no_nl s = true -> wild_impl ci p s = glob_match ci p s.
Proof. exact wild_impl_glob. Qed.
Print Assumptions C02_wildcard_impl_is_glob.

(* Go's regexp is a premise: on the source text SPLToRegex produces it implements the fragment
   (quoted literals, ".*" that does not cross a newline, anchors, (?i)) *)
Theorem C02_glob_regex_equiv : forall go_match : list N -> list N -> bool,
  (forall ci p s, go_match (spl_to_regex ci p) s = rx_match false ci (rx_of_pat p) s) ->
  forall ci p s, no_nl s = true -> go_match (spl_to_regex ci p) s = glob_match ci p s.
Proof. exact glob_regex_equiv. Qed.
Print Assumptions C02_glob_regex_equiv.

Theorem C02_wildcard_newline_refuted :
  wild_impl true [97; 42; 98]%N [97; 10; 98]%N = false /\ glob_match true [97; 42; 98]%N [97; 10; 98]%N = true.
Proof. exact wild_newline_refuted. Qed.
Print Assumptions C02_wildcard_newline_refuted.

(* ---- free-text words and phrases ---- *)
(* the loop of IsSubWordPresent finds exactly the occurrences delimited by spaces / value ends *)
Theorem C02_is_subword_spec : forall ci hay w, is_subword ci hay w = word_occurs ci w hay.
Proof. exact is_subword_spec. Qed.
Print Assumptions C02_is_subword_spec.

(* ---- tie by translation: the Gallina definitions regenerated from dtypeutils.go by gotrans on
   every run are the model's time-range predicates ---- *)
From SigG Require Import Gen.
From SigP Require Import GenC02.
Theorem C02_code_CheckInRange_is_model : forall tr ts,
  gen_CheckInRange (t_end tr) (t_start tr) ts = Filter.check_in_range tr ts.
Proof. exact gen_CheckInRange_is_model. Qed.
Print Assumptions C02_code_CheckInRange_is_model.
Theorem C02_code_CheckRangeOverLap_is_model : forall tr lo hi,
  gen_CheckRangeOverLap (t_end tr) (t_start tr) lo hi = Filter.check_range_overlap tr lo hi.
Proof. exact gen_CheckRangeOverLap_is_model. Qed.
Print Assumptions C02_code_CheckRangeOverLap_is_model.
Theorem C02_code_AreTimesFullyEnclosed_is_model : forall tr lo hi,
  gen_AreTimesFullyEnclosed (t_end tr) (t_start tr) lo hi = Filter.times_fully_enclosed tr lo hi.
Proof. exact gen_AreTimesFullyEnclosed_is_model. Qed.
Print Assumptions C02_code_AreTimesFullyEnclosed_is_model.

(* ---- segments with more blocks than the batching constants of the search path (ChunkWalk.v, FilterChunk.v) ----
   RawSearchSegmentFileWrapper walks the sorted candidate blocks of a request with two nested index loops in chunks of
   BLOCK_BATCH_SIZE and runs the raw search once per chunk; the searcher hands the blocks to it in groups.  The model
   keeps the loop indices (go_inner / go_outer); [chunks_of] is the specification "cut n off the front". *)
From SigM Require Import ChunkWalk FilterChunk FilterCheck.
From SigP Require Import ChunkWalkProofs FilterChunkProofs.
From Coq Require Import Permutation.

(* the two loops as coded = cutting n elements off the front, for every chunk size n >= 1 and every list *)
Theorem C02_chunk_walk_is_spec : forall (A : Type) n (l : list A), (1 <= n)%nat ->
  go_chunks n l = chunks_of (length l) n l.
Proof. intros A. exact (@go_chunks_spec A). Qed.
Print Assumptions C02_chunk_walk_is_spec.

(* every element is in exactly one chunk, in order: the concatenation of the chunks is the list *)
Theorem C02_chunk_walk_concat : forall (A : Type) n (l : list A), (1 <= n)%nat -> concat (go_chunks n l) = l.
Proof. intros A. exact (@go_chunks_concat A). Qed.
Print Assumptions C02_chunk_walk_concat.

(* no chunk is empty or longer than n; every chunk but the last is full *)
Theorem C02_chunk_walk_sizes : forall (A : Type) n (l : list A), (1 <= n)%nat ->
  Forall (fun c => (1 <= length c <= n)%nat) (go_chunks n l).
Proof. intros A. exact (@go_chunks_sizes A). Qed.
Print Assumptions C02_chunk_walk_sizes.
Theorem C02_chunk_walk_full : forall (A : Type) n (l : list A) k, (1 <= n)%nat ->
  (S k < length (go_chunks n l))%nat -> length (nth k (go_chunks n l) []) = n.
Proof. intros A. exact (@go_chunks_full A). Qed.
Print Assumptions C02_chunk_walk_full.

(* MAIN: whatever batching hands the blocks of the merged plan to the raw search (every block number in exactly one
   batch: searcher groups, chunks, block workers), the appended results are a permutation of the search of all blocks of
   the plan: no event is lost and none is returned twice *)
Theorem C02_batched_search_is_planned_search : forall batching cmi e tr blks,
  lawful_batching batching ->
  Permutation (batched_select batching cmi e tr blks) (plan_select cmi e tr blks).
Proof. exact batched_select_perm. Qed.
Print Assumptions C02_batched_search_is_planned_search.

(* the chunk walk of RawSearchSegmentFileWrapper (descending or ascending block numbers) is such a batching ... *)
Theorem C02_chunk_batching_lawful : forall n asc, (1 <= n)%nat -> lawful_batching (chunk_batching n asc).
Proof. exact chunk_batching_lawful. Qed.
Print Assumptions C02_chunk_batching_lawful.

(* ... so the chunked search of a segment with ANY number of blocks selects exactly the records the record-level search
   selects from all records of the segment (sound micro-index check, distinct block numbers), for every chunk size *)
Theorem C02_chunked_search_exact : forall n asc cmi e tr blks, (1 <= n)%nat ->
  NoDup (map fst blks) ->
  (forall a, In a (leaves (push_not false e)) -> forall nb, In nb blks -> cmi_sound_on cmi a (snd nb)) ->
  Permutation (chunk_select n asc cmi e tr blks) (impl_select e tr (all_events blks)).
Proof. exact chunk_select_exact. Qed.
Print Assumptions C02_chunked_search_exact.

(* the two levels composed: the searcher cuts the block list into groups of any sizes, each group is searched in chunks *)
Theorem C02_grouped_chunked_search_exact : forall sizes n cmi e tr blks, (1 <= n)%nat ->
  NoDup (map fst blks) ->
  (forall a, In a (leaves (push_not false e)) -> forall nb, In nb blks -> cmi_sound_on cmi a (snd nb)) ->
  Permutation (batched_select (grouped_chunk_batching sizes n) cmi e tr blks) (impl_select e tr (all_events blks)).
Proof. exact grouped_chunk_select_exact. Qed.
Print Assumptions C02_grouped_chunked_search_exact.

(* A OR B / A AND B of the chunked search = union / intersection of the chunked results of A and of B *)
Theorem C02_chunked_or_is_union : forall n asc cmi a b tr blks ev, (1 <= n)%nat ->
  NoDup (map fst blks) ->
  (forall x, In x (leaves (push_not false a) ++ leaves (push_not false b)) -> forall nb, In nb blks -> cmi_sound_on cmi x (snd nb)) ->
  (In ev (chunk_select n asc cmi (EOr a b) tr blks) <->
   In ev (chunk_select n asc cmi a tr blks) \/ In ev (chunk_select n asc cmi b tr blks)).
Proof. exact chunk_or_is_union. Qed.
Print Assumptions C02_chunked_or_is_union.
Theorem C02_chunked_and_is_intersection : forall n asc cmi a b tr blks ev, (1 <= n)%nat ->
  NoDup (map fst blks) ->
  (forall x, In x (leaves (push_not false a) ++ leaves (push_not false b)) -> forall nb, In nb blks -> cmi_sound_on cmi x (snd nb)) ->
  (In ev (chunk_select n asc cmi (EAnd a b) tr blks) <->
   In ev (chunk_select n asc cmi a tr blks) /\ In ev (chunk_select n asc cmi b tr blks)).
Proof. exact chunk_and_is_intersection. Qed.
Print Assumptions C02_chunked_and_is_intersection.

(* the off-by-one variant (`i++` also in the outer loop header) is NOT the list: identical while everything fits into one
   chunk (why segments with few blocks cannot tell), but with more than n elements the one at index n is in no chunk *)
Theorem C02_chunk_walk_skip_same_when_small : forall (A : Type) n (l : list A), (1 <= n)%nat -> (length l <= n)%nat ->
  go_chunks_skip n l = go_chunks n l.
Proof. intros A. exact (@go_chunks_skip_small A). Qed.
Print Assumptions C02_chunk_walk_skip_same_when_small.
Theorem C02_chunk_walk_skip_loses : forall (A : Type) n (l : list A) d, (1 <= n)%nat -> NoDup l -> (n < length l)%nat ->
  ~ In (nth n l d) (concat (go_chunks_skip n l)).
Proof. intros A. exact (@go_chunks_skip_loses A). Qed.
Print Assumptions C02_chunk_walk_skip_loses.
Theorem C02_chunk_skip_block_never_searched : forall n (bs : list N) d, (1 <= n)%nat -> NoDup bs -> (n < length bs)%nat ->
  ~ In (nth n (sort_desc bs) d) (concat (go_chunks_skip n (sort_desc bs))).
Proof. exact chunk_skip_block_never_searched. Qed.
Print Assumptions C02_chunk_skip_block_never_searched.
(* three one-record blocks, chunks of 2, match-all: the code returns the three records, the variant loses block 0, and the
   executable check used by the case files notices *)
Theorem C02_chunk_skip_refuted :
  let tr := mkTr 0 100 in
  ids (chunk_select 2 false cmi_model ex3_all tr ex3_blks) = [1%N; 2%N; 0%N] /\
  ids (chunk_select_skip 2 cmi_model ex3_all tr ex3_blks) = [1%N; 2%N] /\
  ids (impl_select ex3_all tr (all_events ex3_blks)) = [0%N; 1%N; 2%N] /\
  check_chunk_select2 2 ex3_blks [(ex3_all, tr, [0%N; 1%N; 2%N]); (ex3_all, tr, [1%N; 2%N])] 0 = [1%nat].
Proof. exact chunk_skip_refuted. Qed.
Print Assumptions C02_chunk_skip_refuted.

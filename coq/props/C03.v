(* C03 — Layout and accelerator independence.
   Statements only; proofs are in SigP.PruneProofs / SigP.LayoutProofs / SigP.FetchProofs / SigP.TextPlanProofs.

   Full statement asked by the property (kept visible; REFUTED on the faithful model, see below):
     range_prune_sound_full :
       forall cs o l lv, lit_val l = Some lv ->
         (exists c, In c cs /\ ev_matches o lv c = true) ->
         block_range_pass (cmi_of cs) o l = true
   i.e. a block holding a record that satisfies `col op literal` is never dropped by the range index.
   The real code violates it in two ways (both reproduced end to end by the harness):
     (a) decimal literal against an integer-typed range entry (conversion error => pruned);
     (b) `!=` with min = max = literal prunes records that do not have the field.
   Proved instead: the guarded statement (guard = exact boolean [range_guard]) + the two witnesses. *)
From Coq Require Import QArith Permutation.
From SigM Require Import Base Prune Layout.
From SigP Require Import BaseProofs PruneProofs LayoutProofs.
Open Scope Z_scope.

(* ----- range index ----- *)

(* does{Uint,Int}PassRangeFilter / doesFloatPassRangeFilter keep every block whose [min,max] holds a
   value satisfying the comparison, for every operator *)
Theorem C03_pass_range_int_sound : forall o l mn mx v,
  mn <= v <= mx -> cmpZ o v l = true -> pass_rangeZ o l mn mx = true.
Proof. exact pass_rangeZ_sound. Qed.
Print Assumptions C03_pass_range_int_sound.

Theorem C03_pass_range_float_sound : forall o l mn mx v,
  (mn <= v)%Q -> (v <= mx)%Q -> cmp_spec o v l = true -> pass_rangeQ o l mn mx = true.
Proof. exact pass_rangeQ_sound. Qed.
Print Assumptions C03_pass_range_float_sound.

(* updateRangeIndex: whatever the arrival order and the mixture of int64/uint64/float64 values, the
   entry of the block covers every value (in the entry's own numeric type) *)
Theorem C03_range_index_covers_block : forall vs, forallb wf_num vs = true -> vs <> [] ->
  exists r, range_of vs = Some r /\ forall v, In v vs -> covers r v.
Proof. exact range_of_covers. Qed.
Print Assumptions C03_range_index_covers_block.

(* ... also for a column that received numbers AND numeric strings: at the flush the strings are parsed and
   added (consolidateColumnTypes / convertColumnToNumbers); the entry of the block covers every numeric value the
   block's readers return, those parsed out of strings included *)
Theorem C03_range_index_covers_consolidated_block : forall cs vs svs,
  stored_values cs = Some vs -> str_vals cs = Some svs ->
  forallb wf_num (natives cs ++ svs) = true -> vs <> [] ->
  exists r, block_index cs = Some r /\ forall v, In v vs -> covers r v.
Proof. exact range_index_covers_consolidated. Qed.
Print Assumptions C03_range_index_covers_consolidated_block.

(* the string-origin values are needed in the entry: {1,2,3,"50"}, val > 10 would lose the block otherwise *)
Theorem C03_native_only_index_refuted :
  exists cs vs r v, stored_values cs = Some vs /\ range_of (natives cs) = Some r /\ In v vs
    /\ cmp_spec Gt (qval v) (inject_Z 10) = true
    /\ check_range r Gt (LInt false 10) = false
    /\ (exists r', block_index cs = Some r' /\ check_range r' Gt (LInt false 10) = true).
Proof. exact native_only_index_refuted. Qed.
Print Assumptions C03_native_only_index_refuted.

(* guarded soundness of the block decision for `col op literal`, all operators, all blocks (records
   with and without the field, int and float values), all literals *)
Theorem C03_range_prune_sound_guarded : forall cs o l lv,
  range_guard cs o l = true -> lit_val l = Some lv ->
  (exists c, In c cs /\ ev_matches o lv c = true) ->
  block_range_pass (cmi_of cs) o l = true.
Proof. exact range_prune_sound_guarded. Qed.
Print Assumptions C03_range_prune_sound_guarded.

Theorem C03_range_guard_nonvacuous :
  range_guard [Some (VI 2); None; Some (VF (5 # 2)); Some (VI (-7))] Lt (LDec (5 # 2)) = true
  /\ range_guard [Some (VI 5); Some (VI 5)] Ne (LInt false 5) = true.
Proof. exact range_guard_nonvacuous. Qed.
Print Assumptions C03_range_guard_nonvacuous.

(* (a) block n in {2,3,-2}, n < 2.5: a record matches, the block is pruned *)
Theorem C03_range_prune_decimal_literal_refuted :
  exists cs o l lv, lit_val l = Some lv
    /\ (exists c, In c cs /\ ev_matches o lv c = true)
    /\ block_range_pass (cmi_of cs) o l = false.
Proof. exact range_prune_decimal_literal_refuted. Qed.
Print Assumptions C03_range_prune_decimal_literal_refuted.

(* (b) {n:5},{m:1},{n:5} with n != 5: the record without n matches, the block is pruned;
   {n:5},{m:1},{n:6}: the block is kept *)
Theorem C03_neq_prune_absent_field_refuted :
  (exists cs o l lv, lit_val l = Some lv
    /\ (exists c, In c cs /\ ev_matches o lv c = true)
    /\ block_range_pass (cmi_of cs) o l = false)
  /\ block_range_pass (cmi_of [Some (VI 5); None; Some (VI 6)]) Ne (LInt false 5) = true.
Proof. exact neq_prune_absent_field_refuted. Qed.
Print Assumptions C03_neq_prune_absent_field_refuted.

Theorem C03_range_prune_sound_full_refuted : ~ range_prune_sound_full.
Proof. exact range_prune_sound_full_refuted. Qed.
Print Assumptions C03_range_prune_sound_full_refuted.

(* ----- bloom index ----- *)

(* For ANY filter structure without false negatives: if the record-level word check
   (IsSubWordPresent, case-insensitive or not) accepts a value of the block, the probed key is in the
   block's filter (the writer added every space-separated piece as written and lower-cased). *)
Theorem C03_bloom_word_sound :
  forall (B : Type) (bempty : B) (badd : B -> bytes -> B) (btest : B -> bytes -> bool),
  (forall b w, btest (badd b w) w = true) ->
  (forall b w x, btest b x = true -> btest (badd b w) x = true) ->
  forall vals v key ci,
    In v vals ->
    forallb (fun c => negb (c =? 32)%N) key = true -> key <> [] ->
    (ci = true -> lower key = key) ->
    is_subword v key ci = true ->
    btest (bloom_of B bempty badd vals) key = true.
Proof. exact bloom_word_sound. Qed.
Print Assumptions C03_bloom_word_sound.

(* column = "value" *)
Theorem C03_bloom_equals_sound :
  forall (B : Type) (bempty : B) (badd : B -> bytes -> B) (btest : B -> bytes -> bool),
  (forall b w, btest (badd b w) w = true) ->
  (forall b w x, btest b x = true -> btest (badd b w) x = true) ->
  forall vals v key ci,
    In v vals -> (ci = true -> lower key = key) ->
    eq_ci ci key v = true ->
    btest (bloom_of B bempty badd vals) key = true.
Proof. exact bloom_equals_sound. Qed.
Print Assumptions C03_bloom_equals_sound.

(* block decision of doCmiChecks / DoCMICheckForUnrotated for a word query (And / Or, named or
   wildcard column): a block holding an accepted value survives on rotated and on open segments *)
Theorem C03_bloom_prune_sound :
  forall (B : Type) (bempty : B) (badd : B -> bytes -> B) (btest : B -> bytes -> bool),
  (forall b w, btest (badd b w) w = true) ->
  (forall b w x, btest b x = true -> btest (badd b w) x = true) ->
  forall vals v q ci,
    In v vals -> keys_ok ci (tq_keys q) ->
    rec_accepts ci (tq_op q) (tq_keys q) v = true ->
    text_pass_rotated (btest (bloom_of B bempty badd vals)) q = true
    /\ text_pass_unrotated (btest (bloom_of B bempty badd vals)) q = true.
Proof. exact bloom_prune_sound. Qed.
Print Assumptions C03_bloom_prune_sound.

(* bypass rules: NOT and wildcard values never consult the filter, on rotated and on open segments *)
Theorem C03_negate_bypass : forall test q, tq_negate q = true ->
  text_pass_rotated test q = true /\ text_pass_unrotated test q = true.
Proof. exact negate_bypass. Qed.
Print Assumptions C03_negate_bypass.

Theorem C03_wildcard_bypass : forall test q, tq_wild_value q = true ->
  text_pass_rotated test q = true /\ text_pass_unrotated test q = true.
Proof. exact wildcard_bypass. Qed.
Print Assumptions C03_wildcard_bypass.

(* full statement for phrases (key with spaces) is REFUTED: value "plain text here", phrase "plain text":
   the record check accepts, an exact filter holding the writer's tokens does not contain the phrase *)
Theorem C03_bloom_prune_phrase_refuted :
  exists v key, is_subword v key true = true
    /\ set_test (bloom_of (list bytes) [] set_add [v]) key = false.
Proof. exact bloom_prune_phrase_refuted. Qed.
Print Assumptions C03_bloom_prune_phrase_refuted.

(* ---- PRE-FIX documentation (about [text_pass_unrotated_prefix], DoCMICheckForUnrotated before
   "fix: do not prune blocks of open segments with the bloom for a negated match"): block {w:"beta"},
   NOT alpha: dropped while the segment was open, kept once rotated; without NOT the check was the current one ---- *)
Theorem C03_prefix_unrotated_negate_refuted :
  exists vals q, tq_negate q = true
    /\ (forall v, In v vals -> rec_accepts true (tq_op q) (tq_keys q) v = false)
    /\ text_pass_unrotated_prefix (set_test (bloom_of (list bytes) [] set_add vals)) q = false
    /\ text_pass_rotated (set_test (bloom_of (list bytes) [] set_add vals)) q = true.
Proof. exact prefix_unrotated_negate_refuted. Qed.
Print Assumptions C03_prefix_unrotated_negate_refuted.

Theorem C03_prefix_unrotated_guarded : forall test q, tq_negate q = false ->
  text_pass_unrotated_prefix test q = text_pass_unrotated test q.
Proof. exact prefix_unrotated_guarded. Qed.
Print Assumptions C03_prefix_unrotated_guarded.

(* ----- layouts ----- *)

(* The answer computed from ANY layout (any split into blocks and segments, any order, open or rotated,
   record-level / dictionary / persistent-query path per block) is the layout-free specification, as
   soon as pruning is sound and the alternative paths evaluate the same predicate. *)
Theorem C03_answer_is_spec :
  forall (event query : Type) (matches : query -> event -> bool)
         (prune : query -> bool -> block event -> bool)
         (value : Type) (col : query -> event -> value) (veqb : value -> value -> bool)
         (mword : query -> value -> bool) (ingest_match : query -> event -> bool),
  (forall x y, veqb x y = true <-> x = y) ->
  forall L evs q,
    prune_sound event query matches prune q ->
    paths_ok event query matches value col veqb mword ingest_match q L ->
    valid_layout event L evs ->
    Permutation (answer event query matches prune value col veqb mword ingest_match L q)
                (spec_answer event query matches evs q).
Proof. exact answer_is_spec. Qed.
Print Assumptions C03_answer_is_spec.

Theorem C03_layout_invariance :
  forall (event query : Type) (matches : query -> event -> bool)
         (prune : query -> bool -> block event -> bool)
         (value : Type) (col : query -> event -> value) (veqb : value -> value -> bool)
         (mword : query -> value -> bool) (ingest_match : query -> event -> bool),
  (forall x y, veqb x y = true <-> x = y) ->
  forall L1 L2 evs q,
    prune_sound event query matches prune q ->
    paths_ok event query matches value col veqb mword ingest_match q L1 ->
    paths_ok event query matches value col veqb mword ingest_match q L2 ->
    valid_layout event L1 evs -> valid_layout event L2 evs ->
    Permutation (answer event query matches prune value col veqb mword ingest_match L1 q)
                (answer event query matches prune value col veqb mword ingest_match L2 q).
Proof. exact layout_invariance. Qed.
Print Assumptions C03_layout_invariance.

(* the premise cannot be dropped: an unsound pruning decision loses an event of the specification *)
Theorem C03_unsound_prune_loses_event :
  forall (event query : Type) (matches : query -> event -> bool)
         (prune : query -> bool -> block event -> bool)
         (value : Type) (col : query -> event -> value) (veqb : value -> value -> bool)
         (mword : query -> value -> bool) (ingest_match : query -> event -> bool),
  forall q o b e,
    In e (b_events event b) -> matches q e = true -> prune q o b = false ->
    let L := [mkSeg event [b] o] in
    ~ Permutation (answer event query matches prune value col veqb mword ingest_match L q)
                  (spec_answer event query matches (all_events event L) q).
Proof. exact unsound_prune_loses_event. Qed.
Print Assumptions C03_unsound_prune_loses_event.

(* dictionary-word search selects exactly the records the record-level search selects *)
Theorem C03_dict_search_equiv :
  forall (event query : Type) (matches : query -> event -> bool)
         (value : Type) (col : query -> event -> value) (veqb : value -> value -> bool)
         (mword : query -> value -> bool),
  (forall x y, veqb x y = true <-> x = y) ->
  forall q evs,
    (forall e, In e evs -> matches q e = mword q (col q e)) ->
    dict_search event query value col veqb mword q evs = filter (matches q) evs.
Proof. exact dict_search_equiv. Qed.
Print Assumptions C03_dict_search_equiv.

(* NegateMatch on dictionary-encoded blocks (the record loop always runs for a negated match and flips the
   marks of the dictionary search): equal to the record-level search with and without NOT *)
Theorem C03_dict_search_neg_equiv :
  forall (event query value : Type) (col : query -> event -> value) (veqb : value -> value -> bool)
         (mword : query -> value -> bool),
  (forall x y, veqb x y = true <-> x = y) ->
  forall neg q evs,
    dict_search_neg event query value col veqb mword neg q evs
    = rec_search_neg event query value col mword neg q evs.
Proof. exact dict_search_neg_equiv. Qed.
Print Assumptions C03_dict_search_neg_equiv.

(* ---- PRE-FIX documentation (about [dict_search_neg_prefix], filterRecordsFromSearchQuery before
   "fix: apply a negated match on dictionary encoded blocks and at ingest time"): when every searched column
   was dictionary encoded the record loop was skipped and NOT never applied ({w:1},{w:2}, NOT 1: [1] instead of [2]) ---- *)
Theorem C03_prefix_dict_search_neg_guarded :
  forall (event query value : Type) (col : query -> event -> value) (veqb : value -> value -> bool)
         (mword : query -> value -> bool),
  (forall x y, veqb x y = true <-> x = y) ->
  forall q evs,
    dict_search_neg_prefix event query value col veqb mword false q evs
    = rec_search_neg event query value col mword false q evs.
Proof. exact prefix_dict_search_neg_guarded. Qed.
Print Assumptions C03_prefix_dict_search_neg_guarded.

Theorem C03_prefix_dict_search_neg_refuted :
  exists evs q,
    dict_search_neg_prefix N N N (fun _ e => e) N.eqb (fun q v => N.eqb q v) true q evs
    <> rec_search_neg N N N (fun _ e => e) (fun q v => N.eqb q v) true q evs.
Proof. exact prefix_dict_search_neg_refuted. Qed.
Print Assumptions C03_prefix_dict_search_neg_refuted.

(* range queries end to end in the model: with the guard on every block, any two layouts of the same
   events give the same answer; without it, n != 5 over {5, absent, 5, 6} depends on the split *)
Theorem C03_range_query_layout_invariance_guarded : forall q L1 L2 evs,
  lit_val (snd q) <> None ->
  guard_all q L1 -> guard_all q L2 -> all_rec L1 -> all_rec L2 ->
  valid_layout rev L1 evs -> valid_layout rev L2 evs ->
  Permutation (ranswer L1 q) (ranswer L2 q).
Proof. exact range_query_layout_invariance_guarded. Qed.
Print Assumptions C03_range_query_layout_invariance_guarded.

Theorem C03_range_query_layout_dependence_refuted :
  exists q L1 L2 evs, valid_layout rev L1 evs /\ valid_layout rev L2 evs /\ all_rec L1 /\ all_rec L2
    /\ ~ Permutation (ranswer L1 q) (ranswer L2 q).
Proof. exact range_query_layout_dependence_refuted. Qed.
Print Assumptions C03_range_query_layout_dependence_refuted.

(* ----- persistent queries: what the ingest-time evaluator sees ----- *)
(* getLastRecord() after any history of a column in the open block = the record just written (the value, or
   the single back-fill byte when the event lacks the column), so the ingest-time match of segstream.go is
   evaluated on the same bytes the record-level search reads later *)
Theorem C03_ingest_window_is_last_record : forall xs x, cw_last (cw_run (xs ++ [x])) = rec_of x.
Proof. exact window_is_last_record. Qed.
Print Assumptions C03_ingest_window_is_last_record.

(* the cstartidx assignment of the back-fill loop cannot be dropped: {status:500},{} would be evaluated on 500 *)
Theorem C03_ingest_window_needs_start_update :
  exists xs, cw_last (cw_run_nostart xs) <> rec_of (last xs None)
    /\ firstn 9 (cw_last (cw_run_nostart xs)) = enc_cell (WInt 500).
Proof. exact window_needs_start_update. Qed.
Print Assumptions C03_ingest_window_needs_start_update.

(* the per-segment "has results" flag of a persistent query is the OR over the segment's blocks, so the answer of a
   rotated segment served from the persistent-query results is the union of its blocks' matches = the matching
   events of the segment, for ANY split into blocks and any position of the matching events *)
Theorem C03_pqs_segment_flag_is_or : forall (event : Type) (m : event -> bool) blocks,
  seg_nonempty event m blocks = existsb m (concat blocks).
Proof. exact seg_nonempty_is_or. Qed.
Print Assumptions C03_pqs_segment_flag_is_or.

Theorem C03_pqs_segment_answer_is_union : forall (event : Type) (m : event -> bool) blocks,
  pqs_seg_answer event m (seg_nonempty event m blocks) blocks = filter m (concat blocks).
Proof. exact pqs_segment_answer_is_union. Qed.
Print Assumptions C03_pqs_segment_answer_is_union.

Theorem C03_pqs_segment_answer_split_invariant : forall (event : Type) (m : event -> bool) b1 b2,
  concat b1 = concat b2 ->
  pqs_seg_answer event m (seg_nonempty event m b1) b1 = pqs_seg_answer event m (seg_nonempty event m b2) b2.
Proof. exact pqs_segment_answer_split_invariant. Qed.
Print Assumptions C03_pqs_segment_answer_split_invariant.

(* a flag taken from the last flushed block alone is only right when that block matches; [match],[no match] loses the match *)
Theorem C03_pqs_last_block_flag_guarded : forall (event : Type) (m : event -> bool) blocks,
  blocks <> [] -> block_any event m (last blocks []) = true ->
  seg_nonempty_last event m blocks = seg_nonempty event m blocks.
Proof. exact seg_nonempty_last_guarded. Qed.
Print Assumptions C03_pqs_last_block_flag_guarded.

Theorem C03_pqs_last_block_flag_refuted :
  exists (m : N -> bool) blocks,
    pqs_seg_answer N m (seg_nonempty_last N m blocks) blocks <> filter m (concat blocks)
    /\ pqs_seg_answer N m (seg_nonempty N m blocks) blocks = filter m (concat blocks).
Proof. exact pqs_last_block_flag_refuted. Qed.
Print Assumptions C03_pqs_last_block_flag_refuted.

(* ----- statistics: merge order, pre-aggregated segment statistics ----- *)
Theorem C03_merge_order_irrelevant :
  forall (S : Type) (merge : S -> S -> S) (unit : S),
  (forall a b c, merge a (merge b c) = merge (merge a b) c) ->
  (forall a b, merge a b = merge b a) ->
  forall ps qs, Permutation ps qs -> merge_all S merge unit ps = merge_all S merge unit qs.
Proof. exact merge_order_irrelevant. Qed.
Print Assumptions C03_merge_order_irrelevant.

Theorem C03_stats_layout_invariance :
  forall (event S : Type) (merge : S -> S -> S) (unit : S) (inj : event -> S),
  (forall a b c, merge a (merge b c) = merge (merge a b) c) ->
  (forall a b, merge a b = merge b a) ->
  (forall a, merge unit a = a) ->
  forall L1 L2,
    Permutation (stats_events event L1) (stats_events event L2) ->
    stats_answer event S merge unit inj L1 = stats_answer event S merge unit inj L2.
Proof. exact stats_layout_invariance. Qed.
Print Assumptions C03_stats_layout_invariance.

(* ---- tie by translation: the Gallina definitions regenerated from metacheckers.go by gotrans on
   every run (FilterOperator constants read from segconsts.go) are the model's pass_rangeZ, so the
   pruning-soundness theorems above are about what the Go range checkers compute ---- *)
From SigG Require Import Gen.
From SigP Require Import GenC03.
Theorem C03_code_doesIntPassRangeFilter_is_model : forall o l mn mx,
  gen_doesIntPassRangeFilter (op_to_code o) l mn mx = pass_rangeZ o l mn mx.
Proof. exact gen_doesIntPassRangeFilter_is_model. Qed.
Print Assumptions C03_code_doesIntPassRangeFilter_is_model.
Theorem C03_code_doesUintPassRangeFilter_is_model : forall o l mn mx,
  gen_doesUintPassRangeFilter (op_to_code o) l mn mx = pass_rangeZ o l mn mx.
Proof. exact gen_doesUintPassRangeFilter_is_model. Qed.
Print Assumptions C03_code_doesUintPassRangeFilter_is_model.

(* ---- the block scheduler of the query pipeline as a layout dimension (degree of parallelism,
   block and segment time ranges).  Searcher.Fetch takes at most GOMAXPROCS blocks per call, releases
   the records newer than an end time derived from the blocks of that call and holds the others back
   (unsentRRCs) until a later call.  Model of the scheduler: Sched.v (C05); Fetch.v adds layouts
   (segments of blocks with their LowTs/HighTs summaries and matching records).
   For EVERY layout whose summaries cover their records and EVERY GOMAXPROCS the stream ends with
   io.EOF and has released exactly the matching records, newest first ---- *)
From SigM Require Import SortCmd Sched Fetch.
From SigP Require Import SchedProofs FetchProofs.
Open Scope N_scope.

Theorem C03_fetch_answer_is_spec : forall procs L, layout_ok L = true ->
  snd (run RecentFirst procs (to_queue L)) = true /\
  Permutation (fst (run RecentFirst procs (to_queue L))) (lrecs L) /\
  sorted_desc (fst (run RecentFirst procs (to_queue L))).
Proof. exact fetch_is_spec. Qed.
Print Assumptions C03_fetch_answer_is_spec.

(* … hence two layouts of the same matching records (any split into segments and blocks, any block
   time ranges: disjoint, overlapping, nested through late events) give the same records under any
   two degrees of parallelism *)
Theorem C03_fetch_layout_and_parallelism_invariance : forall p1 p2 L1 L2,
  layout_ok L1 = true -> layout_ok L2 = true -> Permutation (lrecs L1) (lrecs L2) ->
  snd (run RecentFirst p1 (to_queue L1)) = true /\ snd (run RecentFirst p2 (to_queue L2)) = true /\
  Permutation (fst (run RecentFirst p1 (to_queue L1))) (fst (run RecentFirst p2 (to_queue L2))).
Proof. exact fetch_invariance. Qed.
Print Assumptions C03_fetch_layout_and_parallelism_invariance.

(* … and with pairwise different timestamps the very same list of hits in the same order *)
Theorem C03_fetch_invariance_exact : forall p1 p2 L1 L2,
  layout_ok L1 = true -> layout_ok L2 = true -> Permutation (lrecs L1) (lrecs L2) ->
  NoDup (map rts (lrecs L1)) ->
  fetch_answer p1 L1 = fetch_answer p2 L2 /\ snd (fetch_answer p1 L1) = true.
Proof. exact fetch_invariance_exact. Qed.
Print Assumptions C03_fetch_invariance_exact.

(* the premise layout_ok is no restriction on the events: with the summaries the writer computes
   (min / max timestamp of the block) every split of every record set is a well-formed layout *)
Theorem C03_fetch_split_invariance : forall p1 p2 (S1 S2 : list (list (list rec))),
  Permutation (concat (map (@concat rec) S1)) (concat (map (@concat rec) S2)) ->
  NoDup (map rts (concat (map (@concat rec) S1))) ->
  fetch_answer p1 (layout_of_recs S1) = fetch_answer p2 (layout_of_recs S2) /\
  snd (fetch_answer p1 (layout_of_recs S1)) = true.
Proof. exact fetch_split_invariance. Qed.
Print Assumptions C03_fetch_split_invariance.

(* the end-of-stream test has to look at the records held back: with `no blocks left and all segments
   handed out` alone, three blocks of one segment whose newest block also holds a late event (oldest
   timestamp) lose that event with GOMAXPROCS = 2 and keep it with GOMAXPROCS = 16 *)
Theorem C03_fetch_eof_needs_unsent_check_refuted :
  layout_ok late_layout = true /\
  fetch_answer 2 late_layout = ([6; 5; 4; 3; 2; 1; 0], true) /\
  fetch_answer 16 late_layout = ([6; 5; 4; 3; 2; 1; 0], true) /\
  fetch_answer_noflush 16 late_layout = ([6; 5; 4; 3; 2; 1; 0], true, []) /\
  fetch_answer_noflush 2 late_layout = ([6; 5; 4; 3; 2; 1], true, [0]).
Proof. exact noflush_loses_held_back_record. Qed.
Print Assumptions C03_fetch_eof_needs_unsent_check_refuted.

(* ----- the bloom check as a planner: candidate columns of an equality on the wildcard column (TextPlan.v) -----
   Besides keeping or dropping the block, the bloom check of a query on column `*` records the columns of the block
   whose filter holds the value; an equality `* = "value"` (ES term / query_string on `*`: SimpleExpressionAllColumns)
   is searched in those columns only.  The accelerator may only skip work: *)
From SigM Require Import TextPlan.
From SigP Require Import TextPlanProofs.

(* for ANY filter structure without false negatives, any split of the records into segments (open or rotated) and
   blocks, any mixture of string and numeric columns: the answer is exactly (same list) the records in which some
   column holds the value; no premise on the records *)
Theorem C03_allcol_equality_answer_is_spec :
  forall (B : Type) (bempty : B) (badd : B -> bytes -> B) (btest : B -> bytes -> bool),
  (forall b w, btest (badd b w) w = true) ->
  (forall b w x, btest b x = true -> btest (badd b w) x = true) ->
  forall ci (k : bytes * option bytes) (L : list tseg),
    (ci = true -> lower (fst k) = fst k) ->
    allcol_answer (mkf B bempty badd btest) ci k L = allcol_spec ci (fst k) (layout_recs L).
Proof. exact allcol_answer_is_spec. Qed.
Print Assumptions C03_allcol_equality_answer_is_spec.

(* hence two layouts of the same records (other flush / rotation history, open vs rotated) agree *)
Theorem C03_allcol_equality_layout_invariance :
  forall (B : Type) (bempty : B) (badd : B -> bytes -> B) (btest : B -> bytes -> bool),
  (forall b w, btest (badd b w) w = true) ->
  (forall b w x, btest b x = true -> btest (badd b w) x = true) ->
  forall ci (k : bytes * option bytes) (L1 L2 : list tseg),
    (ci = true -> lower (fst k) = fst k) ->
    Permutation (layout_recs L1) (layout_recs L2) ->
    Permutation (allcol_answer (mkf B bempty badd btest) ci k L1) (allcol_answer (mkf B bempty badd btest) ci k L2).
Proof. exact allcol_layout_invariance. Qed.
Print Assumptions C03_allcol_equality_layout_invariance.

(* what makes it true: the block is kept and the column of EVERY cell equal to the value is among the recorded
   columns, by doBloomCheckAllCol (rotated) and by doBloomCheckForCols over the segment's columns (open) *)
Theorem C03_allcol_candidates_complete :
  forall (B : Type) (bempty : B) (badd : B -> bytes -> B) (btest : B -> bytes -> bool),
  (forall b w, btest (badd b w) w = true) ->
  (forall b w x, btest b x = true -> btest (badd b w) x = true) ->
  forall ci (k : bytes * option bytes) (bs : list tblock) (b : tblock) (r : srec) c v,
    (ci = true -> lower (fst k) = fst k) ->
    In b bs -> In r (tb_recs b) -> In (c, v) (snd r) -> eq_ci ci (fst k) v = true ->
    (exists cs, allcol_rotated (blk_cmis (mkf B bempty badd btest) b) [k] LAnd = Some cs /\ In c cs)
    /\ (exists cs, allcol_unrotated (seg_cols bs) (blk_cmis (mkf B bempty badd btest) b) [k] LAnd = Some cs /\ In c cs).
Proof. exact allcol_candidates_complete. Qed.
Print Assumptions C03_allcol_candidates_complete.

(* whatever list is recorded (false positives of the filter included), the restricted search never invents a record *)
Theorem C03_allcol_plan_only_skips : forall ci key plan b x,
  In x (search_block ci key plan b) -> In x (allcol_spec ci key (tb_recs b)).
Proof. exact search_block_only_skips. Qed.
Print Assumptions C03_allcol_plan_only_skips.

(* the early exit "the block can hold the value, no need to test the remaining filters" (the loop the sibling
   doBloomCheckForCol has for a named column) is NOT an optimisation here: block {src:alpha,dst:x},{src:y,dst:alpha},
   `* = alpha`: with the early exit the rotated block is searched in one column and loses a record, the same block
   while the segment is open returns both; the code (every positive column) returns both *)
Theorem C03_allcol_first_positive_column_refuted :
  let k := (w_alpha, @None bytes) in
  allcol_spec false w_alpha (tb_recs wit_block) = [0%nat; 1%nat]
  /\ allcol_answer_first exact_filter false k [(false, [wit_block])] = [0%nat]
  /\ allcol_answer_first exact_filter false k [(true, [wit_block])] = [0%nat; 1%nat]
  /\ allcol_answer exact_filter false k [(false, [wit_block])] = [0%nat; 1%nat]
  /\ allcol_rotated (blk_cmis exact_filter wit_block) [k] LAnd = Some [c_src; c_dst; c_src; c_dst]
  /\ allcol_rotated_first (blk_cmis exact_filter wit_block) [k] LAnd = Some [c_src].
Proof. exact allcol_first_positive_refuted. Qed.
Print Assumptions C03_allcol_first_positive_column_refuted.

(* ----- the query TIME RANGE as an accelerator (TimePrune.v): segments / blocks outside the range are skipped -----
   metautils.FilterBlocksByTime is the first step of the micro-index check of rotated (RunCmiCheck) and open
   (DoCMICheckForUnrotated) segments: a loop over the block summaries of the segment in the order the blocks were
   WRITTEN.  Event time is independent of ingest order (late / back-filled / out-of-order events), so that list is
   in no particular time order: block time ranges may descend, overlap, nest.  The per-block and per-record tests
   are the regenerated Go functions: *)
From Coq Require Import Sorting.Sorted.
From SigM Require Import TimePrune.
From SigP Require Import TimePruneProofs.
Open Scope N_scope.

Theorem C03_code_time_tests_are_model : forall tr lo hi t,
  gen_CheckRangeOverLap (Z.of_N (tr_end tr)) (Z.of_N (tr_start tr)) (Z.of_N lo) (Z.of_N hi) = overlap tr lo hi /\
  gen_CheckInRange (Z.of_N (tr_end tr)) (Z.of_N (tr_start tr)) (Z.of_N t) = ts_in_range tr t.
Proof. exact gen_time_tests_are_model. Qed.
Print Assumptions C03_code_time_tests_are_model.

(* the overlap test never rejects a block range holding a timestamp of the query range (no premise on either
   range); for proper ranges it is exactly "the two intervals share a point" *)
Theorem C03_time_overlap_sound_and_exact : forall tr lo hi,
  (forall t, lo <= t -> t <= hi -> ts_in_range tr t = true -> overlap tr lo hi = true) /\
  (lo <= hi -> tr_start tr <= tr_end tr ->
   (overlap tr lo hi = true <-> exists t, lo <= t /\ t <= hi /\ ts_in_range tr t = true)).
Proof. exact overlap_sound_and_exact. Qed.
Print Assumptions C03_time_overlap_sound_and_exact.
(* without the guard (inverted query range) the test keeps a block that shares no point with the range: harmless,
   the accelerator only skips less *)
Theorem C03_time_overlap_exact_inverted_range_refuted :
  overlap (7, 3) 0 10 = true /\ ~ (exists t, 0 <= t /\ t <= 10 /\ ts_in_range (7, 3) t = true).
Proof. exact overlap_exact_needs_proper_range. Qed.
Print Assumptions C03_time_overlap_exact_inverted_range_refuted.

(* FilterBlocksByTime returns block j exactly when the tracker allows j and its range passes the overlap test — for
   ANY list of summaries (no sortedness), any tracker, any range; ascending and without repetition; in particular a
   block holding a record inside the query range is never dropped, wherever it sits in the list *)
Theorem C03_time_filter_exact : forall t tr bs,
  (forall j, In j (filter_blocks_by_time t tr bs) <->
     exists b, nth_error bs j = Some b /\ should_process t j = true /\ overlap tr (fst b) (snd b) = true) /\
  StronglySorted lt (filter_blocks_by_time t tr bs) /\
  (forall j b ts, nth_error bs j = Some b -> should_process t j = true ->
     fst b <= ts -> ts <= snd b -> ts_in_range tr ts = true -> In j (filter_blocks_by_time t tr bs)).
Proof. exact time_filter_exact. Qed.
Print Assumptions C03_time_filter_exact.
(* the blocks kept are a filter over the block list, hence permutation invariance: the same blocks written in
   another order -> the same blocks kept *)
Theorem C03_time_filter_permutation_invariant : forall tr s1 s2,
  pick_blocks s1 (filter_blocks_by_time None tr (map bsum_of s1)) = filter (blk_overlaps tr) s1 /\
  (Permutation s1 s2 ->
   Permutation (pick_blocks s1 (filter_blocks_by_time None tr (map bsum_of s1)))
               (pick_blocks s2 (filter_blocks_by_time None tr (map bsum_of s2)))).
Proof. exact time_filter_permutation_invariant. Qed.
Print Assumptions C03_time_filter_permutation_invariant.

(* end to end (segment filter + block filter + record test + the block scheduler of Sched.v): a time-bounded search
   reaches EOF and returns exactly the matching records inside the range, newest first — for every layout whose
   summaries cover their records (blocks in any order) and every GOMAXPROCS *)
Theorem C03_time_bounded_answer_is_spec : forall procs tr L, layout_ok L = true ->
  snd (run RecentFirst procs (time_queue filter_blocks_by_time tr L)) = true /\
  Permutation (fst (run RecentFirst procs (time_queue filter_blocks_by_time tr L))) (time_spec tr L) /\
  sorted_desc (fst (run RecentFirst procs (time_queue filter_blocks_by_time tr L))).
Proof. exact time_fetch_is_spec. Qed.
Print Assumptions C03_time_bounded_answer_is_spec.
(* two layouts of the same matching records (pairwise different timestamps), any two GOMAXPROCS: the very same hits;
   and with no premise on the layouts: ANY two splits of ANY record set into segments and blocks, in any arrival
   order (summaries as the writer computes them) *)
Theorem C03_time_bounded_layout_invariance : forall p1 p2 tr,
  (forall L1 L2, layout_ok L1 = true -> layout_ok L2 = true -> Permutation (lrecs L1) (lrecs L2) ->
     NoDup (map rts (lrecs L1)) ->
     time_fetch_answer p1 tr L1 = time_fetch_answer p2 tr L2 /\ snd (time_fetch_answer p1 tr L1) = true) /\
  (forall S1 S2 : list (list (list rec)),
     Permutation (concat (map (@concat rec) S1)) (concat (map (@concat rec) S2)) ->
     NoDup (map rts (concat (map (@concat rec) S1))) ->
     time_fetch_answer p1 tr (layout_of_recs S1) = time_fetch_answer p2 tr (layout_of_recs S2) /\
     snd (time_fetch_answer p1 tr (layout_of_recs S1)) = true).
Proof. exact time_bounded_layout_invariance. Qed.
Print Assumptions C03_time_bounded_layout_invariance.

(* an early exit of the block loop at the first block starting after the end of the range ("blocks are appended in
   time order") is the real loop exactly under that assumption … *)
Theorem C03_time_filter_early_exit_guarded : forall t tr bs, tr_start tr <= tr_end tr ->
  StronglySorted (fun a b : bsum => fst a <= fst b) bs -> Forall (fun b : bsum => fst b <= snd b) bs ->
  filter_blocks_by_time_break t tr bs = filter_blocks_by_time t tr bs.
Proof. exact early_exit_equal_on_ascending_blocks. Qed.
Print Assumptions C03_time_filter_early_exit_guarded.
(* … and without it drops a late block: two blocks written newest first, range = the late one *)
Theorem C03_time_filter_early_exit_refuted :
  filter_blocks_by_time None (5, 25) [(30, 40); (10, 20)] = [1%nat] /\
  filter_blocks_by_time_break None (5, 25) [(30, 40); (10, 20)] = [] /\
  filter_blocks_by_time None (5, 25) [(10, 20); (30, 40)] = [0%nat] /\
  filter_blocks_by_time_break None (5, 25) [(10, 20); (30, 40)] = [0%nat].
Proof. exact early_exit_drops_late_block. Qed.
Print Assumptions C03_time_filter_early_exit_refuted.
(* end to end: the late events are lost in one arrival order and found in the other *)
Theorem C03_time_bounded_early_exit_loses_late_events_refuted :
  layout_ok late_block_layout = true /\ layout_ok inorder_layout = true /\
  Permutation (lrecs late_block_layout) (lrecs inorder_layout) /\
  time_fetch_answer 16 (5, 25) late_block_layout = ([2; 1], true) /\
  time_fetch_answer 16 (5, 25) inorder_layout = ([2; 1], true) /\
  time_fetch_answer_break 16 (5, 25) inorder_layout = ([2; 1], true) /\
  time_fetch_answer_break 16 (5, 25) late_block_layout = ([], true).
Proof. exact early_exit_loses_late_events. Qed.
Print Assumptions C03_time_bounded_early_exit_loses_late_events_refuted.

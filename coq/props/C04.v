(* C04 — stats / group-by / timechart results equal the aggregate computed directly over
   exactly the matched events.  Statements only; proofs are in SigP.AggProofs / SigP.BucketProofs.

   Reading guide.  [stats wt l] is the SegStats record the code builds from one block of events
   (add = AddSegStatsNums/Str/UNIXTime/LatestEarliestVal), [merge]/[mergeo] = SegStats.Merge /
   MergeSegStats, [merge_blocks wt bs] = the blocks/segments bs merged in that order, [finalize] =
   the GetSeg* readers.  The model follows the FIXED code (fixes/C04-merge-isnumeric: Merge ORs
   IsNumeric; fixes/C04-latest-earliest-skip-missing: the time stats of a column only advance on
   records that have the column); the behaviour before the fixes is kept as [merge_prefix] /
   [add_prefix] with the C04_prefix_* documentation theorems at the end of this section.
   [exactv wt l s] (AggProofs) says every field of s equals its mathematical definition over the
   event list l: IsNumeric iff some value is numeric, count = number of events that have the field,
   min/max = THE least/greatest value ([is_best]; numbers before strings, numbers by value, strings
   bytewise), numeric count, sum = the exact sum ([sum_ok]; float iff a summand is a float),
   values/list = the values in order, earliest/latest = the value at the least/greatest timestamp
   among the events that have the field.
   Guards that remain (exact, boolean-checkable on the data):
     fits l            : the absolute values of the integer summands add up to < 2^63 (int64 sums)
     NoDup timestamps  : only for earliest/latest (with equal timestamps any of them is correct)
   Floats are exact dyadic rationals in the model (float64 rounding not modelled). *)
From Coq Require Import List ZArith QArith Permutation.
From SigM Require Import Base Agg Bucket.
From SigP Require Import BaseProofs AggProofs BucketProofs.
Import ListNotations.
Open Scope Z_scope.

(* ---------- the merge is a commutative monoid where it matters ---------- *)

(* min / max combination (ReduceMinMax) is commutative and associative for ALL values,
   neutral element = invalid/backfill *)
Theorem C04_minmax_comm_assoc : forall m a b c,
  reduce_minmax a b m = reduce_minmax b a m /\
  reduce_minmax (reduce_minmax a b m) c m = reduce_minmax a (reduce_minmax b c m) m /\
  reduce_minmax a VNone m = a /\ reduce_minmax VNone a m = a.
Proof. exact minmax_comm_assoc. Qed.
Print Assumptions C04_minmax_comm_assoc.

Theorem C04_sum_merge_comm : forall a b, sum_merge a b = sum_merge b a.
Proof. exact sum_merge_comm. Qed.
Print Assumptions C04_sum_merge_comm.

(* FULL STATEMENT (false): forall a b c, sum_merge (sum_merge a b) c = sum_merge a (sum_merge b c).
   int64 wrap-around before the conversion to float breaks it: *)
Theorem C04_sum_merge_assoc_refuted :
  exists a b c, sum_merge (sum_merge a b) c <> sum_merge a (sum_merge b c).
Proof. exact sum_merge_assoc_refuted. Qed.
Print Assumptions C04_sum_merge_assoc_refuted.

(* merge_comm: records of two disjoint blocks merge to the same record in either order
   (up to the order inside values()/list()); [req] includes IsNumeric *)
Theorem C04_merge_comm : forall wt l1 l2 a b,
  exactv wt l1 a -> exactv wt l2 b -> fits (l1 ++ l2) ->
  (wt = true -> NoDup (map fst (l1 ++ l2))) ->
  req (merge a b) (merge b a).
Proof. exact merge_comm_reachable. Qed.
Print Assumptions C04_merge_comm.

Theorem C04_merge_assoc : forall wt l1 l2 l3 a b c,
  exactv wt l1 a -> exactv wt l2 b -> exactv wt l3 c -> fits (l1 ++ l2 ++ l3) ->
  (wt = true -> NoDup (map fst (l1 ++ l2 ++ l3))) ->
  req (merge (merge a b) c) (merge a (merge b c)).
Proof. exact merge_assoc_reachable. Qed.
Print Assumptions C04_merge_assoc.

(* merge_identity: the absent map entry and the empty record are two-sided identities
   ([sameF] includes IsNumeric; before fixes/C04-merge-isnumeric the left identity lost it) *)
Theorem C04_merge_identity : forall wt l x,
  mergeo None (Some x) = Some x /\ mergeo (Some x) None = Some x /\
  sameF (merge x new_for_str) x /\
  (exactv wt l x -> sameF (merge new_for_str x) x).
Proof. exact merge_identity. Qed.
Print Assumptions C04_merge_identity.

(* ---------- one pass = merged blocks ---------- *)

(* fold_add_app: the record of l1 ++ l2 is the merge of the records of l1 and l2 *)
Theorem C04_fold_add_app_guarded : forall wt l1 l2,
  fits (l1 ++ l2) -> (wt = true -> NoDup (map fst (l1 ++ l2))) ->
  req (view (stats wt (l1 ++ l2))) (view (mergeo (stats wt l1) (stats wt l2))).
Proof. exact fold_add_app_guarded. Qed.
Print Assumptions C04_fold_add_app_guarded.

(* segmentation_irrelevant.  FULL STATEMENT: for every list l of matched events and all block lists
   bs, bs' whose concatenations are permutations of l,
     res_eq (finalize (merge_blocks wt bs)) (finalize (merge_blocks wt bs')).
   With the IsNumeric fix only the int64 guard (and distinct timestamps for earliest/latest) is left: *)
Theorem C04_segmentation_irrelevant_guarded : forall wt l bs bs',
  Permutation (concat bs) l -> Permutation (concat bs') l ->
  fits l -> (wt = true -> NoDup (map fst l)) ->
  res_eq (finalize (merge_blocks wt bs)) (finalize (merge_blocks wt bs')) /\
  res_eq (finalize (merge_blocks wt bs)) (finalize (stats wt l)).
Proof. exact segmentation_irrelevant_guarded. Qed.
Print Assumptions C04_segmentation_irrelevant_guarded.

(* without the int64 guard: the sum is not the sum, and depends on the cut *)
Theorem C04_sum_overflow_refuted :
  exists l, ~ fits l /\ has_num l = true /\
            ~ sum_ok (nums l) (r_sum (finalize (stats false l))) /\
            r_sum (finalize (stats false l)) = SInt (- two63).
Proof. exact sum_overflow_refuted. Qed.
Print Assumptions C04_sum_overflow_refuted.

Theorem C04_sum_overflow_segmentation_refuted :
  exists bs bs', concat bs = concat bs' /\
    r_sum (finalize (merge_blocks false bs)) <> r_sum (finalize (merge_blocks false bs')).
Proof. exact sum_overflow_segmentation_refuted. Qed.
Print Assumptions C04_sum_overflow_segmentation_refuted.

(* ---------- stats_exact ---------- *)
(* FULL STATEMENT: the conclusion below for ALL bs.  Proved under the int64 guard. *)
Theorem C04_stats_exact_guarded : forall wt bs,
  let l := concat bs in
  fits l ->
  let r := finalize (merge_blocks wt bs) in
  r_count r = Z.of_nat (length (items l)) /\
  (if has_num l then sum_ok (nums l) (r_sum r) else r_sum r = SInt 0) /\
  (if has_num l
   then exists a, r_avg r = Some a /\ (a == Qmake (total (nums l)) 1024 / inject_Z (Z.of_nat (length (nums l))))%Q
   else r_avg r = None) /\
  is_best true (vals l) (r_min r) /\ is_best false (vals l) (r_max r) /\
  r_values r = items l /\ r_list r = items l /\
  (wt = true -> pres l <> [] ->
     exists te ve tl vl,
       In (te, ve) l /\ present ve = true /\
       (forall e, In e l -> present (snd e) = true -> te <= fst e) /\ r_earliest r = item_of ve /\
       In (tl, vl) l /\ present vl = true /\
       (forall e, In e l -> present (snd e) = true -> fst e <= tl) /\ r_latest r = item_of vl).
Proof. exact result_exact_guarded. Qed.
Print Assumptions C04_stats_exact_guarded.

Theorem C04_avg_is_sum_div_count : forall o a,
  r_avg (finalize o) = Some a ->
  exists s, isnum s = true /\ view o = s /\ 0 < ncnt (nnorm (num s)) /\
    r_sum (finalize o) = nsum (nnorm (num s)) /\
    a = Qdiv (sum_q (nsum (nnorm (num s)))) (inject_Z (ncnt (nnorm (num s)))).
Proof. exact avg_is_sum_div_count. Qed.
Print Assumptions C04_avg_is_sum_div_count.

(* non-vacuity: a strings-only block merged first, events without the field, int / float /
   numeric string, distinct timestamps *)
Theorem C04_guards_satisfiable :
  let bs := [[(1, MStr sx)]; [(0, MInt 5); (2, MFlt 2560); (3, MAbs)]; [(4, MNumStr [55%N] 7168); (5, MAbs)]] in
  fits (concat bs) /\ NoDup (map fst (concat bs)) /\
  r_sum (finalize (merge_blocks true bs)) = SFlt (5 * 1024 + 2560 + 7168) /\
  r_latest (finalize (merge_blocks true bs)) = Some (INum 7168).
Proof. exact guards_satisfiable. Qed.
Print Assumptions C04_guards_satisfiable.

(* ---------- PRE-FIX documentation (about [merge_prefix] / [add_prefix]; no longer what is checked
   against the code; the harness keeps the generator streams, a regression is class
   sum_avg_zero_when_first_merged_record_non_numeric / earliest_latest_from_event_without_field) ---- *)

(* before fixes/C04-merge-isnumeric: Merge kept IsNumeric of the receiver.  Same as the fixed merge
   when both sides agree on IsNumeric ... *)
Theorem C04_prefix_merge_guarded : forall a b, isnum a = isnum b -> merge_prefix a b = merge a b.
Proof. exact prefix_merge_guarded. Qed.
Print Assumptions C04_prefix_merge_guarded.

(* ... otherwise the same two blocks gave sum 0 / no avg in one order and 12 in the other *)
Theorem C04_prefix_segmentation_isnum_refuted :
  exists bs bs', Permutation bs bs' /\ fits (concat bs) /\
    r_sum (finalize (merge_blocks_prefix false bs)) = SInt 0 /\
    r_avg (finalize (merge_blocks_prefix false bs)) = None /\
    r_sum (finalize (merge_blocks_prefix false bs')) = SInt 12 /\
    r_sum (finalize (merge_blocks false bs)) = SInt 12 /\
    r_avg (finalize (merge_blocks false bs)) = Some (Qdiv (inject_Z 12) (inject_Z 2)).
Proof. exact prefix_segmentation_isnum_refuted. Qed.
Print Assumptions C04_prefix_segmentation_isnum_refuted.

Theorem C04_prefix_merge_identity_isnum_refuted : exists y, isnum (merge_prefix new_for_str y) <> isnum y.
Proof. exact prefix_merge_identity_isnum_refuted. Qed.
Print Assumptions C04_prefix_merge_identity_isnum_refuted.

(* before fixes/C04-latest-earliest-skip-missing: the time functions ran on every matched record.
   Same as the fixed add on an event that has the field ... *)
Theorem C04_prefix_add_guarded : forall wt o e, present (snd e) = true -> add_prefix wt o e = add wt o e.
Proof. exact prefix_add_guarded. Qed.
Print Assumptions C04_prefix_add_guarded.

(* ... otherwise: f=5, f=7, (no f) in time order gave latest(f) = nothing (printed 0) instead of 7 *)
Theorem C04_prefix_latest_from_event_without_field_refuted :
  exists l, NoDup (map fst l) /\
    r_latest (finalize (stats_prefix true l)) = None /\
    r_latest (finalize (stats true l)) = Some (INum (7 * 1024)).
Proof. exact prefix_latest_from_event_without_field_refuted. Qed.
Print Assumptions C04_prefix_latest_from_event_without_field_refuted.

(* ---------- groups ---------- *)
Theorem C04_groups_once : forall (K : Type) (keqb : K -> K -> bool),
  (forall a b, keqb a b = true <-> a = b) ->
  forall l : list (K * event),
  NoDup (map fst (group_by K keqb l)) /\
  (forall k, In k (map fst (group_by K keqb l)) <-> In k (map fst l)) /\
  (forall k, g_lookup K keqb k (group_by K keqb l) = map snd (filter (fun ke => keqb (fst ke) k) l)) /\
  g_total K (group_by K keqb l) = length l.
Proof. exact groups_once. Qed.
Print Assumptions C04_groups_once.

Theorem C04_group_by_app : forall (K : Type) (keqb : K -> K -> bool),
  (forall a b, keqb a b = true <-> a = b) ->
  forall l1 l2 k,
  g_lookup K keqb k (group_by K keqb (l1 ++ l2)) =
  g_lookup K keqb k (group_by K keqb l1) ++ g_lookup K keqb k (group_by K keqb l2).
Proof. exact group_by_app. Qed.
Print Assumptions C04_group_by_app.

Theorem C04_group_sum_exact : forall es, fits es ->
  match g_sum (gstats es) with
  | None => nums es = []
  | Some s => sum_ok (nums es) s
  end.
Proof. exact gstats_sum_exact. Qed.
Print Assumptions C04_group_sum_exact.

(* FULL STATEMENT (false): avg(f) by g = sum / number of numeric values of the group.
   Guard: every row of the group has a numeric value. *)
Theorem C04_group_avg_guarded : forall es, fits es ->
  length (nums es) = length es -> es <> [] ->
  exists a, g_avg (gstats es) = Some a /\
    (a == Qmake (total (nums es)) 1024 / inject_Z (Z.of_nat (length (nums es))))%Q.
Proof. exact gstats_avg_dense. Qed.
Print Assumptions C04_group_avg_guarded.

(* one value 4 and one row without the field: count(f) = 2 and avg(f) = 2 instead of 1 and 4 *)
Theorem C04_group_avg_refuted :
  exists es, fits es /\ length (nums es) = 1%nat /\ total (nums es) = 4 * 1024 /\
    g_rows (gstats es) = 2 /\
    g_avg (gstats es) = Some (Qdiv (inject_Z 4) (inject_Z 2)).
Proof. exact gavg_refuted. Qed.
Print Assumptions C04_group_avg_refuted.

(* ---------- time buckets ---------- *)
(* FULL STATEMENT (false at ts = end_): for start <= ts <= end_ (the query range is inclusive)
   the bucket contains ts and is aligned.  Guard: ts < end_. *)
Theorem C04_bucket_contains_ts_guarded : forall start end_ step ts,
  0 <= start -> start <= ts -> ts < end_ -> end_ < two64 -> 0 < step ->
  exists b, find_bucket start end_ step ts = Some b /\
            b <= ts /\ ts < b + step /\ (b - start) mod step = 0.
Proof. exact bucket_contains_ts. Qed.
Print Assumptions C04_bucket_contains_ts_guarded.

Theorem C04_buckets_partition : forall start end_ step ts b,
  0 <= start -> start <= ts -> ts < end_ -> end_ < two64 -> 0 < step ->
  (In b (bucket_list start end_ step) /\ in_bucket b step ts = true)
  <-> find_bucket start end_ step ts = Some b.
Proof. exact buckets_partition. Qed.
Print Assumptions C04_buckets_partition.

Theorem C04_bucket_list_nodup : forall start end_ step, 0 < step -> NoDup (bucket_list start end_ step).
Proof. exact bucket_list_nodup. Qed.
Print Assumptions C04_bucket_list_nodup.

(* range [T, T+10 s], span 4 s, event at T+10 s: bucket T+6 s — not aligned, not in the list, and
   it does not contain the event *)
Theorem C04_bucket_at_end_refuted :
  exists start end_ step ts b,
    0 <= start /\ start <= ts /\ ts = end_ /\ end_ < two64 /\ 0 < step /\
    find_bucket start end_ step ts = Some b /\
    in_bucket b step ts = false /\
    ~ In b (bucket_list start end_ step) /\
    (b - start) mod step <> 0.
Proof. exact bucket_at_end_refuted. Qed.
Print Assumptions C04_bucket_at_end_refuted.

(* for EVERY range and span the bucket returned for ts = end_ does not contain end_ *)
Theorem C04_bucket_at_end_never_contains : forall start end_ step,
  0 <= start -> start <= end_ -> end_ < two64 -> 0 < step -> step <= end_ ->
  exists b, find_bucket start end_ step end_ = Some b /\ in_bucket b step end_ = false.
Proof. exact bucket_at_end_never_contains. Qed.
Print Assumptions C04_bucket_at_end_never_contains.

(* every event inside the half-open range is counted exactly once, in the listed bucket whose
   span contains its timestamp; keys are unique and no other key appears *)
Theorem C04_timechart_partition : forall start end_ step evs,
  0 <= start -> end_ < two64 -> 0 < step ->
  Forall (fun e => start <= fst e /\ fst e < end_) evs ->
  let tc := timechart start end_ step evs in
  NoDup (map fst tc) /\
  (forall b, In b (map fst tc) -> In b (bucket_list start end_ step)) /\
  (forall b, In b (bucket_list start end_ step) ->
     tc_lookup b tc =
       (Z.of_nat (length (filter (fun e => in_bucket b step (fst e)) evs)),
        fold_right Z.add 0 (map snd (filter (fun e => in_bucket b step (fst e)) evs)))).
Proof. exact timechart_partition. Qed.
Print Assumptions C04_timechart_partition.

Example C04_bucket_guard_satisfiable :
  find_bucket 1700000000000 1700000010000 4000 1700000009999 = Some 1700000008000.
Proof. reflexivity. Qed.

(* ---------- `bin <timefield> span=<n><unit> [aligntime=T]`: buckets on a grid with an origin ----------
   [bin_time u n align ts] = binProcessor.performBinWithSpanTime (new pipeline) = the copy of the row-based
   pipeline: units ms, cs, ds, s, m, h, d, w; without aligntime the origin is Go's zero time (time.Truncate),
   with aligntime=T it is T (floor of (ts - T)/span, for timestamps on BOTH sides of T), day and week spans
   count from 1970 and ignore aligntime.  [grid_bucket origin span ts] = origin + floor((ts - origin)/span)*span. *)

(* for EVERY origin, span and timestamp -- also timestamps before the origin (negative offsets) -- the bucket
   contains the timestamp and lies on the grid of the origin; it is the only such grid point *)
Theorem C04_grid_bucket_contains_ts : forall origin span ts, 0 < span ->
  let b := grid_bucket origin span ts in
  b <= ts /\ ts < b + span /\ (b - origin) mod span = 0.
Proof. exact grid_bucket_contains. Qed.
Print Assumptions C04_grid_bucket_contains_ts.

Theorem C04_grid_bucket_unique : forall origin span ts b, 0 < span ->
  (grid_bucket origin span ts = b) <-> ((b - origin) mod span = 0 /\ in_bucket b span ts = true).
Proof. exact grid_bucket_iff. Qed.
Print Assumptions C04_grid_bucket_unique.

(* an align time k spans earlier or later (e.g. later than every event) defines the same buckets *)
Theorem C04_grid_bucket_origin_shift : forall origin span ts k, 0 < span ->
  grid_bucket (origin + k * span) span ts = grid_bucket origin span ts.
Proof. exact grid_bucket_shift. Qed.
Print Assumptions C04_grid_bucket_origin_shift.

(* the code as modelled, every unit, with and without aligntime: the bucket contains the timestamp, has the
   width of the span and lies on the grid of its origin.  Guard: the timestamp is at least one span after
   1970 (below that the code clamps a negative bucket start to 0: C04_bin_align_clamp_example) *)
Theorem C04_bin_time_contains_ts_guarded : forall u n align ts, 0 < n -> bin_span u n <= ts ->
  let b := bin_time u n align ts in
  b <= ts /\ ts < b + bin_span u n /\ (b - bin_origin u align) mod bin_span u n = 0.
Proof. exact bin_time_contains_ts. Qed.
Print Assumptions C04_bin_time_contains_ts_guarded.

Theorem C04_bin_align_contains_ts : forall span align ts, 0 < span -> 0 <= ts ->
  let b := bin_align span align ts in
  b <= ts /\ ts < b + span /\ (span <= ts -> b = grid_bucket align span ts /\ (b - align) mod span = 0).
Proof. exact bin_align_contains. Qed.
Print Assumptions C04_bin_align_contains_ts.

Theorem C04_bin_align_clamp_example : bin_align 10 5 2 = 0 /\ grid_bucket 5 10 2 = -5.
Proof. exact bin_align_clamp_example. Qed.
Print Assumptions C04_bin_align_clamp_example.

(* why the division must be a FLOOR: with a division that truncates toward zero (Go's int64 `/`) every
   timestamp before the origin that is not on a bucket boundary is put one span too late, into a bucket that
   does not contain it; everywhere else the two agree *)
Theorem C04_truncating_division_misses_ts_before_origin : forall origin span ts, 0 < span ->
  ts < origin -> (origin - ts) mod span <> 0 ->
  trunc_bucket origin span ts = grid_bucket origin span ts + span /\
  in_bucket (trunc_bucket origin span ts) span ts = false.
Proof. exact trunc_bucket_misses_ts. Qed.
Print Assumptions C04_truncating_division_misses_ts_before_origin.

Theorem C04_truncating_division_agrees_elsewhere : forall origin span ts, 0 < span ->
  (origin <= ts \/ (origin - ts) mod span = 0) ->
  trunc_bucket origin span ts = grid_bucket origin span ts.
Proof. exact trunc_bucket_agrees. Qed.
Print Assumptions C04_truncating_division_agrees_elsewhere.

(* `bin span=.. [aligntime=T] <time> | stats count, sum(f) by <time>`: for ALL event lists (any mix of
   timestamps before, at and after the align time), every unit: one row per bucket, every row key is a grid
   point whose span holds at least one event, and the row of a grid point counts / sums exactly the events
   whose timestamp lies in its span *)
Theorem C04_bin_chart_partition_guarded : forall u n align (evs : list (Z * Z)), 0 < n ->
  Forall (fun e => bin_span u n <= fst e) evs ->
  let span := bin_span u n in
  let origin := bin_origin u align in
  let tc := bin_chart u n align evs in
  NoDup (map fst tc) /\
  (forall b, In b (map fst tc) -> (b - origin) mod span = 0 /\ exists e, In e evs /\ in_bucket b span (fst e) = true) /\
  (forall b, (b - origin) mod span = 0 ->
     tc_lookup b tc =
       (Z.of_nat (length (filter (fun e => in_bucket b span (fst e)) evs)),
        fold_right Z.add 0 (map snd (filter (fun e => in_bucket b span (fst e)) evs)))).
Proof. exact bin_chart_partition. Qed.
Print Assumptions C04_bin_chart_partition_guarded.

(* the counts of the rows add up to the number of events, whatever the bucket function *)
Theorem C04_chart_counts_every_event_once : forall (key : Z -> Z) (evs : list (Z * Z)),
  fold_right Z.add 0 (map (fun r => fst (snd r)) (chart_by key evs)) = Z.of_nat (length evs).
Proof. exact chart_by_total. Qed.
Print Assumptions C04_chart_counts_every_event_once.

(* non-vacuity: 10 s buckets anchored at T = 2024-07-07 17:00:36; events before, at and after T *)
Example C04_bin_align_both_sides :
  map (bin_time USec 10 (Some 1720371636000)) [1720371611000; 1720371626001; 1720371635999; 1720371636000; 1720371653500]
  = [1720371606000; 1720371626000; 1720371626000; 1720371636000; 1720371646000].
Proof. reflexivity. Qed.

(* `timechart span=<n><unit>`: the bucket width that is used ([tc_interval] = GetIntervalInMillis as coded, after
   fix c9c5b98) is the span that was asked for, for every unit *)
Theorem C04_timechart_interval_is_span : forall u n, tc_interval u n = bin_span u n.
Proof. exact tc_interval_is_span. Qed.
Print Assumptions C04_timechart_interval_is_span.

(* documentation of the behaviour before the fix ([tc_interval_prefix]: for centi- and deciseconds a time.Duration in
   nanoseconds was returned as milliseconds) *)
Theorem C04_prefix_timechart_interval_guarded : forall u n, u <> UCs -> u <> UDs -> tc_interval_prefix u n = bin_span u n.
Proof. exact tc_interval_prefix_guarded. Qed.
Print Assumptions C04_prefix_timechart_interval_guarded.

Theorem C04_prefix_timechart_interval_cs_ds_refuted :
  exists u n start end_ ts b, 0 < n /\ start <= ts /\ ts < end_ /\
    tc_interval_prefix u n <> bin_span u n /\
    find_bucket start end_ (tc_interval_prefix u n) ts = Some b /\
    in_bucket b (bin_span u n) ts = false.
Proof. exact tc_interval_prefix_cs_ds_refuted. Qed.
Print Assumptions C04_prefix_timechart_interval_cs_ds_refuted.

(* ================= distinct count (dc / estdc) =================
   Model: SigM.AggDc.  Every route (group-by / timechart: blockresults.hllAddRawCval; without BY: stats.AddSegStatsNums at
   query time, packer.addSegStatsNums at ingest time) feeds xxhash(key) of every value into a HyperLogLog sketch;
   [hll_key] is the byte string that is hashed: the 8 little-endian bytes of the number BY ITS STORED TYPE (int64: two's
   complement; uint64; float64: IEEE bits), the bytes of a string.  [dc_count l] = number of distinct keys = what the
   sketch reports while it stores the hashes themselves (the harness compares up to 100 distinct values exactly, 2 % above);
   merging blocks / segments / buckets = union ([dc_union], Hll.StrictUnion).  The sketch and the hash function are
   outside the model (C04_dc_count_is_number_of_distinct_hashes: ANY hash that does not collide on the occurring keys
   gives this count). *)
From SigM Require Import AggDc.
From SigP Require Import AggDcProofs.

(* two different int64 values have different keys; the same for uint64 and for float64 bit patterns *)
Theorem C04_dc_int_key_injective : forall a b, in_i64 a -> in_i64 b -> hll_key (SInt a) = hll_key (SInt b) -> a = b.
Proof. exact key_int_inj. Qed.
Print Assumptions C04_dc_int_key_injective.

Theorem C04_dc_uint_key_injective : forall a b, in_u64 a -> in_u64 b -> hll_key (SUint a) = hll_key (SUint b) -> a = b.
Proof. exact key_uint_inj. Qed.
Print Assumptions C04_dc_uint_key_injective.

Theorem C04_dc_float_key_injective : forall a b : N, (a < 18446744073709551616)%N -> (b < 18446744073709551616)%N ->
  hll_key (SFlt a) = hll_key (SFlt b) -> a = b.
Proof. exact key_flt_inj. Qed.
Print Assumptions C04_dc_float_key_injective.

(* a non-negative integer has one key whether it is stored as int64 or as uint64 *)
Theorem C04_dc_int_uint_one_key : forall n, 0 <= n < two63d -> hll_key (SInt n) = hll_key (SUint n).
Proof. exact key_int_uint_agree. Qed.
Print Assumptions C04_dc_int_uint_one_key.

(* for EVERY list of int64 (uint64) values - any magnitude, any sign, neighbours differing by 1 - the count is the
   number of distinct values *)
Theorem C04_dc_counts_distinct_integers : forall l, Forall in_i64 l ->
  dc_count (map SInt l) = Z.of_nat (length (nodup Z.eq_dec l)).
Proof. exact dc_count_ints. Qed.
Print Assumptions C04_dc_counts_distinct_integers.

Theorem C04_dc_counts_distinct_unsigned : forall l, Forall in_u64 l ->
  dc_count (map SUint l) = Z.of_nat (length (nodup Z.eq_dec l)).
Proof. exact dc_count_uints. Qed.
Print Assumptions C04_dc_counts_distinct_unsigned.

Example C04_dc_counts_distinct_integers_example :
  Forall in_i64 [5; -5; 9007199254740993; 9007199254740992; 5; -9223372036854775808; 9223372036854775807] /\
  dc_count (map SInt [5; -5; 9007199254740993; 9007199254740992; 5; -9223372036854775808; 9223372036854775807]) = 6.
Proof. exact dc_count_ints_example. Qed.

(* the hash function: any function that does not collide on the keys that occur gives the model's count *)
Theorem C04_dc_count_is_number_of_distinct_hashes : forall (h : list N -> N) l,
  (forall a b, In a l -> In b l -> h (hll_key a) = h (hll_key b) -> hll_key a = hll_key b) ->
  Z.of_nat (length (nodup N.eq_dec (map (fun v => h (hll_key v)) l))) = dc_count l.
Proof. exact dc_count_is_number_of_distinct_hashes. Qed.
Print Assumptions C04_dc_count_is_number_of_distinct_hashes.

(* order and repetition are irrelevant; the union of the sketches of two blocks is the sketch of their concatenation;
   blocks / segments / buckets merged in any order and cut anywhere give the count of all events *)
Theorem C04_dc_permutation : forall l1 l2, Permutation l1 l2 -> dc_count l1 = dc_count l2.
Proof. exact (dc_count_perm hll_key). Qed.
Print Assumptions C04_dc_permutation.

Theorem C04_dc_union_is_concatenation : forall l1 l2,
  length (dc_union (dc_keys l1) (dc_keys l2)) = length (dc_keys (l1 ++ l2)).
Proof. exact dc_union_keys. Qed.
Print Assumptions C04_dc_union_is_concatenation.

Theorem C04_dc_union_comm_idem : forall l1 l2,
  length (dc_union (dc_keys l1) (dc_keys l2)) = length (dc_union (dc_keys l2) (dc_keys l1)) /\
  length (dc_union (dc_keys l1) (dc_keys l1)) = length (dc_keys l1).
Proof. intros; split; [apply dc_union_comm_length | apply dc_union_idem_length]. Qed.
Print Assumptions C04_dc_union_comm_idem.

Theorem C04_dc_merge_of_blocks : forall bs, Z.of_nat (length (dc_merge_blocks bs)) = dc_count (concat bs).
Proof. exact dc_merge_blocks_count. Qed.
Print Assumptions C04_dc_merge_of_blocks.

Theorem C04_dc_segmentation_irrelevant : forall bs bs', Permutation (concat bs) (concat bs') ->
  length (dc_merge_blocks bs) = length (dc_merge_blocks bs').
Proof. exact dc_segmentation_irrelevant. Qed.
Print Assumptions C04_dc_segmentation_irrelevant.

Theorem C04_dc_count_at_most_events : forall l, dc_count l <= Z.of_nat (length l).
Proof. exact (dc_count_le_length hll_key). Qed.
Print Assumptions C04_dc_count_at_most_events.

(* A key computed THROUGH float64 ([hll_key_via_float]: the number is first converted with float64(v), [f64_of_Z] =
   round to nearest, ties to even, compared with Go's conversion on every run) is NOT what the code does.  Full statement
   "different integers have different keys" for it:
     forall a b, in_i64 a -> in_i64 b -> hll_key_via_float (SInt a) = hll_key_via_float (SInt b) -> a = b
   holds exactly below 2^53 (why small test values cannot tell the two keys apart) and fails above. *)
Theorem C04_dc_key_via_float_injective_guarded : forall a b, Z.abs a < two53 -> Z.abs b < two53 ->
  hll_key_via_float (SInt a) = hll_key_via_float (SInt b) -> a = b.
Proof. exact key_via_float_inj_small. Qed.
Print Assumptions C04_dc_key_via_float_injective_guarded.

Theorem C04_dc_key_via_float_refuted :
  exists a b, in_i64 a /\ in_i64 b /\ a <> b /\
    hll_key_via_float (SInt a) = hll_key_via_float (SInt b) /\
    hll_key (SInt a) <> hll_key (SInt b) /\
    dc_count_with hll_key_via_float [SInt a; SInt b] = 1 /\ dc_count [SInt a; SInt b] = 2.
Proof. exact key_via_float_refuted. Qed.
Print Assumptions C04_dc_key_via_float_refuted.

Theorem C04_dc_key_via_float_300_ids :
  let ids := map (fun i => SInt (1152921504606846976 + Z.of_nat i)) (seq 0 300) in
  dc_count_with hll_key_via_float ids = 2 /\ dc_count ids = 300.
Proof. exact key_via_float_300_ids. Qed.
Print Assumptions C04_dc_key_via_float_300_ids.

(* known class dc_counts_number_forms_separately.  Full statement "the count is the number of mathematically distinct
   values" fails when one number is stored in two forms: the integer n and the float64 of n have different keys.  The
   guarded variant is C04_dc_counts_distinct_integers (one stored type). *)
Theorem C04_dc_number_forms_refuted :
  exists n bits, bits = f64_of_Z n /\ hll_key (SInt n) <> hll_key (SFlt bits) /\ dc_count [SInt n; SFlt bits] = 2.
Proof. exact number_forms_refuted. Qed.
Print Assumptions C04_dc_number_forms_refuted.

(* strings, also string-typed numbers ("101", "4611686018427387981"): every route hashes the TEXT (query-time no-BY route
   since fix df5c019), so for EVERY list of strings the count is the number of distinct strings, and one string that
   reaches the sketch through two routes (ingest-time .sst record merged with a record built at query time) counts once *)
Theorem C04_dc_string_key_injective : forall a b, hll_key (SStr a) = hll_key (SStr b) -> a = b.
Proof. exact key_str_inj. Qed.
Print Assumptions C04_dc_string_key_injective.

Theorem C04_dc_counts_distinct_strings : forall l, dc_count (map SStr l) = Z.of_nat (length (nodup bytes_dec l)).
Proof. exact dc_count_strs. Qed.
Print Assumptions C04_dc_counts_distinct_strings.

Theorem C04_dc_string_through_two_routes_counts_once : forall s,
  length (dc_union (dc_keys [SStr s]) (dc_keys [SStr s])) = 1%nat.
Proof. exact dc_str_two_routes_once. Qed.
Print Assumptions C04_dc_string_through_two_routes_counts_once.

(* documentation of the behaviour before fix df5c019 (class stats_dc_numeric_strings_hashed_as_float64, listed as fixed).
   Without BY, a block read at query time (stats.AddSegStatsStr) hashed the float64 a string-typed number parses to
   ([hll_key_qt_prefix parse], parse = strconv.ParseFloat as float64 bits); the ingest-time record of a rotated segment and
   the group-by / timechart sketches hash the string.  Guarded: lists without parsable strings; refuted: two strings with
   one float64 image counted once, and ONE string counted through both routes counted twice. *)
Theorem C04_prefix_dc_numeric_strings_guarded : forall (parse : str -> option N) l,
  (forall s, In (SStr s) l -> parse s = None) -> dc_count_with (hll_key_qt_prefix parse) l = dc_count l.
Proof. exact dc_prefix_qt_guarded. Qed.
Print Assumptions C04_prefix_dc_numeric_strings_guarded.

Theorem C04_prefix_dc_numeric_strings_merged_refuted : forall (parse : str -> option N) s1 s2 b,
  s1 <> s2 -> parse s1 = Some b -> parse s2 = Some b ->
  dc_count_with (hll_key_qt_prefix parse) [SStr s1; SStr s2] = 1 /\ dc_count [SStr s1; SStr s2] = 2.
Proof. exact dc_prefix_qt_merges. Qed.
Print Assumptions C04_prefix_dc_numeric_strings_merged_refuted.

Theorem C04_prefix_dc_numeric_string_counted_twice_refuted : forall (parse : str -> option N) s b,
  parse s = Some b -> le64 b <> s ->
  length (dc_union (dc_keys [SStr s]) (dc_keys_with (hll_key_qt_prefix parse) [SStr s])) = 2%nat.
Proof. exact dc_prefix_qt_union_counts_twice. Qed.
Print Assumptions C04_prefix_dc_numeric_string_counted_twice_refuted.

(* ---- tie by translation: the Gallina definition regenerated from timechartagg.go by gotrans on
   every run is the model's find_bucket (any edit that changes FindTimeRangeBucket's meaning
   breaks this obligation) ---- *)
From SigG Require Import Gen.
From SigP Require Import GenC04.
Theorem C04_code_FindTimeRangeBucket_is_model : forall s e st ts, (0 < st)%Z ->
  Bucket.find_bucket s e st ts = Some (gen_FindTimeRangeBucket e s st ts).
Proof. exact gen_FindTimeRangeBucket_is_model. Qed.
Print Assumptions C04_code_FindTimeRangeBucket_is_model.

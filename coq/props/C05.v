(* C05 — Order, limits, pagination.
   "Without an explicit sort, events are returned newest first and a size limit or
   `head n` yields the n newest matches even when blocks and segments overlap in time;
   with `sort`, adjacent results are never out of order under the requested keys
   (numeric, string or auto, ascending or descending, multi-key) and limits take a
   prefix of that order.  Paging through a static result with from/size returns every
   match exactly once."
   Statements only; proofs are in SigP.SchedProofs / SigP.SortCmdProofs. *)
From Coq Require Import List ZArith Sorting.Sorted Sorting.Permutation.
From SigM Require Import Base SortCmd Sched.
From SigP Require Import BaseProofs SortCmdProofs SchedProofs.
Import ListNotations.
Open Scope N_scope.

(* ---------- the searcher's scheduler (recent-first, the mode every query uses) ---------- *)
(* The model run is Searcher.Fetch iterated: segment level (cut-off = start of the front
   unprocessed segment, which segments contribute which blocks) and block level
   (sortBlocks, getNextBlocks with maxBlocks, endTime = max(endTime, cutoff), getValidRRCs,
   merge with the unsent records).  sort.Slice and the record merge are not stable, so
   they enter as ANY functions returning a sorted permutation.  wf_seg: every block lies
   inside its segment's time range and every record inside its block's [LowTs, HighTs]. *)

(* every match is released exactly once, for all overlaps, ties, queue orders, maxBlocks *)
Theorem C05_run_complete :
  forall (bsort : list block -> list block) (rsort : list rec -> list rec) (maxBlocks : nat),
  (forall l, Permutation (bsort l) l) -> (forall l, blocks_desc (bsort l)) ->
  (forall l, Permutation (rsort l) l) -> (forall l, sorted_desc (rsort l)) ->
  forall q : list seg, Forall wf_seg q ->
  forall fuel, (fuel_bound q <= fuel)%nat ->
  snd (fst (run_loop RecentFirst bsort rsort maxBlocks fuel (init_state q) [])) = true /\
  Permutation (fst (fst (run_loop RecentFirst bsort rsort maxBlocks fuel (init_state q) []))) (all_recs q).
Proof. exact run_complete_gen. Qed.
Print Assumptions C05_run_complete.

(* the records come out newest first — after any number of fetches *)
Theorem C05_run_sorted :
  forall (bsort : list block -> list block) (rsort : list rec -> list rec) (maxBlocks : nat),
  (forall l, Permutation (bsort l) l) -> (forall l, blocks_desc (bsort l)) ->
  (forall l, Permutation (rsort l) l) -> (forall l, sorted_desc (rsort l)) ->
  forall q : list seg, Forall wf_seg q ->
  forall fuel, sorted_desc (fst (fst (run_loop RecentFirst bsort rsort maxBlocks fuel (init_state q) []))).
Proof. exact run_sorted_gen. Qed.
Print Assumptions C05_run_sorted.

(* size limit / head n: the first n records released (the pipeline stops fetching there)
   are n newest matches: all other matches, released later or never read, are not newer *)
Theorem C05_head_n_newest :
  forall (bsort : list block -> list block) (rsort : list rec -> list rec) (maxBlocks : nat),
  (forall l, Permutation (bsort l) l) -> (forall l, blocks_desc (bsort l)) ->
  (forall l, Permutation (rsort l) l) -> (forall l, sorted_desc (rsort l)) ->
  forall q : list seg, Forall wf_seg q ->
  forall fuel n, exists rest,
    Permutation (firstn n (fst (fst (run_loop RecentFirst bsort rsort maxBlocks fuel (init_state q) []))) ++ rest)
                (all_recs q) /\
    forall x y, In x (firstn n (fst (fst (run_loop RecentFirst bsort rsort maxBlocks fuel (init_state q) [])))) ->
                In y rest -> rts y <= rts x.
Proof. exact head_n_newest_gen. Qed.
Print Assumptions C05_head_n_newest.

(* invariant behind it: whatever has been released is at least as new as everything still
   unsent, in a remaining block or in a block of a queued segment *)
Theorem C05_released_before_unseen :
  forall (bsort : list block -> list block) (rsort : list rec -> list rec) (maxBlocks : nat),
  (forall l, Permutation (bsort l) l) -> (forall l, blocks_desc (bsort l)) ->
  (forall l, Permutation (rsort l) l) -> (forall l, sorted_desc (rsort l)) ->
  forall q : list seg, Forall wf_seg q ->
  forall fuel,
  Permutation (fst (fst (run_loop RecentFirst bsort rsort maxBlocks fuel (init_state q) [])) ++
               pending (snd (run_loop RecentFirst bsort rsort maxBlocks fuel (init_state q) [])))
              (all_recs q) /\
  forall o y, In o (fst (fst (run_loop RecentFirst bsort rsort maxBlocks fuel (init_state q) []))) ->
              In y (pending (snd (run_loop RecentFirst bsort rsort maxBlocks fuel (init_state q) []))) ->
              rts y <= rts o.
Proof. exact released_before_unseen_gen. Qed.
Print Assumptions C05_released_before_unseen.

(* the model's own sort functions satisfy the four premises (non-vacuity) *)
Theorem C05_run_instance : forall maxBlocks q, Forall wf_seg q ->
  let '(out, eof) := run RecentFirst maxBlocks q in
  eof = true /\ Permutation out (all_recs q) /\ sorted_desc out.
Proof. exact run_concrete_ok. Qed.
Print Assumptions C05_run_instance.

(* getValidRRCs releases the records up to and INCLUDING the end time *)
Theorem C05_valid_rrcs_inclusive : forall e l, sorted_desc l ->
  get_valid_rrcs RecentFirst e l = filter (fun r => e <=? rts r) l.
Proof. exact get_valid_rrcs_inclusive. Qed.
Print Assumptions C05_valid_rrcs_inclusive.

(* getNextBlocks returns a non-empty prefix and the end time is the HighTs of the first block left *)
Theorem C05_next_blocks_prefix : forall mb l next e,
  get_next_blocks RecentFirst mb l = (next, e) ->
  next = firstn (length next) l /\ (l <> [] -> (1 <= length next)%nat) /\ (l = [] -> e = 0) /\
  (forall b r, skipn (length next) l = b :: r -> e = hi b).
Proof. exact get_next_blocks_spec. Qed.
Print Assumptions C05_next_blocks_prefix.

(* Latent (no caller uses recentLast): in recent-last mode the final end time is
   min(0, cutoff) = 0, so records held back behind an overlapping block are never released
   and EOF is never signalled. *)
Theorem C05_recent_last_stalls_refuted : exists q, Forall wf_seg q /\
  forall fuel, (3 <= fuel)%nat ->
  exists st, run_loop RecentLast (sort_blocks RecentLast) (sort_recs RecentLast) 1 fuel (init_state q) []
             = ([(0,1); (1,4); (2,5)], false, st) /\ unsent st = [(5,2); (10,3)].
Proof. exact recent_last_stalls_refuted. Qed.
Print Assumptions C05_recent_last_stalls_refuted.

(* ---------- sort ---------- *)
(* sortProcessor (per-batch sort / top-N, merge with the results so far, DiscardAfter limit)
   over ANY batching = the first `limit` records of the sorted whole, for every comparator
   that is a strict weak order on the records *)
Theorem C05_sort_topk_streaming :
  forall (A : Type) (less : A -> A -> bool) (P : A -> Prop), swo_on less P ->
  forall limit (batches : list (list A)), Forall (Forall P) batches ->
  process less limit batches = firstn limit (sort_by less (concat batches)).
Proof. exact @sort_topk_streaming. Qed.
Print Assumptions C05_sort_topk_streaming.

(* … and that result has no adjacent (indeed no) pair out of order *)
Theorem C05_sort_result_ordered :
  forall (A : Type) (less : A -> A -> bool) (P : A -> Prop), swo_on less P ->
  forall limit (batches : list (list A)), Forall (Forall P) batches ->
  StronglySorted (fun a b => less b a = false) (process less limit batches).
Proof. exact @process_sorted. Qed.
Print Assumptions C05_sort_result_ordered.

(* FULL STATEMENT (fails, see the refutations below):
     forall eles, swo_on (less_real eles) (fun r => length r = length eles).
   The comparator of the code calls two numbers EQUAL when they differ by less than 1e-4.
   Proved: with exact numeric equality the multi-key comparison (num/str/auto, +/-,
   missing values last) is a strict weak order … (vexact: an integer-typed value that meets a
   float in the same column must survive the float64 conversion, see
   C05_int_float_mix_not_transitive_refuted; all-integer columns need no guard:
   C05_less_swo_int_keys) *)
Theorem C05_less_exact_swo : forall eles,
  swo_on (less_exact eles) (fun r => length r = length eles /\ Forall vexact r).
Proof. exact less_exact_swo. Qed.
Print Assumptions C05_less_exact_swo.

(* … and the real comparator is one on every set of records whose numeric sort keys are
   pairwise equal or at least 1e-4 apart (guard = the boolean `separated`) *)
Theorem C05_less_swo_guarded : forall eles U, separated U = true -> Forall (Forall vexact) U ->
  swo_on (less_real eles) (fun r => In r U /\ length r = length eles).
Proof. exact less_swo_guarded. Qed.
Print Assumptions C05_less_swo_guarded.

Theorem C05_sort_topk_streaming_real_guarded : forall eles limit batches,
  separated (concat batches) = true -> Forall (Forall (Forall vexact)) batches ->
  Forall (Forall (fun r => length r = length eles)) batches ->
  process (less_real eles) limit batches = firstn limit (sort_by (less_real eles) (concat batches)).
Proof. exact sort_topk_streaming_real_guarded. Qed.
Print Assumptions C05_sort_topk_streaming_real_guarded.

Example C05_guard_satisfiable :
  separated [[VNum 1000000 []]; [VNum 1001000 []]; [VNum 1001000 []]; [VNum 999000 []]] = true.
Proof. reflexivity. Qed.

(* 0 ~ 0.00006 ~ 0.00012 but 0 < 0.00012 *)
Theorem C05_less_not_transitive_refuted : exists a b c,
  less_real asc_num a b = false /\ less_real asc_num b a = false /\
  less_real asc_num b c = false /\ less_real asc_num c b = false /\
  less_real asc_num a c = true.
Proof. exact less_not_transitive_refuted. Qed.
Print Assumptions C05_less_not_transitive_refuted.

(* 1.00005, 1, 1.00012, 0.99996 sorted ascending by the real comparator is not ascending *)
Theorem C05_sort_tolerance_unordered_refuted : exists l,
  num_sorted_asc (sort_by (less_real asc_num) l) = false /\
  num_sorted_asc (sort_by (less_exact asc_num) l) = true.
Proof. exact sort_tolerance_unordered_refuted. Qed.
Print Assumptions C05_sort_tolerance_unordered_refuted.

(* ---------- sort: integer-typed keys over the whole int64 / uint64 range ---------- *)
(* An integer column value is VInt dtype bits: int_of_bits reads the 64 bits of CVal as int64
   (two's complement) or uint64.  compareValues compares two integer-typed values with
   compareInts (sign first, then the bits as uint64): for every dtype mix and ALL 64-bit patterns
   (uint64 >= 2^63 against negative int64, neighbours above 2^53, …) that is the exact integer
   order in the requested direction — no tolerance, no float64 *)
Theorem C05_int_keys_exact : forall ua a ra ub b rb asc op tol, op <> OpStr ->
  (a < 2 ^ 64)%N -> (b < 2 ^ 64)%N ->
  compare_values tol (VInt ua a ra) (VInt ub b rb) asc op
  = flip asc (cmp3 (int_of_bits ua a) (int_of_bits ub b)).
Proof. exact int_keys_exact. Qed.
Print Assumptions C05_int_keys_exact.

(* hence on records whose numeric sort keys are all integer-typed (several keys, next to strings
   and missing values) the real comparator is a strict weak order and the streaming sort equals
   the first `limit` of the sorted whole for ANY integer values and any batching *)
Theorem C05_less_swo_int_keys : forall eles,
  swo_on (less_real eles) (fun r => length r = length eles /\ Forall int_or_nonnum r).
Proof. exact less_swo_int_keys. Qed.
Print Assumptions C05_less_swo_int_keys.

Theorem C05_sort_topk_streaming_int_keys : forall eles limit batches,
  Forall (Forall (Forall int_or_nonnum)) batches ->
  Forall (Forall (fun r => length r = length eles)) batches ->
  process (less_real eles) limit batches = firstn limit (sort_by (less_real eles) (concat batches)).
Proof. exact sort_topk_streaming_int_keys. Qed.
Print Assumptions C05_sort_topk_streaming_int_keys.

(* one integer key: limits take a prefix of the sorted whole and no two result rows are out of
   exact integer order, ascending or descending — for all 64-bit patterns of both dtypes *)
Theorem C05_sort_int_key_exact : forall asc op limit (batches : list (list ikey)), op <> OpStr ->
  Forall (Forall ibits64) batches ->
  process (int_less asc op) limit batches = firstn limit (sort_by (int_less asc op) (concat batches)) /\
  StronglySorted (int_ordered asc) (process (int_less asc op) limit batches).
Proof. exact sort_int_key_exact. Qed.
Print Assumptions C05_sort_int_key_exact.

(* An integer against a float or a numeric string still goes through float64
   (GetFloatValueIfPossible): f64_of_int = round to 53 significant bits, nearest-even.  That
   conversion is monotone and exact up to 2^53 … *)
Theorem C05_f64_of_int_monotone : forall a b : Z, (a <= b)%Z -> (f64_of_int a <= f64_of_int b)%Z.
Proof. exact f64_of_int_mono. Qed.
Print Assumptions C05_f64_of_int_monotone.

Theorem C05_f64_of_int_exact : forall n : Z, (Z.abs n <= 2 ^ 53)%Z -> f64_of_int n = n.
Proof. exact f64_of_int_exact. Qed.
Print Assumptions C05_f64_of_int_exact.

Theorem C05_f64_exact_below_2p53 : forall n : Z, (Z.abs n <= 2 ^ 53)%Z -> f64_exact n = true.
Proof. exact f64_exact_below_2p53. Qed.
Print Assumptions C05_f64_exact_below_2p53.

(* … so on values whose integers survive it (vexact: e.g. all |n| <= 2^53) the comparator equals
   the pure float path, which is what C05_less_exact_swo / C05_less_swo_guarded above rely on.
   FULL STATEMENT (fails): less_real is a strict weak order on all records with separated keys.
   Refuted for a column that mixes integers above 2^53 with floats: int 2^53+1 ~ float 2^53 ~
   int 2^53, but int 2^53 < int 2^53+1 *)
Theorem C05_int_float_mix_not_transitive_refuted : exists a f b,
  separated [a; f; b] = true /\
  less_real asc_num a f = false /\ less_real asc_num f a = false /\
  less_real asc_num f b = false /\ less_real asc_num b f = false /\
  less_real asc_num b a = true.
Proof. exact int_float_mix_not_transitive_refuted. Qed.
Print Assumptions C05_int_float_mix_not_transitive_refuted.

Example C05_vexact_satisfiable :
  Forall vexact [VInt false 5 []; VInt true 7 []; VInt false 18446744073709551613 []; VInt true 9007199254740992 [];
     VInt false 9223372036854774784 []; VInt true 9223372036854775808 []; VInt true 18446744073709549568 [];
     VInt false 9223372036854775808 []; VNum 1500000 []; VStr None []; VNull].
Proof. exact vexact_example. Qed.

(* ---------- head, tail, paging ---------- *)
Theorem C05_head_prefix : forall (A : Type) n (batches : list (list A)),
  head_process n 0 batches = firstn n (concat batches).
Proof. exact @head_prefix. Qed.
Print Assumptions C05_head_prefix.

Theorem C05_tail_last_n_reversed : forall (A : Type) n (batches : list (list A)),
  tail_process n batches = rev (skipn (length (concat batches) - n) (concat batches)).
Proof. exact @tail_spec. Qed.
Print Assumptions C05_tail_last_n_reversed.

Theorem C05_scroll_skips_from : forall (A : Type) (batches : list (list A)) from,
  scroll_process from batches = skipn from (concat batches).
Proof. exact @scroll_spec. Qed.
Print Assumptions C05_scroll_skips_from.

(* paging through ONE result with from = 0, k, 2k, … returns every row exactly once, in order *)
Theorem C05_pages_concat : forall (A : Type) k np (l : list A), (0 < k)%nat -> (length l <= np * k)%nat ->
  concat (map (fun f => page f k l) (page_starts k np 0)) = l.
Proof. exact @pages_concat. Qed.
Print Assumptions C05_pages_concat.

(* FULL STATEMENT (fails): the same when every page request re-runs the query, i.e. for any
   list rs of valid results (newest first, every match once).  Proved under the guard that
   no two matches share a timestamp … *)
Theorem C05_pages_recomputed_guarded : forall (all : list rec) k np (rs : list (list rec)),
  NoDup (map rts all) -> (0 < k)%nat -> (length all <= np * k)%nat -> length rs = np ->
  Forall (valid_result all) rs ->
  forall r0, valid_result all r0 ->
  concat (map (fun fr => page (fst fr) k (snd fr)) (combine (page_starts k np 0) rs)) = r0.
Proof. exact pages_recomputed_guarded. Qed.
Print Assumptions C05_pages_recomputed_guarded.

(* … refuted with a tie: two matches with the same timestamp, page size 1 *)
Theorem C05_pages_recomputed_refuted : exists all r1 r2,
  valid_result all r1 /\ valid_result all r2 /\
  page 0 1 r1 ++ page 1 1 r2 = [(5, 1); (5, 1)] /\ ~ In (5, 2) (page 0 1 r1 ++ page 1 1 r2).
Proof. exact pages_recomputed_refuted. Qed.
Print Assumptions C05_pages_recomputed_refuted.

Example C05_pages_guard_satisfiable : NoDup (map rts [(7, 1); (5, 2); (3, 3)]).
Proof. repeat constructor; simpl; intuition discriminate. Qed.

(* ------------------------------------------------------------------------------------------
   Sorts served from the on-disk SORT INDEX (model/SortIdx.v follows sortindex.ReadSortIndex /
   readLine / pastCheckpoint): file = lines in value order, line = the blocks holding the
   records of one value; a checkpoint = (line, records of it already delivered, eof); the
   searcher drains the reader with a batch quota per call (readFullLine for multi-key sorts).
   Guards: wf_file = no empty line / block (the writer emits neither), quotas > 0 (the caller
   passes max(100, limit/#segments)).
   ------------------------------------------------------------------------------------------ *)
From SigM Require Import SortIdx.
From SigP Require Import SortIdxProofs.
Open Scope nat_scope.

(* one call, from ANY reachable checkpoint, with any positive quota, forward or reverse, with or
   without readFullLine: what it delivers followed by what remains after the new checkpoint is
   exactly what remained before - nothing skipped, nothing repeated, order kept *)
Theorem C05_sortindex_call_exact : forall rev full file q c,
  wf_file file = true -> wf_ckpt file c = true -> 0 < q ->
  let '(ls, c') := read_index read_blocks rev full file q c in
  recs_of_lines ls ++ remaining rev file c' = remaining rev file c /\ wf_ckpt file c' = true.
Proof. exact read_index_exact. Qed.
Print Assumptions C05_sortindex_call_exact.

(* any sequence of calls *)
Theorem C05_sortindex_drain_exact : forall rev full file qs c,
  wf_file file = true -> wf_ckpt file c = true -> Forall (fun q => 0 < q) qs ->
  let '(calls, c') := drain read_blocks rev full file qs c in
  flat_map recs_of_lines calls ++ remaining rev file c' = remaining rev file c.
Proof. exact drain_exact. Qed.
Print Assumptions C05_sortindex_drain_exact.

(* a call before eof delivers at least one record … *)
Theorem C05_sortindex_call_progress : forall rev full file q c,
  wf_file file = true -> wf_ckpt file c = true -> 0 < q -> snd c = false ->
  let '(ls, c') := read_index read_blocks rev full file q c in 0 < length (recs_of_lines ls).
Proof. exact read_index_progress. Qed.
Print Assumptions C05_sortindex_call_progress.

(* … so draining with ANY quota sequence yields every record of every value exactly once, in
   value order (reverse: last value first), and ends at eof *)
Theorem C05_sortindex_drain_complete : forall rev full file qs,
  wf_file file = true -> Forall (fun q => 0 < q) qs -> length (all_recs rev file) <= length qs ->
  let '(calls, c') := drain read_blocks rev full file qs (start_ckpt rev file) in
  flat_map recs_of_lines calls = all_recs rev file /\ snd c' = true.
Proof. exact drain_complete. Qed.
Print Assumptions C05_sortindex_drain_complete.

(* readFullLine (multi-key sorts): every call ends on a value boundary, so all records of a
   first-key value reach the sort processor in ONE batch *)
Theorem C05_sortindex_full_line_boundary : forall rev file q c,
  wf_file file = true -> wf_ckpt file c = true -> 0 < q -> snd (fst c) = 0 ->
  let '(ls, c') := read_index read_blocks rev true file q c in snd (fst c') = 0.
Proof. exact full_line_boundary. Qed.
Print Assumptions C05_sortindex_full_line_boundary.

(* without readFullLine (single-key sorts) a call never delivers more than the quota *)
Theorem C05_sortindex_quota_respected : forall rev file q c,
  wf_file file = true -> wf_ckpt file c = true -> 0 < q ->
  let '(ls, c') := read_index read_blocks rev false file q c in length (recs_of_lines ls) <= q.
Proof. exact quota_respected. Qed.
Print Assumptions C05_sortindex_quota_respected.

(* the variant that takes "this block was read completely" for "the whole line was read" when the
   quota is reached (read_blocks_blockend) reaches eof having lost records: value 0 lives in
   blocks 0 and 1, quota 1, readFullLine - the record in block 1 is never delivered *)
Theorem C05_sortindex_blockend_as_line_end_refuted : exists file qs,
  wf_file file = true /\ Forall (fun q => 0 < q) qs /\ length (all_recs false file) <= length qs /\
  let '(calls, c') := drain read_blocks_blockend false true file qs (start_ckpt false file) in
  snd c' = true /\ flat_map recs_of_lines calls <> all_recs false file.
Proof. exact blockend_loses_records_refuted. Qed.
Print Assumptions C05_sortindex_blockend_as_line_end_refuted.

(* non-vacuity of the guards *)
Example C05_sortindex_guard_satisfiable :
  wf_file [[(0%N,[0%N;1%N]); (1%N,[0%N])]; [(0%N,[2%N])]] = true /\
  wf_ckpt [[(0%N,[0%N;1%N]); (1%N,[0%N])]; [(0%N,[2%N])]] (0, 2, false) = true.
Proof. split; reflexivity. Qed.

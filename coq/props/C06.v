(* C06 — Pipeline commands mean the same however the stream is chunked.
   Statements only; proofs are in SigP.PipeProofs.

   [run c bs] is what the consumer of a DataProcessor sees when the command c is
   fed the batches bs (C06_fetch_loop_* tie it to the Fetch loop); rows are
   association lists field -> value.  "chunk invariant" is always the full
   statement  forall bs, run c bs = run c [concat bs]  (any batching of the same
   row sequence, including empty batches, equals the single-batch run). *)
From SigM Require Import Base Pipe PipeCols.
From SigP Require Import BaseProofs PipeProofs PipeRewindProofs PipeMergeProofs PipeColsProofs.
From Coq Require Import Permutation.
Open Scope N_scope.

(* ---- head ---- *)
Theorem C06_head_meets_spec : forall n bs,
  run (head_cmd n) bs = firstn (N.to_nat n) (concat bs).
Proof. exact head_spec. Qed.
Print Assumptions C06_head_meets_spec.

Theorem C06_head_chunk_invariant : forall n bs, run (head_cmd n) bs = run (head_cmd n) [concat bs].
Proof. exact head_chunk_inv. Qed.
Print Assumptions C06_head_chunk_invariant.

(* head <bool-expr> limit=N null=.. keeplast=..; cond is any function of the row *)
Theorem C06_head_expr_chunk_invariant : forall cond o bs,
  run (head_expr_cmd cond o) bs = run (head_expr_cmd cond o) [concat bs].
Proof. exact head_expr_chunk_inv. Qed.
Print Assumptions C06_head_expr_chunk_invariant.

(* ---- tail: the last n rows, most recent first ---- *)
Theorem C06_tail_meets_spec : forall n bs,
  run (tail_cmd n) bs = rev (lastN n (concat bs)).
Proof. exact tail_spec. Qed.
Print Assumptions C06_tail_meets_spec.

Theorem C06_tail_chunk_invariant : forall n bs, run (tail_cmd n) bs = run (tail_cmd n) [concat bs].
Proof. exact tail_chunk_inv. Qed.
Print Assumptions C06_tail_chunk_invariant.

(* ---- where / eval / fields / rename / fillnull f.. / rex / regex / makemv / mvexpand / bin span:
   any pure function of the row ---- *)
Theorem C06_rowwise_meets_spec : forall (f : row -> list row) bs,
  run (rowwise_cmd f) bs = flat_map f (concat bs).
Proof. exact rowwise_spec. Qed.
Print Assumptions C06_rowwise_meets_spec.

Theorem C06_rowwise_chunk_invariant : forall (f : row -> list row) bs,
  run (rowwise_cmd f) bs = run (rowwise_cmd f) [concat bs].
Proof. exact rowwise_chunk_inv. Qed.
Print Assumptions C06_rowwise_chunk_invariant.

(* ---- dedup: every option combination, any hash function ---- *)
(* [dedup_cmd] is the code: the per-field hashes are combined in order,
   hash = (hash ^ h) * 1099511628211 mod 2^64 *)
Theorem C06_dedup_chunk_invariant : forall (H : value -> N) (o : dedup_opts) bs,
  run (dedup_cmd H o) bs = run (dedup_cmd H o) [concat bs].
Proof. exact dedup_chunk_inv. Qed.
Print Assumptions C06_dedup_chunk_invariant.

(* "the first `limit` rows of each distinct combination of field values, order kept".
   The remaining guard is the absence of a collision of the 64-bit key among the value
   combinations that occur in the input (no structural collisions any more, see below). *)
Theorem C06_dedup_meets_spec_guarded : forall (H : value -> N) limit fields bs,
  0 < limit ->
  keys_injective fnv_step H (nonnull_tuples fields (concat bs)) = true ->
  run (dedup_cmd H (plain_dedup limit fields)) bs = dedup_spec limit fields (concat bs).
Proof. exact dedup_spec_guarded. Qed.
Print Assumptions C06_dedup_meets_spec_guarded.

(* the guard holds and the spec is met on the rows (x,y),(y,x),(x,y) that the XOR key confused *)
Theorem C06_dedup_swapped_values_told_apart :
  keys_injective fnv_step first_byte_hash (nonnull_tuples [fa; fb] xy_rows) = true
  /\ run (dedup_cmd first_byte_hash (plain_dedup 1 [fa; fb])) [xy_rows] = firstn 2 xy_rows
  /\ run (dedup_cmd first_byte_hash (plain_dedup 1 [fa; fb])) [xy_rows] = dedup_spec 1 [fa; fb] xy_rows.
Proof. exact dedup_xy_fixed. Qed.
Print Assumptions C06_dedup_swapped_values_told_apart.

(* ---- documentation: the code BEFORE the fix ([dedup_cmd_xor]: hash ^= value.Hash()) ---- *)
Theorem C06_dedup_prefix_xor_chunk_invariant : forall (H : value -> N) (o : dedup_opts) bs,
  run (dedup_cmd_xor H o) bs = run (dedup_cmd_xor H o) [concat bs].
Proof. exact dedup_xor_chunk_inv. Qed.
Print Assumptions C06_dedup_prefix_xor_chunk_invariant.

(* for EVERY hash function the XOR key identified (x,y) with (y,x):
   rows (x,y),(y,x),(x,y) under `dedup a b` gave one row, the spec gives two *)
Theorem C06_dedup_prefix_xor_key_refuted : forall H : value -> N, exists fields rows,
  run (dedup_cmd_xor H (plain_dedup 1 fields)) [rows] <> dedup_spec 1 fields rows.
Proof. exact dedup_xor_refuted. Qed.
Print Assumptions C06_dedup_prefix_xor_key_refuted.

(* ---- top / rare, stats ---- *)
Theorem C06_toprare_chunk_invariant : forall is_top limit fields countf bs,
  run (toprare_cmd is_top limit fields countf) bs = run (toprare_cmd is_top limit fields countf) [concat bs].
Proof. exact toprare_chunk_inv. Qed.
Print Assumptions C06_toprare_chunk_invariant.

(* stats over any monoid (associative, unit): the aggregate of the whole stream *)
Theorem C06_stats_meets_spec : forall (m : monoid) (inj : row -> mcar m) (render : mcar m -> batch),
  (forall a b c, mop m a (mop m b c) = mop m (mop m a b) c) ->
  (forall a, mop m (mzero m) a = a) -> (forall a, mop m a (mzero m) = a) ->
  forall bs, run (stats_cmd m inj render) bs = render (magg m inj (concat bs)).
Proof. exact stats_spec. Qed.
Print Assumptions C06_stats_meets_spec.

Theorem C06_stats_chunk_invariant : forall (m : monoid) (inj : row -> mcar m) (render : mcar m -> batch),
  (forall a b c, mop m a (mop m b c) = mop m (mop m a b) c) ->
  (forall a, mop m (mzero m) a = a) -> (forall a, mop m a (mzero m) = a) ->
  forall bs, run (stats_cmd m inj render) bs = run (stats_cmd m inj render) [concat bs].
Proof. exact stats_chunk_inv. Qed.
Print Assumptions C06_stats_chunk_invariant.

(* one or several upstream streams, read in any interleaving and any batching
   (DataProcessor.fetchFromAnyStream for order-insensitive bottlenecks): commutative monoid *)
Theorem C06_stats_any_upstream_interleaving :
  forall (m : monoid) (inj : row -> mcar m) (render : mcar m -> batch),
  (forall a b c, mop m a (mop m b c) = mop m (mop m a b) c) ->
  (forall a, mop m (mzero m) a = a) -> (forall a, mop m a (mzero m) = a) ->
  (forall a b, mop m a b = mop m b a) ->
  forall bs bs', Permutation (concat bs) (concat bs') ->
  run (stats_cmd m inj render) bs = run (stats_cmd m inj render) bs'.
Proof. exact stats_any_interleaving. Qed.
Print Assumptions C06_stats_any_upstream_interleaving.

Theorem C06_stats_by_chunk_invariant : forall by_fields vf countf sumf bs,
  run (gstats_cmd by_fields vf countf sumf) bs = run (gstats_cmd by_fields vf countf sumf) [concat bs].
Proof. exact gstats_chunk_inv. Qed.
Print Assumptions C06_stats_by_chunk_invariant.

(* ---- streamstats ---- *)
(* [streamstats_cmd false] is the code: currentIndex / currentBucketKey run across the
   Process() calls.  Every variant of the model (count/sum, current, by, window, global,
   reset_on_change) is chunk invariant, unguarded. *)
Theorem C06_streamstats_chunk_invariant : forall o bs,
  run (streamstats_cmd false o) bs = run (streamstats_cmd false o) [concat bs].
Proof. exact streamstats_fixed_chunk_inv. Qed.
Print Assumptions C06_streamstats_chunk_invariant.

(* the 12 rows of DESIGN §4.1 (v_i = 7i mod 5), window=3, cut 5+5+2: the sliding-window sum *)
Theorem C06_streamstats_window12_cut_meets_spec :
  run (streamstats_cmd false (ss_win 3)) [firstn 5 ss12; firstn 5 (skipn 5 ss12); skipn 10 ss12]
  = window_sum_spec 3 fv fsv ss12.
Proof. exact streamstats_window12_fixed. Qed.
Print Assumptions C06_streamstats_window12_cut_meets_spec.

(* ---- documentation: the code BEFORE the fix ([streamstats_cmd true]: currentIndex = 0 and
   currentBucketKey = "" at the start of every Process() call).  These theorems say why the
   fix was needed and what a regression looks like. ---- *)
(* chunk invariant only without a global window and without reset_on_change *)
Theorem C06_streamstats_prefix_chunk_invariant_guarded : forall o,
  ss_index_free o = true ->
  forall bs, run (streamstats_cmd true o) bs = run (streamstats_cmd true o) [concat bs].
Proof. exact streamstats_nowindow_chunk_inv. Qed.
Print Assumptions C06_streamstats_prefix_chunk_invariant_guarded.

Example C06_streamstats_prefix_guard_satisfiable :
  ss_index_free {| ss_func := SSum; ss_field := fv; ss_out := fsv; ss_current := true;
                   ss_by := [fa]; ss_window := 0; ss_global := true; ss_reset_on_change := false |} = true.
Proof. reflexivity. Qed.

(* a global window depended on the batching: window=1 sum(v), rows v=1,v=1 cut between
   them gave 1,2; un-cut 1,1 *)
Theorem C06_streamstats_prefix_window_chunk_refuted : exists o bs,
  ss_window o <> 0 /\ run (streamstats_cmd true o) bs <> run (streamstats_cmd true o) [concat bs].
Proof. exact streamstats_window_refuted. Qed.
Print Assumptions C06_streamstats_prefix_window_chunk_refuted.

(* the confirmed case of DESIGN §4.1: un-cut = sliding sum; cut 5+5+2 differed
   (sums 8,10,14,15,18,18,20 from row 5 on instead of 4,5,6,7,8,4,5) *)
Theorem C06_streamstats_prefix_window12_witness :
  run (streamstats_cmd true (ss_win 3)) [ss12] = window_sum_spec 3 fv fsv ss12
  /\ run (streamstats_cmd true (ss_win 3)) [firstn 5 ss12; firstn 5 (skipn 5 ss12); skipn 10 ss12]
     <> window_sum_spec 3 fv fsv ss12
  /\ map (fun r => get r fsv)
       (run (streamstats_cmd true (ss_win 3)) [firstn 5 ss12; firstn 5 (skipn 5 ss12); skipn 10 ss12])
     = map VNum [0; 2; 6; 7; 8; 8; 10; 14; 15; 18; 18; 20]%Z.
Proof. exact streamstats_window12. Qed.
Print Assumptions C06_streamstats_prefix_window12_witness.

(* reset_on_change=true .. by g: the first row of every batch counted as a change of key:
   rows g=p,g=p cut between them gave count 1,1; un-cut 1,2 *)
Theorem C06_streamstats_prefix_reset_on_change_chunk_refuted : exists o bs,
  ss_reset_on_change o = true
  /\ run (streamstats_cmd true o) bs <> run (streamstats_cmd true o) [concat bs]
  /\ map (fun r => get r fc) (run (streamstats_cmd true o) bs) = [VNum 1; VNum 1]
  /\ map (fun r => get r fc) (run (streamstats_cmd true o) [concat bs]) = [VNum 1; VNum 2].
Proof. exact streamstats_reset_on_change_refuted_thm. Qed.
Print Assumptions C06_streamstats_prefix_reset_on_change_chunk_refuted.

(* ---- chains: any commands that are chunk invariant, any re-cutting between the stages ---- *)
Theorem C06_chain_chunk_invariant : forall cs cs', same_cmds cs cs' ->
  Forall stage_ok cs -> Forall stage_ok cs' ->
  forall bs bs', concat bs = concat bs' ->
  concat (run_chain cs bs) = concat (run_chain cs' bs').
Proof. exact chain_chunk_inv. Qed.
Print Assumptions C06_chain_chunk_invariant.

Theorem C06_chain_meets_composition : forall cs, Forall stage_ok cs ->
  forall bs, concat (run_chain cs bs) = chain_sem cs (concat bs).
Proof. exact chain_meaning. Qed.
Print Assumptions C06_chain_meets_composition.

(* ---- the DataProcessor.Fetch loop ---- *)
(* streaming processors: the consumer receives exactly the outputs of run_batches, whether
   the source reports EOF with its last batch or after it *)
Theorem C06_fetch_loop_streaming : forall c eof_with all,
  dp_run (proc_of c) streaming eof_with all = Some (run_batches c all).
Proof. exact fetch_loop_streaming. Qed.
Print Assumptions C06_fetch_loop_streaming.

(* bottleneck processors: nothing until the input ends, then the final result with EOF *)
Theorem C06_fetch_loop_bottleneck : forall c eof_with all, silent c ->
  exists l, dp_run (proc_of_bottleneck c) bottleneck eof_with all = Some l /\ concat l = run c all.
Proof. exact fetch_loop_bottleneck. Qed.
Print Assumptions C06_fetch_loop_bottleneck.

(* two-pass (fillnull without field list): rewind, every row filled over the columns of the whole input *)
Theorem C06_fetch_loop_two_pass_fillnull : forall v eof_with all,
  exists l, dp_run (fillnull_proc v) fillnull_flags eof_with all = Some l
    /\ concat l = map (fill_row v (batch_cols [] (concat all))) (concat all).
Proof. exact fetch_loop_fillnull_stream. Qed.
Print Assumptions C06_fetch_loop_two_pass_fillnull.

(* ==== one or several upstream streams: the plan of SetupQueryParallelism ==== *)

(* commands that need the whole input (level-A form of the two-pass commands) *)
Theorem C06_whole_input_command_meets_spec : forall g bs, run (whole_cmd g) bs = g (concat bs).
Proof. exact whole_spec. Qed.
Print Assumptions C06_whole_input_command_meets_spec.

(* any two-pass processor (bin without span, fillnull without fields) under the Fetch loop:
   every row is transformed with the summary of the WHOLE input, for any batching *)
Theorem C06_fetch_loop_two_pass : forall t eof_with all,
  exists l, dp_run (twopass_proc t) twopass_flags eof_with all = Some l
    /\ concat l = tp_sem t (concat all).
Proof. exact fetch_loop_twopass. Qed.
Print Assumptions C06_fetch_loop_two_pass.

(* CanParallelSearch over the flags the New*DP constructors declare: the chain is split only
   in front of an order-insensitive aggregation (stats sort top rare timechart) and only over
   row-wise commands; never over head/dedup/streamstats/tail, a generator, or a two-pass
   command; and not at all when a two-pass command follows the aggregation (it would rewind the
   merged chains, which cannot replay results the merger has consumed) *)
Theorem C06_planner_splits_only_rowwise_before_aggregation : forall ks i,
  can_parallel (map flags_of ks) = (true, i) ->
  nth_error ks i = Some KAgg /\ Forall (fun k => k = KRowwise) (firstn i ks)
  /\ Forall (fun k => k <> KTwoPass) (skipn (S i) ks).
Proof. exact planner_sound. Qed.
Print Assumptions C06_planner_splits_only_rowwise_before_aggregation.

(* for such a chain (row-wise front fs, aggregation over a commutative monoid) and EVERY way of
   dealing the rows to any number of streams, in any order and any batching, the parallel plan
   (per-chain partial aggregates merged by the merger DP) = the single chain *)
Theorem C06_parallel_plan_equals_single_stream :
  forall (m : monoid) (inj : row -> mcar m) (render : mcar m -> batch),
  (forall a b c, mop m a (mop m b c) = mop m (mop m a b) c) ->
  (forall a, mop m (mzero m) a = a) -> (forall a, mop m a (mzero m) = a) ->
  (forall a b, mop m a b = mop m b a) ->
  forall (fs : list (row -> list row)) (streams : list (list batch)) (bs : list batch),
  Permutation (concat (map (@concat row) streams)) (concat bs) ->
  parallel_stats_plan m inj render fs streams = single_stats_plan m inj render fs bs.
Proof. exact parallel_stats_plan_equiv. Qed.
Print Assumptions C06_parallel_plan_equals_single_stream.

(* Full statement (FALSE, see the two _refuted theorems): a two-pass command may be cloned per
   stream:  forall t streams, tp_split_sem t streams = tp_sem t (concat streams).
   Proved under the exact guard: every stream's own summary transforms its rows like the
   summary of the whole input — which the planner cannot know, so it must not split. *)
Theorem C06_two_pass_split_guarded : forall t streams,
  (forall s r, In s streams -> In r s ->
     tp_apply t (tp_summary t s) r = tp_apply t (tp_summary t (concat streams)) r) ->
  tp_split_sem t streams = tp_sem t (concat streams).
Proof. exact twopass_split_guarded. Qed.
Print Assumptions C06_two_pass_split_guarded.

Example C06_two_pass_split_guard_satisfiable :
  tp_split_sem (bin_tp flat 2) [bin_s1 ++ bin_s2; bin_s2 ++ bin_s1]
  = tp_sem (bin_tp flat 2) (concat [bin_s1 ++ bin_s2; bin_s2 ++ bin_s1]).
Proof. exact twopass_split_guard_example. Qed.

(* bin lat bins=2 over streams {0,50} and {1000,1050}: one chain bins with span 1000
   (0-1000, 1000-2000), two chains each with span 100 (0-100, 1000-1100) *)
Theorem C06_bin_auto_span_split_refuted :
  tp_sem (bin_tp flat 2) (bin_s1 ++ bin_s2)
    = map (fun s => [(flat, VStr s)]) [ [48;45;49;48;48;48]; [48;45;49;48;48;48];
                                        [49;48;48;48;45;50;48;48;48]; [49;48;48;48;45;50;48;48;48] ]
  /\ tp_split_sem (bin_tp flat 2) [bin_s1; bin_s2]
    = map (fun s => [(flat, VStr s)]) [ [48;45;49;48;48]; [48;45;49;48;48];
                                        [49;48;48;48;45;49;49;48;48]; [49;48;48;48;45;49;49;48;48] ]
  /\ tp_split_sem (bin_tp flat 2) [bin_s1; bin_s2] <> tp_sem (bin_tp flat 2) (concat [bin_s1; bin_s2]).
Proof. exact bin_split_refuted_thm. Qed.
Print Assumptions C06_bin_auto_span_split_refuted.

(* fillnull value=0 over streams {a=1} and {b=2}: one chain fills b resp. a, two chains fill nothing *)
Theorem C06_fillnull_all_columns_split_refuted :
  tp_sem (fillnull_tp (VStr [48])) (fn_s1 ++ fn_s2)
    = [ [(fa, VNum 1); (fb, VStr [48])]; [(fb, VNum 2); (fa, VStr [48])] ]
  /\ tp_split_sem (fillnull_tp (VStr [48])) [fn_s1; fn_s2] = [ [(fa, VNum 1)]; [(fb, VNum 2)] ]
  /\ tp_split_sem (fillnull_tp (VStr [48])) [fn_s1; fn_s2]
     <> tp_sem (fillnull_tp (VStr [48])) (concat [fn_s1; fn_s2]).
Proof. exact fillnull_split_refuted_thm. Qed.
Print Assumptions C06_fillnull_all_columns_split_refuted.

(* ==== one or two passes: a command in front of a two-pass command is rewound ==== *)
(* Pipe.v level C: a chain of DataProcessors is a stream over a stream ... over the source; a
   two-pass DataProcessor ends its first pass with dp.Rewind(), which rewinds everything in front
   of it (streams, then processor.Rewind()) and reads it a second time.  [replayable s R]: the
   stream s delivers the rows R in its first pass and again in every later pass, at whatever
   moment of a pass (before the first Fetch, between two Fetches, after io.EOF) it is rewound. *)

(* the source, for any batching and both EOF conventions *)
Theorem C06_rewound_source_replayable : forall eof_with all,
  replayable (src_stream eof_with all) (concat all).
Proof. exact src_replayable. Qed.
Print Assumptions C06_rewound_source_replayable.

(* a streaming processor (head, dedup, streamstats, row-wise) whose Rewind() puts it back into its
   initial state, behind a replayable stream: replayable with its one-pass meaning *)
Theorem C06_rewound_streaming_stage : forall (c : command) (rw : st c -> st c) (up : stream),
  (forall bs, run c bs = run c [concat bs]) -> (forall s, rw s = init c) ->
  forall R, replayable up R -> replayable (dp_stream (proc_rw c rw) streaming_flags up) (run c [R]).
Proof. exact stage_streaming. Qed.
Print Assumptions C06_rewound_streaming_stage.

(* a bottleneck processor that keeps its final result and hands it out through
   GetFinalResultIfExists (tail, sort, stats, top, rare), with a Rewind() that does nothing *)
Theorem C06_rewound_cached_stage : forall (c : command) (seal : st c -> st c) (out : st c -> option batch)
  (up : stream),
  (forall bs, run c bs = run c [concat bs]) -> silent c ->
  (forall a, opt_rows (out (seal a)) = finish c a) ->
  forall R, replayable up R -> replayable (dp_stream (proc_cached c seal out) bottleneck_flags up) (run c [R]).
Proof. exact stage_cached. Qed.
Print Assumptions C06_rewound_cached_stage.

(* a two-pass processor behind a replayable stream: every row transformed with the summary of
   the whole one-pass output of what is in front; itself replayable (two-pass behind two-pass) *)
Theorem C06_rewound_two_pass_stage : forall (t : twopass) (up : stream) R,
  replayable up R -> replayable (dp_stream (twopass_proc t) twopass_flags up) (tp_sem t R).
Proof. exact stage_twopass. Qed.
Print Assumptions C06_rewound_two_pass_stage.

(* chains of any length over such stages, any number of two-pass commands anywhere: the consumer
   receives the composition of the one-pass meanings, for any batching of the source *)
Theorem C06_rewound_chain_meets_composition : forall stages sems eof_with bs,
  Forall2 good_stage stages sems ->
  stream_rows (build_chain (src_stream eof_with bs) stages) = Some (sems_apply sems (concat bs)).
Proof. exact rewound_chain_meaning. Qed.
Print Assumptions C06_rewound_chain_meets_composition.

Theorem C06_rewound_chain_batching_invariant : forall stages sems ew ew' bs bs',
  Forall2 good_stage stages sems -> concat bs = concat bs' ->
  stream_rows (build_chain (src_stream ew bs) stages) = stream_rows (build_chain (src_stream ew' bs') stages).
Proof. exact rewound_chain_batching_invariant. Qed.
Print Assumptions C06_rewound_chain_batching_invariant.

(* the processors as the code rewinds them are such stages *)
Theorem C06_rewound_processors_are_good_stages :
  (forall n, good_stage (RStage (head_proc n) streaming_flags) (fun R => firstn (N.to_nat n) R))
  /\ (forall cond o, good_stage (RStage (head_expr_proc cond o) streaming_flags) (fun R => run (head_expr_cmd cond o) [R]))
  /\ (forall H o, good_stage (RStage (dedup_proc H o) streaming_flags) (fun R => run (dedup_cmd H o) [R]))
  /\ (forall o, good_stage (RStage (streamstats_proc o) streaming_flags) (fun R => run (streamstats_cmd false o) [R]))
  /\ (forall f, good_stage (RStage (rowwise_proc f) streaming_flags) (flat_map f))
  /\ (forall n, good_stage (RStage (tail_proc n) bottleneck_flags) (fun R => rev (lastN n R)))
  /\ (forall is_top limit fields countf,
        good_stage (RStage (agg_proc (toprare_cmd is_top limit fields countf)) bottleneck_flags)
                   (fun R => run (toprare_cmd is_top limit fields countf) [R]))
  /\ (forall by_fields vf countf sumf,
        good_stage (RStage (agg_proc (gstats_cmd by_fields vf countf sumf)) bottleneck_flags)
                   (fun R => run (gstats_cmd by_fields vf countf sumf) [R]))
  /\ (forall (m : monoid) inj render,
        (forall a b c, mop m a (mop m b c) = mop m (mop m a b) c) ->
        (forall a, mop m (mzero m) a = a) -> (forall a, mop m a (mzero m) = a) ->
        good_stage (RStage (agg_proc (stats_cmd m inj render)) bottleneck_flags) (fun R => render (magg m inj R)))
  /\ (forall t, good_stage (RStage (twopass_proc t) twopass_flags) (tp_sem t)).
Proof.
  repeat split; [exact good_head | exact good_head_expr | exact good_dedup | exact good_streamstats
                | exact good_rowwise | exact good_tail | exact good_toprare | exact good_gstats
                | exact good_stats | exact gs_twopass].
Qed.
Print Assumptions C06_rewound_processors_are_good_stages.

(* spelled out: tail N / head N in front of any two-pass command *)
Theorem C06_tail_then_two_pass : forall n t eof_with bs,
  stream_rows (build_chain (src_stream eof_with bs)
                 [RStage (tail_proc n) bottleneck_flags; RStage (twopass_proc t) twopass_flags])
  = Some (tp_sem t (rev (lastN n (concat bs)))).
Proof. exact tail_then_two_pass. Qed.
Print Assumptions C06_tail_then_two_pass.

Theorem C06_head_then_two_pass : forall n t eof_with bs,
  stream_rows (build_chain (src_stream eof_with bs)
                 [RStage (head_proc n) streaming_flags; RStage (twopass_proc t) twopass_flags])
  = Some (tp_sem t (firstn (N.to_nat n) (concat bs))).
Proof. exact head_then_two_pass. Qed.
Print Assumptions C06_head_then_two_pass.

(* what the hypotheses on Rewind() exclude: a tail whose Rewind clears only the EOF flag (tail 5
   over rows 1,2,3 -> 3,2,1,1,2), a head whose Rewind keeps numRecordsSent (nothing in pass two) *)
Theorem C06_tail_rewind_clearing_eof_refuted :
  stream_rows (build_chain (src_stream false [[rid 1; rid 2; rid 3]])
                 [RStage (tail_proc_gen 5 (fun s => (fst s, false))) bottleneck_flags;
                  RStage (twopass_proc fill0) twopass_flags])
  = Some [rid 3; rid 2; rid 1; rid 1; rid 2]
  /\ tp_sem fill0 (rev (lastN 5 [rid 1; rid 2; rid 3])) = [rid 3; rid 2; rid 1].
Proof. exact tail_rewind_clearing_eof_refuted. Qed.
Print Assumptions C06_tail_rewind_clearing_eof_refuted.

Theorem C06_head_rewind_keeping_count_refuted :
  stream_rows (build_chain (src_stream false [[rid 1]; [rid 2]; [rid 3]; [rid 4]])
                 [RStage (proc_rw (head_cmd 2) (fun s => s)) streaming_flags;
                  RStage (twopass_proc fill0) twopass_flags])
  = Some []
  /\ tp_sem fill0 (firstn 2 [rid 1; rid 2; rid 3; rid 4]) = [rid 1; rid 2].
Proof. exact head_rewind_keeping_count_refuted. Qed.
Print Assumptions C06_head_rewind_keeping_count_refuted.

(* a row-rewriting command between tail and the two-pass command is applied ONCE (tail gives away
   copies of the result it keeps; before that fix: alias_two_pass below), and stats without BY in
   front of a two-pass command gives its aggregate, not twice that *)
Theorem C06_tail_rowwise_then_two_pass : forall n f t eof_with bs,
  stream_rows (build_chain (src_stream eof_with bs)
                 [RStage (tail_proc n) bottleneck_flags; RStage (rowwise_proc f) streaming_flags;
                  RStage (twopass_proc t) twopass_flags])
  = Some (tp_sem t (flat_map f (rev (lastN n (concat bs))))).
Proof. exact tail_rowwise_then_two_pass. Qed.
Print Assumptions C06_tail_rowwise_then_two_pass.

Theorem C06_stats_without_by_then_two_pass : forall vf countf sumf t eof_with bs,
  stream_rows (build_chain (src_stream eof_with bs)
                 [RStage (agg_proc (gstats_cmd [] vf countf sumf)) bottleneck_flags;
                  RStage (twopass_proc t) twopass_flags])
  = Some (tp_sem t (run (gstats_cmd [] vf countf sumf) [concat bs])).
Proof. exact stats_noby_then_two_pass. Qed.
Print Assumptions C06_stats_without_by_then_two_pass.

(* ---- known defect sort_result_rewritten_before_two_pass (tail: repaired, class
   cached_result_rewritten_before_two_pass) ----
   Full statement (FALSE for the code, see _refuted): with a row-wise command f between sort,
   which hands out the IQR it keeps, and a two-pass command t the chain gives
   tp_sem t (map f rows).  The IQR is the same object in both passes and f writes into it:
   [alias_two_pass].  Exact guard: f is idempotent. *)
Theorem C06_kept_result_rewritten_guarded : forall f t rows, (forall r, f (f r) = f r) ->
  alias_two_pass f t rows = tp_sem t (map f rows).
Proof. exact alias_two_pass_guarded. Qed.
Print Assumptions C06_kept_result_rewritten_guarded.

(* sort v | eval v=v+1 | fillnull value=0 over one row v=0: v=2 instead of v=1 *)
Theorem C06_kept_result_rewritten_refuted :
  alias_two_pass incr_v fill0 [[(fvv, VNum 0)]] = [[(fvv, VNum 2)]]
  /\ tp_sem fill0 (map incr_v [[(fvv, VNum 0)]]) = [[(fvv, VNum 1)]].
Proof. exact alias_two_pass_refuted. Qed.
Print Assumptions C06_kept_result_rewritten_refuted.

Example C06_kept_result_rewritten_guard_satisfiable :
  alias_two_pass (fun r => set_field r fvv (VNum 7)) fill0 [[(fvv, VNum 0)]]
  = tp_sem fill0 (map (fun r => set_field r fvv (VNum 7)) [[(fvv, VNum 0)]]).
Proof. exact alias_two_pass_guard_satisfiable. Qed.

(* ---- BEFORE the fix "stats without BY merges its statistics once" (documentation) ----
   every extraction of the result merged the collected statistics once more
   ([stats_noby_two_pass]); it agreed with the meaning exactly when the aggregate of the input
   taken twice equals the aggregate of the input (max, min; not count, sum, avg). *)
Theorem C06_stats_without_by_prefix_extracted_twice_guarded : forall c t rows,
  run c [rows ++ rows] = run c [rows] -> stats_noby_two_pass c t rows = tp_sem t (run c [rows]).
Proof. exact stats_noby_two_pass_guarded. Qed.
Print Assumptions C06_stats_without_by_prefix_extracted_twice_guarded.

(* stats count, sum(v) | fillnull value=0 over one row v=3 gave count 2, sum 6 *)
Theorem C06_stats_without_by_prefix_extracted_twice_witness :
  stats_noby_two_pass (gstats_cmd [] fvv fcnt fsum) fill0 [[(fvv, VNum 3)]]
    = [[(fcnt, VNum 2); (fsum, VNum 6)]]
  /\ tp_sem fill0 (run (gstats_cmd [] fvv fcnt fsum) [[[(fvv, VNum 3)]]]) = [[(fcnt, VNum 1); (fsum, VNum 3)]].
Proof. exact stats_noby_two_pass_refuted. Qed.
Print Assumptions C06_stats_without_by_prefix_extracted_twice_witness.

(* ---- a DataProcessor with SEVERAL input streams in a chain that is rewound (Pipe.v level D) ----
   [merge_stream less limit ew srcs] = the merged input of a DataProcessor whose k CachedStreams
   deliver the batch lists [srcs]: every getStreamInput call fetches from every stream that is not
   exhausted, merges the fetched IQRs (iqr.MergeIQRs, order [less]) until one is used up, applies the
   row limit, and gives the unused remainder of the other IQRs back to their CachedStreams
   (unusedDataFromLastFetch), which return it first at the next Fetch.  A consumer that stops early
   (head) leaves leftovers behind; its state at that moment is any state [u] of the stream. *)

(* DataProcessor.Rewind (numReturned = 0; every CachedStream: wrapped stream from the beginning,
   isExhausted = false, unusedDataFromLastFetch = nil) restores the state before the first Fetch,
   whatever the number of streams, their batches, leftovers, exhausted flags and the row counter *)
Theorem C06_merged_streams_rewind_restores_start : forall less limit ew srcs (u : sst (merge_stream less limit ew srcs)),
  srewind (merge_stream less limit ew srcs) u = sinit (merge_stream less limit ew srcs).
Proof. exact merge_rewind_is_init. Qed.
Print Assumptions C06_merged_streams_rewind_restores_start.

(* hence the pass after a Rewind at ANY moment is the first pass (Fetch by Fetch) *)
Theorem C06_merged_streams_second_pass_is_first : forall less limit ew srcs (u : sst (merge_stream less limit ew srcs)),
  strace (merge_stream less limit ew srcs) (srewind (merge_stream less limit ew srcs) u)
  = strace (merge_stream less limit ew srcs) (sinit (merge_stream less limit ew srcs)).
Proof. exact merge_second_pass_is_first. Qed.
Print Assumptions C06_merged_streams_second_pass_is_first.

Theorem C06_merged_streams_replayable : forall less limit ew srcs,
  replayable (merge_stream less limit ew srcs) (merge_rows less limit ew srcs).
Proof. exact merge_stream_replayable. Qed.
Print Assumptions C06_merged_streams_replayable.

(* what one pass reads: the k-way merge of the rows of the streams (always the first smallest next
   record), cut at the limit - for every batching of every stream (empty batches included), both
   EOF conventions, any number of streams and ANY comparison function *)
Theorem C06_merge_is_kway_merge_for_any_batching : forall less ew limit srcs,
  merge_rows less limit ew srcs
  = match limit with
    | None => kmerge_all less (map (@concat row) srcs)
    | Some L => takeN L (kmerge_all less (map (@concat row) srcs))
    end.
Proof. exact merge_rows_kmerge. Qed.
Print Assumptions C06_merge_is_kway_merge_for_any_batching.

Theorem C06_merge_batching_invariant : forall less limit ew ew' srcs srcs',
  map (@concat row) srcs = map (@concat row) srcs' ->
  merge_rows less limit ew srcs = merge_rows less limit ew' srcs'.
Proof. exact merge_rows_batching_invariant. Qed.
Print Assumptions C06_merge_batching_invariant.

(* non-vacuity of the specification merge: one stream is delivered unchanged *)
Theorem C06_merge_of_one_stream_is_identity : forall less l, kmerge_all less [l] = l.
Proof. exact kmerge_single. Qed.
Print Assumptions C06_merge_of_one_stream_is_identity.

(* "from one or several upstream streams, in one or two passes": a chain of DataProcessors (head, head
   <expr>, dedup, streamstats, row-wise, tail, top/rare, stats, two-pass commands; any length) behind k
   streams delivers what the same chain delivers behind ONE stream holding the merged order, for every
   batching on either side; the two-pass commands may rewind the merge at any moment *)
Theorem C06_merged_chain_equals_single_stream : forall less stages sems ew ew' srcs bs,
  Forall2 good_stage stages sems ->
  concat bs = kmerge_all less (map (@concat row) srcs) ->
  stream_rows (build_chain (merge_stream less None ew srcs) stages)
  = stream_rows (build_chain (src_stream ew' bs) stages).
Proof. exact merged_chain_equals_single_stream. Qed.
Print Assumptions C06_merged_chain_equals_single_stream.

Theorem C06_merged_chain_with_limit : forall less stages sems ew L srcs,
  Forall2 good_stage stages sems ->
  stream_rows (build_chain (merge_stream less (Some L) ew srcs) stages)
  = Some (sems_apply sems (takeN L (kmerge_all less (map (@concat row) srcs)))).
Proof. exact merged_chain_with_limit. Qed.
Print Assumptions C06_merged_chain_with_limit.

(* the shape of the seeded defect: head stops the merge early, a two-pass command rewinds it *)
Theorem C06_head_behind_merge_then_two_pass : forall less n t ew srcs,
  stream_rows (build_chain (merge_stream less None ew srcs)
                 [RStage (head_proc n) streaming_flags; RStage (twopass_proc t) twopass_flags])
  = Some (tp_sem t (firstn (N.to_nat n) (kmerge_all less (map (@concat row) srcs)))).
Proof. exact head_behind_merge_then_two_pass_meaning. Qed.
Print Assumptions C06_head_behind_merge_then_two_pass.

(* necessity: a CachedStream.Rewind that keeps unusedDataFromLastFetch ([merge_stream_gen .. true]).
   Streams {1,2,6} and {3,4,5}, `head 4 | fillnull value=0`: the first pass leaves [6] with the first
   stream; the second pass starts with it: 3,4,5,6 instead of 1,2,3,4 (the real Rewind and the single
   stream give 1,2,3,4) *)
Theorem C06_rewind_keeping_leftover_refuted :
  stream_rows (build_chain (merge_stream_gen less_k None false true [[[rk 1; rk 2; rk 6]]; [[rk 3; rk 4; rk 5]]])
                 [RStage (head_proc 4) streaming_flags; RStage (twopass_proc fill0) twopass_flags])
  = Some [rk 3; rk 4; rk 5; rk 6]
  /\ stream_rows (build_chain (merge_stream less_k None false [[[rk 1; rk 2; rk 6]]; [[rk 3; rk 4; rk 5]]])
                 [RStage (head_proc 4) streaming_flags; RStage (twopass_proc fill0) twopass_flags])
  = Some [rk 1; rk 2; rk 3; rk 4]
  /\ stream_rows (build_chain (src_stream false [[rk 1; rk 2; rk 3; rk 4; rk 5; rk 6]])
                 [RStage (head_proc 4) streaming_flags; RStage (twopass_proc fill0) twopass_flags])
  = Some [rk 1; rk 2; rk 3; rk 4].
Proof. exact rewind_keeping_leftover_refuted. Qed.
Print Assumptions C06_rewind_keeping_leftover_refuted.

(* without a consumer that stops early every leftover has been used when the pass ends and the
   forgetful Rewind goes unnoticed (head 6 over the six rows) *)
Example C06_rewind_keeping_leftover_unnoticed_when_drained :
  stream_rows (build_chain (merge_stream_gen less_k None false true [[[rk 1; rk 2; rk 6]]; [[rk 3; rk 4; rk 5]]])
                 [RStage (head_proc 6) streaming_flags; RStage (twopass_proc fill0) twopass_flags])
  = Some [rk 1; rk 2; rk 3; rk 4; rk 5; rk 6].
Proof. exact rewind_keeping_leftover_unnoticed_when_drained. Qed.

(* ---- per-record commands that WRITE columns, handled batch by batch (PipeCols.v) ----
   rex / eval read columns of the IQR, build the new columns and replace them with
   IQR.AppendKnownValues once per Process() call.  [batch_cmd F] is a stateless processor whose
   Process() is F. *)

(* a stateless per-batch processor gives the same rows for every batching EXACTLY when what it does
   to a batch is what it does to each record alone, concatenated (no decision may depend on the other
   records of the batch); this is the harness oracle <cmd>_record_depends_on_its_batch *)
Theorem C06_stateless_processor_chunk_invariant_iff_recordwise : forall F : batch -> batch,
  (forall bs, run (batch_cmd F) bs = run (batch_cmd F) [concat bs])
  <-> (forall b, F b = flat_map (fun r => F [r]) b).
Proof. exact batch_cmd_chunk_inv_iff. Qed.
Print Assumptions C06_stateless_processor_chunk_invariant_iff_recordwise.

(* a per-batch shortcut (batches with [q] are handled by G instead of F) keeps the meaning as far as
   G agrees with the record function on those batches *)
Theorem C06_batch_shortcut_sound : forall q F G (f : row -> list row),
  (forall b, F b = flat_map f b) -> (forall b, q b = true -> G b = flat_map f b) ->
  forall bs, run (batch_cmd (shortcut q F G)) bs = flat_map f (concat bs).
Proof. exact shortcut_sound. Qed.
Print Assumptions C06_batch_shortcut_sound.

(* rexcommand.go Process() (columns read, built, written) = the record function on every record, for
   any extraction function (Go regexp + GetValueAsString), source field and group names - including
   groups named after existing columns or after the source field *)
Theorem C06_rex_process_is_recordwise : forall ext src groups b,
  rex_batch ext false src groups b = map (rex_row ext src groups) b.
Proof. exact rex_batch_rowwise. Qed.
Print Assumptions C06_rex_process_is_recordwise.

Theorem C06_rex_meets_spec : forall ext src groups bs,
  run (rex_cmd false src groups ext) bs = map (rex_row ext src groups) (concat bs).
Proof. exact rex_spec. Qed.
Print Assumptions C06_rex_meets_spec.

Theorem C06_rex_chunk_invariant : forall ext src groups bs,
  run (rex_cmd false src groups ext) bs = run (rex_cmd false src groups ext) [concat bs].
Proof. exact rex_chunk_inv. Qed.
Print Assumptions C06_rex_chunk_invariant.

(* what a record gets: no match -> every capture-group column is null, also one that existed before,
   all other columns untouched; match -> group i holds captured text i *)
Theorem C06_rex_record_without_match : forall ext src groups r, ext (get r src) = None ->
  forall f, get (rex_row ext src groups r) f
            = if existsb (fun g => field_eqb g f) groups then VNull else get r f.
Proof. exact rex_row_no_match. Qed.
Print Assumptions C06_rex_record_without_match.

Theorem C06_rex_record_with_match : forall ext src groups r vs, ext (get r src) = Some vs -> NoDup groups ->
  forall i g, nth_error groups i = Some g -> get (rex_row ext src groups r) g = nth i vs VNull.
Proof. exact rex_row_match. Qed.
Print Assumptions C06_rex_record_with_match.

(* the shortcut "no record of this batch matched -> hand the IQR on untouched" ([rex_cmd true]):
   full statement  forall ext src groups bs, run (rex_cmd true ..) bs = run (rex_cmd true ..) [concat bs]
   is refuted: the capture group is the existing column a; "1" matches, "0" does not; the second record
   keeps a = y when it is a batch of its own and gets null when it shares the batch with the first *)
Theorem C06_rex_skip_batch_without_match_refuted :
  exists ext src g bs,
    map (fun r => get r g) (run (rex_cmd true src [g] ext) bs)
    <> map (fun r => get r g) (run (rex_cmd true src [g] ext) [concat bs]).
Proof. exact rex_skip_refuted. Qed.
Print Assumptions C06_rex_skip_batch_without_match_refuted.

Example C06_rex_skip_witness :
  map (fun r => get r w_a) (run (rex_cmd false w_s [w_a] w_ext) [[w_r1]; [w_r2]]) = [VStr [49]; VNull]
  /\ map (fun r => get r w_a) (run (rex_cmd true w_s [w_a] w_ext) [[w_r1]; [w_r2]]) = [VStr [49]; VStr [121]]
  /\ map (fun r => get r w_a) (run (rex_cmd true w_s [w_a] w_ext) [[w_r1; w_r2]]) = [VStr [49]; VNull].
Proof. exact rex_witness_code. Qed.

(* ... and invisible under the exact circumstances of the processor's unit tests: when no input record
   has a value in a capture-group column the shortcut returns rows with the same cells as the code *)
Theorem C06_rex_skip_invisible_on_new_columns_guarded : forall ext src groups bs,
  (forall r, In r (concat bs) -> forall g, In g groups -> get r g = VNull) ->
  Forall2 row_equiv (run (rex_cmd true src groups ext) bs) (run (rex_cmd false src groups ext) bs).
Proof. exact rex_skip_guarded. Qed.
Print Assumptions C06_rex_skip_invisible_on_new_columns_guarded.

Example C06_rex_skip_guard_satisfiable :
  let bs := [[[(w_s, VStr [49])]]; [[(w_s, VStr [48])]]] in
  (forall r, In r (concat bs) -> forall g, In g [w_a] -> get r g = VNull)
  /\ no_match_in_batch w_ext w_s [[(w_s, VStr [48])]] = true.
Proof. exact rex_skip_guard_satisfiable. Qed.

(* eval <f> = <expr> onto any column, existing or new: the column computed from the records of the
   batch and written at once = the record function *)
Theorem C06_eval_meets_spec : forall (e : row -> value) f bs,
  run (eval_cmd e f) bs = map (fun r => set_field r f (e r)) (concat bs).
Proof. exact eval_spec. Qed.
Print Assumptions C06_eval_meets_spec.

Theorem C06_eval_chunk_invariant : forall (e : row -> value) f bs,
  run (eval_cmd e f) bs = run (eval_cmd e f) [concat bs].
Proof. exact eval_chunk_inv. Qed.
Print Assumptions C06_eval_chunk_invariant.

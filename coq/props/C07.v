(* C07 — Flushed log data survives a process crash at any instant.
   Statements only; proofs in SigP.FlushProtoProofs.
   A history is any list of flushes (with any number of column-file and .sst writes),
   rotations, persistent-query appends and forced flushes (graceful shutdown: flush + rotation in one call); [ops_of h] is the sequence of file-system calls the writer issues (checked
   against strace of the real writer on every run); a crash after k calls leaves the state
   [run fs0 (firstn k (ops_of h))]; [visible] is what the real start-up adopts. *)
From SigM Require Import Base FlushProto.
From SigP Require Import FlushProtoProofs.
Open Scope nat_scope.

(* For EVERY history and EVERY crash point: restart sees exactly the specified set. *)
Theorem C07_crash_visible_exact : forall (h : list hstep) (k : nat),
  visible (run fs0 (firstn k (ops_of h))) (nsegs h) = expect_visible h k.
Proof. exact crash_visible_exact. Qed.
Print Assumptions C07_crash_visible_exact.

(* ... which is: every block of a completed flush, plus at most the one block of the flush in
   progress (a block is all events of one flush: all of them or none), each exactly once. *)
Theorem C07_crash_safe : forall (h : list hstep) (k : nat),
  let vis := visible (run fs0 (firstn k (ops_of h))) (nsegs h) in
  (exists extra, vis = completed_from 0 0 h k ++ extra /\ length extra <= 1) /\ NoDup vis.
Proof. exact crash_safe. Qed.
Print Assumptions C07_crash_safe.

(* The protocol before fix b3aeb7b (.sfm rewritten in place with O_TRUNC) violates the property:
   the completed first flush disappears when the crash hits the second flush's truncation. *)
Theorem C07_inplace_sfm_refuted :
  let h := [Flush 1 1; Flush 1 1] in
  In (0, 0) (visible (run fs0 (firstn 6 (ops_of_inplace h))) (nsegs h)) /\
  ~ In (0, 0) (visible (run fs0 (firstn 11 (ops_of_inplace h))) (nsegs h)).
Proof. exact crash_safe_inplace_refuted. Qed.
Print Assumptions C07_inplace_sfm_refuted.

(* ---- crash DURING A FORCED ROTATION (graceful shutdown: ForcedFlushToSegfile -> AppendWipToSegfile(forceRotate = true)):
   the step [ForcedFlush m n p] is the buffer flush of the open block (column writes, block summary, .sst, running .sfm,
   pqmr appends) followed IN THE SAME CALL by the rotation (final .sfm through tmp + rename, segmeta.json line).
   C07_crash_visible_exact / C07_crash_safe above quantify over histories that contain such steps and over every crash
   point inside them.  Spelled out for the window the shutdown opens: after ANY history h1, once the buffer flush of
   the shutdown has returned (m + n + 5 calls: its .sfm is renamed), its block - number [pos_after h1] - is searchable
   after a crash at EVERY later call of the rotation and of whatever follows. ---- *)
Theorem C07_forced_rotation_keeps_shutdown_flush : forall (h1 : list hstep) (m n p : nat) (h2 : list hstep) (k : nat),
  length (ops_of h1) + (m + n + 5) <= k ->
  let h := h1 ++ ForcedFlush m n p :: h2 in
  In (pos_after h1) (visible (run fs0 (firstn k (ops_of h))) (nsegs h)).
Proof. exact forced_rotation_keeps_shutdown_flush. Qed.
Print Assumptions C07_forced_rotation_keeps_shutdown_flush.

(* Leaving the running .sfm of the shutdown flush to the rotation ("the rotation writes the final .sfm anyway") violates
   the property: all files of the flush are on disk after 4 calls, and a crash at any of the next calls before the final
   rename (k = 4, 5, 6) leaves the segment without a .sfm - its only block is never adopted; the complete run and the
   real protocol from its 7th call on show the block. *)
Theorem C07_forced_rotation_skip_running_sfm_refuted :
  let h := [ForcedFlush 1 1 0] in
  let ops := forced_ops_skip_running_sfm 0 0 1 1 0 in
  length ops = 8 /\
  (forall k, 4 <= k -> k < 7 -> visible (run fs0 (firstn k ops)) (nsegs h) = []) /\
  visible (run fs0 ops) (nsegs h) = [(0, 0)] /\
  (forall k, 7 <= k -> visible (run fs0 (firstn k (ops_of h))) (nsegs h) = [(0, 0)]).
Proof. exact forced_rotation_skip_running_sfm_refuted. Qed.
Print Assumptions C07_forced_rotation_skip_running_sfm_refuted.

(* ---- "later ingestion does not overwrite recovered data": the per-stream suffix file.
   FULL STATEMENT: after a crash that follows ANY number k of the system calls of ANY number n of segment
   allocations (suffix handed out, next value persisted through tmp + rename, segment directory created), the
   number the restarted writer reads from the file is above every segment directory that exists — it never
   writes into a recovered segment.  Refuted for an in-place rewrite of the file (the file is empty between
   truncation and write, an empty file reads as 0). ---- *)
From SigM Require Import SuffixProto.
From SigP Require Import SuffixProtoProofs.
Theorem C07_suffix_never_reused_after_crash : forall n k,
  fresh (srun sst0 (firstn k (allocs alloc_ops n))) = true.
Proof. exact suffix_never_reused. Qed.
Print Assumptions C07_suffix_never_reused_after_crash.
Theorem C07_suffix_in_place_refuted :
  fresh (srun sst0 (firstn 4 (allocs alloc_ops_inplace 2))) = false /\
  next_suffix (srun sst0 (firstn 4 (allocs alloc_ops_inplace 2))) = 0 /\
  In 0 (dirs (srun sst0 (firstn 4 (allocs alloc_ops_inplace 2)))).
Proof. exact suffix_in_place_refuted. Qed.
Print Assumptions C07_suffix_in_place_refuted.

(* ---- "queries return no errors or partial garbage" when the query is a PERSISTENT query: every flush appends the
   block's match bits to <segkey>/pqmr/<pqid>.pqmr AFTER the .sfm (FlushPqmr: blkNum, size, bitset length, bitset
   words = four write(2) calls, [PqmrWrite] in [ops_of], no effect on what start-up adopts: C07_crash_visible_exact
   covers histories with [PqWrites] steps), and after a restart the query is answered from that file.
   FULL STATEMENT, at byte granularity (every system-call boundary and every torn write): whatever prefix of the
   writer's appends is on disk, ReadPqmr reports exactly the blocks whose record is completely there, each with the
   bits that were written ... ---- *)
From SigM Require Import PqmrProto.
From SigP Require Import PqmrProtoProofs.
Theorem C07_pqmr_crash_prefix_exact : forall (bl : list (N * bitset)) (k : nat),
  wf_blocks bl = true -> read_pqmr (firstn k (file_of bl)) = Some (firstn (complete k bl) bl).
Proof. exact pqmr_crash_prefix_exact. Qed.
Print Assumptions C07_pqmr_crash_prefix_exact.

(* ... and what the searcher does with it (Searcher.getBlocks: stored bits for the blocks the file reports; raw search
   for the others unless the number of blocks taken from the file equals the number of block summaries of the segment).
   FULL STATEMENT: for every byte prefix of the writer's appends and every block b of a segment with nblocks blocks, the
   persistent query returns exactly the records of b that match. *)
Theorem C07_pqmr_seg_answer_after_crash : forall (bl : list (N * bitset)) (truth : N -> list N) (k : nat) (nblocks : N),
  wf_blocks bl = true ->
  (forall b bs, In (b, bs) bl -> set_bits bs = truth b) ->
  forall b, (b < nblocks)%N -> seg_answer (read_pqmr (firstn k (file_of bl))) nblocks truth b = truth b.
Proof. exact pqmr_seg_answer_after_crash. Qed.
Print Assumptions C07_pqmr_seg_answer_after_crash.

(* The rule before the fix (known/C07.json: persistent_query_skips_block_without_match_results, fixed) compared the count
   with SegMeta.NumBlocks; a running .sfm records the INDEX of the last flushed block there, so between the .sfm rename of
   flush b and the end of its pqmr record the file reports b blocks, NumBlocks = b, and block b was not searched. *)
Theorem C07_pqmr_numblocks_rule_refuted :
  let bl := [(0, (1, [1])); (1, (2, [2]))]%N in
  let truth := fun b : N => if N.eqb b 0 then [0%N] else [1%N] in
  wf_blocks bl = true /\
  (forall b bs, In (b, bs) bl -> set_bits bs = truth b) /\
  seg_answer_numblocks 1%N (read_pqmr (firstn 20 (file_of bl))) 2%N truth 1%N = [] /\
  seg_answer (read_pqmr (firstn 20 (file_of bl))) 2%N truth 1%N = [1%N] /\ truth 1%N = [1%N].
Proof. exact pqmr_numblocks_rule_refuted. Qed.
Print Assumptions C07_pqmr_numblocks_rule_refuted.

(* the file without a crash reads back as written *)
Theorem C07_pqmr_roundtrip : forall bl, wf_blocks bl = true -> read_pqmr (file_of bl) = Some bl.
Proof. exact pqmr_roundtrip. Qed.
Print Assumptions C07_pqmr_roundtrip.

(* The break on a short ReadAt is what carries the prefix theorem: a reader that goes on after a short read of the
   bitset parses the bytes the reused buffer still holds and reports the torn block with the PREVIOUS block's bits. *)
Theorem C07_pqmr_tolerant_reader_refuted :
  let bl := [(0, (1, [1])); (1, (2, [2]))]%N in
  wf_blocks bl = true /\
  option_map (lookup_last 1%N) (read_pqmr (firstn 24 (file_of bl))) = Some None /\
  option_map (fun l => option_map set_bits (lookup_last 1%N l)) (read_pqmr_tolerant (firstn 24 (file_of bl))) = Some (Some [0%N]) /\
  option_map set_bits (lookup_last 1%N bl) = Some [1%N].
Proof. exact pqmr_tolerant_reader_refuted. Qed.
Print Assumptions C07_pqmr_tolerant_reader_refuted.

(* ---- "the server dies during a METADATA REWRITE", over any number of process generations: segmeta.json is rewritten by
   removeSegmetas (retention cleaner, index deletion, AddOrReplaceRotatedSegmeta: the kept entries go to segmeta.json.tmp,
   opened with O_TRUNC, one write per entry, then rename) and extended by BulkAddRotatedSegmetas (rotation, start-up
   adoption: one append).  The temporary file is part of the state: a process that dies inside a rewrite leaves it behind
   with ANY content (complete lines; a torn line after a short write) and the next rewrite, after the restart, finds it.
   [parse]/[enc] are json.Unmarshal/json.Marshal of one entry (premises: an encoded entry is one line, and parses back).
   FULL STATEMENT: for every content of segmeta.json that the writer produced (entries m), EVERY temporary file, and every
   sequence of rewrites each cut after any number k of its calls (process killed, restart, next rewrite ...), what a
   restart loads from segmeta.json is exactly [spec_gens]: every removal all-or-nothing, nothing else changed. ---- *)
From SigM Require Import SegmetaProto.
From SigP Require Import SegmetaProtoProofs.
Theorem C07_segmeta_rewrites_exact_over_generations :
  forall (E : Type) (parse : bytes -> option E) (enc : E -> bytes) (key vt : E -> nat),
  (forall e, ~ In 10%N (enc e)) -> (forall e, parse (drop_cr (enc e)) = Some e) ->
  forall (gs : list (act E * nat)) (f : mfs) (m : option (list E)),
  WF E enc f m ->
  read_main E parse (run_gens E parse enc key vt f gs) = dflt [] (spec_gens E key vt m gs).
Proof. exact gens_read. Qed.
Print Assumptions C07_segmeta_rewrites_exact_over_generations.

(* leftovers of an interrupted rewrite are never reused: the result does not depend on the temporary file found *)
Theorem C07_segmeta_leftover_tmp_never_reused :
  forall (E : Type) (parse : bytes -> option E) (enc : E -> bytes) (key vt : E -> nat),
  (forall e, ~ In 10%N (enc e)) -> (forall e, parse (drop_cr (enc e)) = Some e) ->
  forall (gs : list (act E * nat)) (c : option bytes) (t1 t2 : option bytes) (m : option (list E)),
  c = option_map (file_of E enc) m ->
  read_main E parse (run_gens E parse enc key vt {| mainf := c; tmpf := t1 |} gs) =
  read_main E parse (run_gens E parse enc key vt {| mainf := c; tmpf := t2 |} gs).
Proof. exact tmp_irrelevant. Qed.
Print Assumptions C07_segmeta_leftover_tmp_never_reused.

(* two generations spelled out: a removal r1 dies before its last call (k1 < number of its calls) on any temporary file t;
   the restart loads what was there; a second removal r2 runs to its end: segmeta.json holds exactly the entries r2 keeps *)
Theorem C07_segmeta_rewrite_after_interrupted_rewrite :
  forall (E : Type) (parse : bytes -> option E) (enc : E -> bytes) (key vt : E -> nat),
  (forall e, ~ In 10%N (enc e)) -> (forall e, parse (drop_cr (enc e)) = Some e) ->
  forall (es : list E) (t : option bytes) (r1 : rm) (k1 : nat) (r2 : rm),
  let f0 := {| mainf := Some (file_of E enc es); tmpf := t |} in
  k1 < snd (abs_remove E key vt r1 (Some es)) ->
  let f1 := mrun f0 (firstn k1 (remove_ops E parse enc key vt (mainf f0) r1)) in
  let f2 := mrun f1 (remove_ops E parse enc key vt (mainf f1) r2) in
  read_main E parse f1 = es /\
  read_main E parse f2 = (if found E key vt r2 es then filter (keepb E key vt r2) es else es).
Proof. exact rewrite_after_interrupted_rewrite. Qed.
Print Assumptions C07_segmeta_rewrite_after_interrupted_rewrite.

(* ... i.e. no deleted entry comes back and no live entry disappears *)
Theorem C07_segmeta_no_resurrected_no_lost_entry :
  forall (E : Type) (parse : bytes -> option E) (enc : E -> bytes) (key vt : E -> nat),
  (forall e, ~ In 10%N (enc e)) -> (forall e, parse (drop_cr (enc e)) = Some e) ->
  forall (es : list E) (t : option bytes) (r1 : rm) (k1 : nat) (r2 : rm),
  let f0 := {| mainf := Some (file_of E enc es); tmpf := t |} in
  k1 < snd (abs_remove E key vt r1 (Some es)) ->
  let f1 := mrun f0 (firstn k1 (remove_ops E parse enc key vt (mainf f0) r1)) in
  let f2 := mrun f1 (remove_ops E parse enc key vt (mainf f1) r2) in
  forall e, In e (read_main E parse f2) <-> (In e es /\ (found E key vt r2 es = true -> targeted E key vt r2 e = false)).
Proof. exact no_resurrected_no_lost_entry. Qed.
Print Assumptions C07_segmeta_no_resurrected_no_lost_entry.

(* The variants that keep an existing temporary file violate the property (entries "{d}"): (a) O_APPEND instead of O_TRUNC,
   crashes at call boundaries only: the entry of a segment deleted by the second run is back; (b) the same with a torn
   line in the temporary file: a deleted entry is back AND a live entry is swallowed by the glued line; (c) neither
   O_TRUNC nor O_APPEND: the old tail stays behind the new lines.  The code (O_TRUNC) gives the specified result on the
   same inputs. *)
Theorem C07_segmeta_reuse_of_leftover_tmp_refuted :
  let rd := read_main nat parse_d in
  let es := [1; 2; 3; 4; 5] in
  let main := Some (file_of nat enc_d es) in
  rd (run_gens_gen nat parse_d enc_d id (fun _ => 0) false true {| mainf := main; tmpf := None |}
        [(Remove nat (RmKeys [1]), 2); (Remove nat (RmKeys [1; 2]), 100)]) = [2; 3; 4; 5] /\
  rd (mrun {| mainf := main; tmpf := Some (enc_d 2 ++ [10; 123; 51]%N) |}
        (remove_ops_gen nat parse_d enc_d id (fun _ => 0) false true main (RmKeys [1; 2]))) = [2; 4; 5] /\
  rd (run_gens_gen nat parse_d enc_d id (fun _ => 0) false false {| mainf := main; tmpf := None |}
        [(Remove nat (RmKeys [1]), 5); (Remove nat (RmKeys [1; 2; 3]), 100)]) = [4; 5; 4; 5] /\
  rd (run_gens nat parse_d enc_d id (fun _ => 0) {| mainf := main; tmpf := None |}
        [(Remove nat (RmKeys [1]), 2); (Remove nat (RmKeys [1; 2]), 100)]) = [3; 4; 5] /\
  rd (mrun {| mainf := main; tmpf := Some (enc_d 2 ++ [10; 123; 51]%N) |}
        (remove_ops nat parse_d enc_d id (fun _ => 0) main (RmKeys [1; 2]))) = [3; 4; 5] /\
  rd (run_gens nat parse_d enc_d id (fun _ => 0) {| mainf := main; tmpf := None |}
        [(Remove nat (RmKeys [1]), 5); (Remove nat (RmKeys [1; 2; 3]), 100)]) = [4; 5].
Proof. exact reuse_tmp_refuted. Qed.
Print Assumptions C07_segmeta_reuse_of_leftover_tmp_refuted.

(* the two premises about the encoding are satisfiable (that encoding) *)
Theorem C07_segmeta_encoding_premises_satisfiable :
  (forall e, ~ In 10%N (enc_d e)) /\ (forall e, parse_d (drop_cr (enc_d e)) = Some e).
Proof. exact (conj enc_d_nl parse_enc_d). Qed.
Print Assumptions C07_segmeta_encoding_premises_satisfiable.

(* ---- the auxiliary file the start-up recovery depends on: virtualtablenames.txt.  syncSegMetaWithSegFullMeta adopts
   the unrotated segments (a .sfm, no line in segmeta.json yet) of the indexes this file lists; the first event of a new
   index appends its name (addVirtualTableHelper) BETWEEN completed flushes of the other indexes.  Byte level: the
   reader is bufio.ScanLines (the unterminated last token is a name), the writer appends name + "\n" (since eb50b5f in one
   write, preceded by "\n" when the file it finds does not end in one).
   FULL STATEMENT: for every crash point of the writer (ANY byte prefix of what it appends, torn names included) a
   restart reads the file without error, every name that was listed is listed, so every segment of the other indexes
   that holds completed flushes is still adopted; a name whose registration completed is listed after any number of
   later crashes and restarts; a process that ran to its end lists every index it flushed into. ---- *)
From SigM Require Import NamesProto.
From SigP Require Import NamesProtoProofs.

(* the file ends in "\n" (or is empty): a crash after k bytes of name + "\n" reads as the old names, followed by nothing
   (k = 0) or by the first k bytes of the name (the whole name from k = length on) *)
Theorem C07_names_append_prefix_exact : forall (f n : bytes) (k : nat),
  needs_nl f = false -> ~ In 10%N n ->
  lines (f ++ firstn k (n ++ [10%N])) = lines f ++ (if k =? 0 then [] else [firstn k n]).
Proof. exact names_append_prefix_exact. Qed.
Print Assumptions C07_names_append_prefix_exact.

(* ... and is never an error (mx = bufio.MaxScanTokenSize: the only error of the Scanner is a token of mx bytes or more) *)
Theorem C07_names_never_unreadable_after_crash : forall (f n : bytes) (k mx : nat),
  needs_nl f = false -> ~ In 10%N n -> too_long mx f = false -> length n < mx ->
  read_scan mx (Some (f ++ firstn k (n ++ [10%N])))
  = Some (names_of f ++ (if k =? 0 then [] else [drop_cr (firstn k n)])).
Proof. exact names_never_unreadable. Qed.
Print Assumptions C07_names_never_unreadable_after_crash.

(* so the unrotated segments of the indexes registered earlier are adopted after a crash at ANY byte of the append *)
Theorem C07_names_adoption_of_other_indexes_unaffected :
  forall (f n : bytes) (k mx : nat) (segs : list (bytes * nat)) (s : bytes * nat),
  needs_nl f = false -> ~ In 10%N n -> too_long mx f = false -> length n < mx ->
  In s (adopt (read_scan mx (Some f)) segs) ->
  In s (adopt (read_scan mx (Some (f ++ firstn k (n ++ [10%N])))) segs).
Proof. exact names_adoption_unaffected. Qed.
Print Assumptions C07_names_adoption_of_other_indexes_unaffected.

(* the same for the writer of the tree on ANY file it may find, also one that a crash left without its final newline
   (name_record true f n = the optional "\n", the name, "\n") *)
Theorem C07_names_never_unreadable_any_file : forall (f n : bytes) (k mx : nat),
  ~ In 10%N n -> too_long mx f = false -> length n < mx ->
  exists ns, read_scan mx (Some (f ++ firstn k (name_record true f n))) = Some ns /\
             forall x, In x (names_of f) -> In x ns.
Proof. exact names_never_unreadable_any_file. Qed.
Print Assumptions C07_names_never_unreadable_any_file.

Theorem C07_names_adoption_unaffected_any_file :
  forall (f n : bytes) (k mx : nat) (segs : list (bytes * nat)) (s : bytes * nat),
  ~ In 10%N n -> too_long mx f = false -> length n < mx ->
  In s (adopt (read_scan mx (Some f)) segs) ->
  In s (adopt (read_scan mx (Some (f ++ firstn k (name_record true f n)))) segs).
Proof. exact names_adoption_unaffected_any_file. Qed.
Print Assumptions C07_names_adoption_unaffected_any_file.

(* refuted: a reader that requires the final newline (ReadString('\n') treating a pending fragment at EOF as an error).
   "idxa\n", crash between write("newc") and write("\n"): the segment of idxa, adopted before, is not adopted; nothing
   is; the Scanner adopts it *)
Theorem C07_names_newline_required_reader_refuted :
  exists (f n : bytes) (k : nat) (segs : list (bytes * nat)) (s : bytes * nat),
    needs_nl f = false /\ ~ In 10%N n /\ k = length n /\
    In s (adopt (read_strict (Some f)) segs) /\
    adopt (read_strict (Some (f ++ firstn k (n ++ [10%N])))) segs = [] /\
    In s (adopt (read_scan (256 * 256) (Some (f ++ firstn k (n ++ [10%N])))) segs).
Proof. exact names_newline_required_reader_refuted. Qed.
Print Assumptions C07_names_newline_required_reader_refuted.

(* generations: each process starts on what is on disk (in-memory names = names of the file), registers the indexes it
   gets events for (a name in memory is not appended again) and dies after ANY number of appended bytes *)
Theorem C07_names_listed_name_survives_every_generation :
  forall (gs : list (list bytes * nat)) (file x : bytes),
  (forall g, In g gs -> Forall name_ok (fst g)) ->
  In x (names_of file) -> In x (names_of (names_gens true file gs)).
Proof. exact names_gens_keep. Qed.
Print Assumptions C07_names_listed_name_survives_every_generation.

Theorem C07_names_registered_index_survives_every_generation :
  forall (file : bytes) (regs : list bytes) (k : nat) (gs : list (list bytes * nat)) (x : bytes),
  Forall name_ok regs -> (forall g, In g gs -> Forall name_ok (fst g)) ->
  In x (reg_done true file (names_of file) regs k) ->
  In x (names_of (names_gens true (gen_file true file (regs, k)) gs)).
Proof. exact names_registered_survives. Qed.
Print Assumptions C07_names_registered_index_survives_every_generation.

(* a process that ran to its end lists every index it flushed into, whatever file it found *)
Theorem C07_names_process_lists_every_index : forall (file : bytes) (regs : list bytes) (x : bytes),
  Forall name_ok regs -> In x regs ->
  In x (names_of (file ++ proc_stream true file (names_of file) regs)).
Proof. exact names_repaired_process_lists_every_index. Qed.
Print Assumptions C07_names_process_lists_every_index.

(* the writer before eb50b5f (name and "\n" in two writes, the end of the file never looked at): the same statement
   holds under the exact guard "the file found is empty or ends in a newline" ... *)
Theorem C07_names_unchecked_append_guarded : forall (file : bytes) (regs : list bytes) (x : bytes),
  needs_nl file = false -> Forall name_ok regs -> In x regs ->
  In x (names_of (file ++ proc_stream false file (names_of file) regs)).
Proof. exact names_process_lists_every_index_guarded. Qed.
Print Assumptions C07_names_unchecked_append_guarded.

(* ... and is refuted without it: crash between write("idxb") and write("\n") (a call boundary of that writer); the
   restarted process has idxb in memory, gets the first event of newc, runs to its end: the file reads [idxa; idxbnewc],
   at the next start no unrotated segment of idxb or newc is adopted; the writer of the tree lists and adopts both *)
Theorem C07_names_unchecked_append_glued_refuted :
  exists (file : bytes) (regs : list bytes) (segs : list (bytes * nat)),
    Forall name_ok regs /\
    file = [105;100;120;97;10]%N ++ firstn 4 ([105;100;120;98]%N ++ [10%N]) /\
    names_of (file ++ proc_stream false file (names_of file) regs) = [[105;100;120;97]; [105;100;120;98;110;101;119;99]]%N /\
    adopt (read_scan (256 * 256) (Some (file ++ proc_stream false file (names_of file) regs))) segs = [] /\
    adopt (read_scan (256 * 256) (Some (file ++ proc_stream true file (names_of file) regs))) segs = segs.
Proof. exact names_glued_to_unterminated_line_refuted. Qed.
Print Assumptions C07_names_unchecked_append_glued_refuted.

(* the premises are satisfiable: a name, a terminated file within the token limit *)
Example C07_names_premises_satisfiable :
  name_ok [105;100;120;97]%N /\ needs_nl [105;100;120;97;10]%N = false /\ too_long (256 * 256) [105;100;120;97;10]%N = false.
Proof. split; [split; [simpl; intuition discriminate|reflexivity]|split; vm_compute; reflexivity]. Qed.

(* ---- the writer's call order, from the source: on EVERY path through AppendWipToSegfile and
   checkAndRotateColFiles (skeletons regenerated from /repo on every run by gotrans in calltrace mode, callees
   inlined; every branch possible, every loop any number of times) the block summary and the segment statistics
   are written before the running .sfm, the .sfm before the persistent-query results, the star tree before the
   segmeta.json line, and the segmeta.json line before the writer drops the segment: the order of FlushProto.ops_of
   is the order of the code (rules C07.* of GenOrderCheck.co_rules). ---- *)
From SigP Require GenOrderCheck GenOrderC07.
Theorem C07_code_writes_before_the_metadata_that_names_them : forall r : GenOrderCheck.rule,
  In r GenOrderCheck.c07_rules -> GenOrderCheck.rule_holds r.
Proof. exact GenOrderC07.co_C07_rules_hold. Qed.
Print Assumptions C07_code_writes_before_the_metadata_that_names_them.

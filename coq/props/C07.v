(* C07 — Flushed log data survives a process crash at any instant.
   Statements only; proofs in SigP.FlushProtoProofs.
   A history is any list of flushes (with any number of column-file and .sst writes) and
   rotations; [ops_of h] is the sequence of file-system calls the writer issues (checked
   against strace of the real writer on every run); a crash after k calls leaves the state
   [run fs0 (firstn k (ops_of h))]; [visible] is what the real start-up adopts. *)
From SigM Require Import Base FlushProto.
From SigP Require Import FlushProtoProofs.
Open Scope nat_scope.

(* For EVERY history and EVERY crash point: restart sees exactly the specified set. *)
Theorem C07_crash_visible_exact : forall (h : list hstep) (k : nat),
  visible (run fs0 (firstn k (ops_of h))) (nsegs h) = expect_visible h k.
Proof. exact crash_visible_exact. Qed.
Print Assumptions C07_crash_visible_exact.

(* ... which is: every block of a completed flush, plus at most the one block of the flush in
   progress (a block is all events of one flush: all of them or none), each exactly once. *)
Theorem C07_crash_safe : forall (h : list hstep) (k : nat),
  let vis := visible (run fs0 (firstn k (ops_of h))) (nsegs h) in
  (exists extra, vis = completed_from 0 0 h k ++ extra /\ length extra <= 1) /\ NoDup vis.
Proof. exact crash_safe. Qed.
Print Assumptions C07_crash_safe.

(* The protocol before fix b3aeb7b (.sfm rewritten in place with O_TRUNC) violates the property:
   the completed first flush disappears when the crash hits the second flush's truncation. *)
Theorem C07_inplace_sfm_refuted :
  let h := [Flush 1 1; Flush 1 1] in
  In (0, 0) (visible (run fs0 (firstn 6 (ops_of_inplace h))) (nsegs h)) /\
  ~ In (0, 0) (visible (run fs0 (firstn 11 (ops_of_inplace h))) (nsegs h)).
Proof. exact crash_safe_inplace_refuted. Qed.
Print Assumptions C07_inplace_sfm_refuted.

(* ---- "later ingestion does not overwrite recovered data": the per-stream suffix file.
   FULL STATEMENT: after a crash that follows ANY number k of the system calls of ANY number n of segment
   allocations (suffix handed out, next value persisted through tmp + rename, segment directory created), the
   number the restarted writer reads from the file is above every segment directory that exists — it never
   writes into a recovered segment.  Refuted for an in-place rewrite of the file (the file is empty between
   truncation and write, an empty file reads as 0). ---- *)
From SigM Require Import SuffixProto.
From SigP Require Import SuffixProtoProofs.
Theorem C07_suffix_never_reused_after_crash : forall n k,
  fresh (srun sst0 (firstn k (allocs alloc_ops n))) = true.
Proof. exact suffix_never_reused. Qed.
Print Assumptions C07_suffix_never_reused_after_crash.
Theorem C07_suffix_in_place_refuted :
  fresh (srun sst0 (firstn 4 (allocs alloc_ops_inplace 2))) = false /\
  next_suffix (srun sst0 (firstn 4 (allocs alloc_ops_inplace 2))) = 0 /\
  In 0 (dirs (srun sst0 (firstn 4 (allocs alloc_ops_inplace 2)))).
Proof. exact suffix_in_place_refuted. Qed.
Print Assumptions C07_suffix_in_place_refuted.

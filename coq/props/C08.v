(* C08 — Metric datapoints are stored and returned bit-exactly per series.
   Statements only; proofs in SigP.GorillaProofs / SigP.TsidProofs. *)
From SigM Require Import Base Bits Gorilla Tsid MetricsPlan TagsTreeGc.
From Coq Require Import Permutation.
From SigG Require Import Gen.
From SigP Require Import BaseProofs BitsProofs GorillaProofs TsidProofs MetricsPlanProofs TagsTreeGcProofs GenC08 GenC08bw GenC08all.
Open Scope Z_scope.

(* The series codec (compressor.go -> bytes -> decompressor.go) returns every point with the
   same timestamp and the bit-identical 64-bit value, for every series of any length:
   timestamps are second-resolution epochs in [1, 2^31) in any order (also decreasing),
   values are arbitrary 64-bit patterns (NaN payloads, -0, subnormals, infinities included),
   the header is at most 16382 s before the first point (the code uses header = first timestamp). *)
Theorem C08_gorilla_roundtrip : forall (hdr : N) (pts : list (N * N)),
  (0 < Z.of_N hdr < 2147483648) ->
  Forall (fun p => (0 < Z.of_N (fst p) < 2147483648) /\ (snd p < 18446744073709551616)%N) pts ->
  match pts with [] => True | (t0, _) :: _ => 0 <= Z.of_N t0 - Z.of_N hdr < 16383 end ->
  decode (encode hdr pts) = pts.
Proof. exact gorilla_roundtrip_explicit. Qed.
Print Assumptions C08_gorilla_roundtrip.

(* the same at bit level with arbitrary trailing bits: nothing after the finish marker is read *)
Theorem C08_gorilla_bits_roundtrip : forall hdr pts rest,
  series_ok hdr pts -> decode_bits (encode_bits hdr pts ++ rest) = pts.
Proof. exact gorilla_bits_roundtrip. Qed.
Print Assumptions C08_gorilla_bits_roundtrip.

(* one XOR value step, incl. window reuse and the 5-bit leading-zero field (clamped to 31) *)
Theorem C08_value_step : forall l0 t0 dl dt prev v rest,
  Rv l0 t0 dl dt -> length prev = 64%nat -> length v = 64%nat ->
  exists dl' dt',
    dec_val dl dt prev (fst (fst (enc_val l0 t0 prev v)) ++ rest) = Some (v, dl', dt', rest) /\
    Rv (snd (fst (enc_val l0 t0 prev v))) (snd (enc_val l0 t0 prev v)) dl' dt'.
Proof. exact value_roundtrip. Qed.
Print Assumptions C08_value_step.

(* one timestamp step in full generality: any uint32 timestamp, int32 wrap-around included;
   the only excluded delta-of-delta is 2^32-1, whose 32-bit field is the finish marker *)
Theorem C08_timestamp_step : forall es ds t rest,
  0 <= Z.of_N t < 4294967296 ->
  in_i32 (e_t es) -> in_i32 (e_td es) ->
  d_t ds = wrap32u (e_t es) -> d_delta ds = wrap32u (e_td es) ->
  snd (enc_ts es t) - e_td es <> 4294967295 ->
  dec_ts ds (fst (fst (enc_ts es t)) ++ rest) = DOk (Z.of_N t, wrap32u (snd (enc_ts es t)), rest)
  /\ snd (fst (enc_ts es t)) = wrap32s (Z.of_N t) /\ in_i32 (snd (enc_ts es t)).
Proof. exact ts_roundtrip. Qed.
Print Assumptions C08_timestamp_step.

(* non-vacuity: a concrete series meeting the hypotheses, with a value pair whose XOR has 63 leading zeros *)
Theorem C08_nonvacuous :
  series_ok 1700000000 [(1700000000, 4611686018427387904); (1700000001, 4611686018427387905); (1699999990, 0)]%N
  /\ decode (encode 1700000000 [(1700000000, 4611686018427387904); (1700000001, 4611686018427387905); (1699999990, 0)]%N)
     = [(1700000000, 4611686018427387904); (1700000001, 4611686018427387905); (1699999990, 0)]%N.
Proof. exact gorilla_nonvacuous. Qed.

(* Series identity.  FULL STATEMENT (property text): "series with different names or tag sets
   are never merged", i.e. preimage n1 t1 = preimage n2 t2 -> n1 = n2 /\ t1 = t2 for all tag sets.
   The faithful model violates it (no separator is written after a tag value): refuted below.
   Proved part: series with at most one tag, names and keys without underscore. *)
Theorem C08_tsid_preimage_injective_guarded : forall n1 n2 (t1 t2 : list tagp),
  (length t1 <= 1)%nat -> (length t2 <= 1)%nat ->
  no_us n1 -> no_us n2 -> Forall (fun kv => no_us (fst kv)) t1 -> Forall (fun kv => no_us (fst kv)) t2 ->
  preimage n1 t1 = preimage n2 t2 -> n1 = n2 /\ t1 = t2.
Proof. exact preimage_injective_le1. Qed.
Print Assumptions C08_tsid_preimage_injective_guarded.

Theorem C08_tsid_preimage_collision_refuted :
  exists n (t1 t2 : list tagp),
    t1 <> t2 /\ sort_desc t1 = t1 /\ sort_desc t2 = t2 /\ preimage n t1 = preimage n t2.
Proof. exact preimage_collision_refuted. Qed.
Print Assumptions C08_tsid_preimage_collision_refuted.

(* Any number of tags: two series that carry the same tag KEYS (one metric, one label schema, different
   label values — the usual case) and have equal pre-images have the same name and the same tag set
   (equal canonical sorted tag lists), provided names, keys and values contain no underscore.
   Together with the refutation above this locates the defect exactly: merging needs different key sets
   or an underscore. *)
Theorem C08_tsid_preimage_injective_same_keys_guarded : forall n1 n2 (t1 t2 : list tagp),
  map fst t1 = map fst t2 -> no_us n1 -> no_us n2 -> Forall tag_no_us t1 -> Forall tag_no_us t2 ->
  preimage n1 t1 = preimage n2 t2 -> n1 = n2 /\ sort_desc t1 = sort_desc t2.
Proof. exact preimage_injective_same_keys. Qed.
Print Assumptions C08_tsid_preimage_injective_same_keys_guarded.
Example C08_tsid_same_keys_guard_satisfiable :
  let t1 : list tagp := [([104;111;115;116], [104;49]); ([100;99], [101;117])]%N in
  let t2 : list tagp := [([104;111;115;116], [104;50]); ([100;99], [101;117])]%N in
  map fst t1 = map fst t2 /\ Forall tag_no_us t1 /\ Forall tag_no_us t2 /\ preimage [99%N] t1 <> preimage [99%N] t2.
Proof. exact preimage_same_keys_guard_sat. Qed.

(* ==== a selector query caught by a rotation (model SigM.MetricsPlan: one metrics shard; a datapoint is an id) ====
   The search requests of a query are built on one state of the shard (plan: flushed blocks of the open segment,
   the number of the in-memory block, the closed segments) and executed on a later one (exec false: the fix-up of
   SearchUnrotatedMetricsBlock first, then the block numbers go to the workers - RawSearchMetricsSegment's order).
   Property text, "before and after block and segment rotation": for all operations `before` and `between` (ingest,
   block rotation, size-based segment rotation, forced flush), every datapoint the shard held when the requests were
   built is returned.  Proved at full strength for the code (fix 5fd2cca: the fix-up compares the segment as well as
   the block number). *)
Theorem C08_query_racing_any_rotation_returns_every_datapoint : forall (before between : list op) (x : N),
  In x (all_ids (run before init)) ->
  In x (exec false (plan (run before init)) (run between (run before init))).
Proof. exact race_complete_histories. Qed.
Print Assumptions C08_query_racing_any_rotation_returns_every_datapoint.

Example C08_query_racing_segment_rotation_first_block_example :
  let before := [Ingest [1; 2]]%N in
  let between := [RotSeg; Ingest [3]; RotBlock; Ingest [4]]%N in
  exec false (plan (run before init)) (run [RotSeg; Ingest [3]]%N (run before init)) = [3; 1; 2]%N /\
  exec false (plan (run before init)) (run between (run before init)) = [4; 1; 2]%N.
Proof. exact race_segment_rotation_first_block_example. Qed.

(* Before fix 5fd2cca the fix-up compared block NUMBERS only (exec_prefix).  That comparison returns every datapoint
   exactly under race_guard (same segment, or another block number, or nothing planned in memory) and loses the
   planned block otherwise: a segment rotation brings the shard back to block number 0. *)
Theorem C08_prefix_query_racing_block_number_only_guarded : forall (before between : list op),
  race_guard (run before init) (run between (run before init)) = true ->
  forall x : N, In x (all_ids (run before init)) ->
  In x (exec_prefix (plan (run before init)) (run between (run before init))).
Proof. exact race_complete_prefix_guarded. Qed.
Print Assumptions C08_prefix_query_racing_block_number_only_guarded.

Theorem C08_prefix_query_racing_block_number_only_refuted : exists (before between : list op) (x : N),
  In x (all_ids (run before init)) /\
  race_guard (run before init) (run between (run before init)) = false /\
  existsb (N.eqb x) (exec_prefix (plan (run before init)) (run between (run before init))) = false /\
  existsb (N.eqb x) (exec false (plan (run before init)) (run between (run before init))) = true.
Proof. exact prefix_segment_race_refuted. Qed.
Print Assumptions C08_prefix_query_racing_block_number_only_refuted.

Example C08_prefix_query_racing_guard_satisfiable_across_segment_rotation :
  let before := [Ingest [1]; RotBlock; Ingest [2]]%N in
  let between := [RotSeg; Ingest [3]]%N in
  race_guard (run before init) (run between (run before init)) = true /\
  no_seg_rotation between = false /\
  exec_prefix (plan (run before init)) (run between (run before init)) = [3; 1; 2]%N.
Proof. exact race_guard_segment_rotation_example. Qed.

(* the order matters: with the block numbers handed to the workers BEFORE the fix-up (exec true), one datapoint,
   requests built, one block rotation, execution - the datapoint is not returned (the code's order returns it) *)
Theorem C08_query_racing_late_fixup_refuted : exists (before between : list op) (x : N),
  no_seg_rotation between = true /\
  In x (all_ids (run before init)) /\
  existsb (N.eqb x) (exec true (plan (run before init)) (run between (run before init))) = false /\
  existsb (N.eqb x) (exec false (plan (run before init)) (run between (run before init))) = true.
Proof. exact late_fixup_refuted. Qed.
Print Assumptions C08_query_racing_late_fixup_refuted.

(* nothing is returned that the shard does not hold (any requests, either order), and a shard holds only what
   was ingested: a raced query returns accepted datapoints only *)
Theorem C08_query_racing_returns_only_held_datapoints : forall (late : bool) (pl : list req) (t : st) (x : N),
  In x (exec late pl t) -> In x (all_ids t).
Proof. exact race_sound. Qed.
Print Assumptions C08_query_racing_returns_only_held_datapoints.

Theorem C08_shard_holds_only_ingested_datapoints : forall (ops : list op) (x : N),
  In x (all_ids (run ops init)) -> In x (ingested ops).
Proof. exact held_was_ingested. Qed.
Print Assumptions C08_shard_holds_only_ingested_datapoints.

(* ==== the Go compressor itself, REGENERATED from compressor.go on every run by gotrans (coq/gen/Gen.v) ====
   gen_Compress / gen_finish thread the Compressor's integer fields as a tuple and return the calls made on
   the bit writer as events; ev_bits reads an event as bits (writeBit b = [b]; writeBits(u, n) = the n low
   bits of u, most significant first; flush = byte padding, done by pack). *)

(* the hand-written counting loops of compressor.go are the leading / trailing zero counts of the 64-bit word *)
Theorem C08_code_leardingZeros_is_model : forall x : N, (x < 2 ^ 64)%N ->
  gen_leardingZeros (Z.of_N x) = Z.of_nat (lz (N2bits 64 x)).
Proof. exact gen_leardingZeros_is_lz. Qed.
Print Assumptions C08_code_leardingZeros_is_model.

Theorem C08_code_trailingZeros_is_model : forall x : N, (x < 2 ^ 64)%N ->
  gen_trailingZeros (Z.of_N x) = Z.of_nat (tz (N2bits 64 x)).
Proof. exact gen_trailingZeros_is_tz. Qed.
Print Assumptions C08_code_trailingZeros_is_model.

(* one call of Compress from ANY encoder state: same bits as the model, same fields afterwards *)
Theorem C08_code_Compress_is_model : forall (s : est) (t v : N),
  est_ok s -> (t < 2 ^ 32)%N -> (v < 2 ^ 64)%N ->
  let '(_, st', evs) := gen_Compress (abs_est s) (Z.of_N t) (Z.of_N v) in
  let '(bits, s') := compress s t v in
  evs_bits evs = bits /\ st' = abs_est s' /\ est_ok s'.
Proof. exact gen_Compress_is_model. Qed.
Print Assumptions C08_code_Compress_is_model.

Theorem C08_code_finish_is_model : forall s : est,
  let '(_, st', evs) := gen_finish (abs_est s) in
  evs_bits evs = finish s /\ st' = abs_est s.
Proof. exact gen_finish_is_model. Qed.
Print Assumptions C08_code_finish_is_model.

(* every series: header, all points through the regenerated Compress, the regenerated finish *)
Theorem C08_code_encoder_is_model : forall (hdr : N) (pts : list (N * N)),
  (hdr < 2 ^ 32)%N -> Forall (fun p => (fst p < 2 ^ 32)%N /\ (snd p < 2 ^ 64)%N) pts ->
  gen_encode_bits hdr pts = encode_bits hdr pts.
Proof. exact gen_encode_bits_is_model. Qed.
Print Assumptions C08_code_encoder_is_model.

(* hence the round trip holds for the bytes of the regenerated compressor *)
Theorem C08_code_encoder_roundtrip : forall (hdr : N) (pts : list (N * N)),
  series_ok hdr pts -> (hdr < 2 ^ 32)%N -> Forall (fun p => (fst p < 2 ^ 32)%N /\ (snd p < 2 ^ 64)%N) pts ->
  decode (pack (gen_encode_bits hdr pts)) = pts.
Proof. exact gen_encoder_roundtrip. Qed.
Print Assumptions C08_code_encoder_roundtrip.

(* ==== the bit writer, REGENERATED from bit_writer.go (writeBit, writeByte, writeBits, flush; state = partial byte and
   free-bit count; every byte handed to the io.Writer is an event) ====
   Every sequence of writeBit / writeBits calls (fields of 0..64 bits) from the empty writer, followed by flush(zero),
   hands the io.Writer exactly the bytes `pack` gives for the bits: the reading of the calls as bits used above
   (ev_bits) is what the code does. *)
Theorem C08_code_bitwriter_is_pack : forall evs : list (Z * list Z),
  Forall ev_wf evs ->
  out_bytes (snd (bw_run (0, 8) (evs ++ [(2, [0])]))) = pack (evs_bits evs).
Proof. exact gen_bitwriter_is_pack. Qed.
Print Assumptions C08_code_bitwriter_is_pack.

(* ==== from the Go source to the stored bytes ====
   gen_series_bytes hdr pts: the calls the regenerated compressor makes for the series (header, every point through
   gen_Compress, gen_finish) are executed by the regenerated bit writer; the result is the byte string handed to the io.Writer. *)
Theorem C08_code_series_bytes_is_encode : forall (hdr : N) (pts : list (N * N)),
  (hdr < 2 ^ 32)%N -> Forall (fun p => (fst p < 2 ^ 32)%N /\ (snd p < 2 ^ 64)%N) pts ->
  gen_series_bytes hdr pts = encode hdr pts.
Proof. exact gen_series_bytes_is_encode. Qed.
Print Assumptions C08_code_series_bytes_is_encode.

(* the bytes written by the code as it is now decode to the series that went in, for every series *)
Theorem C08_code_series_bytes_roundtrip : forall (hdr : N) (pts : list (N * N)),
  series_ok hdr pts -> (hdr < 2 ^ 32)%N -> Forall (fun p => (fst p < 2 ^ 32)%N /\ (snd p < 2 ^ 64)%N) pts ->
  decode (gen_series_bytes hdr pts) = pts.
Proof. exact gen_series_bytes_roundtrip. Qed.
Print Assumptions C08_code_series_bytes_roundtrip.

(* every call the compressor makes on the bit writer is well-formed (a bit, or a field of 0..64 bits of a uint64) *)
Theorem C08_code_compressor_calls_wellformed : forall (s : est) (t v : N),
  est_ok s -> (t < 2 ^ 32)%N -> (v < 2 ^ 64)%N ->
  let '(_, _, evs) := gen_Compress (abs_est s) (Z.of_N t) (Z.of_N v) in Forall ev_wf evs.
Proof. exact gen_Compress_events_wf. Qed.
Print Assumptions C08_code_compressor_calls_wellformed.

(* ==== datapoints of a segment that survives a retention pass (seed C08j) ====
   metricmeta.json lists the closed metrics segments in rotation order; an entry (segment, tags-tree directory) names the
   directory its series are looked up in, and segments of a shard rotated within one life of a tags tree holder share it.
   removeMetricsSegmentsByList (retention -> meta.RemoveMetricsSegments) removes the segments of a set rm and the
   tags-tree directories no preserved entry uses. Model: TagsTreeGc.gc_code (the scan with its two accumulators, then the
   pass over the preserved entries), tied to the code by one case per real retention pass (entries before, removal set,
   entries after, directories gone). A selector query on a closed segment after a restart needs the entry and the
   directory (gc_searchable). *)

(* the directories deleted = directories of removed entries minus directories of preserved entries: a function of the
   SET of listed entries *)
Theorem C08_retention_tags_tree_delete_set : forall (rm : list N) (es : list gc_entry) (d : N),
  In d (snd (gc_code rm es)) <->
  (exists e, In e es /\ gc_mem (fst e) rm = true /\ snd e = d) /\
  (forall e, In e es -> gc_mem (fst e) rm = false -> snd e <> d).
Proof. exact gc_code_delete_set. Qed.
Print Assumptions C08_retention_tags_tree_delete_set.

(* hence the same for every listing order (back-filled old data rotated after recent data, or before) *)
Theorem C08_retention_tags_tree_delete_set_order_independent : forall (rm : list N) (es es' : list gc_entry) (d : N),
  Permutation es es' -> (In d (snd (gc_code rm es)) <-> In d (snd (gc_code rm es'))).
Proof. exact gc_code_order_independent. Qed.
Print Assumptions C08_retention_tags_tree_delete_set_order_independent.

(* the file afterwards: exactly the entries outside rm, in their order *)
Theorem C08_retention_keeps_entries_in_file_order : forall (rm : list N) (es : list gc_entry),
  fst (gc_code rm es) = filter (fun e => negb (gc_mem (fst e) rm)) es.
Proof. exact gc_code_preserved. Qed.
Print Assumptions C08_retention_keeps_entries_in_file_order.

(* full strength: for every store in which each listed segment has its tags-tree directory, ANY sequence of retention
   passes with ANY removal sets and any listing order: a segment no pass removes is still listed and its tags tree is
   still there - its datapoints can be found by a selector query after a restart *)
Theorem C08_retention_survivor_stays_searchable : forall (rms : list (list N)) (s : gc_store) (e : gc_entry),
  (forall e', In e' (fst s) -> In (snd e') (snd s)) ->
  In e (fst s) -> (forall rm, In rm rms -> gc_mem (fst e) rm = false) ->
  gc_searchable (fold_left gc_retain rms s) e.
Proof. exact gc_survivor_searchable. Qed.
Print Assumptions C08_retention_survivor_stays_searchable.

(* a tags-tree directory goes only together with a removed segment that used it *)
Theorem C08_retention_dir_removed_only_with_a_segment : forall (s : gc_store) (rm : list N) (d : N),
  In d (snd s) -> ~ In d (snd (gc_retain s rm)) ->
  exists e, In e (fst s) /\ gc_mem (fst e) rm = true /\ snd e = d.
Proof. exact gc_dir_removed_only_with_a_segment. Qed.
Print Assumptions C08_retention_dir_removed_only_with_a_segment.

(* the "single pass" variant (a preserved entry takes its directory out of the delete set when it is read): a preserved
   entry listed BEFORE a removed entry of the same directory loses its tags tree; the code keeps it.
   Witness: entries [(seg 0, dir 0); (seg 1, dir 0)], remove segment 1. *)
Theorem C08_retention_single_pass_refuted : exists (s : gc_store) (rm : list N) (e : gc_entry),
  (forall e', In e' (fst s) -> In (snd e') (snd s)) /\ In e (fst s) /\ gc_mem (fst e) rm = false /\
  gc_searchable (gc_retain s rm) e /\ ~ gc_searchable (gc_retain_with gc_single s rm) e.
Proof. exact gc_single_pass_refuted. Qed.
Print Assumptions C08_retention_single_pass_refuted.

(* C09 — PromQL-consistent answers: selectors, aggregations (sum/min/max/avg/count, by/without),
   vector arithmetic, independence of the physical layout of the datapoints.
   Statements only; proofs in SigP.PromqlProofs.  The model (SigM.Promql) follows the Go code:
   tag filters and their reordering, the TSID tracker that builds the id STRINGS "name{k:v,k:v,",
   down-sampling, the two-level reduction, and the group-id functions that search / split those strings.
   [rmatch] is the regular-expression engine (Go regexp), an arbitrary function. *)
From SigM Require Import Base Promql PromqlFormula PromqlCheck.
From SigP Require Import BaseProofs PromqlProofs PromqlNestProofs PromqlFormulaProofs.
From Coq Require Import QArith Permutation.
Open Scope N_scope.

(* ---------- selectors ----------
   FULL STATEMENT (property text): a selector returns exactly the series whose labels satisfy all
   matchers, an absent label counting as "":
     forall name ms db i s, nth_error db i = Some s ->
       (tr_mem i (tracked rmatch (QSel name ms) db) = true <-> spec_selected rmatch name ms s = true).
   The faithful model violates it (C09_select_absent_label_refuted).  Proved under the exact boolean
   guard [select_guard]: every series of the metric carries every matched label (and at least one label,
   no empty value), one matcher per label, no matcher value is the literal "*". *)
Theorem C09_select_exact_guarded : forall (rmatch : str -> str -> bool) name ms db,
  select_guard name ms db = true ->
  forall i s, nth_error db i = Some s ->
    (tr_mem i (tracked rmatch (QSel name ms) db) = true <-> spec_selected rmatch name ms s = true).
Proof. exact select_exact_guarded. Qed.
Print Assumptions C09_select_exact_guarded.

(* series m{a="1"}: selected by m{b!="2"}, m{b=""}, m{b=~".*"} in PromQL, never returned by the engine *)
Theorem C09_select_absent_label_refuted : forall rmatch : str -> str -> bool,
  rmatch [46; 42] [] = true ->
  exists db s, nth_error db 0 = Some s /\
    Forall (fun m => spec_selected rmatch w_m [m] s = true /\ tr_mem 0 (tracked rmatch (QSel w_m [m]) db) = false)
           [mk w_b MNe [50]; mk w_b MEq []; mk w_b MRe [46; 42]].
Proof. exact select_absent_label_refuted. Qed.
Print Assumptions C09_select_absent_label_refuted.

Example C09_select_guard_nonvacuous :
  select_guard w_m [mk w_a MNe [50]; mk w_b MRe [120; 46; 42]]
    [ {| s_name := w_m; s_labels := [(w_a, [49]); (w_b, [120; 121])]; s_chunks := [] |};
      {| s_name := w_n; s_labels := [(w_a, [49])]; s_chunks := [] |} ] = true.
Proof. exact select_guard_nonvacuous. Qed.

(* FULL STATEMENT for aggregations with a without-clause (fixed code, fixes/C09-without-all-labels):
   fn without (l) (name{ms}) selects exactly the series that satisfy the matchers — also the series
   whose labels are ALL named in l.  [without_guard]: distinct labels in l, none of them matched. *)
Theorem C09_select_without_exact_guarded : forall (rmatch : str -> str -> bool) fn l name ms db,
  l <> [] -> without_guard l ms = true -> select_guard name ms db = true ->
  forall i s, nth_error db i = Some s ->
    (tr_mem i (tracked rmatch (QAgg fn (GWithout l) name ms) db) = true <-> spec_selected rmatch name ms s = true).
Proof. exact select_without_exact_guarded. Qed.
Print Assumptions C09_select_without_exact_guarded.

Example C09_without_guard_nonvacuous : without_guard [w_a] [mk w_b MNe [50]] = true.
Proof. exact without_guard_nonvacuous. Qed.

(* PRE-FIX documentation (about [tracked_prefix]: the key=* filters of the without-clause were dropped
   before the search; no longer the code): series m{a="1"} was not found by sum without (a) (m) — confirmed
   on the pre-fix code; the harness keeps the generator stream, a regression is class agg_without_all_labels.
   The fixed model returns the one group m{ . *)
Theorem C09_prefix_without_all_labels_refuted :
  let rm := fun _ _ : str => false in
  spec_selected rm w_m [] {| s_name := w_m; s_labels := [(w_a, [49])]; s_chunks := [[(10, 60)]%Z] |} = true /\
  tracked_prefix rm (QAgg ASum (GWithout [w_a]) w_m []) w_db1 = [] /\
  run_query rm (QAgg ASum (GWithout [w_a]) w_m []) w_db1 = [([109; 123], [(10%Z, 60%Q)])].
Proof. exact prefix_without_all_labels_refuted. Qed.
Print Assumptions C09_prefix_without_all_labels_refuted.

(* ---------- aggregation: per output group and timestamp, the fold of the member series' samples ----------
   for ANY set of selected series (tracker), any grouping clause; the engine reduces per series first
   (down-sampling bucket) and then across the series of the group *)
Theorem C09_agg_is_group_fold : forall name fn fields without db tr gid t,
  fn <> ACount ->
  agg_at name fn fields without db tr gid t =
  match member_vals (members fields without db tr gid) t with
  | [] => None
  | vs => Some (spec_agg fn vs)
  end.
Proof. exact agg_is_group_fold. Qed.
Print Assumptions C09_agg_is_group_fold.

Theorem C09_agg_count_is_members : forall name fields without db tr gid t,
  fields <> [] ->
  agg_at name ACount fields without db tr gid t =
  match with_sample (members fields without db tr gid) t with
  | [] => None
  | l => Some (inject_Z (Z.of_nat (length l)))
  end.
Proof. exact agg_count_is_members. Qed.
Print Assumptions C09_agg_count_is_members.

(* avg = sum / count (count = member series with a sample at t); data hypothesis: a series has at most
   one sample per second *)
Theorem C09_avg_eq_sum_div_count : forall name fields without db tr gid t a,
  forallb (fun pts => Nat.leb (length (vals_at t pts)) 1) (members fields without db tr gid) = true ->
  agg_at name AAvg fields without db tr gid t = Some a ->
  exists s c, agg_at name ASum fields without db tr gid t = Some s /\
              c = inject_Z (Z.of_nat (length (with_sample (members fields without db tr gid) t))) /\
              (fields <> [] -> agg_at name ACount fields without db tr gid t = Some c) /\
              (~ c == 0)%Q /\ (a == s / c)%Q.
Proof. exact avg_eq_sum_div_count. Qed.
Print Assumptions C09_avg_eq_sum_div_count.

Theorem C09_min_le_avg_le_max : forall name fields without db tr gid t mn av mx,
  agg_at name AMin fields without db tr gid t = Some mn ->
  agg_at name AAvg fields without db tr gid t = Some av ->
  agg_at name AMax fields without db tr gid t = Some mx ->
  (mn <= av)%Q /\ (av <= mx)%Q.
Proof. exact min_le_avg_le_max. Qed.
Print Assumptions C09_min_le_avg_le_max.

(* the same for whole queries: the five functions with one selector and one grouping clause select the
   same series with the same id strings *)
Theorem C09_min_le_avg_le_max_query : forall (rmatch : str -> str -> bool) g n ms db gid t mn av mx,
  result_at rmatch (QAgg AMin g n ms) db gid t = Some mn ->
  result_at rmatch (QAgg AAvg g n ms) db gid t = Some av ->
  result_at rmatch (QAgg AMax g n ms) db gid t = Some mx ->
  (mn <= av)%Q /\ (av <= mx)%Q.
Proof. exact min_le_avg_le_max_query. Qed.
Print Assumptions C09_min_le_avg_le_max_query.

Theorem C09_avg_eq_sum_div_count_query : forall (rmatch : str -> str -> bool) g n ms db gid t a,
  group_list g <> [] ->
  is_without g = true \/ fst (flags (QAgg ASum g n ms)) = false ->
  forallb (fun pts => Nat.leb (length (vals_at t pts)) 1)
          (members (group_list g) (is_without g) db (tracked rmatch (QAgg AAvg g n ms) db) gid) = true ->
  result_at rmatch (QAgg AAvg g n ms) db gid t = Some a ->
  exists s c, result_at rmatch (QAgg ASum g n ms) db gid t = Some s /\
              result_at rmatch (QAgg ACount g n ms) db gid t = Some c /\
              (~ c == 0)%Q /\ (a == s / c)%Q.
Proof. exact avg_eq_sum_div_count_query. Qed.
Print Assumptions C09_avg_eq_sum_div_count_query.

(* ---------- group ids: string search and string splitting on "name{k:v,k:v," ----------
   FULL STATEMENT: extract_field (render_id name ls) f = lookup f ls  (the group key of label f is the
   value of label f).  Refuted: strings.Index(id, f+":") also matches inside a longer key.  Proved under
   the exact guard [extract_guard]: names, keys, values free of ':' ',' '{', f non-empty, and no OTHER key
   of the id ends with f. *)
Theorem C09_group_key_extraction_guarded : forall name ls f,
  extract_guard name ls f = true -> extract_field (render_id name ls) f = lookup f ls.
Proof. exact group_key_extraction_guarded. Qed.
Print Assumptions C09_group_key_extraction_guarded.

(* id m{ab:x,b:p, : the group key of b is reported as x (the value of ab) *)
Theorem C09_group_key_extraction_refuted :
  exists name ls f, labels_clean ls = true /\ clean name = true /\ clean f = true /\
    lookup f ls = Some [112] /\ extract_field (render_id name ls) f = Some [120].
Proof. exact group_key_extraction_refuted. Qed.
Print Assumptions C09_group_key_extraction_refuted.

Example C09_extract_guard_nonvacuous :
  extract_guard w_m [([97;98],[120]); (w_b,[112])] [97;98] = true /\
  extract_guard w_m [([97;98],[120]); (w_b,[112])] w_b = false.
Proof. exact extract_guard_nonvacuous. Qed.

(* grouping by all labels is the identity on the label list (guarded) ... *)
Theorem C09_by_all_labels_identity : forall name ls,
  ls <> [] -> NoDup (map fst ls) ->
  forallb (extract_guard name ls) (map fst ls) = true ->
  agg_series_id (render_id name ls) (map fst ls) false =
  name ++ c_lbrace :: join c_comma (map pair_str ls).
Proof. exact by_all_labels_identity. Qed.
Print Assumptions C09_by_all_labels_identity.

(* ... and is not the identity for labels a, ab, b, ba (confirmed: sum by (a,ab,b,ba) (m) reports b = value of ab) *)
Theorem C09_by_all_labels_identity_refuted :
  exists name ls, ls <> [] /\ NoDup (map fst ls) /\ clean name = true /\ labels_clean ls = true /\
    agg_series_id (render_id name ls) (map fst ls) false <> name ++ c_lbrace :: join c_comma (map pair_str ls).
Proof. exact by_all_labels_identity_refuted. Qed.
Print Assumptions C09_by_all_labels_identity_refuted.

(* without L keeps exactly the labels not in L, in id order *)
Theorem C09_without_fields_spec : forall name ls fields,
  clean name = true -> labels_clean ls = true ->
  without_fields (render_id name ls) fields =
  render_id name (filter (fun p => negb (mem_str (fst p) fields)) ls).
Proof. exact without_fields_spec. Qed.
Print Assumptions C09_without_fields_spec.

(* by L = without (all keys \ L): both group ids carry the same label set *)
Theorem C09_by_without_dual : forall name ls fields,
  NoDup (map fst ls) -> fields <> [] ->
  forallb (extract_guard name ls) fields = true ->
  let rest := filter (fun k => negb (mem_str k fields)) (map fst ls) in
  exists l1 l2,
    agg_series_id (render_id name ls) fields false = name ++ c_lbrace :: join c_comma (map pair_str l1) /\
    agg_series_id (render_id name ls) rest true = render_id name l2 /\
    forall k v, In (k, v) l1 <-> In (k, v) l2.
Proof. exact by_without_dual. Qed.
Print Assumptions C09_by_without_dual.

(* ---------- any split of the datapoints over blocks and segments, read back in any order ---------- *)
Theorem C09_split_invariant : forall (rmatch : str -> str -> bool) q db1 db2 gid t,
  Forall2 same_series db1 db2 ->
  result_at rmatch q db1 gid t = result_at rmatch q db2 gid t.
Proof. exact split_invariant. Qed.
Print Assumptions C09_split_invariant.

(* ---------- the time range of a query ----------
   The engine decodes every datapoint of a selected series in every block that overlaps the range, in
   ARRIVAL order (the writer accepts out-of-order timestamps), and skips the datapoints outside
   [lo, hi] one by one (CheckInRange, both ends inclusive).
   FULL STATEMENT: the answer over [lo, hi] is the answer over all data restricted to lo <= t <= hi —
   for every query, output group and timestamp; no assumption on the order of the datapoints. *)
Theorem C09_range_is_restriction : forall (rmatch : str -> str -> bool) lo hi q db gid t,
  result_at_range rmatch lo hi q db gid t =
  if in_range lo hi t then result_at rmatch q db gid t else None.
Proof. exact range_is_restriction. Qed.
Print Assumptions C09_range_is_restriction.

(* ... hence the same for open and rotated data, for any cut of the series into blocks and segments and
   any arrival order inside a block (datapoints of the two stores are permutations of each other) *)
Theorem C09_range_split_invariant : forall (rmatch : str -> str -> bool) lo hi q db1 db2 gid t,
  Forall2 same_series db1 db2 ->
  result_at_range rmatch lo hi q db1 gid t = result_at_range rmatch lo hi q db2 gid t.
Proof. exact range_split_invariant. Qed.
Print Assumptions C09_range_split_invariant.

(* every sample of the reported answer lies inside the range and is the sample of the unclipped answer *)
Theorem C09_range_samples_inside : forall (rmatch : str -> str -> bool) lo hi q db e t v,
  In e (run_query_range rmatch lo hi q db) -> In (t, v) (snd e) ->
  (lo <= t <= hi)%Z /\ result_at rmatch q db (fst e) t = Some v.
Proof. exact range_samples_inside. Qed.
Print Assumptions C09_range_samples_inside.

(* skipping a block / segment whose summary [LowTs, HighTs] fails CheckRangeOverLap loses nothing:
   for any bounds of the block's timestamps, reading with the check = clipping every datapoint *)
Theorem C09_range_block_pruning_sound : forall (lo hi : Z) (bounds : Z * Z) (pts : list pt),
  (forall p, In p pts -> (fst bounds <= fst p <= snd bounds)%Z) ->
  read_block lo hi bounds pts = clip_pts lo hi pts.
Proof. exact block_pruning_sound. Qed.
Print Assumptions C09_range_block_pruning_sound.

Example C09_range_overlap_nonvacuous :
  (range_overlap 10 20 5 30 = true /\ range_overlap 10 20 20 40 = true /\ range_overlap 10 20 21 40 = false)%Z.
Proof. exact range_overlap_examples. Qed.

(* ---------- arithmetic between vectors (fixed code, fixes/C09-arith-missing-sample) ---------- *)
Theorem C09_vector_arith_matches_labels : forall (rmatch : str -> str -> bool) op q1 q2 db e,
  In e (run_arith rmatch op q1 q2 db) ->
  exists e1 e2, In e1 (run_query rmatch q1 db) /\ In e2 (run_query rmatch q2 db) /\
    fst e = fst e1 /\
    fst e2 = q_name q2 ++ skipn (length (q_name q1)) (fst e1) /\
    forall t, In t (map fst (snd e)) <-> In t (map fst (snd e1)) /\ In t (map fst (snd e2)).
Proof. exact vector_arith_matches_labels. Qed.
Print Assumptions C09_vector_arith_matches_labels.

(* FULL STATEMENT: every output sample is  left op right  of two samples at the same timestamp *)
Theorem C09_vector_arith_value : forall (rmatch : str -> str -> bool) op q1 q2 db e t v,
  In e (run_arith rmatch op q1 q2 db) -> In (t, v) (snd e) ->
  exists e1 e2 x y, In e1 (run_query rmatch q1 db) /\ In e2 (run_query rmatch q2 db) /\ fst e = fst e1 /\
    fst e2 = q_name q2 ++ skipn (length (q_name q1)) (fst e1) /\
    In (t, x) (snd e1) /\ In (t, y) (snd e2) /\ v = bin_apply op x y.
Proof. exact vector_arith_value. Qed.
Print Assumptions C09_vector_arith_value.

(* the pairing is by id STRING: equal label sets listed in a different order are not paired (still the code) *)
Theorem C09_arith_label_order_refuted :
  let rm := fun _ _ : str => false in
  map fst (run_query rm (QSel w_m [mk w_b MNe [122; 122]]) w_db2) = [[109; 123; 98; 58; 112; 44; 97; 58; 49; 44]] /\
  map fst (run_query rm (QSel w_n []) w_db2) = [[110; 123; 97; 58; 49; 44; 98; 58; 112; 44]] /\
  run_arith rm BAdd (QSel w_m [mk w_b MNe [122; 122]]) (QSel w_n []) w_db2 = [].
Proof. exact arith_label_order_refuted. Qed.
Print Assumptions C09_arith_label_order_refuted.

(* PRE-FIX documentation (about [run_arith_prefix]: the right-hand value was read from a Go map without
   the presence check; no longer the code): m at t=10,20, n at t=10 — m * n had a sample (0) at t=20.
   Confirmed on the pre-fix code; the harness keeps the generator stream, a regression is class
   arith_missing_sample_as_zero. *)
Theorem C09_prefix_arith_missing_sample_refuted :
  let rm := fun _ _ : str => false in
  map (fun e => map fst (snd e)) (run_query rm (QSel w_n []) w_db2) = [[10%Z]] /\
  map (fun e => map fst (snd e)) (run_arith_prefix rm BMul (QSel w_m []) (QSel w_n []) w_db2) = [[10%Z; 20%Z]].
Proof. exact prefix_arith_missing_sample_refuted. Qed.
Print Assumptions C09_prefix_arith_missing_sample_refuted.

(* regression witness of the repaired defect: the fixed model has a sample at t=10 only *)
Example C09_fixed_arith_no_sample_without_right :
  map (fun e => map fst (snd e)) (run_arith (fun _ _ => false) BMul (QSel w_m []) (QSel w_n []) w_db2) = [[10%Z]].
Proof. exact fixed_arith_no_sample_without_right. Qed.

(* ---------- nested aggregations  fn2 g2 (fn1 g1 (name{ms}))  ----------
   The parser walks the expression outer aggregation first; every AggregateExpr updates the one shared
   MetricsQuery (flags, key=* filters, head of the aggregation chain).  [agg_step] / [vs_step] are
   handleAggregateExpr / handleVectorSelector as a state machine; for one layer they are the definitions
   [flags] / [query_filters] all the theorems above are about. *)
Theorem C09_parser_steps_one_layer : forall q,
  flags q = vs_step (one_layer_state q) /\ query_filters q = map fst (p_tfs (one_layer_state q)).
Proof. intros q. split; [apply flags_are_steps | apply filters_are_steps]. Qed.
Print Assumptions C09_parser_steps_one_layer.

(* one layer = the generic tag search + first aggregation layer the nested model is built from *)
Theorem C09_one_layer_is_layer1 : forall (rmatch : str -> str -> bool) q db,
  tracked rmatch q db = tracked_with rmatch (fst (flags q)) (snd (flags q)) (query_filters q) (q_name q) db /\
  run_query rmatch q db =
  layer1 (q_name q) (fst (fst (first_agg q))) (snd (fst (first_agg q))) (snd (first_agg q)) db (tracked rmatch q db).
Proof. intros rmatch q db. split; [apply tracked_is_tracked_with | apply run_query_is_layer1]. Qed.
Print Assumptions C09_one_layer_is_layer1.

(* ReorderTagFilters for ANY filter list, duplicates included (two grouping clauses naming one label give two
   key=* filters): after the stable sort by key the value filters are the first value filter of every key,
   the key=* filters the first key=* filter of every key without a value filter. *)
Theorem C09_reorder_spec : forall tfs,
  reorder tfs =
  (dedup_key (filter nonstar (sort_by_key tfs)),
   filter (not_in (dedup_key (filter nonstar (sort_by_key tfs)))) (dedup_key (filter f_is_star (sort_by_key tfs)))).
Proof. exact reorder_spec. Qed.
Print Assumptions C09_reorder_spec.

(* "numValueFilters > 0" (the flag that stops BulkAddStar from adding series) holds exactly when some filter of
   the query is not a key=* filter: dropped duplicates do not count *)
Theorem C09_reorder_no_value_filter_iff : forall tfs,
  fst (reorder tfs) = [] <-> forallb f_is_star tfs = true.
Proof. exact reorder_no_value_filter_iff. Qed.
Print Assumptions C09_reorder_no_value_filter_iff.

(* FULL STATEMENT (property text, selector part) for a nested aggregation: it reads exactly the series that
   satisfy all matchers.  Guard [nest_guard] = the selector's guard + every series of the metric carries the
   labels named in the two grouping clauses (absent labels: known class agg_by_absent_label) + not the
   "fn (fn (m))" mode whose ids carry no labels.  NOT assumed: that the two clauses name different labels, or
   labels different from the matched ones — repeated labels are the point. *)
Theorem C09_nest_select_exact_guarded : forall (rmatch : str -> str -> bool) q db,
  nest_guard q db = true ->
  forall i s, nth_error db i = Some s ->
    (tr_mem i (tracked_nest rmatch q db) = true <-> spec_selected rmatch (n_name q) (n_ms q) s = true).
Proof. exact nest_select_exact_guarded. Qed.
Print Assumptions C09_nest_select_exact_guarded.

Theorem C09_nest_reads_the_selector : forall (rmatch : str -> str -> bool) q db,
  nest_guard q db = true ->
  forall i s, nth_error db i = Some s ->
    tr_mem i (tracked_nest rmatch q db) = tr_mem i (tracked rmatch (QSel (n_name q) (n_ms q)) db).
Proof. exact nest_reads_the_selector. Qed.
Print Assumptions C09_nest_reads_the_selector.

Example C09_nest_guard_nonvacuous : nest_guard w_nq w_db3 = true.
Proof. exact nest_guard_nonvacuous. Qed.

(* sum by (a) (max by (a, b) (m)): filters a=*, a=*, b=* ; kept a=*, b=* ; no value filter; PromQL answer *)
Example C09_nest_repeated_label_witness :
  let rm := fun _ _ : str => false in
  map f_key (nest_filters w_nq) = [w_a; w_a; w_b] /\
  fst (reorder (nest_filters w_nq)) = [] /\
  map f_key (snd (reorder (nest_filters w_nq))) = [w_a; w_b] /\
  run_nest rm w_nq w_db3 = [([109; 123; 97; 58; 120], [(10%Z, 180%Q)]); ([109; 123; 97; 58; 121], [(10%Z, 180%Q)])].
Proof. exact nest_repeated_label_witness. Qed.

(* nesting = the outer aggregation applied to the RESULT of the layer below: per output group and timestamp,
   the aggregate of the samples of the member series of that result (for any lower-layer result r1) *)
Theorem C09_nest_outer_is_group_fold : forall name fn fields wo r1 gid t,
  fn <> ACount ->
  layer2_at name fn fields wo r1 gid t =
  match flat_map (fun e => sample_at t (snd e)) (layer2_members fields wo r1 gid) with
  | [] => None
  | vs => Some (reduce_q fn vs)
  end.
Proof. exact layer2_is_group_fold. Qed.
Print Assumptions C09_nest_outer_is_group_fold.

Theorem C09_nest_outer_count_is_members : forall name fields wo r1 gid t,
  fields <> [] ->
  layer2_at name ACount fields wo r1 gid t =
  match flat_map (fun e => sample_at t (snd e)) (layer2_members fields wo r1 gid) with
  | [] => None
  | vs => Some (inject_Z (Z.of_nat (length vs)))
  end.
Proof. exact layer2_count_is_members. Qed.
Print Assumptions C09_nest_outer_count_is_members.

(* what reduce_q computes: the sum; a member that bounds all members from below / above *)
Theorem C09_nest_outer_sum_min_max : forall vs,
  (reduce_q ASum vs == qsum vs)%Q /\
  (vs <> [] -> In (reduce_q AMin vs) vs /\ forall x, In x vs -> (reduce_q AMin vs <= x)%Q) /\
  (vs <> [] -> In (reduce_q AMax vs) vs /\ forall x, In x vs -> (x <= reduce_q AMax vs)%Q).
Proof.
  intros vs. split; [apply layer2_sum_spec|]. split; intros H; [apply qmin_list_spec | apply qmax_list_spec]; exact H.
Qed.
Print Assumptions C09_nest_outer_sum_min_max.

Theorem C09_nest_outer_avg_eq_sum_div_count : forall name fields wo r1 gid t a,
  fields <> [] ->
  layer2_at name AAvg fields wo r1 gid t = Some a ->
  exists s c, layer2_at name ASum fields wo r1 gid t = Some s /\
              layer2_at name ACount fields wo r1 gid t = Some c /\ (0 < c)%Q /\ (a == s / c)%Q.
Proof. exact layer2_avg_eq_sum_div_count. Qed.
Print Assumptions C09_nest_outer_avg_eq_sum_div_count.

Theorem C09_nest_outer_min_le_avg_le_max : forall name fields wo r1 gid t mn av mx,
  layer2_at name AMin fields wo r1 gid t = Some mn ->
  layer2_at name AAvg fields wo r1 gid t = Some av ->
  layer2_at name AMax fields wo r1 gid t = Some mx ->
  (mn <= av <= mx)%Q.
Proof. exact layer2_min_le_avg_le_max. Qed.
Print Assumptions C09_nest_outer_min_le_avg_le_max.

(* the outer layer cuts its group key out of the inner layer's OUTPUT id (name{k:v,k:v — no trailing comma) with the
   same substring search; exact under the same guard, and two nested by-clauses compose: the outer clause keeps
   exactly those of its labels that the inner clause kept *)
Theorem C09_nest_group_key_from_inner_output : forall name ls f,
  extract_guard name ls f = true -> extract_field (by_id name ls) f = lookup f ls.
Proof. exact group_key_extraction_from_by_id. Qed.
Print Assumptions C09_nest_group_key_from_inner_output.

Theorem C09_nest_by_of_by_composition : forall name ls L1 L2, L1 <> [] -> L2 <> [] ->
  forallb (extract_guard name ls) L1 = true ->
  forallb (extract_guard name (by_labels ls L1)) L2 = true ->
  agg_series_id (agg_series_id (render_id name ls) L1 false) L2 false =
  by_id name (by_labels ls (filter (fun f => mem_str f L1) L2)).
Proof. exact by_of_by_composition. Qed.
Print Assumptions C09_nest_by_of_by_composition.

Example C09_nest_by_of_by_nonvacuous :
  extract_guard w_m (by_labels [(w_a, [120]); (w_b, [49])] [w_a; w_b]) w_a = true /\
  agg_series_id (agg_series_id (render_id w_m [(w_a, [120]); (w_b, [49])]) [w_a; w_b] false) [w_a] false = [109; 123; 97; 58; 120].
Proof. exact extract_guard_by_id_nonvacuous. Qed.

(* ---------- formulas: vector arithmetic through every entry point that evaluates it ----------
   A formula is a tree of binary operations over operand queries and number literals (SigM.PromqlFormula).  Both the
   Prometheus endpoints and the metrics-explorer / formula API (ProcessMetricsQueryRequest: queries + formulas) run it through
   ExecuteMultipleMetricsQuery: every operand is run once per distinct query text (resMap keyed by the hash of the text), the
   operand POSITIONS with a multi-series result are counted, and with more than one of them labels must match
   (opLabelsDoNotNeedToMatch := false) whatever the caller asked for.  [run] is the execution of one operand, an arbitrary
   function; an operand is (hash, query, forced GetAllLabels).

   FULL STATEMENT (property text: arithmetic between vectors matches label sets) for the formula API:
     forall t db, every vector-vector node of [run_formula true t db] pairs series with equal label sets only.
   The code does not intend it: while at most one operand position is multi-series, a one-series side is combined with every
   series of the other side (C09_formula_lone_right_series_pairs_all; known finding formula_lone_series_operand_ignores_labels).
   Proved: the flag is exactly "fewer than two multi-series operand positions"; whenever two positions are multi-series the labels
   are matched, also when the two positions carry the SAME query text. *)
Theorem C09_formula_resmap_first_run : forall (run : query -> bool -> vec) ops h,
  rm_find h (fst (exec_loop run ops)) = first_run run h ops.
Proof. exact exec_resmap_first_run. Qed.
Print Assumptions C09_formula_resmap_first_run.

(* the count is over operand positions, not over distinct texts *)
Theorem C09_formula_count_is_operand_positions : forall (run : query -> bool -> vec) ops,
  snd (exec_loop run ops) = length (filter (pos_multi run ops) ops).
Proof. exact exec_count_is_positions. Qed.
Print Assumptions C09_formula_count_is_operand_positions.

Theorem C09_formula_flag_false_iff : forall (run : query -> bool -> vec) init ops,
  exec_flag run init ops = false <->
  (init = false \/ (2 <= length (filter (pos_multi run ops) ops))%nat).
Proof. exact exec_flag_false_iff. Qed.
Print Assumptions C09_formula_flag_false_iff.

Theorem C09_formula_flag_false_when_two_positions_multi : forall (run : query -> bool -> vec) init ops i j o1 o2,
  i <> j -> nth_error ops i = Some o1 -> nth_error ops j = Some o2 ->
  pos_multi run ops o1 = true -> pos_multi run ops o2 = true ->
  exec_flag run init ops = false.
Proof. exact exec_flag_two_multi_positions. Qed.
Print Assumptions C09_formula_flag_false_when_two_positions_multi.

(* the hash is the hash of the operand's text: a position works with its own query's result *)
Theorem C09_formula_position_result_is_own_query : forall (run : query -> bool -> vec) ops o,
  hash_consistent ops -> In o ops ->
  pos_multi run ops o = multi (run (snd (fst o)) (snd o)).
Proof. exact pos_multi_own_result. Qed.
Print Assumptions C09_formula_position_result_is_own_query.

(* counting distinct query texts instead of positions: m - m over two series of m keeps "labels need not match" and the
   answer is empty, while the code's count gives one series of zeros per series of m *)
Theorem C09_formula_count_distinct_texts_refuted :
  exists t db o1 o2, nth_error (leaves t) 0 = Some o1 /\ nth_error (leaves t) 1 = Some o2 /\
    pos_multi (run_leaf frag_match db) (leaves t) o1 = true /\ pos_multi (run_leaf frag_match db) (leaves t) o2 = true /\
    exec_flag_distinct (run_leaf frag_match db) true (leaves t) = true /\
    run_formula_distinct frag_match true t db = Some [] /\
    run_formula frag_match true t db <> Some [].
Proof. exact formula_count_distinct_texts_refuted. Qed.
Print Assumptions C09_formula_count_distinct_texts_refuted.

Example C09_formula_self_sub_witness :
  run_formula frag_match true w_t w_db =
  Some [([109;123;97;58;120;44], [(10%Z, 0%Q); (20%Z, 0%Q)]); ([109;123;97;58;121;44], [(10%Z, 0%Q); (20%Z, 0%Q)])].
Proof. exact formula_self_sub_witness. Qed.

(* one node.  Every output sample is left op right (operands swapped back) of two samples at the same timestamp *)
Theorem C09_formula_sample_spec : forall op sw l r t v,
  In (t, v) (pair_pts op sw l r) ->
  exists x y, In (t, x) l /\ In (t, y) r /\ fop_sw op sw x y = Some v.
Proof. exact pair_pts_spec. Qed.
Print Assumptions C09_formula_sample_spec.

(* labels matched: an output series is a left series paired with the right series that has the same label text *)
Theorem C09_formula_matching_pairs_equal_label_text : forall op L R id pts,
  (forall e, In e (snd L) -> (length (fst L) <= length (fst e))%nat) ->
  In (id, pts) (vv_match op L R) ->
  exists lp rp, In (id, lp) (snd L) /\ (length (fst L) <= length id)%nat /\
                In (fst R ++ label_text (fst L) id, rp) (snd R) /\
                pts = pair_pts op false lp rp /\ pts <> [].
Proof. exact vv_match_spec_alt2. Qed.
Print Assumptions C09_formula_matching_pairs_equal_label_text.

(* why the flag must fall: several series on both sides and no label matching pair nothing *)
Theorem C09_formula_unmatched_multi_is_empty : forall op L R,
  (2 <= length (snd L))%nat -> (2 <= length (snd R))%nat -> vv_free op L R = [].
Proof. exact vv_free_multi_both_empty. Qed.
Print Assumptions C09_formula_unmatched_multi_is_empty.

(* the designed deviation from PromQL: one series on the right is combined with every left series, whatever the labels *)
Theorem C09_formula_lone_right_series_pairs_all : forall op ln lv rn rid rp, (1 <= length lv)%nat ->
  vv_free op (ln, lv) (rn, [(rid, rp)]) =
  flat_map (fun e => match pair_pts op false (snd e) rp with [] => [] | l => [(fst e, l)] end) lv.
Proof. exact vv_free_one_right. Qed.
Print Assumptions C09_formula_lone_right_series_pairs_all.

(* the same vector on both sides with labels matched: every series meets itself (m - m, m / m, m + m) *)
Theorem C09_formula_self_arith : forall op name v,
  NoDup (map fst v) ->
  (forall e, In e v -> is_prefix name (fst e) = true) ->
  (forall e, In e v -> NoDup (map fst (snd e))) ->
  vv_match op (name, v) (name, v) =
  flat_map (fun e =>
    match flat_map (fun tv => match fop_apply op (snd tv) (snd tv) with Some x => [(fst tv, x)] | None => [] end) (snd e) with
    | [] => []
    | l => [(fst e, l)]
    end) v.
Proof. exact vv_match_self. Qed.
Print Assumptions C09_formula_self_arith.

Theorem C09_formula_self_sub_is_zero : forall name v,
  NoDup (map fst v) ->
  (forall e, In e v -> is_prefix name (fst e) = true) ->
  (forall e, In e v -> NoDup (map fst (snd e))) ->
  (forall e, In e v -> snd e <> []) ->
  vv_match FSub (name, v) (name, v) = map (fun e => (fst e, map (fun tv => (fst tv, 0%Q)) (snd e))) v.
Proof. exact vv_match_self_sub. Qed.
Print Assumptions C09_formula_self_sub_is_zero.

(* the label-matching node over two operand queries is the arithmetic of C09_vector_arith_* (whose theorems carry over);
   an operand is the query as it runs alone unless GetAllLabels was forced on an aggregation *)
Theorem C09_formula_matching_node_is_run_arith : forall (rmatch : str -> str -> bool) b q1 q2 db,
  forallb (fun e => Nat.leb (length (q_name q1)) (length (fst e))) (run_query rmatch q1 db) = true ->
  vv_match (fop_of b) (q_name q1, run_query rmatch q1 db) (q_name q2, run_query rmatch q2 db)
  = run_arith rmatch b q1 q2 db.
Proof. exact vv_match_is_run_arith. Qed.
Print Assumptions C09_formula_matching_node_is_run_arith.

Theorem C09_formula_operand_is_query : forall (rmatch : str -> str -> bool) db q,
  run_leaf rmatch db q false = leaf_shape q (run_query rmatch q db).
Proof. exact run_leaf_is_run_query. Qed.
Print Assumptions C09_formula_operand_is_query.

(* [leaf_shape]: count without grouping clause always has its entry "name{", also without any sample; every other query
   is its answer *)
Theorem C09_formula_operand_is_query_not_count : forall (rmatch : str -> str -> bool) db q,
  count_all q = false -> run_leaf rmatch db q false = run_query rmatch q db.
Proof. exact run_leaf_is_run_query_not_count. Qed.
Print Assumptions C09_formula_operand_is_query_not_count.

Theorem C09_formula_selector_operand_forced : forall (rmatch : str -> str -> bool) db name ms,
  run_leaf rmatch db (QSel name ms) true = run_query rmatch (QSel name ms) db.
Proof. exact run_leaf_selector_forced. Qed.
Print Assumptions C09_formula_selector_operand_forced.

(* nested operations with an empty result (fix 962cee9): an empty instant vector is an operand like any other.  Once every
   operand query has run, no operation of the tree fails; the pre-fix behaviour (the request failed with "result is empty
   and scalarValuePtr is nil") is kept as documentation: (m{a="zz"} + m{a="zz"}) + m *)
Theorem C09_formula_never_fails : forall (rmatch : str -> str -> bool) init t db,
  run_formula rmatch init t db <> None.
Proof. exact run_formula_never_fails. Qed.
Print Assumptions C09_formula_never_fails.

Theorem C09_prefix_nested_empty_operand_refuted :
  exists t db init, run_formula_prefix frag_match init t db = None /\ run_formula frag_match init t db = Some [].
Proof. exact prefix_nested_empty_operand_refuted. Qed.
Print Assumptions C09_prefix_nested_empty_operand_refuted.

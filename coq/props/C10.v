(* C10 — Metrics write-ahead log replays a faithful prefix after any crash.
   Statements only; proofs are in SigP.WalProofs / SigP.Crc32Proofs. *)
From SigM Require Import Base Crc32 Wal.
From SigP Require Import BaseProofs Crc32Proofs WalProofs.
Open Scope N_scope.

(* What NewWAL + Append write is read back completely and ends cleanly. *)
Theorem C10_roundtrip : forall ps, Forall small ps ->
  read_all (S (length ps)) (encode ps) = (ps, CleanEOF).
Proof. exact wal_roundtrip. Qed.
Print Assumptions C10_roundtrip.

(* A log cut at ANY byte k replays exactly the batches whose append had completed
   (whole frames inside the cut), in order, and nothing else; the iterator ends
   cleanly iff the cut is at a frame boundary.  [enc]/[decode_block] stand for the
   block codec incl. zstd (round-trip hypothesis), for any item type. *)
Theorem C10_cut_replays_completed_prefix :
  forall (A : Type) (enc : list A -> list N) (decode_block : list N -> option (list A)) (empty_is_eof : bool),
  (forall xs, decode_block (enc xs) = Some xs) ->
  (forall xs, small (enc xs)) ->
  forall bs : list (list A), Forall (fun xs => xs <> []) bs -> forall k,
  replay decode_block empty_is_eof (firstn k (wal_file (map enc bs)))
  = match k with
    | O => ([], Err)
    | S k' => (concat (firstn (whole_frames k' (map enc bs)) bs), cut_status k' (map enc bs))
    end.
Proof. exact @replay_cut. Qed.
Print Assumptions C10_cut_replays_completed_prefix.

(* One altered byte in the checksum field or the payload of a block: the blocks
   before it are replayed, the damaged block and everything after it is rejected
   with an error — never decoded into items that were not written. *)
Theorem C10_damaged_block_rejected :
  forall (A : Type) (enc : list A -> list N) (decode_block : list N -> option (list A)) (empty_is_eof : bool),
  (forall xs, decode_block (enc xs) = Some xs) ->
  (forall xs, small (enc xs)) ->
  forall (bs : list (list A)) xs f' tail,
  Forall (fun xs => xs <> []) bs -> damaged (enc xs) f' ->
  replay decode_block empty_is_eof (wal_file (map enc bs) ++ f' ++ tail) = (concat bs, Err).
Proof. exact @replay_damage. Qed.
Print Assumptions C10_damaged_block_rejected.

(* CRC-32/IEEE detects every single-byte change, for payloads of any length. *)
Theorem C10_crc32_detects_single_byte : forall pre x y post,
  Forall (fun b => b < 256) pre -> Forall (fun b => b < 256) post ->
  x < 256 -> y < 256 -> x <> y ->
  crc32 (pre ++ x :: post) <> crc32 (pre ++ y :: post).
Proof. exact crc32_single_byte. Qed.
Print Assumptions C10_crc32_detects_single_byte.

(* ... and every change confined to four consecutive bytes (a burst of up to 32 bits on byte boundaries:
   a damaged length or checksum field, a torn 4-byte write) in a payload of any length *)
Theorem C10_crc32_detects_4byte_burst : forall pre post x1 x2 x3 x4 y1 y2 y3 y4,
  Forall (fun b => b < 256) pre -> Forall (fun b => b < 256) post ->
  Forall (fun b => b < 256) [x1; x2; x3; x4] -> Forall (fun b => b < 256) [y1; y2; y3; y4] ->
  [x1; x2; x3; x4] <> [y1; y2; y3; y4] ->
  crc32 (pre ++ [x1; x2; x3; x4] ++ post) <> crc32 (pre ++ [y1; y2; y3; y4] ++ post).
Proof. exact crc32_burst4. Qed.
Print Assumptions C10_crc32_detects_4byte_burst.

(* the bit-serial definition is CRC-32/IEEE: standard check value *)
Theorem C10_crc32_check_value : crc32 [49;50;51;52;53;54;55;56;57] = 3421780262.
Proof. exact crc_check. Qed.
Print Assumptions C10_crc32_check_value.

(* ---- replay ORDER across the WAL files of one block (RecoverWALData / extractWALFileInfo).
   FULL STATEMENT: the files are replayed in append order (file index 0, 1, 2, ...) for EVERY number
   of files.  It holds for the fixed code (fixes/C10-wal-replay-order: the names read from the
   directory are sorted by their numeric index). ---- *)
From SigM Require Import WalOrder.
From SigP Require Import WalOrderProofs.
Theorem C10_replay_in_append_order : forall n, replay_order n = seq 0 n.
Proof. exact wal_replay_order_is_append_order. Qed.
Print Assumptions C10_replay_in_append_order.

(* PRE-FIX documentation (about [dir_order], the bare directory = file-name order; no longer what is
   replayed): append order only up to 10 files, refuted with an 11th: "…_10.wal" sorts between
   "…_1.wal" and "…_2.wal". *)
Theorem C10_prefix_dir_order_guarded : forall n, (n <= 10)%nat -> dir_order n = seq 0 n.
Proof. exact wal_dir_order_small. Qed.
Print Assumptions C10_prefix_dir_order_guarded.
Theorem C10_prefix_dir_order_refuted :
  dir_order 11 = [0; 1; 10; 2; 3; 4; 5; 6; 7; 8; 9]%nat /\ dir_order 11 <> seq 0 11.
Proof. exact wal_dir_order_refuted. Qed.
Print Assumptions C10_prefix_dir_order_refuted.

(* ---- Wal.Write: the metrics meta-entry log is REWRITTEN (one block replaces the file) about once a
   second.  FULL STATEMENT: after a crash that follows ANY number k of the system calls of ANY sequence of
   Writes on a fresh log, restart reads exactly the block of the last COMPLETED Write and ends cleanly.
   It holds for the protocol of the fixed code (write <file>.tmp, fsync, rename: [write_atomic]) and is
   refuted for the protocol before the fix (truncate + four writes in place: [write_inplace]) — a crash
   in the window loses the block of the previous, completed Write. ---- *)
From SigM Require Import WalRewrite.
From SigP Require Import WalRewriteProofs.
Theorem C10_rewrite_crash_keeps_last_completed : forall ps k, Forall small ps ->
  recovered (wrun fs_new (firstn k (writes write_atomic ps)))
  = (expected_blocks (last_completed alen ps k None), CleanEOF).
Proof. exact rewrite_atomic_from_new. Qed.
Print Assumptions C10_rewrite_crash_keeps_last_completed.
Theorem C10_rewrite_inplace_refuted :
  recovered (wrun fs_new (firstn 5 (writes write_inplace [[65]; [66]]))) = ([[65]], CleanEOF) /\
  fst (recovered (wrun fs_new (firstn 6 (writes write_inplace [[65]; [66]])))) = [].
Proof. exact rewrite_inplace_refuted_blocks. Qed.
Print Assumptions C10_rewrite_inplace_refuted.

(* ---- The hand-off from the three metrics WALs (datapoints, metric names, segment meta entries) to the durable store
   at a FORCED ROTATION (shutdown: ForceFlushMetricsBlock -> CheckAndRotate(true) -> rotateBlock, rotateSegment) and in
   the start-up recovery itself.  An item is the logged content of one kind for one shard; [Stored] = the call after
   which it is durable in the store, [Dropped] = the unlink of its log; after a restart an item is in the store iff it
   was stored or its log still exists (WalHandoff.v; the observed milestone order of the real rotation / recovery must
   be a schedule of the model's and the real recovery's result at every crash point must equal [recovered]).
   FULL STATEMENT: for every crash point k inside the rotation (and inside the recovery), after restart + the three
   Recover* functions every item whose log append had completed is in the store.
   General theorem (any item set, any milestone sequence): this holds at every crash point EXACTLY when every log is
   dropped only after everything it held has been stored ("store first, then drop the log"). ---- *)
From SigM Require Import WalHandoff.
From SigP Require Import WalHandoffProofs.
Theorem C10_handoff_safe_iff_store_before_drop : forall xs ops,
  crash_safe xs ops <-> ordered_from [] xs ops = true.
Proof. exact handoff_safe_iff_ordered. Qed.
Print Assumptions C10_handoff_safe_iff_store_before_drop.

(* the code's forced rotation (fix 739a6ba: the meta-entry log, one file for all shards, is deleted once after every
   shard is registered): the FULL statement, for every number of shards - one shard after the other ... *)
Theorem C10_forced_rotation_safe : forall shards,
  crash_safe (items shards) (forced_rotation_fixed shards).
Proof. exact forced_rotation_fixed_safe. Qed.
Print Assumptions C10_forced_rotation_safe.
(* ... and for EVERY schedule of the per-shard goroutines of ForceFlushMetricsBlock *)
Theorem C10_forced_rotation_any_schedule_safe : forall shards ops,
  Interleave (map rotate_shard_fixed shards) ops -> crash_safe (items shards) (ops ++ [meta_drop]).
Proof. exact forced_rotation_any_schedule_safe. Qed.
Print Assumptions C10_forced_rotation_any_schedule_safe.

(* the meta-entry log deleted before the shards are registered (the class of seed C10f on the fixed tree): the logged
   meta entry of EVERY shard is in neither after a crash behind the deletion *)
Theorem C10_forced_rotation_drop_before_register_refuted : forall shards sh, In sh shards ->
  recovered (hrun h0 (firstn 1 (forced_rotation_drop_first shards))) (KMeta, sh) = false
  /\ ~ crash_safe (items shards) (forced_rotation_drop_first shards).
Proof. exact forced_rotation_drop_first_refuted. Qed.
Print Assumptions C10_forced_rotation_drop_before_register_refuted.

(* PRE-FIX documentation (before 739a6ba: the first shard to finish rotateSegment deleted the shared log; no longer
   what the code does): one shard was safe, with several shards everything survived except the meta entries of the
   shards rotated after the first one (fixed finding forced_rotation_meta_log_deleted_with_other_shards_entries); and
   the two last blocks of that rotateSegment swapped (seed C10f as seeded) lost the entry even with one shard. *)
Theorem C10_prefix_per_shard_deletion_guarded : forall shards k x, In x (items shards) ->
  (fst x = KMeta -> snd x = hd 0%N shards) ->
  recovered (hrun h0 (firstn k (forced_rotation shards))) x = true.
Proof. exact forced_rotation_guarded. Qed.
Print Assumptions C10_prefix_per_shard_deletion_guarded.
Example C10_prefix_per_shard_deletion_guard_satisfiable :
  In (KMeta, 0%N) (items [0%N; 1%N]) /\ (fst (KMeta, 0%N) = KMeta -> snd (KMeta, 0%N) = hd 0%N [0%N; 1%N]).
Proof. split; [simpl; auto | reflexivity]. Qed.
Theorem C10_prefix_per_shard_deletion_refuted :
  NoDup [0%N; 1%N] /\ In (KMeta, 1%N) (items [0%N; 1%N]) /\
  recovered (hrun h0 (firstn 6 (forced_rotation [0%N; 1%N]))) (KMeta, 1%N) = false.
Proof. exact forced_rotation_multi_refuted. Qed.
Print Assumptions C10_prefix_per_shard_deletion_refuted.
Theorem C10_prefix_swapped_rotate_segment_refuted : forall sh,
  recovered (hrun h0 (firstn 5 (forced_rotation_swapped [sh]))) (KMeta, sh) = false
  /\ ~ crash_safe (items [sh]) (forced_rotation_swapped [sh]).
Proof. intros sh. split; [apply forced_rotation_swapped_refuted | apply forced_rotation_swapped_not_safe]. Qed.
Print Assumptions C10_prefix_swapped_rotate_segment_refuted.

(* the start-up recovery (fix 4a40913): flushBlock / FlushMetricNames first, then the deletion of the files that were
   replayed: the FULL statement for every number of shards *)
Theorem C10_recovery_store_first_safe : forall shards,
  crash_safe (items shards) (recovery_ops_store_first shards).
Proof. exact recovery_store_first_safe. Qed.
Print Assumptions C10_recovery_store_first_safe.
(* PRE-FIX documentation (before 4a40913: each WAL file deleted as soon as it was read, the rebuilt block / the .mnm
   file written afterwards; fixed findings recovery_crash_loses_logged_datapoints / _metric_names) *)
Theorem C10_prefix_recovery_delete_before_store_refuted : forall sh,
  recovered (hrun h0 (firstn 1 (recovery_ops [sh]))) (KDp, sh) = false /\
  recovered (hrun h0 (firstn 3 (recovery_ops [sh]))) (KName, sh) = false.
Proof. exact recovery_as_coded_refuted. Qed.
Print Assumptions C10_prefix_recovery_delete_before_store_refuted.

(* ---- the ORDER in which start-up calls the three recovery functions (cmd/startup/startup.go, startIngestServer).
   They cooperate through the file system: the directory of a segment is created by flushBlock (FlushSummary:
   os.MkdirAll), on restart by RecoverWALData, and - since fix 5e1901f - by RecoverMNameWALData's FlushMetricNames
   itself.  A crashed segment that is still in its FIRST block has no directory.
   WalRestart.v: one restart = the functions in a given order on the state (directory, datapoint log, block files, name
   log, .mnm, meta-entry log, metricmeta.json) of every shard's crashed segment.  [restart true] = the code
   (FlushMetricNames creates the directory); [restart false] = the code before 5e1901f. ---- *)
From SigM Require Import WalRestart.
From SigP Require Import WalRestartProofs.
(* FULL statement (property text, one restart), unguarded: for EVERY crash state - a segment in its first block, names
   logged before any datapoint included - every completed append is in the store after ONE restart and nothing else
   changed *)
Theorem C10_restart_in_startup_order_replays_all : forall s,
  restart true startup_order s = replayed_state s.
Proof. exact mkdir_fix_startup_order. Qed.
Print Assumptions C10_restart_in_startup_order_replays_all.
(* ... in EVERY order and with repeated calls, for all shards at once (each function loops over all shards before the
   next one starts): the order of the three calls no longer matters for the outcome *)
Theorem C10_restart_any_order_replays_all : forall order s,
  mem_rfun RDp order && mem_rfun RNm order && mem_rfun RMeta order = true ->
  restart true order s = replayed_state s.
Proof. exact mkdir_fix_any_order. Qed.
Print Assumptions C10_restart_any_order_replays_all.
Theorem C10_restart_any_order_replays_all_shards : forall order ss,
  mem_rfun RDp order && mem_rfun RNm order && mem_rfun RMeta order = true ->
  restart_all true order ss = map replayed_state ss.
Proof. exact mkdir_fix_any_order_shards. Qed.
Print Assumptions C10_restart_any_order_replays_all_shards.
(* ... and exactly the sequences that call all three functions do *)
Theorem C10_restart_replays_all_iff_every_function_called : forall order,
  (forall s, restart true order s = replayed_state s) <->
  mem_rfun RDp order && mem_rfun RNm order && mem_rfun RMeta order = true.
Proof. exact mkdir_fix_replays_all_iff. Qed.
Print Assumptions C10_restart_replays_all_iff_every_function_called.
Example C10_restart_names_first_now_harmless :
  restart true names_first_order w_first_block = replayed_state w_first_block /\
  restart true startup_order w_names_only = replayed_state w_names_only /\ nm_st (replayed_state w_names_only) = [7].
Proof. vm_compute. repeat split; reflexivity. Qed.
(* the closed form behind it: the state after a restart that calls the functions in ANY sequence, with or without the
   MkdirAll *)
Theorem C10_restart_closed_form : forall mk order s,
  restart mk order s =
  st s (mem_rfun RDp order)
       ((mem_rfun RNm order && (sdir s || mk)) || (nonempty (dp_log s) && dp_then_names order))
       (mem_rfun RMeta order).
Proof. exact restart_closed_form. Qed.
Print Assumptions C10_restart_closed_form.
(* nothing else: whatever the order and the state, a block other than the log's keeps its content, the log's block
   holds exactly the logged datapoints or is untouched, .mnm holds exactly the logged names or is untouched, a segment
   is listed only if it was listed or logged *)
Theorem C10_restart_invents_nothing : forall mk order s,
  let s' := restart mk order s in
  (forall b, b <> dp_blk s -> get_blk b (blocks s') = get_blk b (blocks s)) /\
  (get_blk (dp_blk s) (blocks s') = Some (dp_log s) \/ blocks s' = blocks s) /\
  (nm_st s' = nm_log s \/ nm_st s' = nm_st s) /\
  (me_st s' = true -> me_st s = true \/ me_log s = true).
Proof. exact restart_nothing_invented. Qed.
Print Assumptions C10_restart_invents_nothing.

(* PRE-FIX documentation (before 5e1901f: FlushMetricNames did not create the directory; fixed finding
   restart_keeps_metric_names_of_segment_without_directory_in_log, and why the ORDER of the calls mattered: seed C10h) *)
(* the start-up order replayed everything only for the crash states whose logged names had a directory to go to (it
   exists, or datapoints are logged whose replay creates it) *)
Theorem C10_prefix_restart_in_startup_order_guarded : forall s,
  names_storable false s = true -> restart false startup_order s = replayed_state s.
Proof. exact (startup_order_replays_all false). Qed.
Print Assumptions C10_prefix_restart_in_startup_order_guarded.
Example C10_prefix_restart_guard_satisfiable_first_block :
  names_storable false w_first_block = true /\ sdir w_first_block = false /\ nm_log w_first_block = [7].
Proof. repeat split; reflexivity. Qed.
Theorem C10_prefix_restart_in_startup_order_guarded_shards : forall ss,
  forallb (names_storable false) ss = true -> restart_all false startup_order ss = map replayed_state ss.
Proof. exact (startup_order_replays_all_shards false). Qed.
Print Assumptions C10_prefix_restart_in_startup_order_guarded_shards.
(* the excluded crash state: names logged, no datapoint logged yet, segment in its first block: whatever the order
   and however many restarts, the names stayed in the log *)
Theorem C10_prefix_restart_names_without_directory_refuted : forall order n,
  names_storable false w_names_only = false /\
  Nat.iter n (restart false order) w_names_only = w_names_only /\
  nm_log w_names_only = [7] /\ nm_st w_names_only = [].
Proof. intros order n. split; [reflexivity|]. split; [apply names_only_state_never_replayed|split; reflexivity]. Qed.
Print Assumptions C10_prefix_restart_names_without_directory_refuted.
(* EVERY sequence of calls: it replayed everything in one restart (for all guarded crash states) exactly when each
   function is called and some RecoverWALData call is followed by a RecoverMNameWALData call *)
Theorem C10_prefix_restart_order_characterised : forall order,
  (forall s, names_storable false s = true -> restart false order s = replayed_state s)
  <-> good_order false order = true.
Proof. exact (replays_all_iff_good_order false). Qed.
Print Assumptions C10_prefix_restart_order_characterised.
(* names first (seed C10h): a segment in its first block got its datapoints back but not its names, although their
   append had completed; the name log was kept and a SECOND restart stored them *)
Theorem C10_prefix_restart_names_first_refuted :
  names_storable false w_first_block = true /\
  let s1 := restart false names_first_order w_first_block in
  get_blk 0 (blocks s1) = Some [1; 2] /\ nm_st s1 = [] /\ nm_log s1 = [7] /\
  restart false names_first_order s1 = replayed_state w_first_block /\
  restart false startup_order w_first_block = replayed_state w_first_block.
Proof. exact names_first_refuted. Qed.
Print Assumptions C10_prefix_restart_names_first_refuted.
Theorem C10_prefix_restart_twice_replays_all_in_any_order : forall order s,
  mem_rfun RDp order && mem_rfun RNm order && mem_rfun RMeta order = true ->
  names_storable false s = true ->
  restart false order (restart false order s) = replayed_state s.
Proof. exact second_restart_replays_all. Qed.
Print Assumptions C10_prefix_restart_twice_replays_all_in_any_order.

(* ---- store first, then drop the log — from the source: on EVERY path through rotateBlock the block is flushed
   (mb.flushBlock) before a datapoint log is deleted; on every path through rotateSegment the metric names are
   flushed before the metric-name log is deleted, and rotateSegment never deletes the meta-entry log (one file for
   all segments); ForceFlushMetricsBlock deletes it only after wg.Wait() (call-order skeletons regenerated from
   /repo on every run by gotrans in calltrace mode, callees inlined: rules C10.* of GenOrderCheck.co_rules).
   The milestone orders WalHandoff.v takes as the code's are the code's. ---- *)
From SigP Require GenOrderCheck GenOrderC10.
Theorem C10_code_stores_before_it_drops_a_log : forall r : GenOrderCheck.rule,
  In r GenOrderCheck.c10_rules -> GenOrderCheck.rule_holds r.
Proof. exact GenOrderC10.co_C10_rules_hold. Qed.
Print Assumptions C10_code_stores_before_it_drops_a_log.

(* C10 — Metrics write-ahead log replays a faithful prefix after any crash.
   Statements only; proofs are in SigP.WalProofs / SigP.Crc32Proofs. *)
From SigM Require Import Base Crc32 Wal.
From SigP Require Import BaseProofs Crc32Proofs WalProofs.
Open Scope N_scope.

(* What NewWAL + Append write is read back completely and ends cleanly. *)
Theorem C10_roundtrip : forall ps, Forall small ps ->
  read_all (S (length ps)) (encode ps) = (ps, CleanEOF).
Proof. exact wal_roundtrip. Qed.
Print Assumptions C10_roundtrip.

(* A log cut at ANY byte k replays exactly the batches whose append had completed
   (whole frames inside the cut), in order, and nothing else; the iterator ends
   cleanly iff the cut is at a frame boundary.  [enc]/[decode_block] stand for the
   block codec incl. zstd (round-trip hypothesis), for any item type. *)
Theorem C10_cut_replays_completed_prefix :
  forall (A : Type) (enc : list A -> list N) (decode_block : list N -> option (list A)) (empty_is_eof : bool),
  (forall xs, decode_block (enc xs) = Some xs) ->
  (forall xs, small (enc xs)) ->
  forall bs : list (list A), Forall (fun xs => xs <> []) bs -> forall k,
  replay decode_block empty_is_eof (firstn k (wal_file (map enc bs)))
  = match k with
    | O => ([], Err)
    | S k' => (concat (firstn (whole_frames k' (map enc bs)) bs), cut_status k' (map enc bs))
    end.
Proof. exact @replay_cut. Qed.
Print Assumptions C10_cut_replays_completed_prefix.

(* One altered byte in the checksum field or the payload of a block: the blocks
   before it are replayed, the damaged block and everything after it is rejected
   with an error — never decoded into items that were not written. *)
Theorem C10_damaged_block_rejected :
  forall (A : Type) (enc : list A -> list N) (decode_block : list N -> option (list A)) (empty_is_eof : bool),
  (forall xs, decode_block (enc xs) = Some xs) ->
  (forall xs, small (enc xs)) ->
  forall (bs : list (list A)) xs f' tail,
  Forall (fun xs => xs <> []) bs -> damaged (enc xs) f' ->
  replay decode_block empty_is_eof (wal_file (map enc bs) ++ f' ++ tail) = (concat bs, Err).
Proof. exact @replay_damage. Qed.
Print Assumptions C10_damaged_block_rejected.

(* CRC-32/IEEE detects every single-byte change, for payloads of any length. *)
Theorem C10_crc32_detects_single_byte : forall pre x y post,
  Forall (fun b => b < 256) pre -> Forall (fun b => b < 256) post ->
  x < 256 -> y < 256 -> x <> y ->
  crc32 (pre ++ x :: post) <> crc32 (pre ++ y :: post).
Proof. exact crc32_single_byte. Qed.
Print Assumptions C10_crc32_detects_single_byte.

(* ... and every change confined to four consecutive bytes (a burst of up to 32 bits on byte boundaries:
   a damaged length or checksum field, a torn 4-byte write) in a payload of any length *)
Theorem C10_crc32_detects_4byte_burst : forall pre post x1 x2 x3 x4 y1 y2 y3 y4,
  Forall (fun b => b < 256) pre -> Forall (fun b => b < 256) post ->
  Forall (fun b => b < 256) [x1; x2; x3; x4] -> Forall (fun b => b < 256) [y1; y2; y3; y4] ->
  [x1; x2; x3; x4] <> [y1; y2; y3; y4] ->
  crc32 (pre ++ [x1; x2; x3; x4] ++ post) <> crc32 (pre ++ [y1; y2; y3; y4] ++ post).
Proof. exact crc32_burst4. Qed.
Print Assumptions C10_crc32_detects_4byte_burst.

(* the bit-serial definition is CRC-32/IEEE: standard check value *)
Theorem C10_crc32_check_value : crc32 [49;50;51;52;53;54;55;56;57] = 3421780262.
Proof. exact crc_check. Qed.
Print Assumptions C10_crc32_check_value.

(* ---- replay ORDER across the WAL files of one block (RecoverWALData / extractWALFileInfo).
   FULL STATEMENT: the files are replayed in append order (file index 0, 1, 2, ...) for EVERY number
   of files.  It holds for the fixed code (fixes/C10-wal-replay-order: the names read from the
   directory are sorted by their numeric index). ---- *)
From SigM Require Import WalOrder.
From SigP Require Import WalOrderProofs.
Theorem C10_replay_in_append_order : forall n, replay_order n = seq 0 n.
Proof. exact wal_replay_order_is_append_order. Qed.
Print Assumptions C10_replay_in_append_order.

(* PRE-FIX documentation (about [dir_order], the bare directory = file-name order; no longer what is
   replayed): append order only up to 10 files, refuted with an 11th: "…_10.wal" sorts between
   "…_1.wal" and "…_2.wal". *)
Theorem C10_prefix_dir_order_guarded : forall n, (n <= 10)%nat -> dir_order n = seq 0 n.
Proof. exact wal_dir_order_small. Qed.
Print Assumptions C10_prefix_dir_order_guarded.
Theorem C10_prefix_dir_order_refuted :
  dir_order 11 = [0; 1; 10; 2; 3; 4; 5; 6; 7; 8; 9]%nat /\ dir_order 11 <> seq 0 11.
Proof. exact wal_dir_order_refuted. Qed.
Print Assumptions C10_prefix_dir_order_refuted.

(* ---- Wal.Write: the metrics meta-entry log is REWRITTEN (one block replaces the file) about once a
   second.  FULL STATEMENT: after a crash that follows ANY number k of the system calls of ANY sequence of
   Writes on a fresh log, restart reads exactly the block of the last COMPLETED Write and ends cleanly.
   It holds for the protocol of the fixed code (write <file>.tmp, fsync, rename: [write_atomic]) and is
   refuted for the protocol before the fix (truncate + four writes in place: [write_inplace]) — a crash
   in the window loses the block of the previous, completed Write. ---- *)
From SigM Require Import WalRewrite.
From SigP Require Import WalRewriteProofs.
Theorem C10_rewrite_crash_keeps_last_completed : forall ps k, Forall small ps ->
  recovered (wrun fs_new (firstn k (writes write_atomic ps)))
  = (expected_blocks (last_completed alen ps k None), CleanEOF).
Proof. exact rewrite_atomic_from_new. Qed.
Print Assumptions C10_rewrite_crash_keeps_last_completed.
Theorem C10_rewrite_inplace_refuted :
  recovered (wrun fs_new (firstn 5 (writes write_inplace [[65]; [66]]))) = ([[65]], CleanEOF) /\
  fst (recovered (wrun fs_new (firstn 6 (writes write_inplace [[65]; [66]])))) = [].
Proof. exact rewrite_inplace_refuted_blocks. Qed.
Print Assumptions C10_rewrite_inplace_refuted.

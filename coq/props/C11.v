(* C11 — Concurrent ingest, flush, rotation and search stay consistent (the part that is logic:
   the open -> rotated hand-over protocol against the query's two list snapshots).
   Statements only; proofs in SigP.HandoverProofs.
   An execution is ANY list of events: any number of segments being created, flushed and rotated
   (AddRot then DelUnrot), any number of concurrent queries (SnapU, SnapR, Resolve), in ANY
   interleaving; events that are not enabled are no-ops, so every list is an execution. *)
From SigM Require Import Base Handover.
From SigP Require Import HandoverProofs.
From Coq Require String.
From SigM Require LockTrace LockOrder.
From SigG Require GenLocks.
From SigP Require LockTraceProofs LockOrderProofs GenLocksCheck GenLocksProofs.
Open Scope nat_scope.

(* The reader of the model follows the searcher: a record query turns every request of its plan into
   blocks (a segment seen in BOTH lists contributes every block twice), the block list reaches
   getBlocks in batches ([batching]: any function whose batches contain exactly the blocks of the list —
   blocks may come twice in a batch, in several batches, be submitted again), getFilteredBlocks marks a
   block in processedBlocks when it accepts it, the accepted blocks are re-ordered and cut into groups
   ([grouping]: anything that keeps every block as often as it was accepted; the any-order searcher
   takes GOMAXPROCS blocks per Fetch), and each group is read through a block map.
   Query routes ([kind_of]): QRecords (raw-record search: `*`, and whatever stands in front of a later
   stats command), QStats (first command `stats` without by-clause), QGroupBy (first command `stats ... by`).

   The statement holds for EVERY route.  (The QGroupBy route of the code used to violate it — events of a
   segment rotated between planning and reading were lost, events of a segment planned and read inside
   the hand-over window were counted twice; repaired: the route re-tests IsSegKeyUnrotated and searches a
   segment key once — C11_groupby_unprotected_refuted keeps the two witnesses.) *)

(* A query returns every block that was flushed before the query began EXACTLY ONCE, for record
   queries, statistics queries and group-by queries alike, whatever rotations, flushes and other queries interleave
   with it, for any batching of the block list and any grouping of the accepted blocks. *)
Theorem C11_handover_exactly_once :
  forall (nseg : nat) (batching grouping : list blk -> list (list blk)),
  (forall l x, In x (concat (batching l)) <-> In x l) ->
  (forall l x, count_pair x (concat (grouping l)) = count_pair x l) ->
  forall (kind_of : nat -> qkind) (pre post : list ev) (r s b : nat),
  let y1 := run nseg true true true batching grouping kind_of sys_init pre in
  stage (rds y1 r) = RIdle ->
  s < nseg -> ph (segs y1 s) <> Absent -> b < nb (segs y1 s) ->
  let y := run nseg true true true batching grouping kind_of y1 (SnapU r :: post) in
  stage (rds y r) = RDone ->
  count_pair (s, b) (result (rds y r)) = 1.
Proof. exact handover_exactly_once. Qed.
Print Assumptions C11_handover_exactly_once.

(* Nothing at all (also blocks flushed while the query runs) is ever returned twice. *)
Theorem C11_handover_at_most_once :
  forall (nseg : nat) (batching grouping : list blk -> list (list blk)),
  (forall l x, In x (concat (batching l)) <-> In x l) ->
  (forall l x, count_pair x (concat (grouping l)) = count_pair x l) ->
  forall (kind_of : nat -> qkind) (pre post : list ev) (r : nat) (x : nat * nat),
  let y1 := run nseg true true true batching grouping kind_of sys_init pre in
  stage (rds y1 r) = RIdle ->
  let y := run nseg true true true batching grouping kind_of y1 (SnapU r :: post) in
  stage (rds y r) = RDone ->
  count_pair x (result (rds y r)) <= 1.
Proof. exact handover_at_most_once. Qed.
Print Assumptions C11_handover_at_most_once.

(* The premises on batching/grouping are met by the searcher of the code in any-order mode: the whole
   block list in one getBlocks batch, GOMAXPROCS = P blocks per Fetch, for EVERY P (under 1..16
   processors and beyond) and every number of blocks per segment. *)
Theorem C11_handover_exactly_once_for_every_gomaxprocs :
  forall (nseg P : nat) (kind_of : nat -> qkind) (pre post : list ev) (r s b : nat),
  let y1 := run nseg true true true one_batch (chunks P) kind_of sys_init pre in
  stage (rds y1 r) = RIdle ->
  s < nseg -> ph (segs y1 s) <> Absent -> b < nb (segs y1 s) ->
  let y := run nseg true true true one_batch (chunks P) kind_of y1 (SnapU r :: post) in
  stage (rds y r) = RDone ->
  count_pair (s, b) (result (rds y r)) = 1.
Proof. exact handover_exactly_once_gomaxprocs. Qed.
Print Assumptions C11_handover_exactly_once_for_every_gomaxprocs.

(* The de-duplication of the block list by (segment key, block number), on its own: for ANY list of
   batches and ANY grouping, the answer holds a block exactly once if it is anywhere in the raw list
   (however often: once per listing of its segment), and not at all otherwise. *)
Theorem C11_block_list_deduplicated_for_any_batching :
  forall (batching grouping : list blk -> list (list blk)),
  (forall l x, In x (concat (batching l)) <-> In x l) ->
  (forall l x, count_pair x (concat (grouping l)) = count_pair x l) ->
  forall (raw : list blk) (x : blk),
  count_pair x (searcher_answer true batching grouping raw) = if bmem x raw then 1 else 0.
Proof. exact searcher_answer_count. Qed.
Print Assumptions C11_block_list_deduplicated_for_any_batching.

(* Without the marking inside the loop (processedBlocks updated only after the batch has been filtered)
   the statement is false exactly in the hand-over window: a segment with 2 blocks listed twice, groups
   of 2 blocks: both blocks are read twice; groups of 4 blocks hide it (block map of the group), and
   so do plans made before or after the window — which is why sequential tests and plain `*` pass. *)
Theorem C11_filter_then_record_refuted :
  let ans ib P evs b := count_pair (0, b) (result (rds (run 1 true ib true one_batch (chunks P) (fun _ => QRecords) sys_init evs) 0)) in
  (ans false 2 window_plan 0 = 2 /\ ans false 2 window_plan 1 = 2) /\
  (ans false 4 window_plan 0 = 1 /\ ans false 4 window_plan 1 = 1) /\
  (ans true 2 window_plan 0 = 1 /\ ans true 2 window_plan 1 = 1) /\
  (ans false 2 [Create 0; Flush 0; Flush 0; SnapU 0; SnapR 0; Resolve 0] 0 = 1 /\
   ans false 2 [Create 0; Flush 0; Flush 0; Noop; AddRot 0; DelUnrot 0; SnapU 0; SnapR 0; Resolve 0] 0 = 1).
Proof. exact two_pass_filter_refuted. Qed.
Print Assumptions C11_filter_then_record_refuted.

(* The group-by route before its repair (no re-test of IsSegKeyUnrotated for an unrotated request, no
   de-duplication of a segment key listed both ways) violated the property; the witnesses are the two
   forced schedules wrrwwwr (events lost) and wrwrrww (events twice); the repaired route answers 1. *)
Theorem C11_groupby_unprotected_refuted :
  let ans prot evs := (let y := run 1 true true prot one_batch (chunks 16) (fun _ => QGroupBy) sys_init evs in
                       (stage (rds y 0), count_pair (0, 0) (result (rds y 0)))) in
  ans false groupby_lost_sched = (RDone, 0) /\ ans false groupby_doubled_sched = (RDone, 2) /\
  ans true groupby_lost_sched = (RDone, 1) /\ ans true groupby_doubled_sched = (RDone, 1).
Proof. exact groupby_unprotected_refuted. Qed.
Print Assumptions C11_groupby_unprotected_refuted.

(* Queries never change what is stored: after any interleaving the segment table is the one the
   writers' events alone produce (quiescent state = sequential execution of the same ingests). *)
Theorem C11_queries_transparent :
  forall nseg sd ib gbp bt gp kind_of evs y s,
  segs (run nseg sd ib gbp bt gp kind_of y evs) s = segs (run nseg sd ib gbp bt gp kind_of y (filter is_writer_ev evs)) s.
Proof. exact readers_transparent. Qed.
Print Assumptions C11_queries_transparent.

(* The statistics path before fix 08e84b8 (no de-duplication of a segment present in both
   snapshots) violates the property: witness interleaving, the block is counted twice. *)
Theorem C11_stats_double_count_refuted :
  exists evs, let y := run 1 false true true one_batch (chunks 16) (fun _ => QStats) sys_init evs in
    stage (rds y 0) = RDone /\ count_pair (0, 0) (result (rds y 0)) = 2.
Proof. exact stats_double_count_refuted. Qed.
Print Assumptions C11_stats_double_count_refuted.

(* ---- memory rebalancing: eviction and reload of micro indexes never change an answer ----
   (model CmiEvict.v, proofs CmiEvictProofs.v; names qualified, Handover has its own Flush / run.)
   The open segment keeps, per flushed block, the block's micro indexes (blooms, range indexes) in memory
   while isCmiLoaded; writer.RebalanceUnrotatedMetadata removes them under memory pressure
   (removeInMemoryMetadata: slice emptied, flag cleared), later flushes of the same segment add indexes only
   while the flag is set (padding the slice with EMPTY maps up to the block number), and
   doBloomCheckForCols / doRangeCheckForCols rule a block out when its entry cannot match.  Rotated segments
   read their indexes from the .cmi files, in memory or not (metadata.RebalanceInMemoryCmi).
   An execution is ANY list of Flush b | EvictOpen fits | Rotate | EvictRot | LoadRot.
   [needs_passed q]: the record search of q looks only at the columns that PASSED the block check (a number
   searched in all columns, `*=4`); [mark_unloaded]: an open segment without loaded indexes marks every column as
   passed (the code since fix 7108dc6: true — the theorems below are stated for it, for EVERY query; before the
   fix: false, see C11_prefix_all_column_search_without_indexes_refuted).
   External: how a micro index is built and tested ([index_of], [may]) — hypothesis: an index built from a
   block never rules out a block holding a match (bloom filters / min-max ranges have no false negatives). *)
From SigM Require CmiEvict CmiEvictCheck.
From SigP Require CmiEvictProofs.

(* After every sequence of flushes, evictions (open and rotated side, with or without room), reloads and
   rotations, every search — whether it asks the indexes (bloom or range check) or not, whether it looks only
   at the passed columns or not — stays alive and returns exactly the matching events of all blocks flushed so
   far, each once, in flush order. *)
Theorem C11_eviction_search_exact :
  forall (event query idx : Type) (matches : query -> event -> bool) (consults is_range : query -> bool)
         (index_of : list event -> idx) (empty_idx : idx) (may : idx -> query -> bool)
         (needs_passed : query -> bool),
  (forall b q e, In e b -> matches q e = true -> may (index_of b) q = true) ->
  forall (ops : list (CmiEvict.op event)) (q : query),
  CmiEvict.search event query idx matches consults is_range index_of may needs_passed true
    (CmiEvict.run event idx index_of empty_idx true ops (CmiEvict.init event idx)) q
  = Some (filter (matches q) (concat (CmiEvict.flushed_blocks event ops))).
Proof. exact CmiEvictProofs.fixed_search_exact. Qed.
Print Assumptions C11_eviction_search_exact.

(* Eviction never changes an answer: a rebalancing step (EvictOpen, EvictRot, LoadRot) inserted anywhere into
   any execution leaves the answer of every later search as it is without it. *)
Theorem C11_eviction_never_changes_an_answer :
  forall (event query idx : Type) (matches : query -> event -> bool) (consults is_range : query -> bool)
         (index_of : list event -> idx) (empty_idx : idx) (may : idx -> query -> bool)
         (needs_passed : query -> bool),
  (forall b q e, In e b -> matches q e = true -> may (index_of b) q = true) ->
  forall (ops1 : list (CmiEvict.op event)) (e : CmiEvict.op event) (ops2 : list (CmiEvict.op event)) (q : query),
  CmiEvictProofs.is_rebalance event e = true ->
  CmiEvict.search event query idx matches consults is_range index_of may needs_passed true
    (CmiEvict.run event idx index_of empty_idx true (ops1 ++ e :: ops2) (CmiEvict.init event idx)) q
  = CmiEvict.search event query idx matches consults is_range index_of may needs_passed true
    (CmiEvict.run event idx index_of empty_idx true (ops1 ++ ops2) (CmiEvict.init event idx)) q.
Proof. exact CmiEvictProofs.fixed_eviction_transparent. Qed.
Print Assumptions C11_eviction_never_changes_an_answer.

(* Searching with the indexes = searching every (time-matching) block: in ANY state — reached by the
   operations or not — whose loaded open segment holds the indexes of its own blocks and whose rotated
   segments see their own indexes, in memory or from the files. *)
Theorem C11_search_with_or_without_indexes :
  forall (event query idx : Type) (matches : query -> event -> bool) (consults is_range : query -> bool)
         (index_of : list event -> idx) (may : idx -> query -> bool)
         (needs_passed : query -> bool),
  (forall b q e, In e b -> matches q e = true -> may (index_of b) q = true) ->
  forall (s : CmiEvict.st event idx) (q : query),
  (forall r, In r (CmiEvict.rotated event idx s) ->
     CmiEvict.rot_idx event idx index_of r = map index_of (CmiEvict.rblocks event idx r)) ->
  (forall o, CmiEvict.open event idx s = Some o -> CmiEvict.loaded event idx o = true ->
     CmiEvict.cmis event idx o = map index_of (CmiEvict.blocks event idx o)) ->
  CmiEvict.search event query idx matches consults is_range index_of may needs_passed true s q
  = Some (filter (matches q) (concat (CmiEvict.all_blocks event idx s))).
Proof. exact CmiEvictProofs.fixed_indexes_optional. Qed.
Print Assumptions C11_search_with_or_without_indexes.

(* The hypothesis is satisfiable and the theorem applies to the instance the harness's op streams are
   replayed on (event = id, index of a block = its ids, empty map = None; isearch = the code, every query). *)
Theorem C11_eviction_instance_exact :
  forall (ops : list CmiEvictCheck.iop) (q : CmiEvictCheck.iquery),
  CmiEvictCheck.isearch (fold_left (CmiEvictCheck.istep true) ops CmiEvictCheck.iinit) q
  = Some (filter (CmiEvictCheck.imatches q) (concat (CmiEvict.flushed_blocks N ops))).
Proof. exact CmiEvictProofs.inst_search_exact_code. Qed.
Print Assumptions C11_eviction_instance_exact.

(* An eviction that empties the slice but leaves isCmiLoaded set ([clear_flag] = false) violates the property:
   Flush [1]; EvictOpen; Flush [2] — the next flush pads the slice with an empty map for block 0, a
   bloom-checked filter matching event 1 returns nothing (with the flag cleared: [1]); before that flush a
   range-checked filter indexes the empty slice (blkNum > len lets blkNum = len through) and the process dies;
   match-all searches and searches after the rotation are unaffected; with room (no eviction) both variants agree. *)
Theorem C11_eviction_stale_flag_refuted :
  let run c ops := fold_left (CmiEvictCheck.istep c) ops CmiEvictCheck.iinit in
  let F := CmiEvict.Flush N in let E := CmiEvict.EvictOpen N in
  CmiEvictCheck.isearch (run false [F [1%N]; E false; F [2%N]]) (true, false, false, [1%N]) = Some []
  /\ CmiEvictCheck.isearch (run true [F [1%N]; E false; F [2%N]]) (true, false, false, [1%N]) = Some [1%N]
  /\ CmiEvictCheck.isearch (run false [F [1%N]; E false]) (true, false, false, [1%N]) = Some [1%N]
  /\ CmiEvictCheck.isearch (run false [F [1%N]; E false]) (true, true, false, [1%N]) = None
  /\ CmiEvictCheck.isearch (run true [F [1%N]; E false]) (true, true, false, [1%N]) = Some [1%N]
  /\ CmiEvictCheck.isearch (run false [F [1%N]; E false; F [2%N]]) (false, false, false, [1%N; 2%N]) = Some [1%N; 2%N]
  /\ CmiEvictCheck.isearch (run false [F [1%N]; E false; F [2%N]; CmiEvict.Rotate N]) (true, false, false, [1%N]) = Some [1%N]
  /\ CmiEvictCheck.isearch (run false [F [1%N]; E true; F [2%N]]) (true, false, false, [1%N]) = Some [1%N].
Proof. exact CmiEvictProofs.stale_flag_refuted. Qed.
Print Assumptions C11_eviction_stale_flag_refuted.

(* The tree BEFORE fix 7108dc6 (mark_unloaded = false: an open segment without loaded indexes passed no column)
   violated the statement: a query that searches only the passed columns (`*=4`) found nothing in an open segment
   whose indexes were evicted — Flush [4]; EvictOpen: [] instead of [4]; since the fix (every column to check
   counts as passed) [4]; before the eviction and after the rotation the old code was right too. *)
Theorem C11_prefix_all_column_search_without_indexes_refuted :
  let run ops := fold_left (CmiEvictCheck.istep true) ops CmiEvictCheck.iinit in
  let F := CmiEvict.Flush N in let E := CmiEvict.EvictOpen N in
  CmiEvictCheck.isearch_gen false (run [F [4%N]; E false]) (true, true, true, [4%N]) = Some []
  /\ CmiEvictCheck.isearch_gen true (run [F [4%N]; E false]) (true, true, true, [4%N]) = Some [4%N]
  /\ CmiEvictCheck.isearch_gen false (run [F [4%N]]) (true, true, true, [4%N]) = Some [4%N]
  /\ CmiEvictCheck.isearch_gen false (run [F [4%N]; E false; CmiEvict.Rotate N]) (true, true, true, [4%N]) = Some [4%N].
Proof. exact CmiEvictProofs.allcol_without_indexes_refuted. Qed.
Print Assumptions C11_prefix_all_column_search_without_indexes_refuted.

(* ---- persistent-query bookkeeping at the open -> rotated hand-over ----
   Model SigM.PqFlag (one tracked persistent query): every buffer flush of the open segment appends the block's match
   bits and updates pqNonEmptyResults[pqid] (AppendWipToSegfile); at rotation a false flag deletes the segment's pqmr
   file and queues the segment for the query's empty-segments list (checkAndRotateColFiles); the listener persists
   the queued notes; the planner (applyFopAllRequests: group-by route, old record route) skips every rotated segment
   on the persisted list.  Tie to the code: the pq streams of harness/cmd/c11/pq.go (queries asked on the fresh index
   first; flush patterns of matching / non-matching blocks; rotation + one listener pass through the hook
   VerifC11DrainPqsChan; the tracked queries asked through the filter, statistics and group-by routes), answers
   judged by the oracle, answers and per-segment bookkeeping (pqmr file exists, on the list) replayed on the model
   (cases_pq.v). *)
From SigM Require PqFlag PqFlagCheck.
From SigP Require PqFlagProofs.

(* For ANY sequence of flushed blocks the flag of the open segment is "some flushed block has a match". *)
Theorem C11_pq_flag_is_or_over_flushed_blocks :
  forall (event : Type) (matches : event -> bool) (bs : list (list event)),
  fold_left (PqFlag.flag_step event matches true) bs false = existsb (PqFlag.any_match event matches) bs.
Proof. exact PqFlagProofs.flag_is_or. Qed.
Print Assumptions C11_pq_flag_is_or_over_flushed_blocks.

(* For EVERY sequence of flushes (any pattern of matching / non-matching blocks), rotations and listener passes, the
   tracked query answered through the planner returns exactly the matching events of every block flushed so far, in
   flush order: what the search of the open segment returned is what the search after the rotation returns. *)
Theorem C11_pq_search_exact :
  forall (event : Type) (matches : event -> bool) (ops : list (PqFlag.op event)),
  PqFlag.search event matches (PqFlag.run event matches true ops)
  = PqFlag.hits event matches (PqFlag.flushed event ops).
Proof. exact PqFlagProofs.search_exact. Qed.
Print Assumptions C11_pq_search_exact.

(* A rotation or a listener pass inserted anywhere changes no answer. *)
Theorem C11_pq_rotation_never_changes_an_answer :
  forall (event : Type) (matches : event -> bool) (ops1 ops2 : list (PqFlag.op event)) (o : PqFlag.op event),
  (o = PqFlag.Rotate event \/ o = PqFlag.Listen event) ->
  PqFlag.search event matches (PqFlag.run event matches true (ops1 ++ o :: ops2))
  = PqFlag.search event matches (PqFlag.run event matches true (ops1 ++ ops2)).
Proof. exact PqFlagProofs.rotation_transparent. Qed.
Print Assumptions C11_pq_rotation_never_changes_an_answer.

(* The bookkeeping of every rotated segment is the truth about its blocks: the pqmr file is kept iff some block has a
   match, the segment is queued for / on the empty-segments list iff none has. *)
Theorem C11_pq_segment_bookkeeping_exact :
  forall (event : Type) (matches : event -> bool) (ops : list (PqFlag.op event)) (r : PqFlag.rseg event),
  In r (PqFlag.rot event (PqFlag.run event matches true ops)) ->
  PqFlag.seg_books event r
  = (existsb (PqFlag.any_match event matches) (PqFlag.rblocks event r),
     negb (existsb (PqFlag.any_match event matches) (PqFlag.rblocks event r))).
Proof. exact PqFlagProofs.books_exact. Qed.
Print Assumptions C11_pq_segment_bookkeeping_exact.

(* On the instance the case files are replayed on (event = id, query = ids it matches) the planner's answer is the
   answer of the routes that do not consult the list. *)
Theorem C11_pq_instance_exact :
  forall (m : list N) (ops : list PqFlagCheck.pop),
  PqFlagCheck.model_answer true true m ops = PqFlagCheck.model_answer true false m ops.
Proof. exact PqFlagProofs.inst_search_exact. Qed.
Print Assumptions C11_pq_instance_exact.

(* A writer whose flag is the value of the block flushed LAST violates the property: blocks [1] (match), [2] (no
   match), rotation, listener pass -> pqmr file gone, segment on the list, the planner loses event 1 (the code: [1]);
   while the segment is open and before the listener pass the answer is complete; with the matching block last, or
   one-block segments, both writers agree. *)
Theorem C11_pq_last_block_flag_refuted :
  let F := PqFlag.Flush N in let R := PqFlag.Rotate N in let L := PqFlag.Listen N in
  let ans acc ops := PqFlag.search N (PqFlagCheck.qmatches [1%N]) (PqFlagCheck.prun acc [1%N] ops) in
  let books acc ops := map (PqFlag.seg_books N) (PqFlag.rot N (PqFlagCheck.prun acc [1%N] ops)) in
  ans false [F [1%N]; F [2%N]; R; L] = []
  /\ ans true [F [1%N]; F [2%N]; R; L] = [1%N]
  /\ books false [F [1%N]; F [2%N]; R; L] = [(false, true)]
  /\ books true [F [1%N]; F [2%N]; R; L] = [(true, false)]
  /\ ans false [F [1%N]; F [2%N]] = [1%N]
  /\ ans false [F [1%N]; F [2%N]; R] = [1%N]
  /\ ans false [F [2%N]; F [1%N]; R; L] = [1%N]
  /\ ans false [F [1%N]; R; L; F [2%N]; R; L] = [1%N].
Proof. exact PqFlagProofs.last_block_flag_refuted. Qed.
Print Assumptions C11_pq_last_block_flag_refuted.

(* ---- "no deadlocks": the lock discipline of the hand-over lists ----
   Every step of the model above is one critical section of a reader/writer lock in the code
   (globalMetadata.updateLock, UnrotatedInfoLock, ...).  Go's sync.RWMutex prefers writers: once a
   writer has called Lock(), every new RLock() waits.  The lock programs of the real functions
   (acquisitions and releases in call order, callees expanded) are read from the Go source on every
   run and [nonreentrant] is evaluated on them inside Coq (cases_locks.v).

   Goroutines (any number) that each run ANY sequence of calls whose lock programs are
   non-reentrant never reach a state in which somebody still has work and nobody can move,
   whatever the scheduler does ... *)
Theorem C11_lock_progress :
  forall (threads : list (list (list lact))) (sched : list nat),
  (forall calls c, In calls threads -> In c calls -> nonreentrant c = true) ->
  stuck (lrun (linit threads) sched) = false.
Proof. exact lock_progress. Qed.
Print Assumptions C11_lock_progress.

(* ... and from every state they can reach, all of them can be run to completion. *)
Theorem C11_lock_completion :
  forall (threads : list (list (list lact))) (sched : list nat),
  (forall calls c, In calls threads -> In c calls -> nonreentrant c = true) ->
  exists rest, all_finished (lrun (linit threads) (sched ++ rest)) = true.
Proof. exact lock_completion. Qed.
Print Assumptions C11_lock_completion.

(* Without the premise the statement is false: ONE call that takes the read lock while it holds it
   and ONE writer.  After the outer RLock and the writer's Lock() announcement the state is stuck
   and stays so under every continuation (a deadlock, not a delay), although the same call run by
   readers only always finishes (so sequential tests and reader-only stress cannot see it). *)
Theorem C11_recursive_read_lock_refuted :
  exists (reader writer : list lact) (sched : list nat),
    nonreentrant reader = false /\ nonreentrant writer = true /\
    let ts := lrun (linit [[reader]; [writer]]) sched in
    stuck ts = true /\ (forall more, lrun ts more = ts) /\
    (exists s1, all_finished (lrun (linit [[reader]; [reader]]) s1) = true).
Proof. exact recursive_read_lock_refuted. Qed.
Print Assumptions C11_recursive_read_lock_refuted.

(* the premise is satisfiable by programs that do take the lock in both modes (non-vacuity) *)
Example C11_lock_discipline_nonvacuous :
  nonreentrant [RAcq; RRel; WAcq; WRel; RAcq; RRel] = true /\
  stuck (lrun (linit [[[RAcq; RRel]; [RAcq; RRel]]; [[WAcq; WRel]]]) [0; 1; 0; 1; 1; 0; 0]) = false.
Proof. split; vm_compute; reflexivity. Qed.

(* The lock model is a lock: whatever the programs do, in every reachable state at most one goroutine
   is inside a write section and then nobody is inside a read section (so the steps of the hand-over
   model, each one critical section, are atomic with respect to each other). *)
Theorem C11_lock_exclusion :
  forall (threads : list (list (list lact))) (sched : list nat),
  let ts := lrun (linit threads) sched in
  writers_inside ts <= 1 /\ (writers_inside ts = 1 -> readers ts = 0).
Proof. exact lock_exclusion. Qed.
Print Assumptions C11_lock_exclusion.

(* ==== lock discipline of the code as it is NOW (skeletons regenerated from /repo's type-checked source on every run) ====
   coq/gen/GenLocks.v: the lock / channel skeleton of every function of the 19 packages around ingest, rotation, metadata
   and query execution (gotrans locktrace; static calls among them followed six levels deep, so a lock taken by a callee is
   seen in the caller).  LockTrace.analyse computes every lock set a skeleton can reach; LockTraceProofs.analyse_sound:
   a clean report covers EVERY trace (all branch choices, any number of loop iterations). *)
Theorem C11_lock_analysis_sound : forall (fuel : nat) (s : LockTrace.stm),
  LockTrace.analyse fuel s = [] -> forall t o, LockTrace.exec s t o -> LockTrace.trace_ok t.
Proof. exact LockTraceProofs.analyse_sound. Qed.
Print Assumptions C11_lock_analysis_sound.

(* no function of those packages, other than the listed hazards of the unchanged tree, has a trace on which the goroutine
   acquires a mutex it already holds (the recursive read lock that C11_recursive_read_lock_refuted shows to be fatal) or
   blocks on a channel while holding a lock *)
Theorem C11_lock_discipline : forall (name : String.string) (s : LockTrace.stm),
  In (name, s) GenLocks.lk_all -> GenLocksCheck.allowed name GenLocksCheck.lk_exceptions = [] ->
  forall t o, LockTrace.exec s t o -> LockTrace.trace_ok t.
Proof. exact GenLocksProofs.lk_discipline. Qed.
Print Assumptions C11_lock_discipline.

(* non-vacuity: the hand-over functions (rotation, metadata publication and deletion, unrotated info, segstore creation,
   the searcher's segment enumeration) are present and not among the exceptions *)
Theorem C11_lock_discipline_covers_handover :
  forallb GenLocksProofs.lk_covered GenLocksProofs.lk_c11_functions = true.
Proof. exact GenLocksProofs.lk_c11_functions_covered. Qed.

(* ---- lock ORDER: at every acquisition on every trace of an unlisted function, each mutex already held precedes the
   acquired one in GenLocksCheck.lk_order_graph (all nestings of all unlisted functions); that graph carries a ranking that
   increases along every edge (checked on the regenerated skeletons on every run), so goroutines running those functions
   cannot wait for each other in a ring.  (The only cycle of the unchanged tree, rqsLock <-> arqMapLock, is closed by
   RestartQuery, a listed exception.) *)
Theorem C11_lock_acquisitions_follow_one_order : forall (name : String.string) (s : LockTrace.stm),
  In (name, s) GenLocks.lk_all -> GenLocksCheck.allowed name GenLocksCheck.lk_exceptions = [] ->
  forall t1 k l t2 o h, LockTrace.exec s (t1 ++ (k, l) :: t2) o -> LockOrder.is_acquire k = true ->
  LockTrace.mrun [] t1 = inl h -> LockOrder.justified GenLocksCheck.lk_order_graph (h, l).
Proof. exact GenLocksProofs.lk_acquisitions_follow_the_order. Qed.
Print Assumptions C11_lock_acquisitions_follow_one_order.

Theorem C11_no_ring_of_waiting_goroutines : forall ws : list LockOrder.waiter,
  Forall (LockOrder.justified GenLocksCheck.lk_order_graph) ws -> Forall (fun w => fst w <> []) ws -> ~ LockOrder.ring ws.
Proof. exact GenLocksProofs.lk_no_ring. Qed.
Print Assumptions C11_no_ring_of_waiting_goroutines.

(* ---- the hand-over order, from the source: on EVERY path through checkAndRotateColFiles (call-order skeleton
   regenerated from /repo on every run, callees inlined) the rotated segment is registered in the global metadata
   (metadata.AddSegMetaToMetadata) before the writer drops its unrotated information (CleanupUnrotatedSegment): at
   no instant is the segment in neither place (rule C11.* of GenOrderCheck.co_rules; Handover.v takes this order
   as the writer's script). ---- *)
From SigP Require GenOrderCheck GenOrderC11.
Theorem C11_code_registers_rotated_before_dropping_unrotated : forall r : GenOrderCheck.rule,
  In r GenOrderCheck.c11_rules -> GenOrderCheck.rule_holds r.
Proof. exact GenOrderC11.co_C11_rules_hold. Qed.
Print Assumptions C11_code_registers_rotated_before_dropping_unrotated.

(* ---- the shared tables are touched only under their locks, from the source: for the segstore table, the
   unrotated-segment table, the rotated metadata's reverse index and per-table lists and the persistent-query
   results, EVERY function of the writer / metadata / query packages whose skeleton (regenerated from /repo on every
   run by gotrans in guardtrace mode: mutex operations and every read or write of the variable, callees inlined)
   touches the variable has, on every path, locked the variable's mutex more often than unlocked it at that point —
   except the listed functions that are entered with the lock held or run at initialisation (rules C11.* of
   GenGuardCheck.gb_rules).  A removed Lock()/RLock() around such an access breaks this theorem. ---- *)
From SigP Require GenGuardCheck GenGuardC11.
Theorem C11_code_shared_tables_touched_only_under_their_locks : forall r : GenGuardCheck.grule,
  In r GenGuardCheck.c11_grules -> GenGuardCheck.grule_holds r.
Proof. exact GenGuardC11.gb_C11_rules_hold. Qed.
Print Assumptions C11_code_shared_tables_touched_only_under_their_locks.

(* C11 — Concurrent ingest, flush, rotation and search stay consistent (the part that is logic:
   the open -> rotated hand-over protocol against the query's two list snapshots).
   Statements only; proofs in SigP.HandoverProofs.
   An execution is ANY list of events: any number of segments being created, flushed and rotated
   (AddRot then DelUnrot), any number of concurrent queries (SnapU, SnapR, Resolve), in ANY
   interleaving; events that are not enabled are no-ops, so every list is an execution. *)
From SigM Require Import Base Handover.
From SigP Require Import HandoverProofs.
Open Scope nat_scope.

(* A query returns every block that was flushed before the query began EXACTLY ONCE, for record
   queries and statistics queries alike, whatever rotations, flushes and other queries interleave
   with it. *)
Theorem C11_handover_exactly_once :
  forall (nseg : nat) (is_stats : nat -> bool) (pre post : list ev) (r s b : nat),
  let y1 := run nseg true is_stats sys_init pre in
  stage (rds y1 r) = RIdle ->
  s < nseg -> ph (segs y1 s) <> Absent -> b < nb (segs y1 s) ->
  let y := run nseg true is_stats y1 (SnapU r :: post) in
  stage (rds y r) = RDone ->
  count_pair (s, b) (result (rds y r)) = 1.
Proof. exact handover_exactly_once. Qed.
Print Assumptions C11_handover_exactly_once.

(* Nothing at all (also blocks flushed while the query runs) is ever returned twice. *)
Theorem C11_handover_at_most_once :
  forall (nseg : nat) (is_stats : nat -> bool) (pre post : list ev) (r : nat) (x : nat * nat),
  let y1 := run nseg true is_stats sys_init pre in
  stage (rds y1 r) = RIdle ->
  let y := run nseg true is_stats y1 (SnapU r :: post) in
  stage (rds y r) = RDone ->
  count_pair x (result (rds y r)) <= 1.
Proof. exact handover_at_most_once. Qed.
Print Assumptions C11_handover_at_most_once.

(* Queries never change what is stored: after any interleaving the segment table is the one the
   writers' events alone produce (quiescent state = sequential execution of the same ingests). *)
Theorem C11_queries_transparent :
  forall nseg sd is_stats evs y s,
  segs (run nseg sd is_stats y evs) s = segs (run nseg sd is_stats y (filter is_writer_ev evs)) s.
Proof. exact readers_transparent. Qed.
Print Assumptions C11_queries_transparent.

(* The statistics path before fix 08e84b8 (no de-duplication of a segment present in both
   snapshots) violates the property: witness interleaving, the block is counted twice. *)
Theorem C11_stats_double_count_refuted :
  exists evs, let y := run 1 false (fun _ => true) sys_init evs in
    stage (rds y 0) = RDone /\ count_pair (0, 0) (result (rds y 0)) = 2.
Proof. exact stats_double_count_refuted. Qed.
Print Assumptions C11_stats_double_count_refuted.

(* C12 — Trace views agree with the ingested spans.
   Statements only; proofs are in SigP.TraceProofs / SigP.TraceQsProofs / SigP.TracePageProofs /
   SigP.TraceAggProofs.

   The model (SigM.Trace) is a function of the records the query engine returns (and of the
   order of the group-by buckets / of the Go map iteration where the code depends on it);
   these orders are universally quantified in the theorems. *)
From SigM Require Import Base Trace TracePage TraceAgg.
From SigP Require Import BaseProofs TraceQsProofs TraceProofs TracePageProofs TraceAggProofs.
From Coq Require Import Permutation.
Open Scope N_scope.

(* ------------------------------------------------------------------------------------ *)
(* OTLP request -> stored events                                                         *)
(* ------------------------------------------------------------------------------------ *)
(* For ALL requests: the events stored for a ResourceSpans entry are a function of that entry alone
   (whatever resources precede or follow it in the request); in particular every stored span carries
   the service name of ITS OWN resource, "" when the resource has no Resource message or no
   service.name attribute; reordering the resources of a request permutes the events. *)
Theorem C12_request_events_resource_local : forall pre r post,
  request_events (pre ++ r :: post) = request_events pre ++ resource_events r ++ request_events post.
Proof. exact request_events_resource_local. Qed.
Print Assumptions C12_request_events_resource_local.

Theorem C12_event_service_own_resource : forall req e,
  In e (request_events req) ->
  exists r o, In r req /\ In o (concat (or_scopes r)) /\ e = span_to_event (resource_service r) o /\
              sp_service e = resource_service r.
Proof. exact event_service_own_resource. Qed.
Print Assumptions C12_event_service_own_resource.

Theorem C12_request_events_perm : forall req req',
  Permutation req req' -> Permutation (request_events req) (request_events req').
Proof. exact request_events_perm. Qed.
Print Assumptions C12_request_events_perm.

Theorem C12_unnamed_resource_service : forall r,
  match or_attrs r with
  | None => True
  | Some attrs => forallb (fun kv => negb (str_eqb (fst kv) service_name_key)) attrs = true
  end -> resource_service r = [].
Proof. exact unnamed_resource_service. Qed.
Print Assumptions C12_unnamed_resource_service.

Theorem C12_named_resource_service : forall pre v post scopes,
  forallb (fun kv => negb (str_eqb (fst kv) service_name_key)) post = true ->
  resource_service (mkRes (Some (pre ++ (service_name_key, Some v) :: post)) scopes) = v.
Proof. exact named_resource_service. Qed.
Print Assumptions C12_named_resource_service.

(* ------------------------------------------------------------------------------------ *)
(* span tree                                                                             *)
(* ------------------------------------------------------------------------------------ *)
(* Full statement: "the span tree of a trace contains every span of that trace exactly once
   beneath its parent".  It cannot hold for arbitrary span lists (missing parents, several
   roots, cycles, duplicate ids: the property text itself allows an error or a partial view
   there), so completeness carries the exact boolean guard [wf_forest] (unique non-empty span
   ids, a single root, all parents present, no parent cycle); the two "beneath its parent" /
   "only its own spans" parts below hold for ALL inputs.  [order] is the iteration order of the
   Go map (any permutation of the ids). *)
Theorem C12_tree_contains_each_span_once_guarded : forall order recs,
  wf_forest recs = true -> Permutation order (map sp_id recs) ->
  exists t, gantt_view order recs = Some t /\ Permutation (tree_ids t) (map sp_id recs).
Proof. exact tree_contains_each_span_once_guarded. Qed.
Print Assumptions C12_tree_contains_each_span_once_guarded.

(* non-vacuity of the guard: a root with two children and a grandchild *)
Example C12_wf_forest_satisfiable :
  wf_forest [mkSpan [1] [10] [] [65] [114] 100 200 100 1; mkSpan [1] [11] [10] [66] [99] 110 150 40 2;
             mkSpan [1] [12] [10] [65] [99] 105 120 15 1; mkSpan [1] [13] [11] [67] [103] 90 130 40 1] = true.
Proof. vm_compute. reflexivity. Qed.
(* ... and the guard is needed: with a missing parent the orphan is silently left out (partial view) *)
Example C12_missing_parent_partial_view :
  option_map tree_ids (gantt_view [[10]; [11]]
     [mkSpan [1] [10] [] [65] [114] 100 200 100 1; mkSpan [1] [11] [99] [66] [99] 110 150 40 2]) = Some [[10]].
Proof. vm_compute. reflexivity. Qed.

(* For ALL span lists (any malformation) and any map order: every node hangs beneath the node
   whose id is its recorded parent id, the root has no parent id. *)
Theorem C12_tree_every_node_beneath_its_parent : forall order recs t,
  gantt_view order recs = Some t ->
  sp_parent (g_span (tree_root t)) = [] /\
  forall p c, In (p, c) (tree_edges t) -> sp_parent (g_span c) = sp_id (g_span p) /\ sp_parent (g_span c) <> [].
Proof. exact tree_edges_parent. Qed.
Print Assumptions C12_tree_every_node_beneath_its_parent.

(* tree_total (1): the tree builder is total.  [build_span_tree] walks the structure reachable
   from the root with a depth bound equal to the number of spans; for EVERY input any larger
   bound gives the same value, i.e. what the root pointer reaches is a finite tree (the JSON
   encoder's recursion terminates), whatever cycles the parent ids contain. *)
Theorem C12_tree_total : forall order recs k,
  let m := fst (gantt_maps recs) in let pm := snd (gantt_maps recs) in
  build_span_tree_fuel (length m + k) order m pm = build_span_tree order m pm.
Proof. exact tree_total_fuel. Qed.
Print Assumptions C12_tree_total.

(* tree_total (2): every span in the answer reaches the root by following the recorded parent
   ids, hence a span on a parent cycle is never part of the answer. *)
Theorem C12_tree_nodes_reach_root : forall order recs t x,
  gantt_view order recs = Some t -> In x (tree_ids t) ->
  let pm := snd (gantt_maps recs) in
  let rid := sp_id (g_span (tree_root t)) in
  parent_of pm rid = None /\ exists k, climb (parent_of pm) k x = Some rid.
Proof. exact tree_nodes_reach_root. Qed.
Print Assumptions C12_tree_nodes_reach_root.

Theorem C12_tree_excludes_cycles : forall order recs t x,
  gantt_view order recs = Some t -> In x (tree_ids t) -> ~ on_cycle (snd (gantt_maps recs)) x.
Proof. exact tree_excludes_cycles. Qed.
Print Assumptions C12_tree_excludes_cycles.

(* no_cross_trace_attribution (tree): every node of the answer is one of the records the tree
   was built from, with that record's own fields — so a tree requested with trace_id=T (records
   of T only) never contains a span of another trace. *)
Theorem C12_no_cross_trace_attribution_tree : forall order recs t n,
  gantt_view order recs = Some t -> In n (tree_nodes t) -> In (g_span n) recs.
Proof. exact tree_nodes_from_records. Qed.
Print Assumptions C12_no_cross_trace_attribution_tree.

Theorem C12_no_cross_trace_attribution : forall order recs T t,
  gantt_view order (filter (of_trace T) recs) = Some t ->
  Forall (fun n => sp_trace (g_span n) = T) (tree_nodes t).
Proof. exact tree_only_own_trace. Qed.
Print Assumptions C12_no_cross_trace_attribution.

(* ------------------------------------------------------------------------------------ *)
(* trace search                                                                          *)
(* ------------------------------------------------------------------------------------ *)
(* no_cross_trace_attribution (search): the summary of trace t (root service/operation, span
   count, error-span count) is a function of the spans of t alone. *)
Theorem C12_no_cross_trace_attribution_search : forall winS winE recs recs' t,
  filter (of_trace t) recs = filter (of_trace t) recs' ->
  summarise winS winE recs t = summarise winS winE recs' t.
Proof. exact no_cross_trace_attribution_search. Qed.
Print Assumptions C12_no_cross_trace_attribution_search.

(* Full statement, for ALL span lists: "trace search lists each trace rooted in the time window exactly
   once with its root service and operation, span count and error-span count".  Every page request p
   gets the group-by buckets in its own arbitrary order [bo p] (the engine's order differs from request
   to request); the handler sorts them by trace id before slicing, so the pages 1..n together list
   exactly the listable traces (single-valued root attributes, root inside the window), each once.
   A trace whose root spans have several start/end times, services or operations is left out (the
   property text allows a partial view for "several roots"); it no longer affects the other traces. *)
Theorem C12_search_lists_each_trace_once : forall winS winE recs (bo : nat -> list str) n,
  (forall p, Permutation (bo p) (distinct_traces recs)) -> NoDup (distinct_traces recs) ->
  (length (distinct_traces recs) <= n * TRACE_PAGE_LIMIT)%nat ->
  let listed := flat_map (fun p => search_traces winS winE recs (bo p) p) (seq 1 n) in
  map ts_id listed = filter (listable winS winE recs) (str_sort (distinct_traces recs)) /\
  NoDup (map ts_id listed) /\
  (forall t, In t (map ts_id listed) <-> In t (map sp_trace recs) /\ listable winS winE recs t = true) /\
  forall s, In s listed ->
    root_info_of winS winE recs (ts_id s) = ROk (ts_start s) (ts_end s) (ts_service s) (ts_name s) /\
    ts_count s = count_if (of_trace (ts_id s)) recs /\
    ts_errs s = count_if (fun x => of_trace (ts_id s) x && is_error x) recs.
Proof. exact search_lists_each_trace_once. Qed.
Print Assumptions C12_search_lists_each_trace_once.

(* the NoDup premise is a fact about [distinct_traces], not an assumption on the input *)
Theorem C12_distinct_traces_nodup : forall recs, NoDup (distinct_traces recs).
Proof. exact distinct_traces_nodup. Qed.
Print Assumptions C12_distinct_traces_nodup.

(* whatever order the engine returns the buckets in, the handler slices the same sequence *)
Theorem C12_bucket_order_irrelevant : forall winS winE recs b1 b2 p,
  Permutation b1 b2 -> search_traces winS winE recs b1 p = search_traces winS winE recs b2 p.
Proof. exact bucket_order_irrelevant. Qed.
Print Assumptions C12_bucket_order_irrelevant.

(* PRE-FIX documentation (about [search_traces_prefix], the handler before fixes
   C12-search-pages-sorted-trace-ids and C12-search-skip-multi-root-trace).
   The buckets were sliced in the order of the response, which is the iteration order of a Go map and
   differed between the requests for page 1 and page 2: one listable trace appeared twice, another
   never (the fixed model lists both exactly once for the same two orders). *)
Theorem C12_prefix_search_pages_refuted :
  exists recs b1 b2 t_twice t_never,
    Permutation b1 b2 /\ NoDup b1 /\ b1 = distinct_traces recs /\
    listable 0 1 recs t_twice = true /\ listable 0 1 recs t_never = true /\
    match search_traces_prefix 0 1 recs b1 1, search_traces_prefix 0 1 recs b2 2 with
    | Some p1, Some p2 =>
      count_if (fun s => str_eqb (ts_id s) t_twice) (p1 ++ p2) = 2 /\
      count_if (fun s => str_eqb (ts_id s) t_never) (p1 ++ p2) = 0
    | _, _ => False
    end /\
    let p12 := search_traces 0 1 recs b1 1 ++ search_traces 0 1 recs b2 2 in
    count_if (fun s => str_eqb (ts_id s) t_twice) p12 = 1 /\ count_if (fun s => str_eqb (ts_id s) t_never) p12 = 1.
Proof. exact prefix_search_pages_refuted. Qed.
Print Assumptions C12_prefix_search_pages_refuted.

(* One trace with two root spans that start at different times turned the answer for the whole page
   into HTTP 500; the well-formed trace next to it was not listed (it is now). *)
Theorem C12_prefix_search_abort_refuted :
  exists recs t, listable 0 1 recs t = true /\
    search_traces_prefix 0 1 recs (distinct_traces recs) 1 = None /\
    map ts_id (search_traces 0 1 recs (distinct_traces recs) 1) = [t].
Proof. exact prefix_search_abort_refuted. Qed.
Print Assumptions C12_prefix_search_abort_refuted.

(* ------------------------------------------------------------------------------------ *)
(* service dependency graph                                                              *)
(* ------------------------------------------------------------------------------------ *)
(* Full statement: "the service dependency graph counts exactly the parent-child span pairs that cross
   services".  The handler reads the whole window (pages of 1000 until an empty page) and looks a
   parent up within the span's own trace, so for ALL record lists in which no (trace id, span id)
   pair is repeated every off-diagonal cell is the exact number of (child, parent) pairs of one trace
   crossing those two services.  (The records are what the engine's pages deliver; with more than 1000
   spans its from/size pages can overlap — finding paging_timestamp_ties of C05, still open — and then
   the premise fails.) *)
Theorem C12_dep_graph_counts_exact : forall recs a b,
  NoDup (map span_key recs) -> a <> b ->
  dep_count (dep_graph recs) (a, b) = cross_pairs recs a b.
Proof. exact dep_graph_counts_exact. Qed.
Print Assumptions C12_dep_graph_counts_exact.

Theorem C12_span_key_injective : forall t i t' i', skey t i = skey t' i' <-> t = t' /\ i = i'.
Proof. exact skey_inj. Qed.
Print Assumptions C12_span_key_injective.

(* PRE-FIX documentation (about [dep_graph_prefix], the handler before fixes
   C12-depgraph-all-pages and C12-parent-lookup-within-trace).
   The generated query carried no size, so only the first 100 rows were seen:
   150 traces A -> B (300 spans) gave A -> B = 50 (the fixed model: 150). *)
Theorem C12_prefix_dep_graph_page_refuted :
  exists recs, NoDup (map span_key recs) /\ length recs = 300%nat /\
    cross_pairs recs [65] [66] = 150 /\ dep_count (dep_graph_prefix DEFAULT_PAGE recs) ([65], [66]) = 50 /\
    dep_count (dep_graph recs) ([65], [66]) = 150.
Proof. exact prefix_dep_graph_page_refuted. Qed.
Print Assumptions C12_prefix_dep_graph_page_refuted.

(* Spans were joined to parents by span id alone, so a span naming a parent id that exists only in
   ANOTHER trace produced an edge no trace contains (the fixed model: no edge). *)
Theorem C12_prefix_dep_graph_cross_trace_refuted :
  exists recs, NoDup (map span_key recs) /\ (length recs <= DEFAULT_PAGE)%nat /\
    cross_pairs recs [88;50] [89;50] = 0 /\
    dep_count (dep_graph_prefix DEFAULT_PAGE recs) ([88;50], [89;50]) = 1 /\
    dep_count (dep_graph recs) ([88;50], [89;50]) = 0.
Proof. exact prefix_dep_graph_cross_trace_refuted. Qed.
Print Assumptions C12_prefix_dep_graph_cross_trace_refuted.

(* ------------------------------------------------------------------------------------ *)
(* percentiles and RED metrics                                                           *)
(* ------------------------------------------------------------------------------------ *)
(* quickSelect (median-of-medians pivots, in-place chunk sorting modelled) returns the k-th
   smallest element, for ALL lists and all valid k.  [bounded]: elements below 2^63, so that the
   uint64 average (a+b)/2 of the pivot computation cannot wrap (millisecond durations are far
   below; see C12_red_durations_bounded). *)
Theorem C12_quickselect_correct : forall l k, bounded l -> (k < length l)%nat ->
  quickselect l k = Some (nth k (n_sort l) 0).
Proof. exact quickselect_correct. Qed.
Print Assumptions C12_quickselect_correct.

Theorem C12_sort_is_sorted_permutation : forall l, Sorted.Sorted N.le (n_sort l) /\ Permutation (n_sort l) l.
Proof. intro l. split; [apply n_sort_sorted | apply n_sort_perm]. Qed.
Print Assumptions C12_sort_is_sorted_permutation.

(* FindPercentileData = linear interpolation between the neighbouring order statistics (index
   arithmetic k = p*(n-1)/100, floor and ceil), as an exact rational (value * 100). *)
Theorem C12_find_percentile_correct : forall l p, l <> [] -> (p <= 100)%nat -> bounded l ->
  find_percentile_x100 l p = Some (pct_spec_x100 (n_sort l) p).
Proof. exact find_percentile_correct. Qed.
Print Assumptions C12_find_percentile_correct.

(* without the bound the model (like the code) does not terminate: the wrapped average 1 is below
   both elements, the partition returns the whole slice again *)
Example C12_quickselect_wrap : quickselect [9223372036854775808; 9223372036854775810] 0 = None.
Proof. vm_compute. reflexivity. Qed.

Theorem C12_red_durations_bounded : forall l : list span,
  Forall (fun s => sp_dur s < pow2_64) l -> bounded (map (fun s => sp_dur s / 1000000) l).
Proof. exact ms_bounded. Qed.
Print Assumptions C12_red_durations_bounded.

(* For every service: the stored RED record is computed from exactly that service's entry spans
   (no parent id, or no span of its trace with that id in the same service): rate = count/60, error rate =
   100*errors/count, p50/p90/p95/p99 = interpolated percentiles of their sorted ms durations.
   Hypotheses: no (trace id, span id) pair is repeated (parents are looked up within the span's own
   trace), durations are uint64. *)
Theorem C12_red_metrics_exact : forall recs svc,
  NoDup (map span_key recs) -> Forall (fun s => sp_dur s < pow2_64) recs ->
  let es := filter (fun s => entry_spec recs s && str_eqb (sp_service s) svc) recs in
  let ds := n_sort (map (fun s => sp_dur s / 1000000) es) in
  lookup svc (red_metrics recs) =
    match es with
    | [] => None
    | _ => Some (mkRed (N.of_nat (length es)) (N.of_nat (length (filter is_error es)))
                       (Some (pct_spec_x100 ds 50)) (Some (pct_spec_x100 ds 90))
                       (Some (pct_spec_x100 ds 95)) (Some (pct_spec_x100 ds 99)))
    end.
Proof. exact red_metrics_exact. Qed.
Print Assumptions C12_red_metrics_exact.

(* ------------------------------------------------------------------------------------ *)
(* Paged reads: views over more records than one internal result page (1000)             *)
(* ------------------------------------------------------------------------------------ *)
(* The dependency graph, the RED job and the span tree read their records with from = 0, 1000, 2000, ...
   (size 1000); every request runs the query again and passes its hits, batch by batch, through
   head(size+from) and the scroller(from) (SigM.TracePage follows headProcessor.Process and
   scrollProcessor.Process with their uint64 counters).
   One request: for ANY batching of the hits the answer is exactly the slice [from, from+size) of the hit
   sequence — in particular the offset may end anywhere inside a batch. *)
Theorem C12_page_is_the_from_size_slice : forall (A : Type) from size (bs : list (list A)),
  from + size < pow2_64 ->
  engine_page from size bs = firstn (N.to_nat size) (skipn (N.to_nat from) (concat bs)).
Proof. exact @engine_page_spec. Qed.
Print Assumptions C12_page_is_the_from_size_slice.

Theorem C12_page_batching_irrelevant : forall (A : Type) from size (bs bs' : list (list A)),
  from + size < pow2_64 -> concat bs = concat bs' -> engine_page from size bs = engine_page from size bs'.
Proof. exact @engine_page_batching_irrelevant. Qed.
Print Assumptions C12_page_batching_irrelevant.

(* the searcher may stop after the head stage has seen size+from hits: a long enough prefix gives the same page *)
Theorem C12_page_of_prefix : forall (A : Type) from size (bs : list (list A)) recs k,
  from + size < pow2_64 -> concat bs = firstn k recs -> (N.to_nat (from + size) <= k)%nat ->
  engine_page from size bs = firstn (N.to_nat size) (skipn (N.to_nat from) recs).
Proof. exact @engine_page_prefix. Qed.
Print Assumptions C12_page_of_prefix.

(* The read loops: when every page request sees the same hit sequence [recs] (each request in its OWN
   batching [bat from], universally quantified), the loop "until an empty page" (dependency graph, RED) and
   the loop "until a page shorter than size" (span tree) return every record exactly once, in order
   (multiples of the page size included).  The premise "same hit sequence for every request" is what fails
   for hits with equal timestamps (finding paging_timestamp_ties of C05).

   FULL STATEMENT (false for the code): ... for every number of records.
   A search request with from > 10 000 is not executed (ParseAndExecutePipeRequest: isScrollMax, answered
   with no hits), so the loops end after the request from = 10 000.  Guarded variant: the exact guard
   [lenN recs <= reachable page] (= 11 000 records for the page size 1000 of the handlers); refutation:
   11 001 records -> both loops return the newest 11 000 only (known finding
   window_over_11000_spans_truncated: the dependency graph and the RED metrics of a window with more than
   11 000 spans are computed from its newest 11 000 spans). *)
Theorem C12_paged_read_all_complete_guarded : forall (A : Type) page (bat : N -> list (list A)) recs,
  0 < page -> lenN recs + 2 * page < pow2_64 -> lenN recs <= reachable page ->
  (forall from, concat (bat from) = recs) ->
  paged_read_all page bat (length recs) = recs.
Proof. exact @paged_read_all_complete. Qed.
Print Assumptions C12_paged_read_all_complete_guarded.

Theorem C12_paged_read_trace_complete_guarded : forall (A : Type) page (bat : N -> list (list A)) recs,
  0 < page -> lenN recs + 2 * page < pow2_64 -> lenN recs <= reachable page ->
  (forall from, concat (bat from) = recs) ->
  paged_read_trace page bat (length recs) = recs.
Proof. exact @paged_read_trace_complete. Qed.
Print Assumptions C12_paged_read_trace_complete_guarded.

Theorem C12_paged_read_complete_refuted :
  reachable PAGE = 11000 /\
  exists recs : list N, lenN recs = 11001 /\
    paged_read_all PAGE (fun _ => [recs]) (length recs) = firstn (N.to_nat 11000) recs /\
    paged_read_trace PAGE (fun _ => [recs]) (length recs) = firstn (N.to_nat 11000) recs /\
    firstn (N.to_nat 11000) recs <> recs.
Proof. exact paged_read_over_reachable_refuted. Qed.
Print Assumptions C12_paged_read_complete_refuted.

(* non-vacuity of the guard: 2 500 records in batches of 700 *)
Example C12_paged_read_guard_satisfiable :
  let recs := seq_N 0 (N.to_nat 2500) in
  (lenN recs <=? reachable PAGE) = true /\
  paged_read_all PAGE (fun _ => cut [700; 700; 700]%nat recs) (length recs) = recs.
Proof. vm_compute. split; reflexivity. Qed.

(* Sensitivity of the model: a scroller whose counter goes down by the SIZE OF THE BATCH instead of by the
   number of records it discarded wraps around when the offset ends strictly inside a batch, and drops every
   later batch: from = 1 over the batches [0;1] [2] gives [1] instead of [1;2]. *)
Theorem C12_scroll_counter_by_batch_refuted :
  exists (from : N) (bs : list (list N)),
    concat (scroll_run_by_batch from bs) <> skipn (N.to_nat from) (concat bs) /\
    concat (scroll_run from bs) = skipn (N.to_nat from) (concat bs) /\
    concat (scroll_run_by_batch from bs) = [1] /\ skipn (N.to_nat from) (concat bs) = [1; 2].
Proof. exact scroll_by_batch_refuted. Qed.
Print Assumptions C12_scroll_counter_by_batch_refuted.

(* The views over the paged reads are the views over the records: the dependency graph of a window of up to
   11 000 spans (any number of pages, any batching per page request) counts exactly the crossing parent-child
   pairs; RED and the span tree likewise. *)
Theorem C12_dep_graph_paged_exact : forall (bat : N -> list (list span)) recs a b,
  (forall from, concat (bat from) = recs) -> lenN recs <= 11000 ->
  NoDup (map span_key recs) -> a <> b ->
  dep_count (dep_graph (paged_read_all PAGE bat (length recs))) (a, b) = cross_pairs recs a b.
Proof. exact dep_graph_paged_exact. Qed.
Print Assumptions C12_dep_graph_paged_exact.

Theorem C12_red_metrics_paged : forall (bat : N -> list (list span)) recs,
  (forall from, concat (bat from) = recs) -> lenN recs <= 11000 ->
  red_metrics (paged_read_all PAGE bat (length recs)) = red_metrics recs.
Proof. exact red_metrics_paged. Qed.
Print Assumptions C12_red_metrics_paged.

Theorem C12_gantt_view_paged : forall (bat : N -> list (list span)) order recs,
  (forall from, concat (bat from) = recs) -> lenN recs <= 11000 ->
  gantt_view order (paged_read_trace PAGE bat (length recs)) = gantt_view order recs.
Proof. exact gantt_view_paged. Qed.
Print Assumptions C12_gantt_view_paged.

(* ==================================================================================== *)
(* Seeded mutant C12h: views that AGGREGATE OVER SEVERAL STORED PERIODS (model SigM.TraceAgg)             *)
(* ==================================================================================== *)
(* /dependencies (ProcessAggregatedDependencyGraphs, also behind the Jaeger ProcessGetDependencies) merges the
   graphs that the hourly job (DependencyGraphThread = MakeTracesDependancyGraph + writeDependencyMatrix)
   stored: [run_jobs periods] is the store after the job ran once per period (time of the run, spans that
   arrived in its window; an empty matrix is not stored), [agg_view lo hi store] the answer for a range.
   The model follows the code after fixes 37f2dcb (the search of the handler asks for 10000 hits) and 25574c6
   (a matrix is stored as one JSON string column "graph"; records with one column per edge, as written before,
   are still read).

   FULL STATEMENT (property text: "the service dependency graph counts exactly the parent-child span pairs that
   cross services", here for the merged view): for ALL lists of periods, ranges and services a <> b
       dep_count (agg_view lo hi (run_jobs periods)) (a, b)
       = cross_pairs (concat (periods_in lo hi periods)) a b
   i.e. the merged view equals the view of the union of the spans of the periods whose run lies in the range,
   for any number of periods, any service names, and for edges that occur in several graphs.  Two guards
   remain: every trace lies within one period (refuted without it: known finding
   dep_aggregate_trace_across_hourly_windows) and at most 10000 stored graphs in the range (exact: refuted for
   10001; more than a year of hourly graphs).  The behaviour before the two fixes is kept as
   C12_prefix_aggregate_..._refuted documentation theorems. *)

(* every cell of the merged matrix is the sum, over the hits and their columns, of what the columns hold for
   (a, b): "+=", for ANY list of hits of either record format (a cell may repeat in any number of hits) *)
Theorem C12_aggregate_cell_is_sum_over_hits : forall hits a b,
  dep_count (agg_graph hits) (a, b) = hits_value a b hits.
Proof. exact agg_graph_cell. Qed.
Print Assumptions C12_aggregate_cell_is_sum_over_hits.

(* neither the order in which the engine returns the stored graphs nor the Go map order of the columns of a
   hit changes any cell *)
Theorem C12_aggregate_hit_order_irrelevant : forall hits hits' k, Permutation hits hits' ->
  dep_count (agg_graph hits) k = dep_count (agg_graph hits') k.
Proof. exact agg_graph_hit_order. Qed.
Print Assumptions C12_aggregate_hit_order_irrelevant.

Theorem C12_aggregate_column_order_irrelevant : forall hits hits' k, Forall2 (@Permutation _) hits hits' ->
  dep_count (agg_graph hits) k = dep_count (agg_graph hits') k.
Proof. exact agg_graph_column_order. Qed.
Print Assumptions C12_aggregate_column_order_irrelevant.

(* a stored matrix is read back cell by cell, for ANY service names (with '.', empty, "timestamp", ...) *)
Theorem C12_stored_matrix_read_back : forall mat a b, NoDup (map fst mat) ->
  hit_value a b (stored_cols mat) = dep_count mat (a, b).
Proof. exact stored_hit_value. Qed.
Print Assumptions C12_stored_matrix_read_back.

(* records written before 25574c6 (one column "parent.child" per edge) are still read: the column splits back
   into the two names, and the matrix is read back, for names without '.' and a named parent *)
Theorem C12_old_format_column_splits_back : forall a b, dotfree a = true -> dotfree b = true -> a <> [] ->
  split_dot (col_key a b) = [a; b].
Proof. exact split_col_key. Qed.
Print Assumptions C12_old_format_column_splits_back.

Theorem C12_old_format_matrix_read_back_guarded : forall mat a b,
  NoDup (map fst mat) ->
  (forall e, In e mat -> dotfree (fst (fst e)) = true /\ dotfree (snd (fst e)) = true) ->
  a <> [] ->
  hit_value a b (stored_cols_prefix mat) = dep_count mat (a, b).
Proof. exact stored_hit_value_legacy. Qed.
Print Assumptions C12_old_format_matrix_read_back_guarded.

(* the merged view of a range = the SUM of the exact graphs of the periods whose run lies in the range
   (runs outside the range do not count; a period whose matrix is empty stores nothing and adds nothing) *)
Theorem C12_aggregate_is_sum_of_hourly_graphs : forall periods lo hi a b,
  (forall p, In p periods -> NoDup (map span_key (snd p))) ->
  (length (filter (in_range lo hi) (run_jobs periods)) <= AGG_HITS)%nat ->
  a <> b ->
  dep_count (agg_view lo hi (run_jobs periods)) (a, b)
  = sumN (map (fun recs => cross_pairs recs a b) (periods_in lo hi periods)).
Proof. exact agg_view_sum_of_periods. Qed.
Print Assumptions C12_aggregate_is_sum_of_hourly_graphs.

(* parent/child pairs never cross periods when no trace does *)
Theorem C12_pairs_of_union_is_sum_over_periods : forall ps a b, traces_within_periods ps = true ->
  cross_pairs (concat ps) a b = sumN (map (fun recs => cross_pairs recs a b) ps).
Proof. exact cross_pairs_concat. Qed.
Print Assumptions C12_pairs_of_union_is_sum_over_periods.

(* GUARDED main statement: the merged view equals the view of the union of the spans.  Remaining guards (boolean /
   decidable, each necessary - see the two refutations below): every trace lies within one period; at most
   AGG_HITS = 10000 stored graphs in the range. *)
Theorem C12_aggregate_equals_view_of_union_guarded : forall periods lo hi a b,
  (forall p, In p periods -> NoDup (map span_key (snd p))) ->
  (length (filter (in_range lo hi) (run_jobs periods)) <= AGG_HITS)%nat ->
  traces_within_periods (periods_in lo hi periods) = true ->
  a <> b ->
  dep_count (agg_view lo hi (run_jobs periods)) (a, b) = cross_pairs (concat (periods_in lo hi periods)) a b.
Proof. exact agg_view_equals_union. Qed.
Print Assumptions C12_aggregate_equals_view_of_union_guarded.

(* ... and equals the matrix MakeTracesDependancyGraph computes over all those spans at once *)
Theorem C12_aggregate_equals_graph_of_union_guarded : forall periods lo hi a b,
  (forall p, In p periods -> NoDup (map span_key (snd p))) ->
  (length (filter (in_range lo hi) (run_jobs periods)) <= AGG_HITS)%nat ->
  traces_within_periods (periods_in lo hi periods) = true ->
  NoDup (map span_key (concat (periods_in lo hi periods))) ->
  a <> b ->
  dep_count (agg_view lo hi (run_jobs periods)) (a, b) = dep_count (dep_graph (concat (periods_in lo hi periods))) (a, b).
Proof. exact agg_view_equals_graph_of_union. Qed.
Print Assumptions C12_aggregate_equals_graph_of_union_guarded.

(* The seeded variant (graph[service][dependent] = v instead of += v) is refuted by two stored graphs that share
   the edge A -> B (2 and 3 pairs): all guards hold (so the guards are satisfiable with a non-zero cell), the
   union has 5 pairs, the model of the code answers 5, the assignment variant 2. *)
Theorem C12_aggregate_overwrite_refuted : exists periods lo hi,
  (forall p, In p periods -> NoDup (map span_key (snd p))) /\
  (length (filter (in_range lo hi) (run_jobs periods)) <= AGG_HITS)%nat /\
  traces_within_periods (periods_in lo hi periods) = true /\
  cross_pairs (concat (periods_in lo hi periods)) [65] [66] = 5 /\
  dep_count (agg_view lo hi (run_jobs periods)) ([65], [66]) = 5 /\
  dep_count (agg_graph_overwrite (range_hits lo hi (run_jobs periods))) ([65], [66]) = 2.
Proof. exact agg_overwrite_refuted. Qed.
Print Assumptions C12_aggregate_overwrite_refuted.

(* REFUTED without the guard "every trace lies within one period" (known finding
   dep_aggregate_trace_across_hourly_windows, still open): the parent arrives in one period, its child in the next *)
Theorem C12_aggregate_trace_across_periods_refuted : exists periods lo hi,
  (forall p, In p periods -> NoDup (map span_key (snd p))) /\
  (length (filter (in_range lo hi) (run_jobs periods)) <= AGG_HITS)%nat /\
  NoDup (map span_key (concat (periods_in lo hi periods))) /\
  traces_within_periods (periods_in lo hi periods) = false /\
  cross_pairs (concat (periods_in lo hi periods)) [65] [66] = 1 /\
  dep_count (agg_view lo hi (run_jobs periods)) ([65], [66]) = 0.
Proof. exact agg_trace_across_periods_refuted. Qed.
Print Assumptions C12_aggregate_trace_across_periods_refuted.

(* the remaining bound is exact: 10001 stored graphs A -> B:1 inside the range are merged to 10000 *)
Theorem C12_aggregate_over_10000_graphs_refuted : exists store lo hi,
  length (filter (in_range lo hi) store) = 10001%nat /\
  hits_value [65] [66] (map sg_cols (filter (in_range lo hi) store)) = 10001 /\
  dep_count (agg_view lo hi store) ([65], [66]) = 10000.
Proof. exact agg_over_10000_graphs_refuted. Qed.
Print Assumptions C12_aggregate_over_10000_graphs_refuted.

(* PRE-FIX documentation (about [run_jobs_prefix] / [agg_view_prefix]: the writer before 25574c6 stored one
   column "parent.child" per edge, the reader knew only those columns and, before 37f2dcb, saw 100 hits).
   A service name that contains '.': the column "a.b.c" has three parts and was skipped (fixed model: 1). *)
Theorem C12_prefix_aggregate_dotted_service_refuted : exists periods lo hi,
  (forall p, In p periods -> NoDup (map span_key (snd p))) /\
  traces_within_periods (periods_in lo hi periods) = true /\
  cross_pairs (concat (periods_in lo hi periods)) [97;46;98] [99] = 1 /\
  dep_count (agg_view_prefix lo hi (run_jobs_prefix periods)) ([97;46;98], [99]) = 0 /\
  dep_count (agg_view lo hi (run_jobs periods)) ([97;46;98], [99]) = 1.
Proof. exact prefix_agg_dotted_service_refuted. Qed.
Print Assumptions C12_prefix_aggregate_dotted_service_refuted.

(* the unnamed service "" as the parent: the column was the child's name alone and was skipped; with a '.' in the
   child's name it was read as an edge p -> q that no trace contains *)
Theorem C12_prefix_aggregate_unnamed_parent_refuted : exists periods lo hi,
  (forall p, In p periods -> NoDup (map span_key (snd p))) /\
  traces_within_periods (periods_in lo hi periods) = true /\
  cross_pairs (concat (periods_in lo hi periods)) [] [65] = 1 /\
  dep_count (agg_view_prefix lo hi (run_jobs_prefix periods)) ([], [65]) = 0 /\
  dep_count (agg_view lo hi (run_jobs periods)) ([], [65]) = 1.
Proof. exact prefix_agg_empty_parent_refuted. Qed.
Print Assumptions C12_prefix_aggregate_unnamed_parent_refuted.

Theorem C12_prefix_aggregate_phantom_edge_refuted : exists periods lo hi,
  (forall p, In p periods -> NoDup (map span_key (snd p))) /\
  cross_pairs (concat (periods_in lo hi periods)) [112] [113] = 0 /\
  dep_count (agg_view_prefix lo hi (run_jobs_prefix periods)) ([112], [113]) = 1 /\
  dep_count (agg_view lo hi (run_jobs periods)) ([112], [113]) = 0.
Proof. exact prefix_agg_phantom_edge_refuted. Qed.
Print Assumptions C12_prefix_aggregate_phantom_edge_refuted.

(* more than 100 stored graphs in the range: 101 hourly graphs A -> B gave 100 (fixed model: 101) *)
Theorem C12_prefix_aggregate_over_100_graphs_refuted : exists periods lo hi,
  (forall p, In p periods -> NoDup (map span_key (snd p))) /\
  length (filter (in_range lo hi) (run_jobs periods)) = 101%nat /\
  traces_within_periods (periods_in lo hi periods) = true /\
  cross_pairs (concat (periods_in lo hi periods)) [65] [66] = 101 /\
  dep_count (agg_view_prefix lo hi (run_jobs_prefix periods)) ([65], [66]) = 100 /\
  dep_count (agg_view lo hi (run_jobs periods)) ([65], [66]) = 101.
Proof. exact prefix_agg_over_100_graphs_refuted. Qed.
Print Assumptions C12_prefix_aggregate_over_100_graphs_refuted.

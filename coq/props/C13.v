(* C13 — Tenant and index isolation.
   "A search, aggregation, column listing or metrics query issued for organisation X
    over an index expression returns data only from indexes of X that the expression
    names (directly, through a wildcard or through an alias); data of other
    organisations or other indexes never appears, and deleting an index removes all of
    its data and nothing else."
   Statements only; proofs are in SigP.TenantProofs.  [run ops] is the state after ANY
   sequence of create / ingest / alias / unalias / delete-index / rotate / restart /
   query ops of any organisations. *)
From SigM Require Import Base Tenant.
From SigP Require Import BaseProofs TenantProofs.
Open Scope N_scope.

(* Every event a search / stats / SPL query of org X over [expr] returns is a stored
   event that org X itself ingested (some Ingest X op of the history carries its id),
   and its index is in the code's expansion of [expr] for org X. *)
Theorem C13_query_isolation : forall ops X expr i,
  In i (map e_id (q_events (run ops) X expr)) ->
  exists e, In e (evs (run ops)) /\ e_id e = i /\ e_org e = X /\
            In (e_tab e) (expand (run ops) X false expr) /\ ingested ops X i.
Proof. exact query_isolation. Qed.
Print Assumptions C13_query_isolation.

(* Column listing: every listed (org, index) column source belongs to X and to the expansion. *)
Theorem C13_columns_isolation : forall ops X expr p,
  In p (q_pairs (run ops) X expr) ->
  fst p = X /\ In (snd p) (expand (run ops) X false expr).
Proof. exact columns_isolation. Qed.
Print Assumptions C13_columns_isolation.

(* The expansion names exactly the tables / aliases that match under glob semantics (only '*'
   is special), for every state, pattern and name — full strength, no guard.  [expand] follows the
   FIXED code (fixes/C13-quote-index-pattern: regexp.QuoteMeta on the literal parts of the pattern). *)
Theorem C13_expand_is_glob : forall s X es expr,
  expand s X es expr = expand_glob s X es expr.
Proof. exact expand_is_glob. Qed.
Print Assumptions C13_expand_is_glob.

(* ... hence a query returns only own events of indexes named under glob semantics *)
Theorem C13_query_names_glob : forall ops X expr i,
  In i (map e_id (q_events (run ops) X expr)) ->
  exists e, In e (evs (run ops)) /\ e_id e = i /\ e_org e = X /\
            In (e_tab e) (expand_glob (run ops) X false expr) /\ ingested ops X i.
Proof. exact query_names_glob. Qed.
Print Assumptions C13_query_names_glob.

(* regression witness of the repaired defect: a.b* of org 1 names a.b1 only, the event of aXb1 is not returned *)
Example C13_fixed_pattern_does_not_name_aXb1 :
  let ops := [Ingest 1 w_adotb1 [1]; Ingest 1 w_aXb1 [2]] in
  expand (run ops) 1 false w_pat = [w_adotb1] /\ map e_id (q_events (run ops) 1 w_pat) = [1].
Proof. exact fixed_pattern_does_not_name_aXb1. Qed.

(* ---- PRE-FIX documentation (about [expand_prefix], the unquoted translation
   "^" + ReplaceAll(pattern, "*", ".*") + "$"; no longer the code) ----
   Before the fix the statement above held only under the guard "no regex metacharacter in a comma
   term that contains '*'", and was refuted without it: a.b* also named aXb1 (confirmed on the
   pre-fix code; the harness keeps the generator stream, a regression is class
   index_pattern_regex_metachar). *)
Theorem C13_prefix_expand_is_glob_guarded : forall s X es expr,
  expr_glob_safe expr = true -> names_ok s X = true ->
  expand_prefix s X es expr = expand_glob s X es expr.
Proof. exact prefix_expand_is_glob_guarded. Qed.
Print Assumptions C13_prefix_expand_is_glob_guarded.
Example C13_prefix_expand_guard_satisfiable : expr_glob_safe [97;42;44;97;46;98;49] = true.  (* "a*,a.b1" *)
Proof. exact expr_glob_safe_sat. Qed.

Theorem C13_prefix_expand_regex_metachar_refuted :
  exists ops X expr t,
    In t (expand_prefix (run ops) X false expr) /\
    ~ In t (expand_glob (run ops) X false expr) /\
    glob_match expr t = false /\
    (exists e, In e (evs (run ops)) /\ e_org e = X /\ e_tab e = t).
Proof. exact prefix_expand_regex_metachar_refuted. Qed.
Print Assumptions C13_prefix_expand_regex_metachar_refuted.

(* delete-index of [expr] by org X: every event whose index is one of the expanded names
   present in X's index list is gone afterwards. *)
Theorem C13_delete_removes_named : forall ops X expr e,
  name_eqb expr n_traces = false ->
  In (e_tab e) (del_names (run ops) X expr) ->
  ~ In e (evs (run (ops ++ [Delete X expr]))).
Proof. exact delete_removes_named. Qed.
Print Assumptions C13_delete_removes_named.

(* Full statement (FALSE for the code, see C13_delete_cross_org_refuted below):
     after Delete X expr the stored events are exactly the previous ones minus those
     of org X in the deleted indexes.
   Proved with the exact guard: no other organisation holds events in an index with one
   of the deleted names. *)
Theorem C13_delete_exact_guarded : forall ops X expr,
  name_eqb expr n_traces = false ->
  no_other_org_in (run ops) X (del_names (run ops) X expr) = true ->
  evs (run (ops ++ [Delete X expr])) =
  filter (fun e => negb ((e_org e =? X) && mem (e_tab e) (del_names (run ops) X expr))) (evs (run ops)).
Proof. exact delete_exact_guarded. Qed.
Print Assumptions C13_delete_exact_guarded.

(* for a plain index name t listed for X (not an alias): exactly the events of (X, t) go *)
Theorem C13_delete_exact_plain_guarded : forall ops X t,
  plain t = true -> name_eqb t n_traces = false ->
  alias_present (run ops) X t = false ->
  has_tab (ftabs (run ops)) X t = true ->
  forallb (fun e => (e_org e =? X) || negb (name_eqb (e_tab e) t)) (evs (run ops)) = true ->
  evs (run (ops ++ [Delete X t])) =
  filter (fun e => negb ((e_org e =? X) && name_eqb (e_tab e) t)) (evs (run ops)).
Proof. exact delete_exact_plain_guarded. Qed.
Print Assumptions C13_delete_exact_plain_guarded.

(* CONFIRMED on the real code: deleting index a of org 0 removes the events of index a of org 1. *)
Theorem C13_delete_cross_org_refuted :
  exists ops X t e,
    plain t = true /\ In e (evs (run ops)) /\ e_org e <> X /\
    ~ In e (evs (run (ops ++ [Delete X t]))).
Proof. exact delete_cross_org_refuted. Qed.
Print Assumptions C13_delete_cross_org_refuted.

(* delete-index of a plain, non-alias name removes every event of (X, t) whatever happened before —
   in particular after "delete, ingest again in the same process" (full strength since
   fixes/C13-delete-forgets-index-name; before, the second delete answered 404, see the pre-fix section).
   It rests on the invariant that every index holding events is listed for its org. *)
Theorem C13_stored_index_is_listed : forall ops e,
  In e (evs (run ops)) -> has_tab (ftabs (run ops)) (e_org e) (e_tab e) = true.
Proof. exact stored_index_is_listed. Qed.
Print Assumptions C13_stored_index_is_listed.

Theorem C13_delete_plain_removes_all : forall ops X t e,
  plain t = true -> name_eqb t n_traces = false -> alias_present (run ops) X t = false ->
  In e (evs (run (ops ++ [Delete X t]))) -> ~ (e_org e = X /\ e_tab e = t).
Proof. exact delete_plain_removes_all. Qed.
Print Assumptions C13_delete_plain_removes_all.

(* the column listing shows only columns of stored events of X in the expansion: nothing of a deleted
   index is left in it (full strength since fixes/C13-delete-clears-unrotated-info) *)
Theorem C13_columns_only_of_stored_events : forall ops X expr p,
  In p (q_pairs (run ops) X expr) ->
  exists e, In e (evs (run ops)) /\ p = (e_org e, e_tab e) /\ e_org e = X /\
            In (e_tab e) (expand (run ops) X false expr).
Proof. exact columns_only_of_stored_events. Qed.
Print Assumptions C13_columns_only_of_stored_events.

(* alias persistence (full strength since fixes/C13-alias-files-per-index): for ALL op sequences of all orgs
   the alias files and the in-memory map hold the same relation, and what an alias resolves to is the same
   before and after a graceful restart — for org 0 and every other org. *)
Theorem C13_alias_files_agree_with_memory : forall ops X a t,
  In (X, a, t) (amem (run ops)) <->
  (In (X, t, a) (afile (run ops)) /\ is_empty a = false /\ is_empty t = false).
Proof. exact alias_sync_run. Qed.
Print Assumptions C13_alias_files_agree_with_memory.

Theorem C13_aliases_survive_restart : forall ops X a t,
  In t (alias_targets (run (ops ++ [Restart])) X a) <-> In t (alias_targets (run ops) X a).
Proof. exact aliases_survive_restart_run. Qed.
Print Assumptions C13_aliases_survive_restart.

(* ---- PRE-FIX documentation (about [run_prefix] / [step_prefix]: delete-index and restart as they were
   before the three repairs; no longer the code; the harness keeps the generator streams, a regression is
   reported with the class named in known/C13.json) ---- *)
(* delete, ingest again in the same process, delete again: 404 and the events stayed *)
Theorem C13_prefix_delete_recreated_refuted :
  exists ops X t e,
    plain t = true /\ e_org e = X /\ e_tab e = t /\
    In e (evs (run_prefix (ops ++ [Delete X t]))) /\
    snd (step_prefix (run_prefix ops) (Delete X t)) = OCode 404.
Proof. exact prefix_delete_recreated_refuted. Qed.
Print Assumptions C13_prefix_delete_recreated_refuted.

(* the column listing still showed an index deleted while it had unrotated data *)
Theorem C13_prefix_delete_left_columns_refuted :
  exists ops X t,
    plain t = true /\
    (forall e, In e (evs (run_prefix ops)) -> e_tab e <> t) /\
    In (X, t) (q_pairs (run_prefix ops) X t).
Proof. exact prefix_delete_left_columns_refuted. Qed.
Print Assumptions C13_prefix_delete_left_columns_refuted.

(* org 0's alias did not survive a graceful restart *)
Theorem C13_prefix_alias_lost_after_restart_refuted :
  exists ops X a t,
    In t (alias_targets (run_prefix ops) X a) /\ alias_targets (run_prefix (ops ++ [Restart])) X a = [].
Proof. exact prefix_alias_lost_after_restart_refuted. Qed.
Print Assumptions C13_prefix_alias_lost_after_restart_refuted.

(* org 1 (alias directory present), alias ab -> a: after the restart the index name a resolved to ab *)
Theorem C13_prefix_alias_reversed_after_restart_refuted :
  exists ops X a t,
    alias_targets (run_prefix ops) X t = [] /\ In a (alias_targets (run_prefix (ops ++ [Restart])) X t).
Proof. exact prefix_alias_reversed_after_restart_refuted. Qed.
Print Assumptions C13_prefix_alias_reversed_after_restart_refuted.

(* the same histories under the fixed code *)
Example C13_fixed_recreated_delete_works :
  let ops := [Ingest 0 w_a [1]; Delete 0 w_a; Ingest 0 w_a [2]] in
  snd (step (run ops) (Delete 0 w_a)) = OCode 200 /\ evs (run (ops ++ [Delete 0 w_a])) = [].
Proof. exact fixed_recreated_delete_works. Qed.
Example C13_fixed_alias_survives_restart :
  let ops := [Ingest 0 w_a [1]; AddAlias 0 w_a w_al; Restart] in alias_targets (run ops) 0 w_al = [w_a].
Proof. exact fixed_alias_survives_restart. Qed.
Example C13_fixed_alias_not_reversed :
  let ops := [MkAliasDir 1; Ingest 1 w_a [1]; Ingest 1 w_ab [2]; AddAlias 1 w_a w_ab; Restart] in
  alias_targets (run ops) 1 w_ab = [w_a] /\ alias_targets (run ops) 1 w_a = [].
Proof. exact fixed_alias_not_reversed. Qed.

Example C13_delete_guard_satisfiable :
  let ops := [Ingest 0 w_a [1]; Ingest 1 w_aXb1 [2]] in
  no_other_org_in (run ops) 0 (del_names (run ops) 0 w_a) = true /\ del_names (run ops) 0 w_a = [w_a].
Proof. exact delete_guard_sat. Qed.

(* Non-interference.  Full statement (FALSE for the code, see the refutation): what org X
   observes (the outputs of all its own ops: search / stats results, column listings, index
   listings, delete status) is the same as if the ops of all other organisations had never
   happened.  Proved for ALL op sequences with the exact guard: no other organisation
   issues a delete-index. *)
Theorem C13_org_noninterference_guarded : forall X ops,
  forallb (fun o => negb (foreign_delete X o)) ops = true ->
  obs_of X init ops = obs_of X init (filter (relevant X) ops).
Proof. exact org_noninterference_guarded. Qed.
Print Assumptions C13_org_noninterference_guarded.

(* CONFIRMED on the real code: org 0 deletes its index a; org 1's search over its own index a changes. *)
Theorem C13_org_noninterference_refuted :
  exists X ops, obs_of X init ops <> obs_of X init (filter (relevant X) ops).
Proof. exact org_noninterference_refuted. Qed.
Print Assumptions C13_org_noninterference_refuted.

Example C13_noninterference_guard_satisfiable :
  forallb (fun o => negb (foreign_delete 1 o))
    [Ingest 1 w_a [2]; Ingest 0 w_a [1]; AddAlias 0 w_a w_aXb1; Delete 1 w_a; Restart; QSearch 1 w_a] = true.
Proof. exact noninterference_guard_sat. Qed.

(* Aliases.  Removing alias [al] from index [idx] of org X removes exactly that pair from the
   relation the expansion uses: every other (org, alias, index) pair — the same alias on
   another index, other aliases of the same index, the same alias name in another org — still
   resolves, and the removed pair no longer does (no restart needed). *)
Theorem C13_unalias_exact : forall s X idx al Y a t,
  is_empty idx = false ->
  (In t (alias_targets (rem_alias s X idx al) Y a) <->
   In t (alias_targets s Y a) /\ ~ (Y = X /\ a = al /\ t = idx)).
Proof. exact unalias_exact. Qed.
Print Assumptions C13_unalias_exact.

(* Completeness side of the selection: every stored event of X in an index of the expansion is returned. *)
Theorem C13_query_complete : forall ops X expr e,
  In e (evs (run ops)) -> e_org e = X -> In (e_tab e) (expand (run ops) X false expr) ->
  In (e_id e) (map e_id (q_events (run ops) X expr)).
Proof. exact query_complete. Qed.
Print Assumptions C13_query_complete.

(* The segment list of an index under delete-index.  metadata.deleteTable collects the keys of the
   org's segments of the table and deletes them one after the other ([seg_keys], [del_seg]).  For ANY
   number of segments (induction over the key list) no rotated segment of (X, n) is left after the loop —
   independently of the later removal of the table entry — and no other stored event is touched by it. *)
Theorem C13_delete_removes_every_segment : forall X n l e,
  In e (fold_left (del_seg X n) (seg_keys X n l) l) -> in_seg_tab X n e = false.
Proof. exact delete_removes_every_segment. Qed.
Print Assumptions C13_delete_removes_every_segment.

Theorem C13_delete_segments_keeps_rest : forall X n l e,
  In e l -> in_seg_tab X n e = false -> In e (fold_left (del_seg X n) (seg_keys X n l) l).
Proof. exact delete_segments_keeps_rest. Qed.
Print Assumptions C13_delete_segments_keeps_rest.

(* documentation of a seeded regression (seeded/C13b): deleting while ranging over the slice that the
   deletions shift skips every second segment — 1 of 3, 1 of 4, 3 of 7 survive, none of 1 or 2. *)
Theorem C13_shifting_iteration_refuted :
  exists keys, NoDup keys /\ shifting_survivors keys <> [].
Proof. exact shifting_iteration_refuted. Qed.
Print Assumptions C13_shifting_iteration_refuted.
Example C13_shifting_survivors_3_4_7 :
  shifting_survivors [0;1;2] = [1] /\ shifting_survivors [0;1;2;3] = [1] /\
  shifting_survivors [0;1;2;3;4;5;6] = [1;3;5] /\ shifting_survivors [0;1] = [].
Proof. exact shifting_survivors_3_4_7. Qed.

(* Ingest-side routing.  The writer keeps one open segstore per stream id and never re-checks its org or
   table, so an event lands under the (org, table) that owns its stream id.
   The real stream id "<shard>-<org>-<hash(index)>" (for ANY hash function h) is injective in the org, and
   in (org, index) up to collisions of h on the index name: *)
Theorem C13_real_stream_id_injective : forall (h : name -> N) X t Y u,
  sid_str h X t = sid_str h Y u -> X = Y /\ h t = h u.
Proof. exact sid_str_inj. Qed.
Print Assumptions C13_real_stream_id_injective.

(* the model's segstore key "<org>-<index>" (index name standing for its hash) is injective on (org, index) *)
Theorem C13_stream_key_injective : forall X t Y u,
  stream_key X t = stream_key Y u -> X = Y /\ t = u.
Proof. exact stream_key_inj. Qed.
Print Assumptions C13_stream_key_injective.

(* ... hence, for ALL op sequences, the routed semantics [rrun]/[routs_from] (events go to the owner of the
   stream id, as in the code; this is what the harness compares with the implementation) coincides with the
   direct semantics [run]/[outs_from] (Ingest X t stores under (X, t)) that all theorems above are about. *)
Theorem C13_routing_is_direct : forall ops,
  routs_from (init, []) ops = outs_from init ops /\ fst (rrun ops) = run ops.
Proof. exact routing_is_direct. Qed.
Print Assumptions C13_routing_is_direct.

(* documentation of a seeded regression (seeded/C13c): org and index concatenated without a separator
   give org 12 / "logs" and org 1 / "2logs" the same key, and the routed model then returns org 1's event
   to org 12. *)
Theorem C13_concat_key_refuted :
  exists X t Y u, (X, t) <> (Y, u) /\ concat_key X t = concat_key Y u.
Proof. exact concat_key_refuted. Qed.
Print Assumptions C13_concat_key_refuted.

Theorem C13_concat_routing_refuted :
  exists ops X i, In i (match last (routs_with concat_key (init, []) ops) ONone with OIds l => l | _ => [] end) /\
                  ~ ingested ops X i /\ last ops Rotate = QSearch X [108;111;103;115].
Proof. exact concat_routing_refuted. Qed.
Print Assumptions C13_concat_routing_refuted.

(* ---- tenant ownership across an UNCLEAN death + start-up recovery (model SigM.TenantCrash; added after seeded
   mutant C13j was missed).  After a graceful shutdown every segment is rotated and listed in segmeta.json with its
   org; after an unclean death the in-memory bookkeeping is gone and start-up rebuilds the searchable segments from
   the on-disk records alone: segmeta.json and, for every id of GetMyIds and every listed table, the <segkey>.sfm of
   the still-open segments (initSyncSegMetaForAllIds), taking the org of a recovered segment from the `orgid` field
   STORED in the record.  [crun ops] = (query state, on-disk records) after ANY sequence of create / ingest+flush /
   rotate / unclean restart (any id list) / graceful restart / query ops of any organisations. ---- *)
From SigM Require Import TenantCrash.
From SigP Require Import TenantCrashProofs.

(* recovery preserves provenance when the stored record carries the org: whatever a search of org X returns after
   any number of unclean and graceful restarts was ingested by X and lies in an index of the code's expansion *)
Theorem C13_crash_query_isolation : forall ops X expr i,
  In i (csearch (crun ops) X expr) ->
  cingested ops X i /\
  exists e, In e (evs (fst (crun ops))) /\ e_id e = i /\ e_org e = X /\
            mem (e_tab e) (expand (fst (crun ops)) X false expr) = true.
Proof. exact crash_query_isolation. Qed.
Print Assumptions C13_crash_query_isolation.

Theorem C13_crash_columns_isolation : forall ops X expr p,
  In p (q_pairs (fst (crun ops)) X expr) ->
  fst p = X /\ mem (snd p) (expand (fst (crun ops)) X false expr) = true /\
  exists e, In e (evs (fst (crun ops))) /\ e_org e = X /\ e_tab e = snd p /\ cingested ops X (e_id e).
Proof. exact crash_columns_isolation. Qed.
Print Assumptions C13_crash_columns_isolation.

(* every on-disk record start-up rebuilds segments from stores the org and table of the directory it lies in, and
   holds only events that this org ingested *)
Theorem C13_crash_records_carry_org : forall ops r,
  In r (snd (crun ops)) -> r_org r = r_dorg r /\ r_tab r = r_dtab r /\
  forall i, In i (r_ids r) -> cingested ops (r_dorg r) i.
Proof. exact crash_records_carry_org. Qed.
Print Assumptions C13_crash_records_carry_org.

(* every tenant sees after an unclean death + restart exactly what it saw before.  Full statement (no guard):
     forall ops my X expr i, In i (csearch (fst (cstep (crun ops) (CCrash my))) X expr) <-> In i (csearch (crun ops) X expr)
   is false by design of the recovery scan, which goes by GetMyIds (C13_crash_uncovered_refuted: a node restarted for
   org 0 only does not adopt the open segment of org 7).  Guard: the id list of this restart and of every earlier
   unclean restart of the history contains every org that ingests (covered / crashes_cover); alias-free histories. *)
Theorem C13_crash_preserves_every_view_guarded : forall ops my X expr i,
  crashes_cover ops -> covered ops my ->
  (In i (csearch (fst (cstep (crun ops) (CCrash my))) X expr) <-> In i (csearch (crun ops) X expr)).
Proof. exact crash_preserves_every_view. Qed.
Print Assumptions C13_crash_preserves_every_view_guarded.

Theorem C13_crash_uncovered_refuted :
  exists ops my X expr i, In i (csearch (crun ops) X expr) /\
                          ~ In i (csearch (fst (cstep (crun ops) (CCrash my))) X expr).
Proof. exact crash_uncovered_refuted. Qed.
Print Assumptions C13_crash_uncovered_refuted.

Example C13_crash_guard_satisfiable : crashes_cover orgless_ops /\ covered orgless_ops [0; 7] /\
                                      csearch (crun orgless_ops) 7 n_a = [1].
Proof. exact cover_nonvacuous. Qed.

(* refuted for a running .sfm WITHOUT the org field (documentation of seeded/C13j; same step function, writer
   parameter wr_orgless): org 7 flushes event 1 into index a, unclean death, restart: org 0 is handed event 1 for
   the expression a although it never ingested it, and org 7, which saw it before the death, no longer does *)
Theorem C13_crash_orgless_record_refuted :
  In 1 (csearch (crun_with wr_orgless orgless_ops) 0 n_a) /\ ~ cingested orgless_ops 0 1 /\
  In 1 (csearch (crun_with wr_orgless [CIngest 7 n_a [1]]) 7 n_a) /\
  ~ In 1 (csearch (crun_with wr_orgless orgless_ops) 7 n_a).
Proof. exact orgless_record_refuted. Qed.
Print Assumptions C13_crash_orgless_record_refuted.

(* ---- ownership is checked before anything is deleted, from the source: on EVERY path through deleteIndex
   (call-order skeleton regenerated from /repo on every run, callees inlined; every branch possible, every loop any
   number of times) each call that deletes by index name — segments, the open segstore, the virtual-table entry —
   is preceded, in the SAME iteration of the loop over the expanded names, by vtable.IsVirtualTablePresent for the
   requesting org (rules C13.* of GenOrderCheck.co_rules).  The skeleton drops data: that the check's result is
   honoured is what the harness observes. ---- *)
From SigP Require GenOrderCheck GenOrderC13.
Theorem C13_code_checks_ownership_before_deleting : forall r : GenOrderCheck.rule,
  In r GenOrderCheck.c13_rules -> GenOrderCheck.rule_holds r.
Proof. exact GenOrderC13.co_C13_rules_hold. Qed.
Print Assumptions C13_code_checks_ownership_before_deleting.

(* ---- the per-org virtual-table list is read and written only under globalTableAccessLock (guarded-by skeletons
   regenerated from /repo on every run; rule C13.* of GenGuardCheck.gb_rules; initialisation functions listed). ---- *)
From SigP Require GenGuardCheck GenGuardC13.
Theorem C13_code_virtual_table_list_touched_only_under_its_lock : forall r : GenGuardCheck.grule,
  In r GenGuardCheck.c13_grules -> GenGuardCheck.grule_holds r.
Proof. exact GenGuardC13.gb_C13_rules_hold. Qed.
Print Assumptions C13_code_virtual_table_list_touched_only_under_its_lock.

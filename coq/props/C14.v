(* C14 — Retention.  Statements only; proofs are in SigP.RetentionProofs.

   Model: SigM.Retention (store = lines of segmeta.json / metricmeta.json, in-memory
   metadata, directories, unrotated segments, index-names file; the pass of
   DoRetentionBasedDeletion as a list of primitive effects; restart).
   [ord]/[ordp]/[ordn] stand for Go's map iteration order over the selected segments,
   tags-tree directories and index names: any rearrangement.

   Reading of "older than the horizon": the code selects  latest <= horizon  (metrics:
   latestEpochSec*1000 <= horizon).  The property text demands deletion for  latest <
   horizon  and forbids it for segments with an event  > horizon ; a segment whose newest
   event is exactly at the horizon is covered by neither clause, the code deletes it
   (C14_boundary_segment_is_deleted). *)
From Coq Require Import Permutation.
From SigM Require Import Base Retention RetentionMem RetentionConc RetentionTime RetentionPaths.
From SigP Require Import BaseProofs RetentionProofs RetentionMemProofs RetentionConcProofs RetentionTimeProofs RetentionPathsProofs.
Open Scope N_scope.

(* the selection test, spelled out *)
Theorem C14_expired_iff : forall hz org s,
  expired hz org s = true <-> s_org s = org /\ latest_ms s <= hz.
Proof. exact expired_spec. Qed.
Print Assumptions C14_expired_iff.

Theorem C14_metrics_seconds_are_scaled : forall s, s_kind s = KMet -> latest_ms s = s_latest s * 1000.
Proof. exact metrics_latest_scaled. Qed.
Print Assumptions C14_metrics_seconds_are_scaled.

Theorem C14_boundary_segment_is_deleted : forall hz org s, s_org s = org -> latest_ms s = hz -> expired hz org s = true.
Proof. exact expired_boundary. Qed.
Print Assumptions C14_boundary_segment_is_deleted.

Section Orders.
  Variable ord : list seg -> list seg.
  Variable ordp : list path -> list path.
  Variable ordn : list N -> list N.
  Hypothesis ord_perm : forall l, Permutation (ord l) l.
  Hypothesis ordp_perm : forall l, Permutation (ordp l) l.
  Hypothesis ordn_perm : forall l, Permutation (ordn l) l.

  (* For every well-formed store, horizon and org, a line of segmeta.json / metricmeta.json is
     gone after the pass, together with its directory, iff it belongs to the org and its
     newest event is not newer than the horizon.  No assumption on what the in-memory metadata
     holds: a selected metrics segment that is not (yet) in it is removed like the others
     (before the repair it made the metrics half return, C14_prefix_metrics_pass_aborts_refuted). *)
  Theorem C14_retention_selects_exactly : forall hz org st, wf st = true ->
    forall s, In s (segmeta st ++ mmeta st) ->
    let st' := run ord ordp ordn hz org st in
    (In s (segmeta st' ++ mmeta st') <-> expired hz org s = false) /\
    (In (s_dir s) (dirs st') <-> In (s_dir s) (dirs st) /\ expired hz org s = false).
  Proof. exact (retention_selects_exactly ord ordp ordn ord_perm ordp_perm ordn_perm). Qed.

  (* a segment with an event newer than the horizon keeps its metadata line and its directory *)
  Theorem C14_newer_segment_survives : forall hz org st, wf st = true ->
    forall s, In s (segmeta st ++ mmeta st) -> hz < latest_ms s ->
    let st' := run ord ordp ordn hz org st in
    In s (segmeta st' ++ mmeta st') /\ (In (s_dir s) (dirs st) -> In (s_dir s) (dirs st')).
  Proof.
    intros hz org st Hwf s Hs Hn.
    destruct (survivors_untouched ord ordp ordn ord_perm ordp_perm ordn_perm hz org st Hwf s Hs (expired_false_newer hz org s Hn)) as [A [B _]].
    split; assumption.
  Qed.

  (* a rotated segment of the org whose newest event is older than the horizon is removed *)
  Theorem C14_older_segment_is_deleted : forall hz org st, wf st = true ->
    forall s, In s (segmeta st ++ mmeta st) -> s_org s = org -> latest_ms s < hz ->
    let st' := run ord ordp ordn hz org st in
    ~ In s (segmeta st' ++ mmeta st') /\ ~ In (s_dir s) (dirs st') /\ searchable st' s = false.
  Proof.
    intros hz org st Hwf s Hs Ho Hl.
    destruct (deleted_not_searchable ord ordp ordn ord_perm ordp_perm ordn_perm hz org st Hwf s Hs (expired_older hz org s Ho Hl)) as [A [B C]].
    repeat split; assumption.
  Qed.

  (* lines that are not selected stay listed, keep their directory and stay searchable
     (in-memory entry, files, index name) *)
  Theorem C14_survivors_untouched : forall hz org st, wf st = true ->
    forall s, In s (segmeta st ++ mmeta st) -> expired hz org s = false ->
    let st' := run ord ordp ordn hz org st in
    In s (segmeta st' ++ mmeta st') /\
    (In (s_dir s) (dirs st) -> In (s_dir s) (dirs st')) /\
    (searchable st s = true -> searchable st' s = true).
  Proof. exact (survivors_untouched ord ordp ordn ord_perm ordp_perm ordn_perm). Qed.

  (* unrotated segments are never touched, whatever their age *)
  Theorem C14_unrotated_untouched : forall hz org st, wf st = true ->
    forall u, In u (unrot st) ->
    let st' := run ord ordp ordn hz org st in
    In u (unrot st') /\ (In (s_dir u) (dirs st) -> In (s_dir u) (dirs st')) /\
    (has_table st u = true -> has_table st' u = true).
  Proof. exact (unrotated_untouched ord ordp ordn ord_perm ordp_perm ordn_perm). Qed.

  (* after the pass the two metadata files hold exactly the lines that were not selected, in
     their old order, and a line is listed iff its directory still exists *)
  Theorem C14_metadata_lists_survivors : forall hz org st, wf st = true ->
    let st' := run ord ordp ordn hz org st in
    segmeta st' = filter (fun s => negb (expired hz org s)) (segmeta st) /\
    mmeta st' = filter (fun s => negb (expired hz org s)) (mmeta st) /\
    (forall s, In s (segmeta st ++ mmeta st) -> In (s_dir s) (dirs st) ->
       (In s (segmeta st' ++ mmeta st') <-> In (s_dir s) (dirs st'))).
  Proof. exact (metadata_lists_survivors ord ordp ordn ord_perm ordp_perm ordn_perm). Qed.

  (* what was selected cannot be found any more *)
  Theorem C14_deleted_not_searchable : forall hz org st, wf st = true ->
    forall s, In s (segmeta st ++ mmeta st) -> expired hz org s = true ->
    let st' := run ord ordp ordn hz org st in
    searchable st' s = false /\ ~ In (s_dir s) (dirs st') /\ ~ In s (segmeta st' ++ mmeta st').
  Proof. exact (deleted_not_searchable ord ordp ordn ord_perm ordp_perm ordn_perm). Qed.

  (* Interruption and repetition, the part that holds (for the full statement and its two
     refutations see below): the pass is stopped after ANY number k of primitive effects
     (directory removals, in-memory deletions, tmp file, rename, names-file truncation/write),
     the process is restarted (in-memory metadata rebuilt from the files, unrotated segments
     listed) and a full pass runs.  Both metadata files, the in-memory metadata and the
     presence of every segment directory are those of the run that was not interrupted.
     The repeated pass may run later (horizon hz2 >= hz) and then select more segments: the
     outcome is that of an uninterrupted pass at hz2.  This covers every content the interrupted
     pass may have left in segmeta.json.tmp (see C14_stale_tmp_is_harmless). *)
  Theorem C14_interrupted_then_repeated_partial : forall hz org st, wf st = true ->
    forall hz2, hz <= hz2 -> forall k,
    let A := run ord ordp ordn hz2 org (restart (interrupted ord ordp ordn k hz org st)) in
    let B := run ord ordp ordn hz2 org (restart st) in
    segmeta A = segmeta B /\ mmeta A = mmeta B /\ unrot A = unrot B /\
    (forall q, In q (mem A) <-> In q (mem B)) /\
    (forall q, In q (mmem A) <-> In q (mmem B)) /\
    (forall s, In s (segmeta st ++ mmeta st ++ unrot st) -> (In (s_dir s) (dirs A) <-> In (s_dir s) (dirs B))).
  Proof. exact (interrupted_then_repeated_data ord ordp ordn ord_perm ordp_perm ordn_perm). Qed.

  (* Survivors stay searchable: whatever the point k at which the pass is stopped, after the
     restart and a full pass every line or unrotated segment that was not selected, whose
     directory existed and (log segments) whose index name was in the names file is searchable:
     index name present, in the in-memory metadata, files present.  (Holds since the names
     file is replaced by rename; for the code before the fix see
     C14_unfixed_interrupted_survivor_searchable_refuted.) *)
  Theorem C14_interrupted_survivor_searchable : forall hz org st, wf st = true ->
    forall hz2, hz <= hz2 ->
    forall k s, In s (segmeta st ++ mmeta st ++ unrot st) -> expired hz2 org s = false -> In (s_dir s) (dirs st) ->
    (s_kind s = KLog -> has_table st s = true) ->
    searchable (run ord ordp ordn hz2 org (restart (interrupted ord ordp ordn k hz org st))) s = true.
  Proof. exact (interrupted_survivor_searchable ord ordp ordn ord_perm ordp_perm ordn_perm). Qed.

  (* removeSegmetas opens segmeta.json.tmp with O_TRUNC (effect ESegTmp true): for EVERY content c
     that an interrupted pass may have left in the temporary file, the pass ends with
     segmeta.json = the lines that were not selected, the same file as without a stale
     temporary file, and "listed iff directory exists" holds *)
  Theorem C14_stale_tmp_is_harmless : forall hz org st c, wf st = true ->
    let A := run ord ordp ordn hz org (with_seg_tmp st c) in
    segmeta A = filter (fun s => negb (expired hz org s)) (segmeta st) /\
    mmeta A = filter (fun s => negb (expired hz org s)) (mmeta st) /\
    segmeta A = segmeta (run ord ordp ordn hz org st) /\
    (forall s, In s (segmeta st ++ mmeta st) -> In (s_dir s) (dirs st) ->
       (In s (segmeta A ++ mmeta A) <-> In (s_dir s) (dirs A))).
  Proof. exact (stale_tmp_harmless ord ordp ordn ord_perm ordp_perm ordn_perm). Qed.

  (* No tags-tree directory is left behind: wherever the pass was stopped, after the restart and a
     full pass (at any horizon hz2) the tags-tree directory of every selected metrics line that no
     surviving line names is gone with everything below it.  (Holds since the tags trees are
     deleted before metricmeta.json is rewritten; before the repair:
     C14_prefix_tagstree_left_behind_refuted.) *)
  Theorem C14_interrupted_tagstree_removed : forall hz org st, wf st = true ->
    forall hz2 k s q, In s (mmeta st) -> expired hz2 org s = true ->
    (forall s', In s' (mmeta st) -> expired hz2 org s' = false -> s_tt s' <> s_tt s) ->
    is_prefix (s_tt s) q = true ->
    ~ In q (dirs (run ord ordp ordn hz2 org (restart (interrupted ord ordp ordn k hz org st)))).
  Proof. exact (interrupted_tagstree_removed ord ordp ordn ordp_perm ordn_perm). Qed.

  (* the full statement, all directories and the index names included, under the guard "the
     pass selects no metrics segment and empties no index" (interrupt_guard, a boolean function
     of store, horizon and org): every component of the outcome is the same *)
  Theorem C14_interrupted_then_repeated_guarded : forall hz org st, wf st = true -> interrupt_guard hz org st = true ->
    forall k,
    let A := run ord ordp ordn hz org (restart (interrupted ord ordp ordn k hz org st)) in
    let B := run ord ordp ordn hz org (restart st) in
    segmeta A = segmeta B /\ mmeta A = mmeta B /\ unrot A = unrot B /\
    (forall q, In q (mem A) <-> In q (mem B)) /\ (forall q, In q (mmem A) <-> In q (mmem B)) /\
    dirs A = dirs B /\ vtables A = vtables B.
  Proof. exact (interrupted_then_repeated_guarded ord ordp ordn ord_perm ordp_perm ordn_perm). Qed.

  (* The in-memory metadata of rotated log segments is kept in THREE views (RetentionMem.v: global
     slice, reverse index, one slice per index name; the last one is what queries enumerate:
     FilterSegmentsByTime, GetAllColNames ...).  [mem] above is their abstraction.  For every store,
     every views m that agree with each other and hold the keys of [mem st], every horizon, org
     and map iteration order, with ANY LatestEpochMS values (several segments of one index ending
     on the same millisecond, the same index name in two orgs): after the pass the views still
     agree, their key set is [mem] of the model's outcome, and a query over any time range, index
     and org is handed exactly what it was handed before minus the selected segments. *)
  Theorem C14_queries_enumerate_exactly_the_survivors : forall m hz org st,
    views_agree m = true -> mem_abs m = mem st ->
    let st' := run ord ordp ordn hz org st in
    let m' := apply_mem_effs (pass_effs ord ordp ordn hz org st) m in
    consistent m' /\ mem_abs m' = mem st' /\
    forall lo hi t o k,
      In k (enumerate lo hi t o m') <->
      In k (enumerate lo hi t o m) /\ forall s, In s (segmeta st) -> expired hz org s = true -> s_dir s <> k.
  Proof. exact (pass_views ord ordp ordn ord_perm ordp_perm ordn_perm). Qed.
End Orders.
Print Assumptions C14_queries_enumerate_exactly_the_survivors.
Print Assumptions C14_retention_selects_exactly.
Print Assumptions C14_interrupted_then_repeated_guarded.
Print Assumptions C14_interrupted_survivor_searchable.
Print Assumptions C14_interrupted_tagstree_removed.
Print Assumptions C14_stale_tmp_is_harmless.
Print Assumptions C14_interrupted_then_repeated_partial.
Print Assumptions C14_newer_segment_survives.
Print Assumptions C14_older_segment_is_deleted.
Print Assumptions C14_survivors_untouched.
Print Assumptions C14_unrotated_untouched.
Print Assumptions C14_metadata_lists_survivors.
Print Assumptions C14_deleted_not_searchable.

(* the hypothesis of the theorems above is satisfiable (the stores are the witnesses used below) *)
Example C14_hypotheses_satisfiable : wf w_tt_store = true /\ wf w_vt_store = true /\ wf w_ab_store = true.
Proof. repeat split; vm_compute; reflexivity. Qed.

Example C14_guard_satisfiable :
  wf w_g_store = true /\ interrupt_guard 500 0 w_g_store = true /\ sel_log 500 0 w_g_store <> [].
Proof. exact guard_satisfiable. Qed.

(* ---- interruption and repetition -------------------------------------------------------

   Full statement (the property text, "same outcome if the pass is interrupted and repeated"):
     forall k, run (restart (interrupted k st)) = run (restart st)   on every component.
   Proved above, for every k and every later horizon of the repeated pass: metadata files,
   in-memory metadata and segment directories (C14_interrupted_then_repeated_partial), tags-tree
   directories (C14_interrupted_tagstree_removed), searchability of the survivors
   (C14_interrupted_survivor_searchable); every component, [dirs] as lists, under the guard
   (C14_interrupted_then_repeated_guarded).  Not proved in general: equality of the empty parent
   directories that the climb of the metrics half removes; it is evaluated inside Coq for every k
   on the witness stores below and compared with the real code at every replayed stop point.
   Four defects found with this statement have been repaired in siglens; [pass_effs_prefix]
   (metrics half) and [pass_effs_unfixed] (names file) keep the old effect lists: *)

(* (1) the code before the fix deleted the tags-tree directories AFTER metricmeta.json had been
   rewritten: stopped in between, the repeated pass finds nothing to do for them and the
   directories stay for ever.  The same witness store under the repaired pass: equal directories
   for every stop point. *)
Theorem C14_prefix_tagstree_left_behind_refuted :
  exists st hz org k, wf st = true /\ mmem_ok hz org st /\
    dirs (run_prefix idl idl idl hz org (restart (interrupted_prefix idl idl idl k hz org st)))
    <> dirs (run_prefix idl idl idl hz org (restart st)) /\
    forallb (fun k => list_eqb path_eqb
                        (dirs (run idl idl idl hz org (restart (interrupted idl idl idl k hz org st))))
                        (dirs (run idl idl idl hz org (restart st)))) (seq 0 12) = true.
Proof. exists w_tt_store, 500000, 0%Z, 5%nat. exact tagstree_left_behind_witness. Qed.
Print Assumptions C14_prefix_tagstree_left_behind_refuted.

(* (1b) the climb over empty parents could not resume from a directory that an interrupted pass
   had already removed: an empty directory stayed *)
Theorem C14_prefix_empty_parent_left_behind_refuted :
  exists st hz org k d, wf st = true /\
    In d (dirs (run_prefix idl idl idl hz org (restart (interrupted_prefix idl idl idl k hz org st)))) /\
    ~ In d (dirs (run_prefix idl idl idl hz org (restart st))) /\
    forallb (fun k => list_eqb path_eqb
                        (dirs (run idl idl idl hz org (restart (interrupted idl idl idl k hz org st))))
                        (dirs (run idl idl idl hz org (restart st)))) (seq 0 12) = true.
Proof. exists w_cl_store, 500000, 0%Z, 3%nat, [1;2]. exact empty_parent_left_behind_witness. Qed.
Print Assumptions C14_prefix_empty_parent_left_behind_refuted.

(* (2) FIXED in siglens (fixes/C14-names-file-atomic.diff, known/C14.json status "fixed").
   The code before the fix rewrote the index-names file in place (os.WriteFile: O_TRUNC, then
   write).  [pass_effs_unfixed] keeps that effect list as documentation: stopped between the
   two calls the names of all surviving indexes of the org are lost, their segments are not
   searchable after the restart and the repeated pass (of either version).  For the repaired
   code (tmp file + rename, the model's [pass_effs]) the statement is the theorem
   C14_interrupted_survivor_searchable above. *)
Theorem C14_unfixed_interrupted_survivor_searchable_refuted :
  exists st hz org k s, wf st = true /\ In s (segmeta st) /\ expired hz org s = false /\
    searchable st s = true /\
    searchable (run idl idl idl hz org (restart st)) s = true /\
    searchable (run_unfixed idl idl idl hz org (restart (interrupted_unfixed idl idl idl k hz org st))) s = false /\
    searchable (run idl idl idl hz org (restart (interrupted_unfixed idl idl idl k hz org st))) s = false.
Proof. exists w_vt_store, 500, 0%Z, 5%nat, w_vt_seg. exact names_file_truncated_witness. Qed.
Print Assumptions C14_unfixed_interrupted_survivor_searchable_refuted.

(* (3) not a defect of siglens, the reason why the O_TRUNC flag of the temporary file is part of
   the effect alphabet (ESegTmp trunc): opened without truncation ([pass_effs_notrunc]) a stale
   segmeta.json.tmp keeps its tail when the repeated pass, for which one more segment has expired,
   writes a shorter list; after the rename segmeta.json lists a segment whose directory the same
   pass has removed *)
Theorem C14_tmp_without_truncation_refuted :
  exists st hz hz2 k s, wf st = true /\ hz <= hz2 /\ expired hz 0 s = false /\ expired hz2 0 s = true /\
    let X := restart (apply_effs (firstn k (pass_effs_notrunc idl idl idl hz 0 st)) st) in
    let A := run_notrunc idl idl idl hz2 0 X in
    In s (segmeta A) /\ ~ In (s_dir s) (dirs A) /\ ~ In s (segmeta (run idl idl idl hz2 0 X)).
Proof. exists w_nt_store, 300, 500, 3%nat, w_nt_L. exact tmp_without_truncation_witness. Qed.
Print Assumptions C14_tmp_without_truncation_refuted.

(* (4) the code before the fix: one selected metrics segment that the in-memory metadata does not
   hold yet (rotated less than a refresh period ago) made DeleteMetricsSegmentData return before
   any file was touched; an expired segment that IS known stayed on disk and in metricmeta.json
   and had already left the in-memory metadata.  The repaired pass removes both. *)
Theorem C14_prefix_metrics_pass_aborts_refuted :
  exists st hz org s, wf st = true /\ In s (mmeta st) /\ expired hz org s = true /\
    In (s_dir s) (mmem st) /\
    In s (mmeta (run_prefix idl idl idl hz org st)) /\ In (s_dir s) (dirs (run_prefix idl idl idl hz org st)) /\
    searchable (run_prefix idl idl idl hz org st) s = false /\
    mmeta (run idl idl idl hz org st) = [] /\ ~ In (s_dir s) (dirs (run idl idl idl hz org st)).
Proof. exists w_ab_store, 500000, 0%Z, w_ab_seg. exact metrics_abort_witness. Qed.
Print Assumptions C14_prefix_metrics_pass_aborts_refuted.

(* ---- the three views of the in-memory metadata (RetentionMem.v) --------------------------- *)

(* deleteSegmentKeyWithLock, as coded (the entry is identified by scanning for the segment key):
   the key leaves the global slice, the reverse index and its index's slice, nothing else changes
   (order included), the views still describe one set of segments, and the single list [mem] of
   the pass model follows by del_path.  No hypothesis on LatestEpochMS or on the slice order. *)
Theorem C14_delete_removes_the_key_from_all_views : forall m k, views_agree m = true ->
  mm_all (md_delete k m) = filter (fun e => negb (key_is k e)) (mm_all m) /\
  mm_rev (md_delete k m) = del_path k (mm_rev m) /\
  mm_tables (md_delete k m) = map (fun tl => (fst tl, filter (fun e => negb (key_is k e)) (snd tl))) (mm_tables m) /\
  mem_abs (md_delete k m) = del_path k (mem_abs m) /\
  consistent (md_delete k m).
Proof. exact views_delete. Qed.
Print Assumptions C14_delete_removes_the_key_from_all_views.

(* DeleteSegmentData hands the selected segments to DeleteSegmentKey in Go's map iteration order:
   any two orders give the same three views, and a query is handed what it was handed before
   minus the deleted keys *)
Theorem C14_deletion_order_is_irrelevant : forall m ks ks', views_agree m = true -> Permutation ks ks' ->
  md_deletes ks m = md_deletes ks' m /\ consistent (md_deletes ks m) /\
  forall lo hi t org k, In k (enumerate lo hi t org (md_deletes ks m)) <-> In k (enumerate lo hi t org m) /\ ~ In k ks.
Proof. exact views_deletion_order. Qed.
Print Assumptions C14_deletion_order_is_irrelevant.

(* (5) not a defect of siglens, the reason why the slices are scanned for the key: they are sorted
   by LatestEpochMS only, so with two segments of one index ending on the same millisecond the
   sort key does not identify an entry.  [md_delete_by_latest] (binary search for the first entry
   with LatestEpochMS <= that of the deleted segment, removal if its key matches) leaves the
   second segment of a tied pair in the index's slice: every query is still handed the key of a
   segment that the other two views no longer know.  Full statement (holds for md_delete, above):
     views_agree m = true -> consistent (delete k m)
   Guarded: without ties it is the coded deletion; refuted: witness with one tie. *)
Theorem C14_lookup_by_latest_guarded : forall m k,
  views_agree m = true -> views_sorted m = true -> no_ties m = true ->
  md_delete_by_latest k m = md_delete k m.
Proof. exact by_latest_guarded. Qed.
Print Assumptions C14_lookup_by_latest_guarded.

Theorem C14_lookup_by_latest_refuted :
  exists m k, views_agree m = true /\ views_sorted m = true /\
    (~ In k (enumerate 0 100 7 0%Z (md_delete k m)) /\ views_agree (md_delete k m) = true) /\
    In k (enumerate 0 100 7 0%Z (md_delete_by_latest k m)) /\ ~ In k (mem_abs (md_delete_by_latest k m)) /\
    views_agree (md_delete_by_latest k m) = false.
Proof. exact by_latest_refuted. Qed.
Print Assumptions C14_lookup_by_latest_refuted.

Example C14_views_hypotheses_satisfiable :
  views_agree tie_witness = true /\ no_ties (md_delete [1;2] tie_witness) = true /\ no_ties tie_witness = false.
Proof. exact views_hypotheses_satisfiable. Qed.

(* (6) not a defect with respect to the property text, recorded because the harness's oracle
   "a second pass changes nothing" has to know it: a CYCLE of passes over several orgs is not
   idempotent on the index-names files.  DeleteEmptyIndices keeps an index name of the org while a
   segmeta.json line of ANY org uses the name; with the same index name in org 0 and org 1 and all
   its segments expired, the pass for org 0 keeps the (empty) name, the pass for org 1 removes the
   lines, and only the next pass for org 0 drops the name.  Every single pass is idempotent on the
   store it finds (last two clauses); no segment, line or searchable datum is involved. *)
Theorem C14_two_org_cycle_keeps_a_shared_index_name :
  exists st hz, wf st = true /\
    segmeta (cycle01 hz st) = [] /\
    vtables (cycle01 hz st) = [(0%Z, 7)] /\
    vtables (cycle01 hz (cycle01 hz st)) = [] /\
    run idl idl idl hz 0 (run idl idl idl hz 0 st) = run idl idl idl hz 0 st /\
    run idl idl idl hz 1 (cycle01 hz st) = cycle01 hz st.
Proof. exists w_2o_store, 500. exact two_org_cycle_witness. Qed.
Print Assumptions C14_two_org_cycle_keeps_a_shared_index_name.

(* (7) The pass running WHILE the ingest side publishes freshly rotated segments (SigM.RetentionConc).
   segmeta.json / metricmeta.json are written by two parties: the pass re-reads the file under the file's lock,
   writes the preserved lines to <file>.tmp and renames it over the file (or removes the file); a rotation appends
   the line of its segment (BulkAddRotatedSegmetas, AddMetricsMetaEntry: Lock, THEN open with O_APPEND|O_CREATE,
   write, close, Unlock).  The model has inodes (a descriptor keeps the inode it was opened on, rename re-binds the
   name), one lock, threads made of sections, and a scheduler that picks a thread for every single operation.
   Full statement (property text: "metadata files list exactly the survivors", here with publication going on):
     for EVERY schedule that lets the pass and n publishers finish, the file holds the survivors of the pass in
     their old order followed by the n published batches (in the order the publishers got the lock).
   Proved for the code as it is, for both files, for every store of the pass model; the variant in which the
   publisher opens the file before it takes the lock ("only the append needs the lock") is refuted. *)

(* when every operation lies inside a locked section, every schedule equals a serial execution of whole sections *)
Theorem C14_locked_sections_serialize : forall sch s0, quiescent s0 -> all_locked s0 ->
  finished (run_sched sch s0) = true -> exists ser, run_sched sch s0 = run_serial ser s0.
Proof. exact conc_serializable_finished. Qed.
Print Assumptions C14_locked_sections_serialize.

(* one file, the pass (thread 0) and one publisher per batch of lines; needhit: the rewrite happens only when a
   line of the file is removed (metricmeta.json) / whenever something was selected (segmeta.json).
   Hypotheses: what is published holds an event newer than the horizon and lives in a directory of its own. *)
Theorem C14_concurrent_publication_and_pass : forall needhit hz org file pubs sch,
  (forall l, In l (concat pubs) -> expired hz org l = false) ->
  (forall l, In l (concat pubs) -> in_sel (file_lines file) l = false) ->
  finished (run_sched sch (init_state needhit hz org file pubs)) = true ->
  exists order, Permutation order pubs /\
    content (mfs (run_sched sch (init_state needhit hz org file pubs)))
    = survivors hz org (file_lines file) ++ concat order.
Proof. exact conc_pass_and_publication. Qed.
Print Assumptions C14_concurrent_publication_and_pass.

Section ConcurrentOrders.
  Variable ord : list seg -> list seg.
  Variable ordp : list path -> list path.
  Variable ordn : list N -> list N.
  Hypothesis ord_perm : forall l, Permutation (ord l) l.
  Hypothesis ordp_perm : forall l, Permutation (ordp l) l.
  Hypothesis ordn_perm : forall l, Permutation (ordn l) l.

  (* both files of a well-formed store: after every schedule of the pass and the publishers each file is what the
     pass of the store model (C14_metadata_lists_survivors) leaves, followed by what was published *)
  Theorem C14_concurrent_pass_lists_survivors_and_published : forall hz org st plog pmet schl schm, wf st = true ->
    (forall l, In l (concat plog ++ concat pmet) -> expired hz org l = false) ->
    (forall l, In l (concat plog) -> in_sel (segmeta st) l = false) ->
    (forall l, In l (concat pmet) -> in_sel (mmeta st) l = false) ->
    let fl := run_sched schl (init_state false hz org (Some (segmeta st)) plog) in
    let fm := run_sched schm (init_state true hz org (Some (mmeta st)) pmet) in
    finished fl = true -> finished fm = true ->
    exists ol om, Permutation ol plog /\ Permutation om pmet /\
      content (mfs fl) = segmeta (run ord ordp ordn hz org st) ++ concat ol /\
      content (mfs fm) = mmeta (run ord ordp ordn hz org st) ++ concat om.
  Proof. exact (conc_store_files ord ordp ordn ord_perm ordp_perm ordn_perm). Qed.
End ConcurrentOrders.
Print Assumptions C14_concurrent_pass_lists_survivors_and_published.

(* the publisher that opens the file BEFORE it takes the lock and appends under the lock: with the pass at its
   rewrite when the publisher arrives (schedule sched_behind, the one the harness forces on the real code), the
   append goes to the inode the rename has just replaced: all threads finish, nothing reports an error, the file
   holds the survivors only and the published segment is listed nowhere.  The same programs are fine when the
   publisher runs first, and the coded publisher is fine under the same schedule. *)
Theorem C14_open_before_lock_refuted :
  exists needhit hz org file pubs sch,
    (forall l, In l (concat pubs) -> expired hz org l = false) /\
    (forall l, In l (concat pubs) -> in_sel (file_lines file) l = false) /\
    concat pubs <> [] /\
    finished (run_sched sch (init_state_open_first needhit hz org file pubs)) = true /\
    content (mfs (run_sched sch (init_state_open_first needhit hz org file pubs)))
      = survivors hz org (file_lines file) /\
    content (mfs (run_sched (sched_ahead (length pubs)) (init_state_open_first needhit hz org file pubs)))
      = survivors hz org (file_lines file) ++ concat pubs /\
    content (mfs (run_sched sch (init_state needhit hz org file pubs)))
      = survivors hz org (file_lines file) ++ concat pubs.
Proof. exact conc_open_before_lock_refuted. Qed.
Print Assumptions C14_open_before_lock_refuted.

(* the hypotheses of C14_concurrent_publication_and_pass are satisfiable with work for both sides: one expired and
   one newer line in the file, one published line, the forced schedule lets every thread finish *)
Example C14_concurrent_hypotheses_satisfiable :
  let a := mkseg [1;1] KMet 10 20 0%Z 0 [9;1] in
  let b := mkseg [1;2] KMet 10 900 0%Z 0 [9;1] in
  let c := mkseg [1;3] KMet 800 950 0%Z 0 [9;2] in
  expired 100000 0 a = true /\ expired 100000 0 b = false /\ expired 100000 0 c = false /\
  in_sel [a; b] c = false /\
  finished (run_sched (sched_behind 1) (init_state true 100000 0 (Some [a; b]) [[c]])) = true /\
  content (mfs (run_sched (sched_behind 1) (init_state true 100000 0 (Some [a; b]) [[c]]))) = [b; c].
Proof. repeat split; vm_compute; reflexivity. Qed.

(* ------------------------------------------------------------------------------------------------
   The clock side (SigM.RetentionTime): "older than the retention horizon" is an age, i.e. an ABSOLUTE
   duration between two instants.  time.Now() hands the pass an instant together with the server's
   local zone; GetRetentionTimeMs as coded uses the instant only (Add, UnixMilli), so the horizon, the
   selection and the whole outcome of the pass are the same for every zone and every date.  A horizon
   computed with calendar arithmetic on the wall clock (AddDate) is a different function: it agrees in
   zones without transitions and is off by the size of the clock change whenever one lies inside the
   retention window (after the change to summer time segments up to that much NEWER than the horizon
   are deleted, after the change back expired segments are kept). *)
Open Scope Z_scope.

(* for every retention, instant and pair of locations: the same horizon, namely  now - hours * 3 600 000 ms *)
Theorem C14_horizon_is_absolute_and_zone_independent : forall hours now z1 z2,
  retention_time_ms hours (mktime now z1) = retention_time_ms hours (mktime now z2)
  /\ retention_time_ms hours (mktime now z1) = now - hours * 3600000.
Proof. exact retention_time_zone_independent. Qed.
Print Assumptions C14_horizon_is_absolute_and_zone_independent.

(* the number the pass model calls [horizon] is the coded computation on a time.Time of any location *)
Theorem C14_model_horizon_is_the_coded_one : forall hours now z, 0 <= now ->
  horizon_of hours (mktime now z) = horizon (Z.to_N now) hours.
Proof. exact horizon_of_is_horizon. Qed.
Print Assumptions C14_model_horizon_is_the_coded_one.

(* selection = age as an absolute duration: the line belongs to the org and its newest event lies at least
   [hours] hours before the instant of the pass; no zone on the right-hand side *)
Theorem C14_selected_iff_older_than_the_retention : forall hours now z org s, 0 <= now -> Z.of_N hours * 3600000 <= now ->
  expired (horizon_of hours (mktime now z)) org s = true
  <-> s_org s = org /\ Z.of_N (latest_ms s) + Z.of_N hours * 3600000 <= now.
Proof. exact expired_at_iff. Qed.
Print Assumptions C14_selected_iff_older_than_the_retention.

(* files, in-memory metadata, directories and index names after the pass do not depend on the server's zone
   (every store, every map iteration order) *)
Theorem C14_pass_outcome_independent_of_server_zone : forall ord ordp ordn hours now z1 z2 org st,
  run ord ordp ordn (horizon_of hours (mktime now z1)) org st
  = run ord ordp ordn (horizon_of hours (mktime now z2)) org st.
Proof. exact pass_zone_independent. Qed.
Print Assumptions C14_pass_outcome_independent_of_server_zone.

(* Full statement for the calendar variant (whole days through AddDate, then the remaining hours):
     forall z hours now, retention_time_ms_calendar hours (mktime now z) = retention_time_ms hours (mktime now z)
   It fails (three witnesses below).  Guard = the zone has no transition (UTC and every fixed offset). *)
Theorem C14_calendar_horizon_guarded : forall o hours now,
  retention_time_ms_calendar hours (mktime now (fixed_zone o)) = retention_time_ms hours (mktime now (fixed_zone o)).
Proof. exact calendar_fixed_offset. Qed.
Print Assumptions C14_calendar_horizon_guarded.

(* change to summer time inside the window (America/New_York, pass on 2024-03-20 12:00 UTC, 15 days): horizon one
   hour too late; a segment whose newest event is NEWER than  now - retention  is selected, the coded horizon keeps it *)
Theorem C14_calendar_horizon_refuted_spring_forward :
  exists z now hours org s,
    0 <= now /\ Z.of_N hours * 3600000 <= now /\
    s_org s = org /\ now < Z.of_N (latest_ms s) + Z.of_N hours * 3600000 /\
    expired (horizon_of_calendar hours (mktime now z)) org s = true /\
    expired (horizon_of hours (mktime now z)) org s = false /\
    retention_time_ms_calendar (Z.of_N hours) (mktime now z) = retention_time_ms (Z.of_N hours) (mktime now z) + 3600000.
Proof. exact calendar_spring_forward_refuted. Qed.
Print Assumptions C14_calendar_horizon_refuted_spring_forward.

(* change back inside the window (pass on 2024-11-10 12:00 UTC, 15 days): horizon one hour too early; a segment whose
   newest event is OLDER than  now - retention  is kept *)
Theorem C14_calendar_horizon_refuted_fall_back :
  exists z now hours org s,
    0 <= now /\ Z.of_N hours * 3600000 <= now /\
    s_org s = org /\ Z.of_N (latest_ms s) + Z.of_N hours * 3600000 < now /\
    expired (horizon_of_calendar hours (mktime now z)) org s = false /\
    expired (horizon_of hours (mktime now z)) org s = true /\
    retention_time_ms_calendar (Z.of_N hours) (mktime now z) = retention_time_ms (Z.of_N hours) (mktime now z) - 3600000.
Proof. exact calendar_fall_back_refuted. Qed.
Print Assumptions C14_calendar_horizon_refuted_fall_back.

(* a retention below one day does not help: in the repeated hour after the change back AddDate(0, 0, 0) is not the
   identity (the wall-clock reading is ambiguous and resolves to its first occurrence) *)
Theorem C14_calendar_horizon_refuted_repeated_hour :
  exists z now hours, 0 <= hours < 24 /\
    t_inst (t_adddate_days (mktime now z) 0) = now - 3600000 /\
    retention_time_ms_calendar hours (mktime now z) = retention_time_ms hours (mktime now z) - 3600000.
Proof. exact calendar_repeated_hour_refuted. Qed.
Print Assumptions C14_calendar_horizon_refuted_repeated_hour.

(* ---- which directory the pass removes: from the segment key back to the directory (RetentionPaths.v) ----
   The pass removes what GetSegBaseDirFromFilename makes of a selected line's segment key, and rewrites segmeta.json
   only if the helper succeeds for at least one removed key.  Full statement: for EVERY data path, host id, index name,
   stream id and segment number the helper returns the directory the writer created for the key,
       seg_base_dir (seg_key data host ix sid sfx) = Some (base_seg_dir data host ix sid sfx).
   It holds for every index name, stream id and segment number without '/' — names equal to or containing the words of
   the directory layout (final, ts, tth, suffix, ...) included — under the exact boolean guard [root_ok]: the "/final/"
   written by the key builder is the first one of the key.  Without the guard it is false for the code (a data path with
   a directory called final): C14_segment_dir_of_key_unguarded_refuted. *)
Theorem C14_segment_dir_of_key_guarded : forall data host ix sid sfx,
  root_ok data host = true ->
  p_no_slash ix = true -> p_no_slash sid = true -> p_no_slash sfx = true ->
  seg_base_dir (seg_key data host ix sid sfx) = Some (base_seg_dir data host ix sid sfx).
Proof. exact seg_base_dir_inverts_key. Qed.
Print Assumptions C14_segment_dir_of_key_guarded.

(* non-vacuity: the guard says nothing about the index name; "/data/" + "h.1" satisfies it, and the index called
   final gets the directory the writer created *)
Example C14_segment_dir_guard_satisfiable : root_ok b_data_long b_host_id = true.
Proof. exact root_ok_satisfiable. Qed.
Print Assumptions C14_segment_dir_guard_satisfiable.

Example C14_segment_dir_of_index_named_final :
  seg_base_dir (seg_key b_data b_host b_final b_sid b_zero) = Some (base_seg_dir b_data b_host b_final b_sid b_zero).
Proof. exact seg_base_dir_index_named_final. Qed.
Print Assumptions C14_segment_dir_of_index_named_final.

(* data path "/final/x/": the helper answers with <data><host>/final/ — the directory that holds EVERY segment of the
   host — for the key of any segment *)
Theorem C14_segment_dir_of_key_unguarded_refuted : exists data host ix sid sfx,
  p_no_slash host = true /\ p_no_slash ix = true /\ p_no_slash sid = true /\ p_no_slash sfx = true /\
  seg_base_dir (seg_key data host ix sid sfx) = Some (data ++ host ++ p_final_sl) /\
  seg_base_dir (seg_key data host ix sid sfx) <> Some (base_seg_dir data host ix sid sfx).
Proof. exact seg_base_dir_unguarded_refuted. Qed.
Print Assumptions C14_segment_dir_of_key_unguarded_refuted.

(* the helper anchored on the LAST "/final/" of the key (NOT the code): wrong under the guard, witness = the index
   called final (the two occurrences overlap, two parts follow instead of three, the helper fails and the pass leaves
   the expired segment's files behind) *)
Theorem C14_segment_dir_anchored_on_last_final_refuted : exists data host ix sid sfx,
  root_ok data host = true /\ p_no_slash ix = true /\ p_no_slash sid = true /\ p_no_slash sfx = true /\
  seg_base_dir_last (seg_key data host ix sid sfx) <> Some (base_seg_dir data host ix sid sfx).
Proof. exact seg_base_dir_last_refuted. Qed.
Print Assumptions C14_segment_dir_anchored_on_last_final_refuted.

(* ---- after fix e0ecac0: DeleteSegmentData / removeSegmetas derive the directory with GetSegBaseDirFromSegKey
   ([seg_base_dir_key]: cut behind the last '/', the part before it must end in the same suffix).  Full statement,
   UNGUARDED: every data path, host id, index name and stream id — no condition on them — and every non-empty segment
   number without '/' (a numeral).  The searching helper above ([seg_base_dir], first "/final/") is still used by
   IsFileForRotatedSegment / GetSegKeyFromFilename (outside C14) and stays under its guard. *)
Theorem C14_segment_dir_of_segkey : forall data host ix sid sfx,
  p_no_slash sfx = true -> sfx <> [] ->
  seg_base_dir_key (seg_key data host ix sid sfx) = Some (base_seg_dir data host ix sid sfx).
Proof. exact seg_base_dir_key_inverts_key. Qed.
Print Assumptions C14_segment_dir_of_segkey.

(* the helper of the callers before the fix on the same keys: data path "/final/x/" — the new helper answers with the
   segment's directory, the old one with <data><host>/final/ *)
Theorem C14_prefix_segment_dir_by_first_final_refuted : exists data host ix sid sfx,
  p_no_slash host = true /\ p_no_slash ix = true /\ p_no_slash sid = true /\ p_no_slash sfx = true /\ sfx <> [] /\
  seg_base_dir_key (seg_key data host ix sid sfx) = Some (base_seg_dir data host ix sid sfx) /\
  seg_base_dir (seg_key data host ix sid sfx) = Some (data ++ host ++ p_final_sl) /\
  seg_base_dir (seg_key data host ix sid sfx) <> Some (base_seg_dir data host ix sid sfx).
Proof. exact seg_base_dir_prefix_unguarded_refuted. Qed.
Print Assumptions C14_prefix_segment_dir_by_first_final_refuted.

(* C15 — Bulk ingest acknowledges exactly what it stored.
   Statements only; proofs are in SigP.BulkProofs.  The model (SigM.Bulk) follows
   HandleBulkBody after the fix "bulk response accounting"; [b] ranges over ALL
   bodies (lists of classified segments), [actions (body_lines b)] is the bulk
   grammar's reading of the body, [handle] the code's response and the documents that
   reach the store, [store_ok] which indexes accept their batch.  [handle_prefix] is
   the code before the fix. *)
From SigM Require Import Base Bulk BulkPool.
From SigP Require Import BaseProofs BulkProofs BulkPoolProofs.
Open Scope N_scope.

(* ---- one item per action, in request order: the items are, position by position,
   what each action deserves on its own ---- *)
Theorem C15_one_item_per_action : forall so b,
  length (r_items (handle so b)) = length (actions (body_lines b)).
Proof. exact one_item_per_action. Qed.
Print Assumptions C15_one_item_per_action.

Theorem C15_items_in_request_order : forall so b,
  r_items (handle so b) = map expected_status (actions (body_lines b)).
Proof. exact items_are_expected. Qed.
Print Assumptions C15_items_in_request_order.

(* ---- a malformed, oversized or unknown action affects only its own item:
   the i-th item is a function of the i-th action alone ---- *)
Theorem C15_failure_is_local : forall so b i a st,
  nth_error (actions (body_lines b)) i = Some a ->
  nth_error (r_items (handle so b)) i = Some st ->
  st = expected_status a.
Proof. exact failure_is_local. Qed.
Print Assumptions C15_failure_is_local.

Theorem C15_success_is_local : forall so b i a st,
  nth_error (actions (body_lines b)) i = Some a ->
  nth_error (r_items (handle so b)) i = Some st ->
  created st = act_ok a.
Proof. exact success_is_local. Qed.
Print Assumptions C15_success_is_local.

(* ---- the errors flag is true iff some item failed ---- *)
Theorem C15_errors_flag_iff_some_failed : forall so b,
  r_errors (handle so b) = true <->
  exists st, In st (r_items (handle so b)) /\ st <> 201.
Proof. exact errors_flag_iff_some_failed. Qed.
Print Assumptions C15_errors_flag_iff_some_failed.

(* the whole-request error ("all bulk requests failed") iff no item is created *)
Theorem C15_all_failed_iff_no_created : forall so b,
  r_allfailed (handle so b) = true <-> ~ In 201 (r_items (handle so b)).
Proof. exact all_failed_iff_no_created. Qed.
Print Assumptions C15_all_failed_iff_no_created.

(* ---- created iff stored exactly once; failed items are not stored ----
   Full statement (still FALSE when a store call fails, see _refuted; known finding
   bulk_store_failure_reported_created): the same without the [stores_ok] hypothesis.
   [NoDup] says the request's documents are distinct, which is what gives "exactly
   once" a meaning. *)
Theorem C15_created_iff_stored_guarded : forall so b,
  stores_ok so (actions (body_lines b)) = true ->
  NoDup (flat_map act_doc (actions (body_lines b))) ->
  forall i a st,
    nth_error (actions (body_lines b)) i = Some a ->
    nth_error (r_items (handle so b)) i = Some st ->
    (st = 201 -> exists k, act_doc a = [k] /\ count_occ key_dec (r_stored (handle so b)) k = 1%nat) /\
    (st <> 201 -> forall k, In k (act_doc a) -> count_occ key_dec (r_stored (handle so b)) k = 0%nat).
Proof. exact created_iff_stored_guarded. Qed.
Print Assumptions C15_created_iff_stored_guarded.

(* nothing else reaches the store: it holds exactly the documents of the well-formed
   write actions, in request order *)
Theorem C15_stored_are_created_docs : forall so b,
  stores_ok so (actions (body_lines b)) = true ->
  r_stored (handle so b) = flat_map act_doc (filter act_ok (actions (body_lines b))).
Proof. exact stored_are_created_docs. Qed.
Print Assumptions C15_stored_are_created_docs.

Theorem C15_created_iff_stored_refuted : exists so b i a k,
  nth_error (actions (body_lines b)) i = Some a /\
  nth_error (r_items (handle so b)) i = Some 201 /\
  In k (act_doc a) /\ count_occ key_dec (r_stored (handle so b)) k = 0%nat.
Proof. exact created_iff_stored_refuted. Qed.
Print Assumptions C15_created_iff_stored_refuted.

Example C15_guard_stores_ok_satisfiable :
  stores_ok all_ok (actions (body_lines w_good)) = true /\
  r_items (handle all_ok w_good) = [201; 400; 400; 413; 201; 400] /\
  r_errors (handle all_ok w_good) = true /\
  r_stored (handle all_ok w_good) = [(1, 1); (2, 2)].
Proof. vm_compute. repeat split; reflexivity. Qed.

(* an index/create action with an unusable index name (utils.IsSafePathComponent) is an
   ordinary failing action of the grammar: it owns the next line as its document (even
   when that line looks like an action), gets one 400 item, stores nothing, and the
   following action keeps its position and its document *)
Example C15_unsafe_index_name_is_local :
  map has_doc (actions (body_lines w_unsafe)) = [true; true] /\
  r_items (handle all_ok w_unsafe) = [400; 201] /\
  r_stored (handle all_ok w_unsafe) = [(1, 3)].
Proof. vm_compute. repeat split; reflexivity. Qed.

(* ---- documentation: the code BEFORE the fix (Bulk.handle_prefix) violated three of
   the clauses above; the harness keeps generating these bodies (the
   "regression" streams), so a return of the defects is a VIOLATION with a concrete input ---- *)

(* the loop broke before counting a last action that had no document line *)
Theorem C15_prefix_one_item_per_action_refuted : exists b,
  length (r_items (handle_prefix all_ok b)) <> length (actions (body_lines b)).
Proof. exact prefix_one_item_per_action_refuted. Qed.
Print Assumptions C15_prefix_one_item_per_action_refuted.

(* 413 items did not set errors *)
Theorem C15_prefix_errors_flag_iff_some_failed_refuted : exists b,
  r_errors (handle_prefix all_ok b) = false /\
  exists st, In st (r_items (handle_prefix all_ok b)) /\ st <> 201.
Proof. exact prefix_errors_flag_iff_some_failed_refuted. Qed.
Print Assumptions C15_prefix_errors_flag_iff_some_failed_refuted.

(* maxRecordSizeExceeded was never reset: later failures reported 413 *)
Theorem C15_prefix_failure_is_local_refuted : exists b i a st,
  nth_error (actions (body_lines b)) i = Some a /\
  nth_error (r_items (handle_prefix all_ok b)) i = Some st /\ st <> expected_status a.
Proof. exact prefix_failure_is_local_refuted. Qed.
Print Assumptions C15_prefix_failure_is_local_refuted.

(* ---- a bulk request does not run alone: the process serves Splunk HEC, Loki, OTLP logs,
   single-document and other bulk requests before it, and all of them take their
   ParsedLogEvent objects from one process-wide pool (SigM.BulkPool).  [h] ranges over ALL
   histories of requests (any documents, accepted or failing, any release lists, any pool
   order, garbage collections in between); [disciplined] = no request puts an object of
   its array back twice; [handle_after h] = HandleBulkBody after [h]. ---- *)

(* the pool never holds an object twice *)
Theorem C15_pool_discipline_invariant : forall h,
  forallb disciplined_ev h = true -> pool_ok (run_hist p_init h).
Proof. exact pool_discipline_invariant. Qed.
Print Assumptions C15_pool_discipline_invariant.

(* every request of any protocol hands the store exactly the documents it accepted *)
Theorem C15_request_stores_its_documents : forall h q,
  forallb disciplined_ev h = true ->
  fst (run_req (run_hist p_init h) q) = q_accepted q.
Proof. exact request_stores_its_documents. Qed.
Print Assumptions C15_request_stores_its_documents.

(* the entry points of the unchanged code are disciplined *)
Theorem C15_entry_points_disciplined : forall p ds, disciplined (preq p ds) = true.
Proof. exact preq_disciplined. Qed.
Print Assumptions C15_entry_points_disciplined.

(* the documents the pooled bulk request keeps an object for are the loop's allPLEs *)
Theorem C15_bulk_gets_are_allPLEs : forall b, q_accepted (bulk_ireq b) = ples (loop b init).
Proof. exact bulk_gets_are_allPLEs. Qed.
Print Assumptions C15_bulk_gets_are_allPLEs.

(* what ran before does not change what a bulk request acknowledges and stores *)
Theorem C15_bulk_outcome_independent_of_history : forall h so b,
  forallb disciplined_ev h = true -> handle_after h so b = handle so b.
Proof. exact bulk_outcome_independent_of_history. Qed.
Print Assumptions C15_bulk_outcome_independent_of_history.

(* created iff stored exactly once, after any such history.  Full statement (FALSE, see
   _refuted): the same without the [disciplined_ev] hypothesis. *)
Theorem C15_created_iff_stored_after_history_guarded : forall h so b,
  forallb disciplined_ev h = true ->
  stores_ok so (actions (body_lines b)) = true ->
  NoDup (flat_map act_doc (actions (body_lines b))) ->
  forall i a st,
    nth_error (actions (body_lines b)) i = Some a ->
    nth_error (r_items (handle_after h so b)) i = Some st ->
    (st = 201 -> exists k, act_doc a = [k] /\ count_occ key_dec (r_stored (handle_after h so b)) k = 1%nat) /\
    (st <> 201 -> forall k, In k (act_doc a) -> count_occ key_dec (r_stored (handle_after h so b)) k = 0%nat).
Proof. exact created_iff_stored_after_history. Qed.
Print Assumptions C15_created_iff_stored_after_history_guarded.

(* one earlier request that releases its object twice: both items 201, errors=false, the
   first document is never stored and the second one twice *)
Theorem C15_created_iff_stored_after_history_refuted : exists h b k1 k2,
  NoDup (flat_map act_doc (actions (body_lines b))) /\
  r_items (handle_after h all_ok b) = [201; 201] /\
  r_errors (handle_after h all_ok b) = false /\
  In k1 (flat_map act_doc (actions (body_lines b))) /\
  count_occ key_dec (r_stored (handle_after h all_ok b)) k1 = 0%nat /\
  count_occ key_dec (r_stored (handle_after h all_ok b)) k2 = 2%nat.
Proof. exact double_release_refuted. Qed.
Print Assumptions C15_created_iff_stored_after_history_refuted.

(* the guard is satisfiable: every entry point, failing documents and a collection *)
Example C15_guard_disciplined_satisfiable :
  forallb disciplined_ev h_mixed = true /\
  p_free (run_hist p_init h_mixed) = [9%N] /\
  r_stored (handle_after h_mixed all_ok w_good) = [(1, 1); (2, 2)].
Proof. vm_compute. repeat split; reflexivity. Qed.

(* C15 — Bulk ingest acknowledges exactly what it stored.
   Statements only; proofs are in SigP.BulkProofs.  The model (SigM.Bulk) follows
   HandleBulkBody after the fix "bulk response accounting"; [b] ranges over ALL
   bodies (lists of classified segments), [actions (body_lines b)] is the bulk
   grammar's reading of the body, [handle] the code's response and the documents that
   reach the store, [store_ok] which indexes accept their batch.  [handle_prefix] is
   the code before the fix. *)
From Coq Require Import Permutation.
From SigM Require Import Base Bulk BulkPool BulkAlias BulkConc.
From SigP Require Import BaseProofs BulkProofs BulkPoolProofs BulkAliasProofs BulkConcProofs.
Open Scope N_scope.

(* ---- one item per action, in request order: the items are, position by position,
   what each action deserves on its own ---- *)
Theorem C15_one_item_per_action : forall so b,
  length (r_items (handle so b)) = length (actions (body_lines b)).
Proof. exact one_item_per_action. Qed.
Print Assumptions C15_one_item_per_action.

Theorem C15_items_in_request_order : forall so b,
  r_items (handle so b) = map expected_status (actions (body_lines b)).
Proof. exact items_are_expected. Qed.
Print Assumptions C15_items_in_request_order.

(* ---- a malformed, oversized or unknown action affects only its own item:
   the i-th item is a function of the i-th action alone ---- *)
Theorem C15_failure_is_local : forall so b i a st,
  nth_error (actions (body_lines b)) i = Some a ->
  nth_error (r_items (handle so b)) i = Some st ->
  st = expected_status a.
Proof. exact failure_is_local. Qed.
Print Assumptions C15_failure_is_local.

Theorem C15_success_is_local : forall so b i a st,
  nth_error (actions (body_lines b)) i = Some a ->
  nth_error (r_items (handle so b)) i = Some st ->
  created st = act_ok a.
Proof. exact success_is_local. Qed.
Print Assumptions C15_success_is_local.

(* ---- the errors flag is true iff some item failed ---- *)
Theorem C15_errors_flag_iff_some_failed : forall so b,
  r_errors (handle so b) = true <->
  exists st, In st (r_items (handle so b)) /\ st <> 201.
Proof. exact errors_flag_iff_some_failed. Qed.
Print Assumptions C15_errors_flag_iff_some_failed.

(* the whole-request error ("all bulk requests failed") iff no item is created *)
Theorem C15_all_failed_iff_no_created : forall so b,
  r_allfailed (handle so b) = true <-> ~ In 201 (r_items (handle so b)).
Proof. exact all_failed_iff_no_created. Qed.
Print Assumptions C15_all_failed_iff_no_created.

(* ---- created iff stored exactly once; failed items are not stored ----
   Full statement (still FALSE when a store call fails, see _refuted; known finding
   bulk_store_failure_reported_created): the same without the [stores_ok] hypothesis.
   [NoDup] says the request's documents are distinct, which is what gives "exactly
   once" a meaning. *)
Theorem C15_created_iff_stored_guarded : forall so b,
  stores_ok so (actions (body_lines b)) = true ->
  NoDup (flat_map act_doc (actions (body_lines b))) ->
  forall i a st,
    nth_error (actions (body_lines b)) i = Some a ->
    nth_error (r_items (handle so b)) i = Some st ->
    (st = 201 -> exists k, act_doc a = [k] /\ count_occ key_dec (r_stored (handle so b)) k = 1%nat) /\
    (st <> 201 -> forall k, In k (act_doc a) -> count_occ key_dec (r_stored (handle so b)) k = 0%nat).
Proof. exact created_iff_stored_guarded. Qed.
Print Assumptions C15_created_iff_stored_guarded.

(* nothing else reaches the store: it holds exactly the documents of the well-formed
   write actions, in request order *)
Theorem C15_stored_are_created_docs : forall so b,
  stores_ok so (actions (body_lines b)) = true ->
  r_stored (handle so b) = flat_map act_doc (filter act_ok (actions (body_lines b))).
Proof. exact stored_are_created_docs. Qed.
Print Assumptions C15_stored_are_created_docs.

Theorem C15_created_iff_stored_refuted : exists so b i a k,
  nth_error (actions (body_lines b)) i = Some a /\
  nth_error (r_items (handle so b)) i = Some 201 /\
  In k (act_doc a) /\ count_occ key_dec (r_stored (handle so b)) k = 0%nat.
Proof. exact created_iff_stored_refuted. Qed.
Print Assumptions C15_created_iff_stored_refuted.

Example C15_guard_stores_ok_satisfiable :
  stores_ok all_ok (actions (body_lines w_good)) = true /\
  r_items (handle all_ok w_good) = [201; 400; 400; 413; 201; 400] /\
  r_errors (handle all_ok w_good) = true /\
  r_stored (handle all_ok w_good) = [(1, 1); (2, 2)].
Proof. vm_compute. repeat split; reflexivity. Qed.

(* an index/create action with an unusable index name (utils.IsSafePathComponent) is an
   ordinary failing action of the grammar: it owns the next line as its document (even
   when that line looks like an action), gets one 400 item, stores nothing, and the
   following action keeps its position and its document *)
Example C15_unsafe_index_name_is_local :
  map has_doc (actions (body_lines w_unsafe)) = [true; true] /\
  r_items (handle all_ok w_unsafe) = [400; 201] /\
  r_stored (handle all_ok w_unsafe) = [(1, 3)].
Proof. vm_compute. repeat split; reflexivity. Qed.

(* ---- documentation: the code BEFORE the fix (Bulk.handle_prefix) violated three of
   the clauses above; the harness keeps generating these bodies (the
   "regression" streams), so a return of the defects is a VIOLATION with a concrete input ---- *)

(* the loop broke before counting a last action that had no document line *)
Theorem C15_prefix_one_item_per_action_refuted : exists b,
  length (r_items (handle_prefix all_ok b)) <> length (actions (body_lines b)).
Proof. exact prefix_one_item_per_action_refuted. Qed.
Print Assumptions C15_prefix_one_item_per_action_refuted.

(* 413 items did not set errors *)
Theorem C15_prefix_errors_flag_iff_some_failed_refuted : exists b,
  r_errors (handle_prefix all_ok b) = false /\
  exists st, In st (r_items (handle_prefix all_ok b)) /\ st <> 201.
Proof. exact prefix_errors_flag_iff_some_failed_refuted. Qed.
Print Assumptions C15_prefix_errors_flag_iff_some_failed_refuted.

(* maxRecordSizeExceeded was never reset: later failures reported 413 *)
Theorem C15_prefix_failure_is_local_refuted : exists b i a st,
  nth_error (actions (body_lines b)) i = Some a /\
  nth_error (r_items (handle_prefix all_ok b)) i = Some st /\ st <> expected_status a.
Proof. exact prefix_failure_is_local_refuted. Qed.
Print Assumptions C15_prefix_failure_is_local_refuted.

(* ---- a bulk request does not run alone: the process serves Splunk HEC, Loki, OTLP logs,
   single-document and other bulk requests before it, and all of them take their
   ParsedLogEvent objects from one process-wide pool (SigM.BulkPool).  [h] ranges over ALL
   histories of requests (any documents, accepted or failing, any release lists, any pool
   order, garbage collections in between); [disciplined] = no request puts an object of
   its array back twice; [handle_after h] = HandleBulkBody after [h]. ---- *)

(* the pool never holds an object twice *)
Theorem C15_pool_discipline_invariant : forall h,
  forallb disciplined_ev h = true -> pool_ok (run_hist p_init h).
Proof. exact pool_discipline_invariant. Qed.
Print Assumptions C15_pool_discipline_invariant.

(* every request of any protocol hands the store exactly the documents it accepted *)
Theorem C15_request_stores_its_documents : forall h q,
  forallb disciplined_ev h = true ->
  fst (run_req (run_hist p_init h) q) = q_accepted q.
Proof. exact request_stores_its_documents. Qed.
Print Assumptions C15_request_stores_its_documents.

(* the entry points of the unchanged code are disciplined *)
Theorem C15_entry_points_disciplined : forall p ds, disciplined (preq p ds) = true.
Proof. exact preq_disciplined. Qed.
Print Assumptions C15_entry_points_disciplined.

(* the documents the pooled bulk request keeps an object for are the loop's allPLEs *)
Theorem C15_bulk_gets_are_allPLEs : forall b, q_accepted (bulk_ireq b) = ples (loop b init).
Proof. exact bulk_gets_are_allPLEs. Qed.
Print Assumptions C15_bulk_gets_are_allPLEs.

(* what ran before does not change what a bulk request acknowledges and stores *)
Theorem C15_bulk_outcome_independent_of_history : forall h so b,
  forallb disciplined_ev h = true -> handle_after h so b = handle so b.
Proof. exact bulk_outcome_independent_of_history. Qed.
Print Assumptions C15_bulk_outcome_independent_of_history.

(* created iff stored exactly once, after any such history.  Full statement (FALSE, see
   _refuted): the same without the [disciplined_ev] hypothesis. *)
Theorem C15_created_iff_stored_after_history_guarded : forall h so b,
  forallb disciplined_ev h = true ->
  stores_ok so (actions (body_lines b)) = true ->
  NoDup (flat_map act_doc (actions (body_lines b))) ->
  forall i a st,
    nth_error (actions (body_lines b)) i = Some a ->
    nth_error (r_items (handle_after h so b)) i = Some st ->
    (st = 201 -> exists k, act_doc a = [k] /\ count_occ key_dec (r_stored (handle_after h so b)) k = 1%nat) /\
    (st <> 201 -> forall k, In k (act_doc a) -> count_occ key_dec (r_stored (handle_after h so b)) k = 0%nat).
Proof. exact created_iff_stored_after_history. Qed.
Print Assumptions C15_created_iff_stored_after_history_guarded.

(* one earlier request that releases its object twice: both items 201, errors=false, the
   first document is never stored and the second one twice *)
Theorem C15_created_iff_stored_after_history_refuted : exists h b k1 k2,
  NoDup (flat_map act_doc (actions (body_lines b))) /\
  r_items (handle_after h all_ok b) = [201; 201] /\
  r_errors (handle_after h all_ok b) = false /\
  In k1 (flat_map act_doc (actions (body_lines b))) /\
  count_occ key_dec (r_stored (handle_after h all_ok b)) k1 = 0%nat /\
  count_occ key_dec (r_stored (handle_after h all_ok b)) k2 = 2%nat.
Proof. exact double_release_refuted. Qed.
Print Assumptions C15_created_iff_stored_after_history_refuted.

(* the guard is satisfiable: every entry point, failing documents and a collection *)
Example C15_guard_disciplined_satisfiable :
  forallb disciplined_ev h_mixed = true /\
  p_free (run_hist p_init h_mixed) = [9%N] /\
  r_stored (handle_after h_mixed all_ok w_good) = [(1, 1); (2, 2)].
Proof. vm_compute. repeat split; reflexivity. Qed.

(* ---- index names may be ALIASES (SigM.BulkAlias).  A request files the documents of each
   group (index name as written in the action) in the segment store of the stream of the
   RESOLVED name; a store is looked up by stream and gets its table name when it is created;
   a query on a name reads the stores whose table name is what the name resolves to.
   [h] ranges over ALL histories of alias definitions, ingest requests (any groups, any
   order) and store removals; [order] over every grouping of the stored documents in any
   order (the group loop of HandleBulkBody runs in Go map order). ---- *)

(* every segment store is filed under the name its stream was derived from *)
Theorem C15_alias_filing_invariant : forall h,
  filed_ok (snd (run_ahist a_init h)) = true.
Proof. exact filing_invariant_init. Qed.
Print Assumptions C15_alias_filing_invariant.

(* a request adds exactly its documents to what a query on ANY name finds: those of the groups
   whose name resolves to the same index as the queried name; nothing is lost, duplicated or
   filed where the query does not look *)
Theorem C15_alias_request_conserves_search : forall al ss gs name id,
  filed_ok ss = true ->
  occ id (searchable al (run_batches al ss gs) name) =
  (occ id (searchable al ss name) + occ id (docs_for al gs name))%nat.
Proof. exact request_conserves_search. Qed.
Print Assumptions C15_alias_request_conserves_search.

(* the groups HandleBulkBody forms hold exactly the documents it accepted *)
Theorem C15_bulk_groups_partition : forall so b,
  Permutation (ungroup (bulk_groups so b)) (r_stored (handle so b)).
Proof. exact bulk_groups_order. Qed.
Print Assumptions C15_bulk_groups_partition.

(* created iff searchable exactly once, by a query on ANY name that stands for the same index
   as the name written in the action (the index itself, the alias used, another alias), and by
   no other query; failed items are found by no query.  Guards: the store calls succeed, the
   documents of the request are distinct and new. *)
Theorem C15_created_iff_searchable_through_alias_guarded : forall h so b order,
  let A := actions (body_lines b) in
  let r := handle so b in
  let al := fst (run_ahist a_init h) in
  let ss := snd (run_ahist a_init h) in
  let ss' := run_batches al ss order in
  Permutation (ungroup order) (r_stored r) ->
  stores_ok so A = true ->
  NoDup (map snd (flat_map act_doc A)) ->
  (forall k t, In k (flat_map act_doc A) -> occ (snd k) (table_docs ss t) = 0%nat) ->
  forall i a sti, nth_error A i = Some a -> nth_error (r_items r) i = Some sti ->
    (sti = 201 -> exists idx id, act_doc a = [(idx, id)] /\
       forall name, occ id (searchable al ss' name) =
                    if resolve al name =? resolve al idx then 1%nat else 0%nat) /\
    (sti <> 201 -> forall k, In k (act_doc a) ->
       forall name, occ (snd k) (searchable al ss' name) = 0%nat).
Proof. exact created_iff_searchable_through_alias. Qed.
Print Assumptions C15_created_iff_searchable_through_alias_guarded.

(* a created item written through an alias: found once through the alias, once under the index
   the alias points to, and nothing is filed under the alias name *)
Theorem C15_created_through_alias_found_under_index : forall h so b order,
  let A := actions (body_lines b) in
  let r := handle so b in
  let al := fst (run_ahist a_init h) in
  let ss := snd (run_ahist a_init h) in
  let ss' := run_batches al ss order in
  Permutation (ungroup order) (r_stored r) ->
  stores_ok so A = true ->
  NoDup (map snd (flat_map act_doc A)) ->
  (forall k t, In k (flat_map act_doc A) -> occ (snd k) (table_docs ss t) = 0%nat) ->
  forall i l d real,
    nth_error A i = Some (AWrite l (Some d)) -> nth_error (r_items r) i = Some 201 ->
    alias_of al (l_idx l) = Some real -> alias_of al real = None ->
    occ (l_id d) (searchable al ss' (l_idx l)) = 1%nat /\
    occ (l_id d) (searchable al ss' real) = 1%nat /\
    occ (l_id d) (table_docs ss' (l_idx l)) = 0%nat.
Proof. exact created_through_alias_found_under_index. Qed.
Print Assumptions C15_created_through_alias_found_under_index.

(* the filing invariant is what carries the two theorems above: from a state with ONE store
   filed under another name than its stream's (the store of the index's stream created under
   the alias name) the item is 201, errors = false, and the document is found neither through
   the alias nor under the index; documents written directly to the index afterwards are lost
   to queries as well *)
Theorem C15_alias_misfiled_store_refuted : exists al ss b idx real id,
  filed_ok ss = false /\
  alias_of al idx = Some real /\ alias_of al real = None /\
  flat_map act_doc (actions (body_lines b)) = [(idx, id)] /\
  r_items (handle all_ok b) = [201] /\ r_errors (handle all_ok b) = false /\
  occ id (searchable al (bulk_after (al, ss) all_ok b) idx) = 0%nat /\
  occ id (searchable al (bulk_after (al, ss) all_ok b) real) = 0%nat /\
  occ id (table_docs (bulk_after (al, ss) all_ok b) idx) = 1%nat.
Proof. exact misfiled_store_refuted. Qed.
Print Assumptions C15_alias_misfiled_store_refuted.

Theorem C15_alias_misfiled_store_loses_direct_writes : exists al ss b real id,
  filed_ok ss = false /\ alias_of al real = None /\
  flat_map act_doc (actions (body_lines b)) = [(real, id)] /\
  r_items (handle all_ok b) = [201] /\
  occ id (searchable al (bulk_after (al, ss) all_ok b) real) = 0%nat.
Proof. exact misfiled_store_loses_direct_writes. Qed.
Print Assumptions C15_alias_misfiled_store_loses_direct_writes.

(* the guards are satisfiable: index written first, aliases defined afterwards (one for an index
   whose store is then removed), one body through both aliases and an index name *)
Example C15_alias_history_satisfiable :
  filed_ok (snd (run_ahist a_init h_alias)) = true /\
  r_items (handle all_ok w_alias_mixed) = [201; 201; 201; 400] /\
  (let s := run_ahist a_init h_alias in
   let ss' := bulk_after s all_ok w_alias_mixed in
   searchable (fst s) ss' 70 = [900; 901; 1; 2] /\ searchable (fst s) ss' 80 = [900; 901; 1; 2] /\
   searchable (fst s) ss' 71 = [3] /\ searchable (fst s) ss' 81 = [3] /\
   table_docs ss' 70 = [] /\ table_docs ss' 71 = [] /\ filed_ok ss' = true).
Proof. vm_compute. repeat split; reflexivity. Qed.

(* ---- bulk requests served AT THE SAME TIME (SigM.BulkConc).  Every request hands its groups
   (stream, documents) to AddEntryToInMemBuf; per group three atomic steps: look the stream's store
   up under the table's read lock, on a miss take the write lock, RE-CHECK the table and create the
   store only if it is still missing, add the documents under the store's lock.  [sched] ranges over
   ALL interleavings (lists of request numbers) of ANY number of requests; [crun true] is the code
   (with the re-check), [crun false] the get-or-create without it; [visible st s] = what the next
   flush makes searchable for stream s = the documents of the store the TABLE holds for s. ---- *)

(* the invariant of the store table: one store per stream, distinct stores for distinct streams, and
   every request that stands before AddEntry holds the store the table holds.  It holds in the empty
   process, when requests arrive, after every step sequence, and when an idle store leaves the table *)
Theorem C15_concurrent_store_table_invariant :
  cinv c_empty /\
  (forall st reqs, cinv st -> cinv (c_arrive st reqs)) /\
  (forall st sched, cinv st -> cinv (crun true st sched)) /\
  (forall st s, cinv st -> c_thr st = [] -> cinv (c_drop st s)).
Proof. exact (conj cinv_empty (conj cinv_arrive (conj (fun st sched H => cinv_run sched st H) cinv_drop))). Qed.
Print Assumptions C15_concurrent_store_table_invariant.

(* all requests, every interleaving: exactly one store object is ever created per stream *)
Theorem C15_concurrent_one_store_per_stream : forall reqs sched,
  let fin := crun true (c_start reqs) sched in
  NoDup (map fst (c_tbl fin)) /\ c_next fin = length (c_tbl fin).
Proof. exact one_store_per_stream. Qed.
Print Assumptions C15_concurrent_one_store_per_stream.

(* every interleaving that lets the requests finish: a stream shows after the next flush what it
   showed before plus exactly the documents the requests sent to it (count per document: nothing
   lost in a store nobody visits, nothing doubled) *)
Theorem C15_concurrent_requests_conserve : forall st reqs sched s d,
  cinv st ->
  let fin := crun true (c_arrive st reqs) sched in
  all_done fin = true ->
  occ d (visible fin s) =
  (occ d (visible st s) + occ d (flat_map (fun r => req_docs r s) reqs))%nat.
Proof. exact concurrent_requests_conserve. Qed.
Print Assumptions C15_concurrent_requests_conserve.

(* created iff searchable exactly once for every item of every request of a wave of bulk requests
   ([rs]: for each body any grouping of its stored documents in any order - Go map order), for every
   interleaving, from any state of the table that satisfies the invariant (first write of a new
   index, existing store, store removed).  Guards: the documents of the wave are distinct and new. *)
Theorem C15_concurrent_created_iff_searchable : forall st bs rs sched,
  cinv st ->
  Forall2 creq_of bs rs ->
  NoDup (map snd (flat_map body_docs bs)) ->
  (forall k s, In k (flat_map body_docs bs) -> occ (snd k) (visible st s) = 0%nat) ->
  let fin := crun true (c_arrive st rs) sched in
  all_done fin = true ->
  forall j b, nth_error bs j = Some b ->
  forall i a sti, nth_error (actions (body_lines b)) i = Some a ->
    nth_error (r_items (handle all_ok b)) i = Some sti ->
    (sti = 201 -> exists idx id, act_doc a = [(idx, id)] /\
       forall s, occ id (visible fin s) = if s =? idx then 1%nat else 0%nat) /\
    (sti <> 201 -> forall k, In k (act_doc a) -> forall s, occ (snd k) (visible fin s) = 0%nat).
Proof. exact concurrent_created_iff_searchable. Qed.
Print Assumptions C15_concurrent_created_iff_searchable.

Theorem C15_bulk_request_is_concurrent_request : forall b, creq_of b (bulk_creq all_ok b).
Proof. exact bulk_creq_of. Qed.
Print Assumptions C15_bulk_request_is_concurrent_request.

(* WITHOUT the re-check after taking the write lock the statement is false: two requests, each one
   well-formed write into the same new index, both look the stream up before either creates the
   store: both answered 201 / errors=false, two store objects for one stream, the table keeps the
   second, and the first request's document is in no store the flush visits *)
Theorem C15_concurrent_no_recheck_refuted : exists b1 b2 sched id1,
  let rs := [bulk_creq all_ok b1; bulk_creq all_ok b2] in
  let fin := crun false (c_start rs) sched in
  NoDup (map snd (flat_map body_docs [b1; b2])) /\
  all_done fin = true /\
  r_items (handle all_ok b1) = [201] /\ r_errors (handle all_ok b1) = false /\
  r_items (handle all_ok b2) = [201] /\ r_errors (handle all_ok b2) = false /\
  body_docs b1 = [(7, id1)] /\
  (forall s, In s [7] -> occ id1 (visible fin s) = 0%nat) /\
  c_next fin = 2%nat /\ map fst (c_tbl fin) = [7; 7].
Proof. exact no_recheck_refuted. Qed.
Print Assumptions C15_concurrent_no_recheck_refuted.

(* the same two requests one after the other lose nothing without the re-check either (sequential
   request streams cannot see the difference); under the gate's interleaving the re-check keeps
   both documents and its absence keeps only the second *)
Example C15_concurrent_recheck_matters_only_under_interleaving :
  let rs := [bulk_creq all_ok w_conc_a; bulk_creq all_ok w_conc_b] in
  visible (crun false (c_start rs) w_seq_sched) 7 = [1; 2] /\
  visible (crun true (c_start rs) w_seq_sched) 7 = [1; 2] /\
  visible (crun true (c_start rs) w_gate_sched) 7 = [1; 2] /\
  visible (crun false (c_start rs) w_gate_sched) 7 = [2].
Proof. exact no_recheck_sequential_is_fine. Qed.

(* ---- the response items of concurrent requests: respItemsPool (SigM.BulkConc, sstate).  The code
   (after the fix "the bulk response owns its item list", repo 9cbaf3b) collects the items in a slice
   of respItemsPool, returns a fresh COPY of items[0:inCount] as response["items"] and puts the pooled
   slice back; [sstep true].  Events of the process: a request starts with ANY pooled slice or a new
   one, writes an item, returns.  [sstep false] is the code before the fix (the response pointed into
   the pooled slice). ---- *)

(* the slice a response points into is never in the pool and never held by a request in flight:
   after EVERY event sequence of the process *)
Theorem C15_response_slice_invariant : forall evs, sinv (srun true s_empty evs).
Proof. exact slice_invariant. Qed.
Print Assumptions C15_response_slice_invariant.

(* full statement: in any reachable state a request returns; whatever the process does afterwards
   (other requests starting, writing their statuses, returning - before this response is serialised),
   the response reads what the request's slice held when it returned *)
Theorem C15_response_items_private : forall before st j b,
  st = srun true s_empty before ->
  aget (s_run st) j = Some b ->
  exists a, aget (s_resp (sstep true st (SReturn j))) j = Some a /\
    forall after, mget (s_mem (srun true (sstep true st (SReturn j)) after)) a = mget (s_mem st) b.
Proof. exact response_items_private. Qed.
Print Assumptions C15_response_items_private.

(* the code before the fix: request 0 (one well-formed write: own item 201, its document stored once)
   returns; request 1 (a delete) starts, gets the same slice from the pool and writes 400; the
   response of request 0, not yet serialised, reads 400 *)
Theorem C15_prefix_response_items_overwritten_refuted : exists before j b after a k,
  let st := srun false s_empty before in
  aget (s_run st) j = Some b /\
  aget (s_resp (sstep false st (SReturn j))) j = Some a /\
  firstn 1 (mget (s_mem st) b) = r_items (handle all_ok w_conc_a) /\
  r_items (handle all_ok w_conc_a) = [201] /\
  count_occ key_dec (r_stored (handle all_ok w_conc_a)) k = 1%nat /\
  firstn 1 (mget (s_mem (srun false (sstep false st (SReturn j)) after)) a) = [400] /\
  slice_response false [201] [[400]] = [400] /\ slice_response true [201] [[400]] = [201].
Proof. exact prefix_response_items_overwritten_refuted. Qed.
Print Assumptions C15_prefix_response_items_overwritten_refuted.

(* C15 — Bulk ingest acknowledges exactly what it stored.
   Statements only; proofs are in SigP.BulkProofs.  The model (SigM.Bulk) follows
   HandleBulkBody after the fix "bulk response accounting"; [b] ranges over ALL
   bodies (lists of classified segments), [actions (body_lines b)] is the bulk
   grammar's reading of the body, [handle] the code's response and the documents that
   reach the store, [store_ok] which indexes accept their batch.  [handle_prefix] is
   the code before the fix. *)
From SigM Require Import Base Bulk.
From SigP Require Import BaseProofs BulkProofs.
Open Scope N_scope.

(* ---- one item per action, in request order: the items are, position by position,
   what each action deserves on its own ---- *)
Theorem C15_one_item_per_action : forall so b,
  length (r_items (handle so b)) = length (actions (body_lines b)).
Proof. exact one_item_per_action. Qed.
Print Assumptions C15_one_item_per_action.

Theorem C15_items_in_request_order : forall so b,
  r_items (handle so b) = map expected_status (actions (body_lines b)).
Proof. exact items_are_expected. Qed.
Print Assumptions C15_items_in_request_order.

(* ---- a malformed, oversized or unknown action affects only its own item:
   the i-th item is a function of the i-th action alone ---- *)
Theorem C15_failure_is_local : forall so b i a st,
  nth_error (actions (body_lines b)) i = Some a ->
  nth_error (r_items (handle so b)) i = Some st ->
  st = expected_status a.
Proof. exact failure_is_local. Qed.
Print Assumptions C15_failure_is_local.

Theorem C15_success_is_local : forall so b i a st,
  nth_error (actions (body_lines b)) i = Some a ->
  nth_error (r_items (handle so b)) i = Some st ->
  created st = act_ok a.
Proof. exact success_is_local. Qed.
Print Assumptions C15_success_is_local.

(* ---- the errors flag is true iff some item failed ---- *)
Theorem C15_errors_flag_iff_some_failed : forall so b,
  r_errors (handle so b) = true <->
  exists st, In st (r_items (handle so b)) /\ st <> 201.
Proof. exact errors_flag_iff_some_failed. Qed.
Print Assumptions C15_errors_flag_iff_some_failed.

(* the whole-request error ("all bulk requests failed") iff no item is created *)
Theorem C15_all_failed_iff_no_created : forall so b,
  r_allfailed (handle so b) = true <-> ~ In 201 (r_items (handle so b)).
Proof. exact all_failed_iff_no_created. Qed.
Print Assumptions C15_all_failed_iff_no_created.

(* ---- created iff stored exactly once; failed items are not stored ----
   Full statement (still FALSE when a store call fails, see _refuted; known finding
   bulk_store_failure_reported_created): the same without the [stores_ok] hypothesis.
   [NoDup] says the request's documents are distinct, which is what gives "exactly
   once" a meaning. *)
Theorem C15_created_iff_stored_guarded : forall so b,
  stores_ok so (actions (body_lines b)) = true ->
  NoDup (flat_map act_doc (actions (body_lines b))) ->
  forall i a st,
    nth_error (actions (body_lines b)) i = Some a ->
    nth_error (r_items (handle so b)) i = Some st ->
    (st = 201 -> exists k, act_doc a = [k] /\ count_occ key_dec (r_stored (handle so b)) k = 1%nat) /\
    (st <> 201 -> forall k, In k (act_doc a) -> count_occ key_dec (r_stored (handle so b)) k = 0%nat).
Proof. exact created_iff_stored_guarded. Qed.
Print Assumptions C15_created_iff_stored_guarded.

(* nothing else reaches the store: it holds exactly the documents of the well-formed
   write actions, in request order *)
Theorem C15_stored_are_created_docs : forall so b,
  stores_ok so (actions (body_lines b)) = true ->
  r_stored (handle so b) = flat_map act_doc (filter act_ok (actions (body_lines b))).
Proof. exact stored_are_created_docs. Qed.
Print Assumptions C15_stored_are_created_docs.

Theorem C15_created_iff_stored_refuted : exists so b i a k,
  nth_error (actions (body_lines b)) i = Some a /\
  nth_error (r_items (handle so b)) i = Some 201 /\
  In k (act_doc a) /\ count_occ key_dec (r_stored (handle so b)) k = 0%nat.
Proof. exact created_iff_stored_refuted. Qed.
Print Assumptions C15_created_iff_stored_refuted.

Example C15_guard_stores_ok_satisfiable :
  stores_ok all_ok (actions (body_lines w_good)) = true /\
  r_items (handle all_ok w_good) = [201; 400; 400; 413; 201; 400] /\
  r_errors (handle all_ok w_good) = true /\
  r_stored (handle all_ok w_good) = [(1, 1); (2, 2)].
Proof. vm_compute. repeat split; reflexivity. Qed.

(* an index/create action with an unusable index name (utils.IsSafePathComponent) is an
   ordinary failing action of the grammar: it owns the next line as its document (even
   when that line looks like an action), gets one 400 item, stores nothing, and the
   following action keeps its position and its document *)
Example C15_unsafe_index_name_is_local :
  map has_doc (actions (body_lines w_unsafe)) = [true; true] /\
  r_items (handle all_ok w_unsafe) = [400; 201] /\
  r_stored (handle all_ok w_unsafe) = [(1, 3)].
Proof. vm_compute. repeat split; reflexivity. Qed.

(* ---- documentation: the code BEFORE the fix (Bulk.handle_prefix) violated three of
   the clauses above; the harness keeps generating these bodies (the
   "regression" streams), so a return of the defects is a VIOLATION with a concrete input ---- *)

(* the loop broke before counting a last action that had no document line *)
Theorem C15_prefix_one_item_per_action_refuted : exists b,
  length (r_items (handle_prefix all_ok b)) <> length (actions (body_lines b)).
Proof. exact prefix_one_item_per_action_refuted. Qed.
Print Assumptions C15_prefix_one_item_per_action_refuted.

(* 413 items did not set errors *)
Theorem C15_prefix_errors_flag_iff_some_failed_refuted : exists b,
  r_errors (handle_prefix all_ok b) = false /\
  exists st, In st (r_items (handle_prefix all_ok b)) /\ st <> 201.
Proof. exact prefix_errors_flag_iff_some_failed_refuted. Qed.
Print Assumptions C15_prefix_errors_flag_iff_some_failed_refuted.

(* maxRecordSizeExceeded was never reset: later failures reported 413 *)
Theorem C15_prefix_failure_is_local_refuted : exists b i a st,
  nth_error (actions (body_lines b)) i = Some a /\
  nth_error (r_items (handle_prefix all_ok b)) i = Some st /\ st <> expected_status a.
Proof. exact prefix_failure_is_local_refuted. Qed.
Print Assumptions C15_prefix_failure_is_local_refuted.
